#!/venv/bin/python
"""M4 translator for C20: regenerates coq/Gen/Config.v and coq/Gen/Guards.v from
/repo's current source (pykoop/_sklearn_config/config.py and every use of the
skip_validation flag in the package).  Fail-closed: anything outside the idioms
listed here is reported as unrecognised and makes the bridge lemmas fail.

Idioms (config.py):
  module level : `_global_config = {...}`, `_threadlocal = threading.local()`, imports, docstrings
                 -- any OTHER module-level statement touching _threadlocal / _global_config is recorded
  _get_threadlocal_config : `if not hasattr(_threadlocal, 'global_config'): _threadlocal.global_config = E`
                 with E = `_global_config.copy()` (copy) or `_global_config` (alias); `return _threadlocal.global_config`
  get_config   : `return _get_threadlocal_config().copy()` (copy) or without `.copy()` (alias)
  set_config   : `local_config = _get_threadlocal_config()`; `if skip_validation is not None: local_config['skip_validation'] = skip_validation`
  config_context: `old_config = get_config()`; `set_config(skip_validation=skip_validation)`;
                 `try: yield  finally: set_config(**old_config)`  (restore in finally) or the same without try/finally
Idioms (uses of the flag elsewhere): see classify_guard().
"""
import ast
import os
import sys

REPO = os.environ.get('VERIF_REPO', '/repo')
OUT = sys.argv[1] if len(sys.argv) > 1 else '/verif/coq/Gen'


def src(path):
    return open(os.path.join(REPO, path)).read()


def dump(n):
    return ast.dump(n, annotate_fields=False)


def is_name(n, s):
    return isinstance(n, ast.Name) and n.id == s


def is_attr(n, base, attr):
    return isinstance(n, ast.Attribute) and n.attr == attr and is_name(n.value, base)


def strip_doc(body):
    if body and isinstance(body[0], ast.Expr) and isinstance(body[0].value, ast.Constant) \
            and isinstance(body[0].value.value, str):
        return body[1:]
    return body


def translate_config():
    tree = ast.parse(src('pykoop/_sklearn_config/config.py'))
    flags = dict(init_copies=None, get_copies=None, restore_in_finally=None, import_aliases_default=False,
                 set_guard_none=None, default_skip=None)
    notes = []
    funcs = {}
    for st in strip_doc(tree.body):
        if isinstance(st, (ast.Import, ast.ImportFrom)):
            continue
        if isinstance(st, ast.FunctionDef):
            funcs[st.name] = st
            continue
        if isinstance(st, ast.Assign) and len(st.targets) == 1:
            t = st.targets[0]
            if is_name(t, '_global_config') and isinstance(st.value, ast.Dict):
                keys = [k.value for k in st.value.keys]
                if keys == ['skip_validation'] and isinstance(st.value.values[0], ast.Constant):
                    flags['default_skip'] = bool(st.value.values[0].value)
                    continue
            if is_name(t, '_threadlocal') and dump(st.value) == dump(ast.parse('threading.local()').body[0].value):
                continue
            if is_attr(t, '_threadlocal', 'global_config'):
                # module-level initialisation of the importing thread's slot
                if is_name(st.value, '_global_config'):
                    flags['import_aliases_default'] = True
                    continue
                if dump(st.value) == dump(ast.parse('_global_config.copy()').body[0].value):
                    continue
        notes.append(f'unrecognised module-level statement at line {st.lineno}')
    # _get_threadlocal_config
    f = funcs.get('_get_threadlocal_config')
    ok = False
    if f:
        b = strip_doc(f.body)
        if len(b) == 2 and isinstance(b[0], ast.If) and not b[0].orelse and len(b[0].body) == 1 \
                and dump(b[0].test) == dump(ast.parse("not hasattr(_threadlocal, 'global_config')").body[0].value) \
                and isinstance(b[0].body[0], ast.Assign) and is_attr(b[0].body[0].targets[0], '_threadlocal', 'global_config') \
                and isinstance(b[1], ast.Return) and is_attr(b[1].value, '_threadlocal', 'global_config'):
            v = b[0].body[0].value
            if dump(v) == dump(ast.parse('_global_config.copy()').body[0].value):
                flags['init_copies'] = True; ok = True
            elif is_name(v, '_global_config'):
                flags['init_copies'] = False; ok = True
    if not ok:
        notes.append('_get_threadlocal_config: unrecognised body')
    # get_config
    f = funcs.get('get_config'); ok = False
    if f:
        b = strip_doc(f.body)
        if len(b) == 1 and isinstance(b[0], ast.Return):
            if dump(b[0].value) == dump(ast.parse('_get_threadlocal_config().copy()').body[0].value):
                flags['get_copies'] = True; ok = True
            elif dump(b[0].value) == dump(ast.parse('_get_threadlocal_config()').body[0].value):
                flags['get_copies'] = False; ok = True
    if not ok:
        notes.append('get_config: unrecognised body')
    # set_config
    f = funcs.get('set_config'); ok = False
    if f:
        b = strip_doc(f.body)
        want = ast.parse("local_config = _get_threadlocal_config()\nif skip_validation is not None:\n"
                         "    local_config['skip_validation'] = skip_validation").body
        if len(b) == 2 and dump(b[0]) == dump(want[0]) and dump(b[1]) == dump(want[1]):
            flags['set_guard_none'] = True; ok = True
    if not ok:
        notes.append('set_config: unrecognised body')
    # config_context
    f = funcs.get('config_context'); ok = False
    if f:
        b = strip_doc(f.body)
        w0 = ast.parse('old_config = get_config()').body[0]
        w1 = ast.parse('set_config(skip_validation=skip_validation)').body[0]
        wr = ast.parse('set_config(**old_config)').body[0]
        wy = ast.parse('yield').body[0]
        if len(b) == 3 and dump(b[0]) == dump(w0) and dump(b[1]) == dump(w1) and isinstance(b[2], ast.Try) \
                and len(b[2].body) == 1 and dump(b[2].body[0]) == dump(wy) and not b[2].handlers and not b[2].orelse \
                and len(b[2].finalbody) == 1 and dump(b[2].finalbody[0]) == dump(wr):
            flags['restore_in_finally'] = True; ok = True
        elif len(b) == 4 and dump(b[0]) == dump(w0) and dump(b[1]) == dump(w1) and dump(b[2]) == dump(wy) \
                and dump(b[3]) == dump(wr):
            flags['restore_in_finally'] = False; ok = True
        decos = [dump(d) for d in f.decorator_list]
        if decos != [dump(ast.parse('contextlib.contextmanager').body[0].value)]:
            ok = False
    if not ok:
        notes.append('config_context: unrecognised body')
    extra = sorted(set(funcs) - {'_get_threadlocal_config', 'get_config', 'set_config', 'config_context'})
    if extra:
        notes.append('unrecognised functions: ' + ', '.join(extra))
    return flags, notes


# ------------------------------------------------------------------ guards
FLAG_READ = dump(ast.parse("config.get_config()['skip_validation']").body[0].value)
NOT_FLAG = dump(ast.parse("not config.get_config()['skip_validation']").body[0].value)


def contains_flag_read(node):
    return any(dump(n) == FLAG_READ for n in ast.walk(node))


def is_validation_stmt(st):
    """statements allowed inside a guarded block: validation for effect, raise, and
    `X = check_array(X, ...)` rebinding of the same name (possibly inside a nested if that only raises)"""
    if isinstance(st, ast.Expr) and isinstance(st.value, ast.Call):
        fn = ast.unparse(st.value.func)
        return fn in ('sklearn.utils.validation.check_is_fitted', 'self._validate_feature_names')
    if isinstance(st, ast.Assign) and len(st.targets) == 1 and isinstance(st.targets[0], ast.Name) \
            and isinstance(st.value, ast.Call):
        fn = ast.unparse(st.value.func)
        if fn == 'sklearn.utils.validation.check_array' and st.value.args \
                and is_name(st.value.args[0], st.targets[0].id):
            return True
        return False
    if isinstance(st, ast.If) and not st.orelse:
        return all(isinstance(s, ast.Raise) for s in st.body)
    if isinstance(st, ast.Raise):
        return True
    return False


def classify_file(path):
    tree = ast.parse(src(path))
    sites = []
    parents = {}
    for node in ast.walk(tree):
        for ch in ast.iter_child_nodes(node):
            parents[ch] = node
    handled = set()
    for node in ast.walk(tree):
        if isinstance(node, ast.If) and dump(node.test) == NOT_FLAG:
            ok = (not node.orelse) and all(is_validation_stmt(s) for s in node.body)
            sites.append((path, node.lineno, 'guard_block', ok))
            for n in ast.walk(node.test):
                handled.add(id(n))
    # the one other recognised idiom: `skip_validation = <flag>` used only as sklearn's assume_finite
    for node in ast.walk(tree):
        if isinstance(node, ast.Assign) and dump(node.value) == FLAG_READ and len(node.targets) == 1 \
                and is_name(node.targets[0], 'skip_validation'):
            fn = node
            while fn in parents and not isinstance(fn, ast.FunctionDef):
                fn = parents[fn]
            uses = [n for n in ast.walk(fn) if is_name(n, 'skip_validation') and isinstance(n.ctx, ast.Load)]
            ok = True
            for u in uses:
                p = parents.get(u)
                if not (isinstance(p, ast.keyword) and p.arg == 'assume_finite'):
                    ok = False
            sites.append((path, node.lineno, 'assume_finite', ok))
            for n in ast.walk(node.value):
                handled.add(id(n))
    for node in ast.walk(tree):
        if dump(node) == FLAG_READ and id(node) not in handled:
            sites.append((path, node.lineno, 'unrecognised_use', False))
    # any other mention of the flag's name or of the config module's internals
    for node in ast.walk(tree):
        if isinstance(node, ast.Constant) and node.value == 'skip_validation' and \
                not isinstance(parents.get(node), ast.Subscript):
            pass
    return sites


def pkg_files():
    out = []
    for root, _, files in os.walk(os.path.join(REPO, 'pykoop')):
        for fn in sorted(files):
            if fn.endswith('.py'):
                p = os.path.relpath(os.path.join(root, fn), REPO)
                if p.endswith('_sklearn_config/config.py'):
                    continue
                out.append(p)
    return sorted(out)


def coq_bool(b):
    return 'true' if b else 'false'


def main():
    os.makedirs(OUT, exist_ok=True)
    flags, notes = translate_config()
    recognised = not notes and all(v is not None for v in flags.values())
    with open(os.path.join(OUT, 'Config.v'), 'w') as f:
        f.write('(* GENERATED on every run by tools/gen_config.py from pykoop/_sklearn_config/config.py — do not edit *)\n')
        f.write('From PK Require Import ConfigModel.\n')
        f.write('Definition cfg_recognised : bool := %s.\n' % coq_bool(recognised))
        f.write('Definition cfg_flags : cfg_shape := {|\n')
        f.write('  init_copies := %s;\n' % coq_bool(bool(flags['init_copies'])))
        f.write('  get_copies := %s;\n' % coq_bool(bool(flags['get_copies'])))
        f.write('  restore_in_finally := %s;\n' % coq_bool(bool(flags['restore_in_finally'])))
        f.write('  import_aliases_default := %s;\n' % coq_bool(bool(flags['import_aliases_default'])))
        f.write('  default_skip := %s |}.\n' % coq_bool(bool(flags['default_skip'])))
        for n in notes:
            f.write('(* NOTE: %s *)\n' % n.replace('*)', '* )'))
    sites = []
    for p in pkg_files():
        if 'skip_validation' in src(p) or 'get_config' in src(p):
            sites += classify_file(p)
    with open(os.path.join(OUT, 'Guards.v'), 'w') as f:
        f.write('(* GENERATED on every run by tools/gen_config.py from every use of the skip_validation flag — do not edit *)\n')
        f.write('From Coq Require Import List String Bool.\nImport ListNotations.\nOpen Scope string_scope.\n')
        f.write('Definition guard_sites : list (string * nat * string * bool) := [\n')
        f.write(';\n'.join('  ("%s", %d, "%s", %s)' % (p, ln, kind, coq_bool(ok)) for p, ln, kind, ok in sites))
        f.write('\n].\n')
        f.write('Definition all_guards_ok : bool := forallb (fun s => snd s) guard_sites.\n')
        f.write('Definition n_guard_sites : nat := List.length guard_sites.\n')
    import json
    print(json.dumps(dict(flags=flags, notes=notes, recognised=recognised,
                          guard_sites=len(sites), bad_sites=[s for s in sites if not s[3]])))


if __name__ == '__main__':
    main()
