#!/venv/bin/python
"""Translator for KoopmanPipeline.predict_trajectory and KoopmanPipeline._split_state_input_episodes (C07).

An imperative-to-functional translation, statement by statement:

  * every assignment becomes a Gallina `let` (re-binding the same name: the arrays are values);
  * `X[[k], :] = V`, `X[:w, :] = V` become `assign_row k X V` / `assign_rows_upto w X V` (coq/SliceLib.v);
  * `for k in range(a, b): try: BODY except ValueError ..` becomes a `fold_left` over `zrange2 a b` whose state is the tuple
    of the arrays that BODY updates and that are read before being written in BODY or read after the loop;
  * an `if` exports the variables it assigns that are read later, as a tuple;
  * `predictions.append((i, E))` is the value of the episode, the loop over the episodes a `map`;
  * the exception handlers (a ValueError raised by a lifting function on non-finite values: the prediction has diverged)
    and the block `if crash_index is not None` that only they can enable are NOT modelled: the translator checks that
    outside the handlers `crash_index` is only ever `None` and that the handlers assign nothing else than `crash_index`
    and constants into the arrays before `break`;
  * `Theta @ A.T + Upsilon @ B.T` is the parameter `affine Theta Upsilon`; that `A`, `B` are the left / right blocks of
    `self.regressor_.coef_.T` is emitted as mathcomp definitions into Gen/PredictAlg.v, where coq/BridgePredict.v proves
    `Theta *m A^T + Upsilon *m B^T = row_mx Theta Upsilon *m coef_`;
  * the lifting helpers called with `episode_feature=False` are parameters (tools/gen_helpers.py translates them);
  * the raise-only checks of `_split_state_input_episodes` on the number of samples become the boolean
    `gen_episode_checks` (the premise of the bridge theorem); its checks of the number of columns only raise.

coq/BridgePredict.v proves the generated function equal to `predict_trajectory` of coq/Helpers.v.  Fail-closed."""
import ast
import os
import sys

REPO = os.environ.get('VERIF_REPO', '/repo')
OUT = sys.argv[1] if len(sys.argv) > 1 else '/verif/coq/Gen'

NAT_ATTRS = {'n_states_in_': 'ns_in', 'n_states_out_': 'ns_out', 'n_inputs_in_': 'nu_in', 'n_inputs_out_': 'nu_out',
             'min_samples_': 'min_samples'}
HELPERS = {'lift_state': 'lift_state', 'lift_input': 'lift_input', 'retract_state': 'retract_state'}
BOOL_PARAMS = ('relift_state', 'return_lifted', 'return_input')


class Unsupported(Exception):
    pass


def u(n):
    return ast.unparse(n)


def strip_doc(body):
    return [s for s in body if not (isinstance(s, ast.Expr) and isinstance(s.value, ast.Constant))]


def live_nodes(stmts):
    """all nodes of the statements outside exception handlers and outside the diverged-prediction block"""
    out = []

    def walk(n):
        if isinstance(n, ast.ExceptHandler):
            return
        if isinstance(n, ast.If) and u(n.test) == 'crash_index is not None':
            return
        out.append(n)
        for c in ast.iter_child_nodes(n):
            walk(c)
    for s in stmts:
        walk(s)
    return out


def reads(stmts):
    r = set()
    for n in live_nodes(stmts):
        if isinstance(n, ast.Name) and isinstance(n.ctx, ast.Load):
            r.add(n.id)
        if isinstance(n, ast.Expr) and isinstance(n.value, ast.Call) and u(n.value.func) == 'predictions.append':
            pass
    return r


def target_name(t):
    if isinstance(t, ast.Name):
        return t.id
    if isinstance(t, ast.Subscript) and isinstance(t.value, ast.Name):
        return t.value.id
    raise Unsupported(f'assignment target {u(t)}')


def assigned(stmts):
    """names (re)bound by the statements, in order of first assignment"""
    out = []
    for n in live_nodes(stmts):
        if isinstance(n, ast.Assign):
            if len(n.targets) != 1:
                raise Unsupported(f'multiple targets: {u(n)}')
            nm = target_name(n.targets[0])
            if nm not in out:
                out.append(nm)
        if isinstance(n, ast.Expr) and isinstance(n.value, ast.Call) and u(n.value.func) == 'predictions.append':
            if 'prediction_i' not in out:
                out.append('prediction_i')
    return out


def exposed(stmts, defined=None):
    """names read before being (definitely) written, in a linear scan; an in-place update reads its array"""
    defined = set(defined or ())
    exp = set()
    for s in stmts:
        if isinstance(s, ast.Assign):
            exp |= reads([ast.Expr(s.value)]) - defined
            t = s.targets[0]
            if isinstance(t, ast.Subscript):
                exp |= reads([ast.Expr(t)]) - defined
            else:
                defined.add(t.id)
        elif isinstance(s, ast.If):
            if u(s.test) == 'crash_index is not None':
                continue
            exp |= reads([ast.Expr(s.test)]) - defined
            e1, d1 = exposed(s.body, defined)
            e2, d2 = exposed(s.orelse, defined)
            exp |= e1 | e2
            defined |= (d1 & d2)
        elif isinstance(s, ast.Try):
            e1, d1 = exposed(s.body, defined)
            exp |= e1
            defined |= d1
        elif isinstance(s, ast.For):
            exp |= reads([ast.Expr(s.iter)]) - defined
            e1, _ = exposed(s.body, defined | {target_name(s.target)})
            exp |= e1
        else:
            exp |= reads([s]) - defined
    return exp, defined


class Tr:
    def __init__(self, name):
        self.name = name
        self.params = []
        self.env = {}

    def param(self, nm, ty):
        if (nm, ty) not in self.params:
            self.params.append((nm, ty))
        return nm

    # ---------------------------------------------------------------- expressions
    def zint(self, n):
        if isinstance(n, ast.Constant) and isinstance(n.value, int) and not isinstance(n.value, bool):
            return f'({n.value})%Z'
        if isinstance(n, ast.Name) and self.env.get(n.id) == 'int':
            return n.id
        if isinstance(n, ast.Attribute) and u(n.value) == 'self' and n.attr in NAT_ATTRS:
            return f'(Z.of_nat {self.param(NAT_ATTRS[n.attr], "nat")})'
        if isinstance(n, ast.Subscript) and isinstance(n.value, ast.Attribute) and n.value.attr == 'shape' and u(n.slice) == '0' \
                and isinstance(n.value.value, ast.Name) and self.env.get(n.value.value.id) == 'raw':
            return f'(Z.of_nat (length {n.value.value.id}))'
        if isinstance(n, ast.BinOp) and isinstance(n.op, (ast.Add, ast.Sub)):
            op = '+' if isinstance(n.op, ast.Add) else '-'
            return f'({self.zint(n.left)} {op} {self.zint(n.right)})%Z'
        if isinstance(n, ast.UnaryOp) and isinstance(n.op, ast.USub):
            return f'(- {self.zint(n.operand)})%Z'
        raise Unsupported(f'{self.name}: integer expression {u(n)}')

    def bound(self, n):
        return 'None' if n is None else f'(Some {self.zint(n)})'

    def zslice(self, n):
        """np.s_[a:b] -> the pair of bounds"""
        if isinstance(n, ast.Subscript) and u(n.value) == 'np.s_' and isinstance(n.slice, ast.Slice) and n.slice.step is None:
            return (self.bound(n.slice.lower), self.bound(n.slice.upper))
        raise Unsupported(f'{self.name}: slice object {u(n)}')

    def rows_of(self, base, r):
        """base[r, :] for the row selectors that occur"""
        if isinstance(r, ast.Slice) and r.step is None:
            if r.lower is None and r.upper is None:
                return base
            return f'(slice_rows {self.bound(r.lower)} {self.bound(r.upper)} {base})'
        if isinstance(r, ast.Name) and isinstance(self.env.get(r.id), tuple):
            lo, hi = self.env[r.id]
            return f'(slice_rows {lo} {hi} {base})'
        if isinstance(r, ast.List) and len(r.elts) == 1:
            if u(r.elts[0]) == '-1':
                return f'(row_last {base})'
            return f'(pick_row {self.zint(r.elts[0])} {base})'
        raise Unsupported(f'{self.name}: row selector {u(r)}')

    def raw(self, n):
        if isinstance(n, ast.Name) and self.env.get(n.id) == 'raw':
            return n.id
        if isinstance(n, ast.Subscript) and isinstance(n.slice, ast.Tuple) and len(n.slice.elts) == 2:
            r, c = n.slice.elts
            out = self.rows_of(self.raw(n.value), r)
            if not (isinstance(c, ast.Slice) and c.step is None):
                raise Unsupported(f'{self.name}: column selector {u(c)}')
            if c.lower is not None or c.upper is not None:
                out = f'(slice_cols {self.bound(c.lower)} {self.bound(c.upper)} {out})'
            return out
        if isinstance(n, ast.Call) and u(n.func) == 'np.hstack' and len(n.args) == 1 and isinstance(n.args[0], ast.Tuple) and not n.keywords:
            return '(hstack_list [' + '; '.join(self.raw(e) for e in n.args[0].elts) + '])'
        if isinstance(n, ast.Call) and u(n.func) == 'np.zeros' and len(n.args) == 1 and isinstance(n.args[0], ast.Tuple) \
                and len(n.args[0].elts) == 2 and not n.keywords:
            a, b = n.args[0].elts
            return f'(zeros_mat t0 {self.zint(a)} {self.zint(b)})'
        if isinstance(n, ast.Call) and isinstance(n.func, ast.Attribute) and u(n.func.value) == 'self' and n.func.attr in HELPERS:
            kws = [(k.arg, u(k.value)) for k in n.keywords]
            if len(n.args) != 1 or kws != [('episode_feature', 'False')]:
                raise Unsupported(f'{self.name}: helper call {u(n)}')
            f = self.param(HELPERS[n.func.attr] + '_noep', 'list (list T) -> list (list T)')
            return f'({f} {self.raw(n.args[0])})'
        if isinstance(n, ast.BinOp) and isinstance(n.op, ast.Add) and all(
                isinstance(x, ast.BinOp) and isinstance(x.op, ast.MatMult) for x in (n.left, n.right)):
            if u(n.left.right) != 'A.T' or u(n.right.right) != 'B.T':
                raise Unsupported(f'{self.name}: Koopman step {u(n)}')
            f = self.param('affine', 'list (list T) -> list (list T) -> list (list T)')
            return f'({f} {self.raw(n.left.left)} {self.raw(n.right.left)})'
        raise Unsupported(f'{self.name}: array expression {u(n)}')

    def cond(self, n):
        if isinstance(n, ast.Name) and n.id in BOOL_PARAMS:
            return self.param(n.id, 'bool')
        if isinstance(n, ast.Compare) and len(n.ops) == 1 and isinstance(n.ops[0], (ast.Lt, ast.NotEq)):
            op = '<?' if isinstance(n.ops[0], ast.Lt) else '=?'
            t = f'({self.zint(n.left)} {op} {self.zint(n.comparators[0])})%Z'
            return t if isinstance(n.ops[0], ast.Lt) else f'(negb {t})'
        raise Unsupported(f'{self.name}: condition {u(n)}')

    # ---------------------------------------------------------------- statements
    def tup(self, names):
        return names[0] if len(names) == 1 else '(' + ', '.join(names) + ')'

    def pat(self, names):
        return names[0] if len(names) == 1 else "'(" + ', '.join(names) + ')'

    def block(self, stmts, need, ind):
        """lines of `let .. in` for the statements; `need`: names read after the block"""
        lines = []
        sp = ' ' * ind
        for j, s in enumerate(stmts):
            later = reads(stmts[j + 1:]) | set(need)
            if 'prediction_i' in need:
                later.add('prediction_i')
            if isinstance(s, ast.Assign) and len(s.targets) == 1:
                t, v = s.targets[0], s.value
                if isinstance(t, ast.Name):
                    if t.id == 'crash_index':
                        if u(v) != 'None':
                            raise Unsupported(f'{self.name}: crash_index assigned outside a handler: {u(s)}')
                        continue
                    try:
                        lo_hi = self.zslice(v)
                        self.env[t.id] = lo_hi
                        continue
                    except Unsupported:
                        pass
                    try:
                        term, kind = self.zint(v), 'int'
                    except Unsupported:
                        term, kind = self.raw(v), 'raw'
                    self.env[t.id] = kind
                    lines.append(f'{sp}let {t.id} := {term} in')
                    continue
                if isinstance(t, ast.Subscript) and isinstance(t.value, ast.Name) and self.env.get(t.value.id) == 'raw' \
                        and isinstance(t.slice, ast.Tuple) and len(t.slice.elts) == 2 and u(t.slice.elts[1]) == ':':
                    nm, r = t.value.id, t.slice.elts[0]
                    if isinstance(r, ast.List) and len(r.elts) == 1:
                        lines.append(f'{sp}let {nm} := (assign_row {self.zint(r.elts[0])} {nm} {self.raw(v)}) in')
                        continue
                    if isinstance(r, ast.Slice) and r.lower is None and r.upper is not None and r.step is None:
                        lines.append(f'{sp}let {nm} := (assign_rows_upto {self.zint(r.upper)} {nm} {self.raw(v)}) in')
                        continue
                raise Unsupported(f'{self.name}: assignment {u(s)[:120]}')
            if isinstance(s, ast.Expr) and isinstance(s.value, ast.Call) and u(s.value.func) == 'predictions.append':
                a = s.value.args
                if not (len(a) == 1 and isinstance(a[0], ast.Tuple) and len(a[0].elts) == 2 and u(a[0].elts[0]) == 'i'):
                    raise Unsupported(f'{self.name}: {u(s)}')
                lines.append(f'{sp}let prediction_i := {self.raw(a[0].elts[1])} in')
                self.env['prediction_i'] = 'raw'
                continue
            if isinstance(s, ast.If):
                if u(s.test) == 'crash_index is not None':
                    continue                      # enabled only by the handlers (checked in `handlers_ok`)
                before = dict(self.env)
                names = [v for v in assigned(s.body + s.orelse) if v in later and v != 'crash_index']
                for v in names:
                    if v not in before and not (v in assigned(s.body) and v in assigned(s.orelse)):
                        raise Unsupported(f'{self.name}: {v} is bound in one branch of `if {u(s.test)}` only')
                c = self.cond(s.test)
                self.env = dict(before)
                b1 = self.block(s.body, names, ind + 4)
                env1 = self.env
                self.env = dict(before)
                b2 = self.block(s.orelse, names, ind + 4)
                for v in names:
                    k1, k2 = env1.get(v), self.env.get(v)
                    if k1 != k2:
                        raise Unsupported(f'{self.name}: {v} has kinds {k1} / {k2} in the branches of `if {u(s.test)}`')
                self.env = dict(before)
                for v in names:
                    self.env[v] = env1[v]
                if not names:
                    raise Unsupported(f'{self.name}: `if {u(s.test)}` has no effect that is read later')
                lines.append(f'{sp}let {self.pat(names)} :=')
                lines.append(f'{sp}  if {c} then')
                lines += b1 + [f'{sp}    {self.tup(names)}', f'{sp}  else']
                lines += b2 + [f'{sp}    {self.tup(names)} in']
                continue
            if isinstance(s, ast.For) and not s.orelse and isinstance(s.target, ast.Name) and isinstance(s.iter, ast.Call) \
                    and u(s.iter.func) == 'range' and len(s.iter.args) == 2 and not s.iter.keywords:
                a, b = (self.zint(x) for x in s.iter.args)
                body = s.body
                if len(body) == 1 and isinstance(body[0], ast.Try):
                    handlers_ok(self.name, body[0])
                    body = body[0].body
                k = s.target.id
                exp, _ = exposed(body, {k})
                state = [v for v in assigned(body) if v in self.env and self.env[v] == 'raw' and (v in exp or v in later)]
                for v in assigned(body):
                    if v in later and v not in state and v != 'crash_index':
                        raise Unsupported(f'{self.name}: {v} escapes the loop over {k} but is not an array bound before it')
                if not state:
                    raise Unsupported(f'{self.name}: loop over {k} updates nothing')
                before = dict(self.env)
                self.env[k] = 'int'
                inner = self.block(body, state, ind + 6)
                self.env = before
                lines.append(f'{sp}let {self.pat(state)} :=')
                lines.append(f'{sp}  fold_left (fun st {k} =>')
                lines.append(f'{sp}    let {self.pat(state)} := st in')
                lines += inner
                lines.append(f'{sp}      {self.tup(state)}) (zrange2 {a} {b}) {self.tup(state)} in')
                continue
            raise Unsupported(f'{self.name}: statement {u(s)[:140]}')
        return lines


def handlers_ok(name, tr):
    """try: BODY except ValueError as ve: if <all finite>: raise ve else: crash_index = ..; X[crash_index:, :] = 0; ..; break"""
    if tr.orelse or tr.finalbody or len(tr.handlers) != 1:
        raise Unsupported(f'{name}: shape of try')
    h = tr.handlers[0]
    if u(h.type) != 'ValueError':
        raise Unsupported(f'{name}: handler of {u(h.type)}')
    for n in ast.walk(ast.Module(body=tr.body, type_ignores=[])):
        if isinstance(n, (ast.Break, ast.Continue, ast.Return, ast.Raise)):
            raise Unsupported(f'{name}: control transfer inside a try body')
    if not (len(h.body) == 1 and isinstance(h.body[0], ast.If) and all(isinstance(x, ast.Raise) for x in h.body[0].body)):
        raise Unsupported(f'{name}: handler does not re-raise on finite values')
    for x in h.body[0].orelse:
        t = u(x)
        if isinstance(x, ast.Break) or t.startswith('crash_index = '):
            continue
        if isinstance(x, ast.Assign) and isinstance(x.targets[0], ast.Subscript) and u(x.targets[0]).endswith('[crash_index:, :]') \
                and u(x.value) == '0':
            continue
        raise Unsupported(f'{name}: handler statement {t}')
    if not isinstance(h.body[0].orelse[-1], ast.Break):
        raise Unsupported(f'{name}: handler does not leave the loop')


def crash_index_ok(fdef):
    """outside the handlers, crash_index is only assigned None (so the diverged-prediction block is dead without them)"""
    for n in live_nodes(fdef.body):
        if isinstance(n, ast.Assign) and any(isinstance(t, ast.Name) and t.id == 'crash_index' for t in n.targets) and u(n.value) != 'None':
            raise Unsupported('predict_trajectory: crash_index assigned a value outside an exception handler')


def translate_predict(fdef):
    want_args = ['self', 'X0_or_X', 'U', 'relift_state', 'return_lifted', 'return_input', 'episode_feature']
    if [a.arg for a in fdef.args.args] != want_args:
        raise Unsupported(f'predict_trajectory: signature {[a.arg for a in fdef.args.args]}')
    crash_index_ok(fdef)
    body = strip_doc(fdef.body)
    t = [u(s) for s in body]
    head = ["sklearn.utils.validation.check_is_fitted(self, 'regressor_fit_')",
            'if episode_feature is None:\n    episode_feature = self.episode_feature_',
            'koop_mat = self.regressor_.coef_.T',
            'A = koop_mat[:, :koop_mat.shape[0]]',
            'B = koop_mat[:, koop_mat.shape[0]:]',
            'episodes = self._split_state_input_episodes(X0_or_X, U, episode_feature=episode_feature)',
            'predictions: List[Tuple[float, np.ndarray]] = []']
    if t[:len(head)] != head:
        raise Unsupported('predict_trajectory: the statements before the loop over the episodes: ' + ' | '.join(t[:len(head)])[:600])
    rest = body[len(head):]
    tail = ['combined_episodes = combine_episodes(predictions, episode_feature=episode_feature)', 'return combined_episodes']
    if len(rest) != 3 or [u(s) for s in rest[1:]] != tail or not isinstance(rest[0], ast.For) \
            or u(rest[0].target) != '(i, X0_i, U_i)' or u(rest[0].iter) != 'episodes' or rest[0].orelse:
        raise Unsupported('predict_trajectory: the loop over the episodes / the return')
    for n in live_nodes(rest[0].body):
        if isinstance(n, ast.Name) and n.id in ('A', 'B', 'koop_mat') and isinstance(n.ctx, ast.Store):
            raise Unsupported('predict_trajectory: A / B rebound')
    tr = Tr('predict_trajectory')
    tr.env = {'X0_i': 'raw', 'U_i': 'raw', 'i': 'label'}
    inner = tr.block(rest[0].body, {'prediction_i'}, 6)
    fixed = [('lift_state_noep', 'list (list T) -> list (list T)'), ('lift_input_noep', 'list (list T) -> list (list T)'),
             ('retract_state_noep', 'list (list T) -> list (list T)'), ('affine', 'list (list T) -> list (list T) -> list (list T)'),
             ('ns_in', 'nat'), ('ns_out', 'nat'), ('nu_out', 'nat'), ('min_samples', 'nat'),
             ('relift_state', 'bool'), ('return_lifted', 'bool'), ('return_input', 'bool')]
    if sorted(tr.params) != sorted(fixed):
        raise Unsupported(f'predict_trajectory reads {sorted(p for p, _ in tr.params)}, the bridge expects {sorted(p for p, _ in fixed)}')
    ps = ''.join(f' ({p} : {ty})' for p, ty in fixed)
    out = ['(* KoopmanPipeline.predict_trajectory *)',
           f'Definition gen_predict_trajectory{ps}',
           '    (fit_episode_feature : bool) (episode_feature : option bool)',
           '    (X0_or_X : list (N * list T)) (U : option (list (N * list T))) : list (N * list T) :=',
           '  let episode_feature := match episode_feature with None => fit_episode_feature | Some b => b end in',
           '  let episodes := gen_split_state_input_episodes ns_in min_samples episode_feature X0_or_X U in',
           '  let predictions := [] ++ map (fun e =>',
           '      let i := fst e in let X0_i := fst (snd e) in let U_i := snd (snd e) in']
    out += inner
    out += ['      (i, prediction_i)) episodes in',
            '  let combined_episodes := gen_combine_episodes T predictions episode_feature in',
            '  combined_episodes.', '']
    return out


def translate_split(fdef):
    if [a.arg for a in fdef.args.args] != ['self', 'X0_or_X', 'U', 'episode_feature']:
        raise Unsupported('_split_state_input_episodes: signature')
    body = strip_doc(fdef.body)
    if len(body) != 4 or u(body[0]) != 'ep = 1 if episode_feature else 0' or not isinstance(body[1], ast.If) \
            or u(body[1].test) != 'U is None' or not isinstance(body[2], ast.For) or u(body[3]) != 'return episodes':
        raise Unsupported('_split_state_input_episodes: shape of the body')

    def raise_only(s):
        return isinstance(s, ast.If) and not s.orelse and all(isinstance(x, ast.Raise) for x in s.body)

    def branch(stmts):
        """column checks (raise only), split_episodes calls, one list comprehension"""
        tr = Tr('_split_state_input_episodes')
        lines = []
        for s in stmts:
            if raise_only(s):
                continue
            if isinstance(s, ast.Assign) and isinstance(s.targets[0], ast.Name) and isinstance(s.value, ast.Call) \
                    and u(s.value.func) == 'split_episodes' and len(s.value.args) == 1 and isinstance(s.value.args[0], ast.Name) \
                    and [(k.arg, u(k.value)) for k in s.value.keywords] == [('episode_feature', 'episode_feature')]:
                src = s.value.args[0].id
                if src not in ('X0_or_X', 'U'):
                    raise Unsupported(f'_split_state_input_episodes: split_episodes of {src}')
                lines.append(f'let {s.targets[0].id} := gen_split_episodes T {src} episode_feature in')
                tr.env[s.targets[0].id] = 'eps'
                continue
            if isinstance(s, ast.Assign) and u(s.targets[0]) == 'episodes' and isinstance(s.value, ast.ListComp) \
                    and len(s.value.generators) == 1 and not s.value.generators[0].ifs:
                g = s.value.generators[0]
                binders = []
                if isinstance(g.target, ast.Name) and isinstance(g.iter, ast.Name) and tr.env.get(g.iter.id) == 'eps':
                    src = g.iter.id
                    binders = [(g.target.id, 'p')]
                elif isinstance(g.target, ast.Tuple) and len(g.target.elts) == 2 and isinstance(g.iter, ast.Call) and u(g.iter.func) == 'zip' \
                        and len(g.iter.args) == 2 and all(isinstance(x, ast.Name) and tr.env.get(x.id) == 'eps' for x in g.iter.args):
                    src = f'(zip {g.iter.args[0].id} {g.iter.args[1].id})'
                    binders = [(g.target.elts[0].id, 'fst p'), (g.target.elts[1].id, 'snd p')]
                else:
                    raise Unsupported(f'_split_state_input_episodes: comprehension {u(s.value)[:120]}')
                names = {b for b, _ in binders}
                elt = s.value.elt
                if not (isinstance(elt, ast.Tuple) and len(elt.elts) == 3):
                    raise Unsupported('_split_state_input_episodes: element of the comprehension')

                def comp(n):
                    # ex[0] (label), ex[1] (array), ex[1][rows, cols]
                    if isinstance(n, ast.Subscript) and isinstance(n.value, ast.Name) and n.value.id in names and u(n.slice) in ('0', '1'):
                        return ('fst ' if u(n.slice) == '0' else 'snd ') + n.value.id, ('label' if u(n.slice) == '0' else 'raw')
                    if isinstance(n, ast.Subscript) and isinstance(n.slice, ast.Tuple):
                        base, kind = comp(n.value)
                        if kind != 'raw':
                            raise Unsupported(f'_split_state_input_episodes: {u(n)}')
                        tr.env['__b'] = 'raw'
                        t = tr.raw(ast.Subscript(value=ast.Name(id='__b', ctx=ast.Load()), slice=n.slice, ctx=ast.Load()))
                        return t.replace('__b', f'({base})'), 'raw'
                    raise Unsupported(f'_split_state_input_episodes: {u(n)}')
                parts = [comp(e) for e in elt.elts]
                if [k for _, k in parts] != ['label', 'raw', 'raw']:
                    raise Unsupported('_split_state_input_episodes: kinds of the element')
                lets = ' '.join(f'let {b} := {t} in' for b, t in binders)
                lines.append(f'let episodes := map (fun p => {lets} ({parts[0][0]}, ({parts[1][0]}, {parts[2][0]}))) {src} in')
                continue
            raise Unsupported(f'_split_state_input_episodes: statement {u(s)[:120]}')
        for p, _ in tr.params:
            if p not in ('ns_in', 'min_samples'):
                raise Unsupported(f'_split_state_input_episodes reads {p}')
        return lines

    b_none = branch(body[1].body)
    b_some = branch(body[1].orelse)
    # the per-episode checks
    f = body[2]
    if u(f.target) != '(i, X0_i, U_i)' or u(f.iter) != 'episodes' or not all(raise_only(s) for s in f.body):
        raise Unsupported('_split_state_input_episodes: the loop of checks does more than check')
    tr = Tr('_split_state_input_episodes')
    tr.env = {'X0_i': 'raw', 'U_i': 'raw'}
    conds = [tr.cond(s.test) for s in f.body]
    out = ['(* the per-episode checks of _split_state_input_episodes: true iff none of them raises *)',
           'Definition gen_episode_checks (min_samples : nat) (X0_i U_i : list (list T)) : bool :=',
           '  ' + ' && '.join(f'negb {c}' for c in conds) + '.', '',
           '(* KoopmanPipeline._split_state_input_episodes (the checks of the number of columns only raise) *)',
           'Definition gen_split_state_input_episodes (ns_in min_samples : nat) (episode_feature : bool)',
           '    (X0_or_X : list (N * list T)) (U : option (list (N * list T))) : list (N * (list (list T) * list (list T))) :=',
           '  match U with', '  | None =>']
    out += ['      ' + ln for ln in b_none] + ['      episodes', '  | Some U =>']
    out += ['      ' + ln for ln in b_some] + ['      episodes', '  end.', '']
    return out


def main():
    src = ast.parse(open(os.path.join(REPO, 'pykoop', 'koopman_pipeline.py')).read())
    classes = {c.name: {f.name: f for f in c.body if isinstance(f, ast.FunctionDef)} for c in src.body if isinstance(c, ast.ClassDef)}
    kp = classes.get('KoopmanPipeline', {})
    for fn in ('predict_trajectory', '_split_state_input_episodes'):
        if fn not in kp:
            raise Unsupported(f'KoopmanPipeline.{fn} not found')
    out = ['(* GENERATED by tools/gen_predict.py from pykoop/koopman_pipeline.py of the working tree - do not edit. *)',
           'From Coq Require Import List ZArith NArith Arith Bool.', 'From PK Require Import PyList SliceLib.',
           'From PK.Gen Require Import EpisodesGen.', 'Import ListNotations.', '', 'Section GenPredict.', 'Variable T : Type.',
           'Variable t0 : T.', '']
    out += translate_split(kp['_split_state_input_episodes'])
    out += translate_predict(kp['predict_trajectory'])
    out += ['End GenPredict.', '']
    alg = ['(* GENERATED by tools/gen_predict.py from pykoop/koopman_pipeline.py of the working tree - do not edit.',
           '   koop_mat = self.regressor_.coef_.T ; A = koop_mat[:, :koop_mat.shape[0]] ; B = koop_mat[:, koop_mat.shape[0]:] ;',
           '   the Koopman step of both loops of predict_trajectory: Theta @ A.T + Upsilon @ B.T *)',
           'From mathcomp Require Import all_ssreflect all_algebra.', 'Set Implicit Arguments.', 'Unset Strict Implicit.',
           'Import GRing.Theory.', 'Local Open Scope ring_scope.', '', 'Section GenPredictAlg.', 'Variable F : ringType.',
           'Variables (p q m : nat).', "Variable coef : 'M[F]_(p + q, p).", '',
           "Definition gen_koop_mat : 'M[F]_(p, p + q) := coef^T.",
           "Definition gen_A : 'M[F]_(p, p) := lsubmx gen_koop_mat.",
           "Definition gen_B : 'M[F]_(p, q) := rsubmx gen_koop_mat.",
           "Definition gen_koopman_step (Theta : 'M[F]_(m, p)) (Upsilon : 'M[F]_(m, q)) : 'M[F]_(m, p) :=",
           '  Theta *m gen_A^T + Upsilon *m gen_B^T.', '', 'End GenPredictAlg.', '']
    os.makedirs(OUT, exist_ok=True)
    with open(os.path.join(OUT, 'PredictGen.v'), 'w') as f:
        f.write('\n'.join(out) + '\n')
    with open(os.path.join(OUT, 'PredictAlg.v'), 'w') as f:
        f.write('\n'.join(alg) + '\n')
    print('PredictGen.v, PredictAlg.v written')


if __name__ == '__main__':
    try:
        main()
    except Unsupported as e:
        print('gen_predict: construct outside the translated fragment: ' + str(e), file=sys.stderr)
        sys.exit(1)
