#!/bin/sh
# usage: seedrun.sh <seeded-dir-name> <check-id> [tier]
# Applies /verif/seeded/<name>/patch.diff in a scratch worktree of /repo HEAD (under /var/tmp),
# runs one check against it (VERIF_REPO), prints a one-line verdict, removes the worktree.
N=$1; P=$2; T=${3:-quick}
V=$(dirname "$(dirname "$(realpath "$0")")")
WT=/var/tmp/sr_$(basename $V)$(echo $V | cksum | cut -c1-4)_${N}_$P
rm -rf $WT
flock /var/tmp/seedrun.lock sh -c "git -C /repo worktree prune; git -C /repo worktree add -q --detach $WT HEAD" || exit 2
( cd $WT && git apply ${SEEDPATCH:-$V/seeded/$N/patch.diff} ) || { echo "seed=$N PATCH-FAILED"; git -C /repo worktree remove --force $WT; exit 2; }
cd $V
START=$(date +%s)
TAG=$( [ "$V" = /verif ] && echo '' || echo "$(echo $V | cksum | cut -c1-4)_" )
OUT=/var/tmp/sr_out_${TAG}${N}_$P.txt
VERIF_REPO=$WT ./check $P --tier $T > $OUT 2>&1
rc=$?
END=$(date +%s)
nv=$(grep -c '^VIOLATION' $OUT)
nf=$(grep -c 'no-failing-input-found' $OUT)
echo "seed=$N check=$P rc=$rc violations=$nv no_input=$nf secs=$((END-START))"
[ $rc -ge 2 ] && tail -5 $OUT
flock /var/tmp/seedrun.lock git -C /repo worktree remove --force $WT
B=$V/build/scratch_$(python3 -c "import hashlib;print(hashlib.sha1('$WT'.encode()).hexdigest()[:8])")
[ -d "$B/replays" ] && mkdir -p /var/tmp/sr_replays/${TAG}${N}_$P && cp -r $B/replays/. /var/tmp/sr_replays/${TAG}${N}_$P/ 2>/dev/null
rm -rf $B
exit 0
