#!/venv/bin/python
"""M4 translator for C15: regenerates coq/Gen/Effects.v from /repo's current source.
For every class of the package and every fit-like method it records
  * attributes of self that are written and are neither trailing-underscore nor private
    (a constructor parameter overwritten by fit),
  * in-place mutation (subscript / attribute assignment, augmented assignment, calls of
    update / pop / append / extend / setdefault / clear / sort / insert / remove) of
    self.<public attr> or of a local name that aliases one through plain assignments and
    conditional expressions (a call, e.g. dict(...), clone(...), np.array(...), cuts the alias),
  * `global` declarations,
  * reads of mutable module-level flags,
  * calls of joblib-memoised functions that are passed an estimator attribute of self.
Idioms outside this list are not understood; dynamic attribute access (setattr,
__dict__, globals()) in a fit-like method is reported as unrecognised (fail-closed)."""
import ast
import json
import os
import sys

REPO = os.environ.get('VERIF_REPO', '/repo')
OUT = sys.argv[1] if len(sys.argv) > 1 else '/verif/coq/Gen'
FITLIKE = {'fit', '_fit_one_ep', '_fit_regressor', 'fit_transformers'}
READONLY = {'transform', 'inverse_transform', 'predict', 'predict_trajectory', 'score', 'lift', 'retract',
            'lift_state', 'lift_input', 'retract_state', 'retract_input', 'get_feature_names_out',
            'get_feature_names_in', 'n_samples_in', '_transform_one_ep', '_inverse_transform_one_ep',
            '_apply_transform_or_inverse', '_transform_feature_names'}
MUTATORS = {'update', 'pop', 'append', 'extend', 'setdefault', 'clear', 'sort', 'insert', 'remove', 'popitem'}


def is_self_attr(n):
    return isinstance(n, ast.Attribute) and isinstance(n.value, ast.Name) and n.value.id == 'self'


def public(name):
    return not name.endswith('_') and not name.startswith('_')


def base_name(n):
    """the Name or self.attr at the root of a subscript / attribute chain"""
    while isinstance(n, (ast.Subscript, ast.Attribute)) and not is_self_attr(n):
        n = n.value
    return n


def alias_sources(value):
    """expressions whose object identity flows into the assigned name"""
    if isinstance(value, ast.IfExp):
        return alias_sources(value.body) + alias_sources(value.orelse)
    if isinstance(value, (ast.Name,)) or is_self_attr(value):
        return [value]
    return []


# attributes the base-class fit() assigns before it delegates to _fit_one_ep / _fit_regressor
SET_BY_BASE_FIT = {'n_features_in_', 'n_states_in_', 'n_inputs_in_', 'episode_feature_', 'feature_names_in_',
                   'n_features_out_', 'n_states_out_', 'n_inputs_out_', 'min_samples_'}


CLASS_NAMES = {}      # class -> (bases, every name bound in the class body: methods, class constants)


def class_level_names(cname, seen=None):
    seen = seen or set()
    if cname in seen or cname not in CLASS_NAMES:
        return set()
    seen.add(cname)
    bases, names = CLASS_NAMES[cname]
    out = set(names)
    for b in bases:
        out |= class_level_names(b, seen)
    return out


def reads_before_write(fn, class_names=()):
    """fitted (trailing underscore) or private (leading underscore) attributes of self that a fit-like
    method READS at a line before any line where it assigns them: state left by an earlier fit.
    hasattr / getattr probes of self are reported as well."""
    facts = []
    first_store = {}
    for node in ast.walk(fn):
        tg = []
        if isinstance(node, ast.Assign):
            tg = node.targets
        elif isinstance(node, (ast.AugAssign, ast.AnnAssign)):
            tg = [node.target]
        for t in tg:
            for e in ([t] if not isinstance(t, ast.Tuple) else t.elts):
                if is_self_attr(e):
                    first_store[e.attr] = min(first_store.get(e.attr, 10**9), node.lineno)
    for node in ast.walk(fn):
        if is_self_attr(node) and isinstance(node.ctx, ast.Load):
            a = node.attr
            stateful = (a.endswith('_') and not a.endswith('__')) or (a.startswith('_') and not a.startswith('__'))
            if not stateful or a in SET_BY_BASE_FIT or a in class_names:
                continue        # methods and class-level constants are not per-instance state
            if first_store.get(a, 10**9) > node.lineno:
                facts.append(('reads_state_of_previous_fit', a, node.lineno))
        if isinstance(node, ast.Call) and isinstance(node.func, ast.Name) and node.func.id in ('hasattr', 'getattr') \
                and node.args and isinstance(node.args[0], ast.Name) and node.args[0].id == 'self':
            facts.append(('probes_own_state', ast.unparse(node.args[1]) if len(node.args) > 1 else '?', node.lineno))
    return facts


def class_level_mutables(tree):
    """class name -> (base names, names of class-level attributes bound to a mutable literal / constructor)"""
    out = {}
    for st in tree.body:
        if isinstance(st, ast.ClassDef):
            names = set()
            for b in st.body:
                tgt = val = None
                if isinstance(b, ast.Assign) and len(b.targets) == 1 and isinstance(b.targets[0], ast.Name):
                    tgt, val = b.targets[0].id, b.value
                elif isinstance(b, ast.AnnAssign) and isinstance(b.target, ast.Name) and b.value is not None:
                    tgt, val = b.target.id, b.value
                if tgt and (isinstance(val, (ast.Dict, ast.List, ast.Set, ast.DictComp, ast.ListComp, ast.SetComp))
                            or (isinstance(val, ast.Call) and ast.unparse(val.func) in ('dict', 'list', 'set', 'collections.defaultdict'))):
                    names.add(tgt)
            bases = [ast.unparse(b).split('.')[-1] for b in st.bases]
            out[st.name] = (bases, names)
    return out


def inherited_mutables(cname, table, seen=None):
    seen = seen or set()
    if cname in seen or cname not in table:
        return set()
    seen.add(cname)
    bases, names = table[cname]
    out = set(names)
    for b in bases:
        out |= inherited_mutables(b, table, seen)
    return out


def class_state_mutations(fn, mutable_names):
    """in-place mutation, through self, of an attribute that is a CLASS-LEVEL mutable object (shared by all
    instances) and is not rebound on self earlier in the method"""
    facts = []
    rebound = {}
    for node in ast.walk(fn):
        if isinstance(node, ast.Assign):
            for t in node.targets:
                if is_self_attr(t):
                    rebound[t.attr] = min(rebound.get(t.attr, 10**9), node.lineno)
    def hit(b, ln):
        if is_self_attr(b) and b.attr in mutable_names and rebound.get(b.attr, 10**9) > ln:
            facts.append(('mutates_class_level_state', b.attr, ln))
    for node in ast.walk(fn):
        tg = []
        if isinstance(node, ast.Assign):
            tg = node.targets
        elif isinstance(node, (ast.AugAssign, ast.AnnAssign)):
            tg = [node.target]
        for t in tg:
            if isinstance(t, (ast.Subscript, ast.Attribute)) and not is_self_attr(t):
                hit(base_name(t), node.lineno)
        if isinstance(node, ast.Delete):
            for t in node.targets:
                if isinstance(t, ast.Subscript):
                    hit(base_name(t), node.lineno)
        if isinstance(node, ast.Call) and isinstance(node.func, ast.Attribute) and node.func.attr in MUTATORS:
            hit(base_name(node.func.value), node.lineno)
    return facts


def analyse_method(fn, memoised, module_flags):
    facts = []
    aliases = {}          # local name -> public self attr it may alias
    for node in ast.walk(fn):
        if isinstance(node, ast.Assign) and len(node.targets) == 1 and isinstance(node.targets[0], ast.Name):
            for srcn in alias_sources(node.value):
                if is_self_attr(srcn) and public(srcn.attr):
                    aliases[node.targets[0].id] = srcn.attr
                elif isinstance(srcn, ast.Name) and srcn.id in aliases:
                    aliases[node.targets[0].id] = aliases[srcn.id]
    for node in ast.walk(fn):
        if isinstance(node, ast.Global):
            facts.append(('global_decl', ','.join(node.names), node.lineno))
        targets = []
        if isinstance(node, ast.Assign):
            targets = node.targets
        elif isinstance(node, (ast.AugAssign, ast.AnnAssign)):
            targets = [node.target]
        for t in targets:
            if is_self_attr(t) and public(t.attr):
                facts.append(('writes_param', t.attr, node.lineno))
            if isinstance(t, (ast.Subscript, ast.Attribute)) and not is_self_attr(t):
                b = base_name(t)
                if is_self_attr(b) and public(b.attr):
                    facts.append(('mutates_param', b.attr, node.lineno))
                elif isinstance(b, ast.Name) and b.id in aliases:
                    facts.append(('mutates_param', aliases[b.id], node.lineno))
            if isinstance(node, ast.AugAssign) and isinstance(t, ast.Name) and t.id in aliases:
                facts.append(('mutates_param', aliases[t.id], node.lineno))
        if isinstance(node, ast.Call):
            f = node.func
            if isinstance(f, ast.Attribute) and f.attr in MUTATORS:
                b = base_name(f.value)
                if is_self_attr(b) and public(b.attr):
                    facts.append(('mutates_param', b.attr, node.lineno))
                elif isinstance(b, ast.Name) and b.id in aliases:
                    facts.append(('mutates_param', aliases[b.id], node.lineno))
            fname = f.id if isinstance(f, ast.Name) else (f.attr if isinstance(f, ast.Attribute) else None)
            if fname in ('setattr', 'globals', 'vars', 'exec', 'eval') or (isinstance(f, ast.Attribute) and f.attr == '__dict__'):
                facts.append(('unrecognised_dynamic', fname or '?', node.lineno))
            if fname in memoised:
                for a in list(node.args) + [k.value for k in node.keywords]:
                    if is_self_attr(a) or (isinstance(a, ast.Name) and a.id in ('tsvd',)):
                        facts.append(('memo_call_with_estimator', fname, node.lineno))
        if isinstance(node, ast.Name) and isinstance(node.ctx, ast.Load) and node.id in module_flags:
            facts.append(('reads_module_flag', node.id, node.lineno))
    return facts


CLASS_TABLE = {}


def analyse_file(path):
    tree = ast.parse(open(os.path.join(REPO, path)).read())
    memoised = set()
    module_flags = set()
    for st in tree.body:
        if isinstance(st, ast.FunctionDef):
            for d in st.decorator_list:
                if 'cache' in ast.unparse(d):
                    memoised.add(st.name)
        if isinstance(st, ast.Assign) and len(st.targets) == 1 and isinstance(st.targets[0], ast.Name) \
                and isinstance(st.value, ast.Constant) and isinstance(st.value.value, bool):
            module_flags.add(st.targets[0].id)
    out = []
    # a memoised helper whose cache key leaves out one of its arguments returns stale results for other values of it
    for st in tree.body:
        if isinstance(st, ast.FunctionDef) and st.name in memoised:
            for d in st.decorator_list:
                if isinstance(d, ast.Call) and (d.args or d.keywords):
                    out.append((path, '<module>', st.name, 'memoised_function_with_partial_cache_key',
                                ast.unparse(d).replace('"', "'"), st.lineno))
    # memoised helpers that mutate their estimator argument
    for st in tree.body:
        if isinstance(st, ast.FunctionDef) and st.name in memoised:
            for node in ast.walk(st):
                if isinstance(node, ast.Call) and isinstance(node.func, ast.Attribute) and node.func.attr == 'fit' \
                        and isinstance(node.func.value, ast.Name) and node.func.value.id in [a.arg for a in st.args.args]:
                    out.append((path, '<module>', st.name, 'memoised_function_fits_its_argument', node.func.value.id, node.lineno))
    for st in tree.body:
        if isinstance(st, ast.ClassDef):
            shared = inherited_mutables(st.name, CLASS_TABLE)
            for fn in st.body:
                if isinstance(fn, ast.FunctionDef):
                    for kind, what, ln in class_state_mutations(fn, shared):
                        out.append((path, st.name, fn.name, kind, what, ln))
                if isinstance(fn, ast.FunctionDef) and fn.name in FITLIKE:
                    for kind, what, ln in reads_before_write(fn, class_level_names(st.name)):
                        out.append((path, st.name, fn.name, kind, what, ln))
                if isinstance(fn, ast.FunctionDef) and (fn.name in FITLIKE or fn.name in READONLY
                                                        or fn.name.startswith('_create_problem') or fn.name == '_create_base_problem'):
                    for kind, what, ln in analyse_method(fn, memoised, module_flags):
                        if fn.name in READONLY and kind not in ('writes_param', 'mutates_param', 'global_decl'):
                            continue
                        out.append((path, st.name, fn.name, kind, what, ln))
                    if fn.name in READONLY:
                        for node in ast.walk(fn):
                            tg = []
                            if isinstance(node, ast.Assign):
                                tg = node.targets
                            elif isinstance(node, ast.AugAssign):
                                tg = [node.target]
                            for t in tg:
                                if is_self_attr(t):
                                    out.append((path, st.name, fn.name, 'readonly_method_writes_self', t.attr, node.lineno))
    return out


def main():
    os.makedirs(OUT, exist_ok=True)
    facts = []
    for root, _, files in os.walk(os.path.join(REPO, 'pykoop')):
        for fn in sorted(files):
            if fn.endswith('.py'):
                t = ast.parse(open(os.path.join(root, fn)).read())
                CLASS_TABLE.update(class_level_mutables(t))
                for c in t.body:
                    if isinstance(c, ast.ClassDef):
                        nm = set()
                        for b in c.body:
                            if isinstance(b, (ast.FunctionDef, ast.AsyncFunctionDef)):
                                nm.add(b.name)
                            elif isinstance(b, ast.Assign):
                                nm |= {x.id for x in b.targets if isinstance(x, ast.Name)}
                            elif isinstance(b, ast.AnnAssign) and isinstance(b.target, ast.Name):
                                nm.add(b.target.id)
                        CLASS_NAMES[c.name] = ([ast.unparse(x).split('.')[-1] for x in c.bases], nm)
    for root, _, files in os.walk(os.path.join(REPO, 'pykoop')):
        for fn in sorted(files):
            if fn.endswith('.py'):
                facts += analyse_file(os.path.relpath(os.path.join(root, fn), REPO))
    facts.sort()
    KNOWN_KINDS = ('reads_module_flag', 'memo_call_with_estimator', 'memoised_function_fits_its_argument')
    viol = [f for f in facts if f[3] not in KNOWN_KINDS]
    # identity of the recorded-finding facts: (class, method, kind, what) without line numbers
    known = sorted({(f[1], f[2], f[3], f[4]) for f in facts if f[3] in KNOWN_KINDS})
    with open(os.path.join(OUT, 'Effects.v'), 'w') as f:
        f.write('(* GENERATED on every run by tools/gen_effects.py from the fit-like methods of every class — do not edit *)\n')
        f.write('From Coq Require Import List String Bool.\nImport ListNotations.\nOpen Scope string_scope.\n')
        f.write('(* (file, class, method, kind, what) : frame-condition violations *)\n')
        f.write('Definition frame_violations : list (string * string * string * string * string) := [\n')
        f.write(';\n'.join('  ("%s", "%s", "%s", "%s", "%s")' % (a, b, c, d, e) for a, b, c, d, e, _ in viol))
        f.write('\n].\n')
        f.write('(* (class, method, kind, what) : shared-state facts matched by recorded findings F6 / F7 *)\n')
        f.write('Definition shared_state_facts : list (string * string * string * string) := [\n')
        f.write(';\n'.join('  ("%s", "%s", "%s", "%s")' % k for k in known))
        f.write('\n].\n')
        f.write('Definition frames_ok : bool := match frame_violations with [] => true | _ => false end.\n')
    print(json.dumps(dict(frame_violations=viol, shared_state_facts=known)))


if __name__ == '__main__':
    main()
