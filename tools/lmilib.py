"""Library of the LMI translators tools/gen_lmi_sr.py / gen_lmi_dis.py / gen_lmi_hinf.py / gen_lmi_cost.py (C09 - C12): one translator
per family, so that a change in one family of regressors stops only the translator (and the proof obligations) of that family.

Spectral radius (C09):

For LmiEdmdSpectralRadiusConstr and LmiDmdcSpectralRadiusConstr, `_create_problem_a` and `_create_problem_b`: the block
matrix of the last `add_constraint(picos.block([[..], [..]]) >> self.picos_eps)` is translated entry by entry into a
mathcomp `block_mx` over an arbitrary field:

  P, U / U_hat                      the matrices ('M_p and 'M_(p, p + q); `p_theta = U.shape[0]` is p)
  rho_bar                           the scalar rho  (`picos.Constant('rho_bar', self.spectral_radius)`)
  X.T                               X^T
  X[:, :p_theta]                    lsubmx X
  s * X, X * Y, X + Y, X / 2        s *: X, X *m Y, X + Y, 2^-1 *: X

Anything else (a power, another slice, another constant) stops the translator.  It also checks that the constraint is
`>> self.picos_eps`, that problem B constrains `P >> self.picos_eps` and that rho_bar is the `spectral_radius` parameter.
coq/BridgeLmi.v proves every generated block equal to  [[rho P, A^T P], [P^T A, rho P]]  with A the state block of U
(for problem A: when P is symmetric and 2 is invertible), the block of the theorem C09_block_is_quadratic_form.
Fail-closed."""
import ast
import os
import sys

REPO = os.environ.get('VERIF_REPO', '/repo')


class Unsupported(Exception):
    pass


def u(n):
    return ast.unparse(n)


class Ex:
    def __init__(self, where, uname, extra=()):
        self.where, self.uname, self.extra = where, uname, set(extra)
        self.rename = None

    def tr(self, n):
        """returns (kind, term); kind in scalar / mat"""
        if isinstance(n, ast.Name):
            if n.id == 'P':
                return 'mat', 'P'
            if n.id == self.uname:
                return 'mat', 'U'
            if n.id == 'rho_bar':
                return 'scalar', 'rho'
            if n.id in self.extra:
                return 'mat', (self.rename or {}).get(n.id, n.id)
            if n.id in ('gamma_33', 'gamma_44') and 'gamma' in self.extra:
                return 'mat', '(g%:M)'
            raise Unsupported(f'{self.where}: name {n.id}')
        if isinstance(n, ast.Constant) and n.value == 0 and 'gamma' in self.extra:
            return 'mat', '0'
        if isinstance(n, ast.Constant) and n.value == 'I' and 'Z' in self.extra:
            return 'mat', '1%:M'
        if isinstance(n, ast.Attribute) and n.attr == 'T':
            k, t = self.tr(n.value)
            if k != 'mat':
                raise Unsupported(f'{self.where}: transpose of a scalar')
            return 'mat', f'({t})^T'
        if isinstance(n, ast.Subscript):
            if u(n.slice) not in ('(:, :p_theta)', ':, :p_theta') or u(n.value) != self.uname:
                raise Unsupported(f'{self.where}: slice {u(n)}')
            return 'mat', '(lsubmx U)'
        if isinstance(n, ast.BinOp) and isinstance(n.op, ast.Mult):
            (ka, a), (kb, b) = self.tr(n.left), self.tr(n.right)
            if ka == 'scalar' and kb == 'mat':
                return 'mat', f'({a} *: {b})'
            if ka == 'mat' and kb == 'mat':
                return 'mat', f'({a} *m {b})'
            raise Unsupported(f'{self.where}: product {u(n)}')
        if isinstance(n, ast.BinOp) and isinstance(n.op, (ast.Add, ast.Sub)):
            (ka, a), (kb, b) = self.tr(n.left), self.tr(n.right)
            if ka == kb == 'mat':
                return 'mat', f'({a} {"+" if isinstance(n.op, ast.Add) else "-"} {b})'
            raise Unsupported(f'{self.where}: sum {u(n)}')
        if isinstance(n, ast.UnaryOp) and isinstance(n.op, ast.USub):
            k, a = self.tr(n.operand)
            if k == 'mat':
                return 'mat', f'(- {a})'
        if isinstance(n, ast.BinOp) and isinstance(n.op, ast.Div) and u(n.right) == '2':
            k, a = self.tr(n.left)
            if k == 'mat':
                return 'mat', f'(2%:R^-1 *: {a})'
        raise Unsupported(f'{self.where}: expression {u(n)}')


def block_of(fdef, where, uname):
    body = [s for s in fdef.body if not (isinstance(s, ast.Expr) and isinstance(s.value, ast.Constant))]
    t = [u(s) for s in body]
    if "rho_bar = picos.Constant('rho_bar', self.spectral_radius)" not in t:
        raise Unsupported(f'{where}: rho_bar is not the spectral_radius parameter')
    if f'p_theta = {uname}.shape[0]' not in t:
        raise Unsupported(f'{where}: p_theta is not {uname}.shape[0]')
    prob = 'problem_a' if where.endswith('_a') else 'problem_b'
    cons = [s.value for s in body if isinstance(s, ast.Expr) and isinstance(s.value, ast.Call) and u(s.value.func) == f'{prob}.add_constraint']
    if not cons:
        raise Unsupported(f'{where}: no constraint added')
    c = cons[-1].args[0]
    if not (isinstance(c, ast.Compare) and len(c.ops) == 1 and isinstance(c.ops[0], ast.RShift) is False):
        pass
    # `block >> self.picos_eps` parses as a BinOp with RShift
    if not (isinstance(c, ast.BinOp) and isinstance(c.op, ast.RShift) and u(c.right) == 'self.picos_eps'
            and isinstance(c.left, ast.Call) and u(c.left.func) == 'picos.block' and len(c.left.args) == 1
            and isinstance(c.left.args[0], ast.List) and len(c.left.args[0].elts) == 2
            and all(isinstance(r, ast.List) and len(r.elts) == 2 for r in c.left.args[0].elts)):
        raise Unsupported(f'{where}: the last constraint is not a 2 x 2 block >> self.picos_eps: {u(c)[:200]}')
    if prob == 'problem_b':
        if len(cons) != 2 or u(cons[0].args[0]) != 'P >> self.picos_eps':
            raise Unsupported(f'{where}: problem B does not constrain P >> self.picos_eps first')
        if "P = picos.SymmetricVariable('P', p_theta)" not in t:
            raise Unsupported(f'{where}: P is not a symmetric variable of size p_theta')
    else:
        if "P = picos.Constant('P', P)" not in t:
            raise Unsupported(f'{where}: P is not the given matrix')
    ex = Ex(where, uname)
    ent = []
    for r in c.left.args[0].elts:
        for e in r.elts:
            k, term = ex.tr(e)
            if k != 'mat':
                raise Unsupported(f'{where}: scalar entry')
            ent.append(term)
    return ent


def create_ss_plain(src):
    """_create_ss(U, None): A, B the blocks of U, C the identity (no Q_hat), D zero"""
    fns = {f.name: f for f in src.body if isinstance(f, ast.FunctionDef)}
    if '_create_ss' not in fns:
        raise Unsupported('_create_ss not found')
    f = fns['_create_ss']
    if [a.arg for a in f.args.args] != ['U', 'weight', 'Q_hat']:
        raise Unsupported('_create_ss: signature')
    body = [s for s in f.body if not (isinstance(s, ast.Expr) and isinstance(s.value, ast.Constant))]
    if u(body[0]) != 'p_theta = U.shape[0]' or not isinstance(body[1], ast.If) or u(body[1].test) != 'weight is None':
        raise Unsupported('_create_ss: head')
    want = ['A = U[:, :p_theta]', 'B = U[:, p_theta:]',
            "C = picos.Constant('C', Q_hat if Q_hat is not None else np.eye(p_theta))",
            "D = picos.Constant('D', np.zeros((C.shape[0], B.shape[1])))"]
    if [u(x) for x in body[1].body] != want:
        raise Unsupported('_create_ss: the unweighted branch: ' + ' | '.join(u(x) for x in body[1].body)[:400])
    if u(body[-1]) != 'return (A, B, C, D)':
        raise Unsupported('_create_ss: return')


def dissip_block(fdef, where):
    body = [s for s in fdef.body if not (isinstance(s, ast.Expr) and isinstance(s.value, ast.Constant))]
    t = [u(s) for s in body]
    prob = 'problem_a' if where.endswith('_a') else 'problem_b'
    need = ['p_theta, p = U.shape', 'A, B, C, D = _create_ss(U, None)',
            "Xi11 = picos.Constant('Xi_11', Xi[:p_theta, :p_theta])", "Xi12 = picos.Constant('Xi_12', Xi[:p_theta, p_theta:])",
            "Xi22 = picos.Constant('Xi_22', Xi[p_theta:, p_theta:])",
            ('if self.supply_rate is None:\n    n_u = p - p_theta\n    Xi = np.block([[np.eye(p_theta), np.zeros((p_theta, n_u))], '
             '[np.zeros((n_u, p_theta)), -np.eye(n_u)]])\nelse:\n    Xi = self.supply_rate')]
    need.append("P = picos.Constant('P', P)" if prob == 'problem_a' else "P = picos.SymmetricVariable('P', A.shape[0])")
    if prob == 'problem_b':
        need.append("U = picos.Constant('U', U)")
    for w in need:
        if w.replace('(p_theta, p)', 'p_theta, p') not in [x.replace('(p_theta, p)', 'p_theta, p').replace('(A, B, C, D)', 'A, B, C, D') for x in t]:
            raise Unsupported(f'{where}: expected statement missing: {w[:80]}')
    cons = [s.value for s in body if isinstance(s, ast.Expr) and isinstance(s.value, ast.Call) and u(s.value.func) == f'{prob}.add_constraint']
    if not cons:
        raise Unsupported(f'{where}: no constraint added')
    if prob == 'problem_b' and not any(u(c.args[0]) == 'P >> self.picos_eps' for c in cons[:-1]):
        raise Unsupported(f'{where}: problem B does not constrain P >> self.picos_eps')
    c = cons[-1].args[0]
    if not (isinstance(c, ast.BinOp) and isinstance(c.op, ast.RShift) and u(c.right) == 'self.picos_eps'
            and isinstance(c.left, ast.Call) and u(c.left.func) == 'picos.block' and len(c.left.args) == 1
            and isinstance(c.left.args[0], ast.List) and len(c.left.args[0].elts) == 3
            and all(isinstance(r, ast.List) and len(r.elts) == 3 for r in c.left.args[0].elts)):
        raise Unsupported(f'{where}: the last constraint is not a 3 x 3 block >> self.picos_eps')
    ex = Ex(where, 'U', extra=('A', 'B', 'C', 'Xi11', 'Xi12', 'Xi22'))
    return [[ex.tr(e)[1] for e in r.elts] for r in c.left.args[0].elts]


def hinf_block(fdef, where, uname):
    body = [s for s in fdef.body if not (isinstance(s, ast.Expr) and isinstance(s.value, ast.Constant))]
    t = [u(s) for s in body]
    prob = 'problem_a' if where.endswith('_a') else 'problem_b'
    ss = [x for x in t if x.replace('(A, B, C, D)', 'A, B, C, D').startswith('A, B, C, D = _create_ss(')]
    want_ss = (f'A, B, C, D = _create_ss({uname}, self.weight)' if uname == 'U' else
               f'A, B, C, D = _create_ss({uname}, self.weight, Q_hat=self.tsvd_shifted_.left_singular_vectors_)')
    if len(ss) != 1 or ss[0].replace('(A, B, C, D)', 'A, B, C, D') != want_ss:
        raise Unsupported(f'{where}: the state-space matrices are not {want_ss}')
    need = ['gamma_33 = picos.diag(gamma, D.shape[1])', 'gamma_44 = picos.diag(gamma, D.shape[0])']
    need += ["P = picos.Constant('P', P)", "gamma = picos.RealVariable('gamma', 1)"] if prob == 'problem_a' else \
        ["P = picos.SymmetricVariable('P', A.shape[0])", "gamma = picos.Constant('gamma', gamma)"]
    for w in need:
        if w not in t:
            raise Unsupported(f'{where}: expected statement missing: {w}')
    cons = [s.value for s in body if isinstance(s, ast.Expr) and isinstance(s.value, ast.Call) and u(s.value.func) == f'{prob}.add_constraint']
    if not cons:
        raise Unsupported(f'{where}: no constraint added')
    if prob == 'problem_b' and not any(u(c.args[0]) == 'P >> self.picos_eps' for c in cons[:-1]):
        raise Unsupported(f'{where}: problem B does not constrain P >> self.picos_eps')
    c = cons[-1].args[0]
    if not (isinstance(c, ast.BinOp) and isinstance(c.op, ast.RShift) and u(c.right) == 'self.picos_eps'
            and isinstance(c.left, ast.Call) and u(c.left.func) == 'picos.block' and len(c.left.args) == 1
            and isinstance(c.left.args[0], ast.List) and len(c.left.args[0].elts) == 4
            and all(isinstance(r, ast.List) and len(r.elts) == 4 for r in c.left.args[0].elts)):
        raise Unsupported(f'{where}: the last constraint is not a 4 x 4 block >> self.picos_eps')
    ex = Ex(where, '__none__', extra=('A', 'B', 'C', 'D', 'gamma'))
    return [[ex.tr(e)[1] for e in r.elts] for r in c.left.args[0].elts]


def cost_blocks(fdef):
    """LmiEdmd._create_base_problem: per inv_method the Schur-complement block, and the objective"""
    where = 'LmiEdmd._create_base_problem'
    body = [s for s in fdef.body if not (isinstance(s, ast.Expr) and isinstance(s.value, ast.Constant))]
    t = [u(s) for s in body]
    for w in ["U = picos.RealVariable('U', (G.shape[0], H.shape[0]))", "Z = picos.SymmetricVariable('Z', (G.shape[0], G.shape[0]))",
              "G_T = picos.Constant('G^T', G.T)", 'problem.add_constraint(Z >> picos_eps)',
              'obj = c - 2 * picos.trace(U * G_T) + picos.trace(Z)', "problem.set_objective('min', obj)"]:
        if w not in t:
            raise Unsupported(f'{where}: expected statement missing: {w}')
    if not any(x.replace('(c, G, H, _)', 'c, G, H, _') == 'c, G, H, _ = _calc_c_G_H(X_unshifted, X_shifted, alpha_tikhonov)' for x in t):
        raise Unsupported(f'{where}: c, G, H are not _calc_c_G_H(X_unshifted, X_shifted, alpha_tikhonov)')
    chain = [s for s in body if isinstance(s, ast.If) and u(s.test).startswith('inv_method == ')]
    if len(chain) != 1:
        raise Unsupported(f'{where}: the chain on inv_method')
    node = chain[0]
    res = {}
    while True:
        c = node.test
        if not (isinstance(c, ast.Compare) and u(c.left) == 'inv_method' and isinstance(c.ops[0], ast.Eq) and isinstance(c.comparators[0], ast.Constant)):
            raise Unsupported(f'{where}: test {u(c)}')
        m = c.comparators[0].value
        if len(node.body) != 2 or not isinstance(node.body[0], ast.Assign) or not isinstance(node.body[0].targets[0], ast.Name) \
                or not (isinstance(node.body[0].value, ast.Call) and u(node.body[0].value.func) == 'picos.Constant' and len(node.body[0].value.args) == 2):
            raise Unsupported(f'{where}: branch {m}: {u(node.body[0])[:100]}')
        fac = node.body[0].targets[0].id
        calc = node.body[0].value.args[1]
        if not (isinstance(calc, ast.Call) and u(calc.func).startswith('_calc_')):
            raise Unsupported(f'{where}: branch {m}: the constant is not computed by a _calc_ helper')
        cons = node.body[1]
        if not (isinstance(cons, ast.Expr) and isinstance(cons.value, ast.Call) and u(cons.value.func) == 'problem.add_constraint'):
            raise Unsupported(f'{where}: branch {m}: no constraint')
        b = cons.value.args[0]
        if not (isinstance(b, ast.BinOp) and isinstance(b.op, ast.RShift) and u(b.right) == 'picos_eps' and isinstance(b.left, ast.Call)
                and u(b.left.func) == 'picos.block' and isinstance(b.left.args[0], ast.List) and len(b.left.args[0].elts) == 2
                and all(isinstance(r, ast.List) and len(r.elts) == 2 for r in b.left.args[0].elts)):
            raise Unsupported(f'{where}: branch {m}: not a 2 x 2 block >> picos_eps')
        ex = Ex(f'{where} ({m})', 'U', extra=('Z', fac))
        ex.rename = {fac: 'K'}
        res[m] = (u(calc.func), [[ex.tr(e)[1] for e in r.elts] for r in b.left.args[0].elts])
        if len(node.orelse) == 1 and isinstance(node.orelse[0], ast.If):
            node = node.orelse[0]
            continue
        if not all(isinstance(x, (ast.Assert, ast.Raise)) for x in node.orelse):
            raise Unsupported(f'{where}: final else')
        break
    if sorted(res) != sorted(['inv', 'pinv', 'eig', 'ldl', 'chol', 'sqrt', 'svd']):
        raise Unsupported(f'{where}: inv_methods {sorted(res)}')
    return res



HEADER = ['From mathcomp Require Import all_ssreflect all_algebra.', 'Set Implicit Arguments.', 'Unset Strict Implicit.',
          'Import GRing.Theory.', 'Local Open Scope ring_scope.', '']


def load():
    src = ast.parse(open(os.path.join(REPO, 'pykoop', 'lmi_regressors.py')).read())
    classes = {c.name: {f.name: f for f in c.body if isinstance(f, ast.FunctionDef)} for c in src.body if isinstance(c, ast.ClassDef)}
    return src, classes


def banner(tool):
    return [f'(* GENERATED by tools/{tool} from pykoop/lmi_regressors.py of the working tree - do not edit. *)'] + HEADER


def emit_sr():
    src, classes = load()
    out = banner('gen_lmi_sr.py') + ['Section GenLmi.', 'Variable F : fieldType.', 'Variables (p q : nat).', '']
    for cname, uname, tag in (('LmiEdmdSpectralRadiusConstr', 'U', 'edmd'), ('LmiDmdcSpectralRadiusConstr', 'U_hat', 'dmdc')):
        if cname not in classes:
            raise Unsupported(f'{cname} not found')
        for meth in ('_create_problem_a', '_create_problem_b'):
            if meth not in classes[cname]:
                raise Unsupported(f'{cname}.{meth} not found')
            e = block_of(classes[cname][meth], f'{cname}.{meth}', uname)
            nm = f'gen_sr_{tag}{meth[-2:]}'
            out += [f'(* {cname}.{meth}: the block constrained to be >> picos_eps *)',
                    f"Definition {nm} (rho : F) (P : 'M[F]_p) (U : 'M[F]_(p, p + q)) : 'M[F]_(p + p) :=",
                    f'  block_mx {e[0]}', f'           {e[1]}', f'           {e[2]}', f'           {e[3]}.', '']
    return out + ['End GenLmi.', '']


def emit_dis():
    src, classes = load()
    out = banner('gen_lmi_dis.py') + ['Section GenLmi.', 'Variable F : fieldType.', 'Variables (p q : nat).', '']
    create_ss_plain(src)
    cname = 'LmiEdmdDissipativityConstr'
    if cname not in classes:
        raise Unsupported(f'{cname} not found')
    out += ['(* the supply rate in effect: the default is the L2 gain bound of one *)',
            "Definition gen_default_supply_rate : 'M[F]_(p + q) := block_mx 1%:M 0 0 (- 1%:M).",
            "Definition gen_supply_rate (supply_rate : option 'M[F]_(p + q)) : 'M[F]_(p + q) :=",
            '  match supply_rate with None => gen_default_supply_rate | Some Xi => Xi end.', '']
    for meth in ('_create_problem_a', '_create_problem_b'):
        if meth not in classes[cname]:
            raise Unsupported(f'{cname}.{meth} not found')
        e = dissip_block(classes[cname][meth], f'{cname}.{meth}')
        out += [f'(* {cname}.{meth}: the block constrained to be >> picos_eps; A, B, C from _create_ss(U, None) *)',
                f"Definition gen_dis{meth[-2:]} (P : 'M[F]_p) (U : 'M[F]_(p, p + q)) (supply_rate : option 'M[F]_(p + q)) : 'M[F]_((p + q) + p) :=",
                '  let Xi := gen_supply_rate supply_rate in',
                "  let A := lsubmx U in let B := rsubmx U in let C : 'M[F]_p := 1%:M in",
                '  let Xi11 := ulsubmx Xi in let Xi12 := ursubmx Xi in let Xi22 := drsubmx Xi in',
                f'  block_mx (block_mx {e[0][0]} {e[0][1]}', f'                     {e[1][0]} {e[1][1]})',
                f'           (col_mx {e[0][2]} {e[1][2]})', f'           (row_mx {e[2][0]} {e[2][1]})', f'           {e[2][2]}.', '']
    return out + ['End GenLmi.', '']


def emit_hinf():
    src, classes = load()
    out = banner('gen_lmi_hinf.py') + ['Section GenLmiHinf.', 'Variable F : fieldType.', 'Variables (n m l : nat).', '']
    for cname, uname, tag in (('LmiEdmdHinfReg', 'U', 'edmd'), ('LmiDmdcHinfReg', 'U_hat', 'dmdc')):
        if cname not in classes:
            raise Unsupported(f'{cname} not found')
        for meth in ('_create_problem_a', '_create_problem_b'):
            if meth not in classes[cname]:
                raise Unsupported(f'{cname}.{meth} not found')
            e = hinf_block(classes[cname][meth], f'{cname}.{meth}', uname)
            out += [f'(* {cname}.{meth}: the block constrained to be >> picos_eps; A, B, C, D from _create_ss({uname}, self.weight[, Q_hat]),',
                    '   gamma_33 / gamma_44 = gamma times the identity of the size of the inputs / outputs *)',
                    f"Definition gen_hinf_{tag}{meth[-2:]} (P A : 'M[F]_n) (B : 'M[F]_(n, m)) (C : 'M[F]_(l, n)) (D : 'M[F]_(l, m)) (g : F)",
                    "    : 'M[F]_((n + n) + (m + l)) :=",
                    f'  block_mx (block_mx {e[0][0]} {e[0][1]} {e[1][0]} {e[1][1]})',
                    f'           (block_mx {e[0][2]} {e[0][3]} {e[1][2]} {e[1][3]})',
                    f'           (block_mx {e[2][0]} {e[2][1]} {e[3][0]} {e[3][1]})',
                    f'           (block_mx {e[2][2]} {e[2][3]} {e[3][2]} {e[3][3]}).', '']
    return out + ['End GenLmiHinf.', '']


def emit_cost():
    src, classes = load()
    if 'LmiEdmd' not in classes or '_create_base_problem' not in classes['LmiEdmd']:
        raise Unsupported('LmiEdmd._create_base_problem not found')
    res = cost_blocks(classes['LmiEdmd']['_create_base_problem'])
    out = banner('gen_lmi_cost.py') + ['Section GenLmiCost.', 'Variable F : fieldType.', 'Variables (r p k : nat).', '',
            '(* LmiEdmd._create_base_problem: minimise c - 2 tr(U G^T) + tr(Z) subject to Z >> picos_eps and, per inv_method, the',
            '   block below >> picos_eps.  K is the constant the named _calc_ helper computes from H (a numeric oracle):',
            '   ' + ', '.join(f'{m}: {c}' for m, (c, _) in res.items()) + ' *)',
            "Definition gen_cost_objective (c : F) (G U : 'M[F]_(r, p)) (Z : 'M[F]_r) : F := c - 2%:R * \\tr (U *m G^T) + \\tr Z.", '']
    for m, (c, e) in res.items():
        kt = "'M[F]_p" if m in ('inv', 'pinv') else "'M[F]_(p, k)"
        ty = "'M[F]_(r + p)" if m in ('inv', 'pinv') else "'M[F]_(r + k)"
        out += [f"Definition gen_cost_block_{m} (Z : 'M[F]_r) (U : 'M[F]_(r, p)) (K : {kt}) : {ty} :=",
                f'  block_mx {e[0][0]} {e[0][1]} {e[1][0]} {e[1][1]}.', '']
    return out + ['End GenLmiCost.', '']


def run(tool, emit, path):
    try:
        out = emit()
    except Unsupported as e:
        print(f'{tool}: construct outside the translated fragment: ' + str(e), file=sys.stderr)
        sys.exit(1)
    os.makedirs(os.path.dirname(path), exist_ok=True)
    with open(path, 'w') as f:
        f.write('\n'.join(out) + '\n')
    print(os.path.basename(path) + ' written')
