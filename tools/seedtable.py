#!/usr/bin/env python3
"""seedtable.py <default-seed matrix output> <VERIF_SEED=1 matrix output> [replay root]
Rebuilds /verif/seeded/RESULTS.json, the `detected_by` entry of every seeded/<id>/meta.json and prints the
per-change table of DESIGN.md section 0.4 from the outputs of `tools/seedrun.sh` over all seeded changes."""
import glob
import json
import os
import re
import sys

ROOT = '/verif/seeded'
REPLAYS = sys.argv[3] if len(sys.argv) > 3 else '/var/tmp/sr_replays'


def parse(path):
    out = {}
    for line in open(path, errors='replace'):
        m = re.match(r'seed=(\S+) check=(\S+) rc=(\d+) violations=(\d+) no_input=(\d+) secs=(\d+)', line)
        if m:
            out[m.group(1)] = dict(check=m.group(2), rc=int(m.group(3)), violations=int(m.group(4)),
                                   no_failing_input_found=int(m.group(5)), secs=int(m.group(6)))
    return out


def verdict(r):
    if r is None:
        return 'not run'
    if r['rc'] == 1 and r['violations'] > 0 and r['no_failing_input_found'] == 0:
        return 'VIOLATION with concrete replay'
    if r['rc'] == 1 and r['violations'] > 0:
        return 'VIOLATION, no-failing-input-found'
    if r['rc'] == 0:
        return 'MISSED'
    return f'check machinery error (rc={r["rc"]})'


def headline(seed):
    """what the change does: the heading of its variant in notes.md"""
    pid, v = seed.rsplit('_', 1)
    p = os.path.join(ROOT, seed, 'notes.md')
    if not os.path.exists(p):
        return ''
    for line in open(p, errors='replace'):
        m = re.match(rf'^#+\s*[Vv]ariant\s+{v}\b\W*(.*)$', line.strip())
        if m:
            t = re.sub(r'\(`?[a-n]\.diff`?.*?\)', '', m.group(1))
            t = t.strip(' -—:–').replace('|', '/')
            return t[:130]
    return ''


def first_what(seed, pid):
    best = ''
    for f in sorted(glob.glob(os.path.join(REPLAYS, f'{seed}_{pid}', '*.json'))):
        try:
            d = json.load(open(f))
        except Exception:  # noqa
            continue
        w = d.get('what') or (d.get('case') or {}).get('what') or ''
        if w:
            return w.replace('|', '/').replace('\n', ' ')[:150]
        if d.get('broken'):
            best = 'proof obligation / correspondence no longer checks (no failing input found)'
    return best


def main():
    a, b = parse(sys.argv[1]), parse(sys.argv[2])
    seeds = sorted(d for d in os.listdir(ROOT) if os.path.isdir(os.path.join(ROOT, d)))
    results = {}
    rows = []
    for s in seeds:
        pid = s.rsplit('_', 1)[0]
        ra, rb = a.get(s), b.get(s)
        results[s] = dict(property=pid, default_seed=ra, verif_seed_1=rb)
        mp = os.path.join(ROOT, s, 'meta.json')
        meta = json.load(open(mp))
        meta['detected_by'] = dict(check=pid, quick_tier_default_seed=verdict(ra), quick_tier_VERIF_SEED_1=verdict(rb),
                                   how=f'tools/seedrun.sh {s} {pid}')
        json.dump(meta, open(mp, 'w'), indent=1)
        rows.append(f'| {s} | {headline(s)} | {first_what(s, pid)} | {verdict(ra)} / {verdict(rb)} |')
    json.dump(dict(note='Outcome of `tools/seedrun.sh <seed> <property>` (quick tier) for every seeded change, under the default '
                        'seed and under VERIF_SEED=1. rc=1 with violations>0 and no_failing_input_found=0 means: VIOLATION '
                        'reported with a concrete replay.', results=results),
              open(os.path.join(ROOT, 'RESULTS.json'), 'w'), indent=1)
    print('| seeded change | what it does | first violation reported by `./check` (quick) | default seed / VERIF_SEED=1 |')
    print('|---|---|---|---|')
    print('\n'.join(rows))
    bad = [s for s in seeds if verdict(a.get(s)) != 'VIOLATION with concrete replay' or verdict(b.get(s)) != 'VIOLATION with concrete replay']
    print('\nNOT fully detected:', bad, file=sys.stderr)


if __name__ == '__main__':
    main()
