#!/venv/bin/python
"""Translator for C06: Edmd._fit_regressor (pykoop/regressors.py) -> coq/Gen/Regressors.v.

The body is straight-line matrix algebra followed by one `linalg.lstsq(A, B)[0]`.  Each
assignment becomes a mathcomp definition over an arbitrary field (matrix dimensions are left to
Coq's inference from the two data matrices); the least-squares call becomes the pair of
matrices (A, B) of the linear system whose solution is returned.  BridgeC06.v proves that this
system is the normal equations of the documented cost, so a change of a formula (a missing
`/ q`, a transposed product, alpha in the wrong place) changes the generated definitions and the
bridge stops checking.  Fail-closed: any statement or operator outside the table raises."""
import ast
import os
import sys

REPO = os.environ.get('VERIF_REPO', '/repo')
OUT = sys.argv[1] if len(sys.argv) > 1 else '/verif/coq/Gen'


class Unsupported(Exception):
    pass


class Tr:
    def __init__(self, env):
        self.env = dict(env)      # python name -> (kind, coq term); kinds M (matrix), S (scalar), N (dimension)

    def ex(self, n):
        if isinstance(n, ast.Name):
            if n.id in self.env:
                return self.env[n.id]
            raise Unsupported('name ' + n.id)
        if isinstance(n, ast.Attribute):
            if n.attr == 'T':
                k, t = self.ex(n.value)
                if k == 'M':
                    return ('M', f'({t})^T')
            key = ast.unparse(n)
            if key in self.env:
                return self.env[key]
            raise Unsupported('attribute ' + key)
        if isinstance(n, ast.BinOp):
            (ka, a), (kb, b) = self.ex(n.left), self.ex(n.right)
            op = type(n.op).__name__
            if op == 'MatMult' and (ka, kb) == ('M', 'M'):
                return ('M', f'({a} *m {b})')
            if op == 'Add' and (ka, kb) == ('M', 'M'):
                return ('M', f'({a} + {b})')
            if op == 'Sub' and (ka, kb) == ('M', 'M'):
                return ('M', f'({a} - {b})')
            if op == 'Div' and (ka, kb) == ('M', 'N'):
                return ('M', f'(({b}%:R)^-1 *: {a})')
            if op == 'Div' and (ka, kb) == ('M', 'S'):
                return ('M', f'(({b})^-1 *: {a})')
            if op == 'Mult' and (ka, kb) == ('S', 'M'):
                return ('M', f'({a} *: {b})')
            if op == 'Mult' and (ka, kb) == ('M', 'S'):
                return ('M', f'({b} *: {a})')
            if op == 'Mult' and (ka, kb) == ('N', 'M'):
                return ('M', f'(({a}%:R) *: {b})')
            raise Unsupported(f'{op} on {ka},{kb}')
        if isinstance(n, ast.Call):
            f = ast.unparse(n.func)
            if f == 'np.diag' and len(n.args) == 1 and not n.keywords:
                a = n.args[0]
                # np.diag(1 / v): diagonal matrix of reciprocals; np.diag(v): diagonal matrix
                if isinstance(a, ast.BinOp) and isinstance(a.op, ast.Div) and isinstance(a.left, ast.Constant) \
                        and a.left.value == 1:
                    k, t = self.ex(a.right)
                    if k == 'RV':
                        return ('M', f'(diag_mx (map_mx (fun x => x^-1) {t}))')
                k, t = self.ex(a)
                if k == 'RV':
                    return ('M', f'(diag_mx {t})')
                raise Unsupported('np.diag operand')
            if f == 'np.eye' and len(n.args) == 1 and not n.keywords:
                k, t = self.ex(n.args[0])
                if k == 'N':
                    return ('M', f'(1%:M : \'M_{t})')
            raise Unsupported('call ' + f)
        raise Unsupported(ast.dump(n)[:200])


def is_clone_plumbing(st):
    """self.tsvd_ = (sklearn.base.clone(self.tsvd) if self.tsvd is not None else tsvd.Tsvd())"""
    return isinstance(st, ast.Assign) and ast.unparse(st.targets[0]) == 'self.tsvd_' \
        and 'sklearn.base.clone(self.tsvd)' in ast.unparse(st.value) and 'tsvd.Tsvd()' in ast.unparse(st.value)


def translate_dmd(src):
    """Dmd._fit_regressor: matrix algebra around two LAPACK oracles (truncated SVD of Psi, eig of U_tilde)
    and one lstsq; the mode_type branch gives two definitions of the modes."""
    cls = [c for c in src.body if isinstance(c, ast.ClassDef) and c.name == 'Dmd'][0]
    fn = [f for f in cls.body if isinstance(f, ast.FunctionDef) and f.name == '_fit_regressor'][0]
    if [a.arg for a in fn.args.args] != ['self', 'X_unshifted', 'X_shifted']:
        raise Unsupported('signature of Dmd._fit_regressor')
    out = ['', 'Section GenDmd.', 'Variable F : fieldType.', 'Variables p q r : nat.',
           "Variable X_unshifted : 'M[F]_(q, p).", "Variable X_shifted : 'M[F]_(q, p).",
           "(* oracles: the truncated SVD of Psi (r retained triplets) and the eigendecomposition of U_tilde *)",
           "Variables (Q : 'M[F]_(p, r)) (sigma : 'rV[F]_r) (Z : 'M[F]_(q, r)) (lmb : 'rV[F]_r) (V_tilde : 'M[F]_r).", '']
    tr = Tr({'X_unshifted': ('M', 'X_unshifted'), 'X_shifted': ('M', 'X_shifted')})
    svd_attr = {'self.tsvd_.left_singular_vectors_': ('M', 'Q'), 'self.tsvd_.singular_values_': ('RV', 'sigma'),
                'self.tsvd_.right_singular_vectors_': ('M', 'Z')}
    svd_of = None
    eig_of = None
    modes = {}
    lstsq = False
    for st in fn.body:
        if isinstance(st, ast.Expr) and isinstance(st.value, ast.Constant):
            continue
        if is_clone_plumbing(st):
            continue
        if isinstance(st, ast.Expr) and ast.unparse(st.value).startswith('self.tsvd_.fit('):
            k, t = tr.ex(st.value.args[0])
            svd_of = t
            tr.env.update(svd_attr)
            continue
        if isinstance(st, ast.Assign) and len(st.targets) == 1:
            tg, v = st.targets[0], st.value
            if isinstance(tg, ast.Tuple) and ast.unparse(v).startswith('linalg.eig('):
                if [e.id for e in tg.elts] != ['lmb', 'V_tilde'] or len(v.args) != 1:
                    raise Unsupported('eig call')
                eig_of = tr.ex(v.args[0])[1]
                tr.env['lmb'] = ('RV', 'lmb'); tr.env['V_tilde'] = ('M', 'V_tilde')
                continue
            if ast.unparse(tg) == 'self.eigenvalues_':
                if ast.unparse(v) != 'lmb':
                    raise Unsupported('eigenvalues_ is not the eig output')
                tr.env['self.eigenvalues_'] = ('RV', 'lmb')
                continue
            if isinstance(tg, ast.Name) and tg.id == 'U' and 'linalg.lstsq' in ast.unparse(v):
                want = 'linalg.lstsq(self.modes_.T, (self.modes_ @ Sigma).T)[0].T'
                if ast.unparse(v) != want:
                    raise Unsupported('reconstruction of U: ' + ast.unparse(v))
                lstsq = True
                continue
            if isinstance(tg, ast.Name) and tg.id == 'coef':
                if ast.unparse(v) != 'np.real(U.T)':
                    raise Unsupported('coef: ' + ast.unparse(v))
                continue
            if isinstance(tg, ast.Name):
                k, t = tr.ex(v)
                if t in ('Q', 'sigma', 'Z'):
                    if tg.id != t:
                        raise Unsupported(f'oracle output {t} bound to the name {tg.id}')
                    tr.env[tg.id] = (k, t)
                    continue
                if k not in ('M',):
                    raise Unsupported('non-matrix assignment ' + tg.id)
                out.append(f'Definition gen_dmd_{tg.id} := {t}.')
                tr.env[tg.id] = ('M', f'gen_dmd_{tg.id}')
                continue
        if isinstance(st, ast.If):
            # if self.mode_type == 'exact': ... elif self.mode_type == 'projected': ... else: assert False
            node = st
            while isinstance(node, ast.If):
                test = ast.unparse(node.test)
                if not test.startswith("self.mode_type == '"):
                    raise Unsupported('branch ' + test)
                name = test.split("'")[1]
                body = node.body
                if len(body) != 2 or ast.unparse(body[1].targets[0]) != 'self.modes_' \
                        or ast.unparse(body[1].value) != ast.unparse(body[0].targets[0]):
                    raise Unsupported('mode branch shape')
                k, t = tr.ex(body[0].value)
                out.append(f'Definition gen_dmd_modes_{name} := {t}.')
                modes[name] = t
                nxt = node.orelse
                if len(nxt) == 1 and isinstance(nxt[0], ast.If):
                    node = nxt[0]
                else:
                    if not (len(nxt) <= 2 and all(isinstance(x, (ast.Assert, ast.Expr)) for x in nxt)):
                        raise Unsupported('else branch of mode_type')
                    node = None
            continue
        if isinstance(st, ast.Return):
            if ast.unparse(st.value) != 'coef':
                raise Unsupported('return value')
            continue
        raise Unsupported('Dmd: ' + ast.unparse(st)[:200])
    if svd_of is None or eig_of is None or not lstsq or set(modes) != {'exact', 'projected'}:
        raise Unsupported('Dmd: expected SVD, eig, two mode types and the lstsq reconstruction')
    out += ['(* the SVD oracle is applied to: *)', f'Definition gen_dmd_svd_argument := {svd_of}.',
            '(* the eig oracle is applied to: *)', f'Definition gen_dmd_eig_argument := {eig_of}.',
            "(* U = lstsq(modes^T, (modes Sigma)^T)[0]^T : coef^T is a least-squares solution X^T of  modes^T X = (modes Sigma)^T *)",
            "Definition gen_dmd_lstsq_lhs (modes : 'M[F]_(p, r)) := modes^T.",
            "Definition gen_dmd_lstsq_rhs (modes : 'M[F]_(p, r)) := (modes *m gen_dmd_Sigma)^T.",
            'End GenDmd.', '']
    return out



def translate_dmdc(src):
    """Dmdc._fit_regressor: two truncated SVDs (unshifted, shifted), the split of the left singular vectors of the
    unshifted data into state and input rows, A / B / A_tilde / B_tilde, eig of A_tilde, exact / projected modes,
    the lstsq reconstruction of A and coef = hstack((A_r, B)).T"""
    cls = [c for c in src.body if isinstance(c, ast.ClassDef) and c.name == 'Dmdc'][0]
    fn = [f for f in cls.body if isinstance(f, ast.FunctionDef) and f.name == '_fit_regressor'][0]
    if [a.arg for a in fn.args.args] != ['self', 'X_unshifted', 'X_shifted']:
        raise Unsupported('signature of Dmdc._fit_regressor')
    out = ['', 'Section GenDmdc.', 'Variable F : fieldType.', 'Variables pt pu q r rh : nat.',
           "Variable X_unshifted : 'M[F]_(q, pt + pu).", "Variable X_shifted : 'M[F]_(q, pt).",
           '(* oracles: the truncated SVDs of Psi (r triplets) and of Theta_+ (rh triplets), the eigendecomposition of A_tilde *)',
           "Variables (Q_tld : 'M[F]_(pt + pu, r)) (sig_tld : 'rV[F]_r) (Z_tld : 'M[F]_(q, r)).",
           "Variables (Q_hat : 'M[F]_(pt, rh)) (sig_hat : 'rV[F]_rh) (Z_hat : 'M[F]_(q, rh)).",
           "Variables (lmb : 'rV[F]_rh) (V_tld : 'M[F]_rh).", '']
    tr = Tr({'X_unshifted': ('M', 'X_unshifted'), 'X_shifted': ('M', 'X_shifted')})
    attrs = {'unshifted': {'left_singular_vectors_': ('M', 'Q_tld'), 'singular_values_': ('RV', 'sig_tld'),
                           'right_singular_vectors_': ('M', 'Z_tld')},
             'shifted': {'left_singular_vectors_': ('M', 'Q_hat'), 'singular_values_': ('RV', 'sig_hat'),
                         'right_singular_vectors_': ('M', 'Z_hat')}}
    svd_of = {}
    eig_of = None
    modes = {}
    lstsq = False
    coef_ok = False
    for st in fn.body:
        if isinstance(st, ast.Expr) and isinstance(st.value, ast.Constant):
            continue
        txt = ast.unparse(st)
        if isinstance(st, ast.Assign) and ast.unparse(st.targets[0]) in ('self.tsvd_unshifted_', 'self.tsvd_shifted_'):
            which = ast.unparse(st.targets[0])[len('self.tsvd_'):-1]
            if f'sklearn.base.clone(self.tsvd_{which})' not in txt or 'tsvd.Tsvd()' not in txt:
                raise Unsupported('clone plumbing of ' + which)
            continue
        if isinstance(st, ast.Expr) and isinstance(st.value, ast.Call) and ast.unparse(st.value.func) in (
                'self.tsvd_unshifted_.fit', 'self.tsvd_shifted_.fit'):
            which = ast.unparse(st.value.func)[len('self.tsvd_'):-len('_.fit')]
            svd_of[which] = tr.ex(st.value.args[0])[1]
            for a, v in attrs[which].items():
                tr.env[f'self.tsvd_{which}_.{a}'] = v
            continue
        if isinstance(st, ast.Assign) and len(st.targets) == 1:
            tg, v = st.targets[0], st.value
            if isinstance(tg, ast.Tuple) and ast.unparse(v).startswith('linalg.eig('):
                if [e.id for e in tg.elts] != ['lmb', 'V_tld'] or len(v.args) != 1:
                    raise Unsupported('eig call')
                eig_of = tr.ex(v.args[0])[1]
                tr.env['lmb'] = ('RV', 'lmb'); tr.env['V_tld'] = ('M', 'V_tld')
                continue
            if ast.unparse(tg) == 'self.eigenvalues_':
                if ast.unparse(v) != 'lmb':
                    raise Unsupported('eigenvalues_ is not the eig output')
                tr.env['self.eigenvalues_'] = ('RV', 'lmb')
                continue
            if ast.unparse(tg) == 'self.B_tilde_':
                if tr.ex(v)[0] != 'M':
                    raise Unsupported('B_tilde_')
                continue
            if isinstance(tg, ast.Name) and tg.id in ('Q_tld_1', 'Q_tld_2'):
                want = {'Q_tld_1': 'Q_tld[:Theta_p.shape[0], :]', 'Q_tld_2': 'Q_tld[Theta_p.shape[0]:, :]'}[tg.id]
                if ast.unparse(v) != want:
                    raise Unsupported(f'{tg.id}: {ast.unparse(v)}')
                t = '(usubmx Q_tld)' if tg.id == 'Q_tld_1' else '(dsubmx Q_tld)'
                out.append(f'(* {txt} : Theta_p has pt rows *)')
                out.append(f'Definition gen_dmdc_{tg.id} := {t}.')
                tr.env[tg.id] = ('M', f'gen_dmdc_{tg.id}')
                continue
            if isinstance(tg, ast.Name) and tg.id == 'A_r':
                want = 'np.real(linalg.lstsq(self.modes_.T, (self.modes_ @ Sigma).T)[0].T)'
                if ast.unparse(v) != want:
                    raise Unsupported('reconstruction of A: ' + ast.unparse(v))
                lstsq = True
                continue
            if isinstance(tg, ast.Name) and tg.id == 'coef':
                if ast.unparse(v) != 'np.hstack((A_r, B)).T':
                    raise Unsupported('coef: ' + ast.unparse(v))
                coef_ok = True
                continue
            if isinstance(tg, ast.Name):
                k, t = tr.ex(v)
                if t in ('Q_tld', 'sig_tld', 'Z_tld', 'Q_hat', 'sig_hat', 'Z_hat'):
                    if tg.id != t:
                        raise Unsupported(f'oracle output {t} bound to the name {tg.id}')
                    tr.env[tg.id] = (k, t)
                    continue
                if k != 'M':
                    raise Unsupported('non-matrix assignment ' + tg.id)
                out.append(f'Definition gen_dmdc_{tg.id} := {t}.')
                tr.env[tg.id] = ('M', f'gen_dmdc_{tg.id}')
                continue
        if isinstance(st, ast.If):
            node = st
            while isinstance(node, ast.If):
                test = ast.unparse(node.test)
                if not test.startswith("self.mode_type == '"):
                    raise Unsupported('branch ' + test)
                name = test.split("'")[1]
                body = node.body
                if len(body) != 2 or ast.unparse(body[1].targets[0]) != 'self.modes_' \
                        or ast.unparse(body[1].value) != ast.unparse(body[0].targets[0]):
                    raise Unsupported('mode branch shape')
                k, t = tr.ex(body[0].value)
                out.append(f'Definition gen_dmdc_modes_{name} := {t}.')
                modes[name] = t
                nxt = node.orelse
                if len(nxt) == 1 and isinstance(nxt[0], ast.If):
                    node = nxt[0]
                else:
                    if not (len(nxt) <= 2 and all(isinstance(x, (ast.Assert, ast.Expr)) for x in nxt)):
                        raise Unsupported('else branch of mode_type')
                    node = None
            continue
        if isinstance(st, ast.Return):
            if ast.unparse(st.value) != 'coef':
                raise Unsupported('return value')
            continue
        raise Unsupported('Dmdc: ' + txt[:200])
    if set(svd_of) != {'unshifted', 'shifted'} or eig_of is None or not lstsq or not coef_ok or set(modes) != {'exact', 'projected'}:
        raise Unsupported('Dmdc: expected two SVDs, eig, two mode types, the lstsq reconstruction and coef = hstack((A_r, B)).T')
    out += ['(* the SVD oracles are applied to: *)', f'Definition gen_dmdc_svd_unshifted_argument := {svd_of["unshifted"]}.',
            f'Definition gen_dmdc_svd_shifted_argument := {svd_of["shifted"]}.',
            '(* the eig oracle is applied to: *)', f'Definition gen_dmdc_eig_argument := {eig_of}.',
            "(* A_r = lstsq(modes^T, (modes Sigma)^T)[0]^T ; coef = hstack((A_r, B))^T *)",
            "Definition gen_dmdc_lstsq_lhs (modes : 'M[F]_(pt, rh)) := modes^T.",
            "Definition gen_dmdc_lstsq_rhs (modes : 'M[F]_(pt, rh)) := (modes *m gen_dmdc_Sigma)^T.",
            "Definition gen_dmdc_coef (A_r : 'M[F]_pt) := (row_mx A_r gen_dmdc_B)^T.",
            'End GenDmdc.', '']
    return out


def main():
    src = ast.parse(open(os.path.join(REPO, 'pykoop', 'regressors.py')).read())
    cls = [c for c in src.body if isinstance(c, ast.ClassDef) and c.name == 'Edmd'][0]
    fn = [f for f in cls.body if isinstance(f, ast.FunctionDef) and f.name == '_fit_regressor'][0]
    if [a.arg for a in fn.args.args] != ['self', 'X_unshifted', 'X_shifted']:
        raise Unsupported('signature of Edmd._fit_regressor')
    tr = Tr({'X_unshifted': ('M', 'X_unshifted'), 'X_shifted': ('M', 'X_shifted'), 'self.alpha': ('S', 'alpha')})
    out = ['(* GENERATED by tools/gen_regressors.py from Edmd._fit_regressor of the working tree - do not edit. *)',
           'From mathcomp Require Import all_ssreflect all_algebra.',
           'Set Implicit Arguments.', 'Unset Strict Implicit.', 'Unset Printing Implicit Defensive.',
           'Import GRing.Theory.', 'Local Open Scope ring_scope.', '',
           'Section GenEdmd.', 'Variable R : fieldType.', 'Variables p q r : nat.',
           "Variable X_unshifted : 'M[R]_(q, p).", "Variable X_shifted : 'M[R]_(q, r).", 'Variable alpha : R.', '']
    lstsq = None
    ret = None
    for st in fn.body:
        if isinstance(st, ast.Expr) and isinstance(st.value, ast.Constant):
            continue
        if isinstance(st, ast.Assign) and len(st.targets) == 1:
            tg = st.targets[0]
            if isinstance(tg, ast.Tuple) and isinstance(st.value, ast.Attribute) and st.value.attr == 'shape':
                # p, q = Psi.shape : rows, columns of a matrix whose type is already fixed
                base = ast.unparse(st.value.value)
                names = [e.id for e in tg.elts]
                if base not in tr.env or tr.env[base][0] != 'M' or len(names) != 2:
                    raise Unsupported('shape unpacking')
                dims = {'Psi': ('p', 'q'), 'Theta_p': ('r', 'q')}
                if base not in dims:
                    raise Unsupported('shape of ' + base)
                for nm, d in zip(names, dims[base]):
                    tr.env[nm] = ('N', d)
                out.append(f'(* {ast.unparse(st)} : rows = {dims[base][0]}, columns = {dims[base][1]} *)')
                continue
            if isinstance(tg, ast.Name):
                v = st.value
                # coef = linalg.lstsq(A, B)[0]
                if isinstance(v, ast.Subscript) and isinstance(v.value, ast.Call) \
                        and ast.unparse(v.value.func) == 'linalg.lstsq' and ast.unparse(v.slice) == '0' \
                        and len(v.value.args) == 2 and not v.value.keywords:
                    (ka, a), (kb, b) = tr.ex(v.value.args[0]), tr.ex(v.value.args[1])
                    if (ka, kb) != ('M', 'M'):
                        raise Unsupported('lstsq operands')
                    out += [f'Definition gen_edmd_lstsq_lhs := {a}.', f'Definition gen_edmd_lstsq_rhs := {b}.']
                    lstsq = tg.id
                    tr.env[tg.id] = ('LSTSQ', tg.id)
                    continue
                k, t = tr.ex(v)
                if k != 'M':
                    raise Unsupported('non-matrix assignment')
                out.append(f'Definition gen_edmd_{tg.id} := {t}.')
                tr.env[tg.id] = ('M', f'gen_edmd_{tg.id}')
                continue
        if isinstance(st, ast.Return):
            ret = ast.unparse(st.value)
            continue
        raise Unsupported(ast.unparse(st)[:200])
    if lstsq is None or ret != lstsq:
        raise Unsupported('the method does not return the least-squares solution')
    out += ['', '(* the method returns coef = any least-squares solution X of  gen_edmd_lstsq_lhs *m X = gen_edmd_lstsq_rhs *)',
            'End GenEdmd.', '']
    out += translate_dmd(src)
    out += translate_dmdc(src)
    os.makedirs(OUT, exist_ok=True)
    with open(os.path.join(OUT, 'Regressors.v'), 'w') as f:
        f.write('\n'.join(out) + '\n')
    print('Regressors.v written')


if __name__ == '__main__':
    try:
        main()
    except Unsupported as e:
        print('gen_regressors: construct outside the translated fragment: ' + str(e), file=sys.stderr)
        sys.exit(1)
