#!/venv/bin/python
"""Translator for the per-episode transforms of pykoop/lifting_functions.py (C01-C04, C16):
`_transform_one_ep` / `_inverse_transform_one_ep` of BilinearInputLiftingFn, ConstantLiftingFn,
DelayLiftingFn (with the static helpers `_delay` / `_undelay`), the inverse of RbfLiftingFn and
KernelApproxLiftingFn, the frame of KernelApproxLiftingFn / PolynomialLiftingFn / SkLearnLiftingFn
around their opaque sub-estimator.

The bodies are straight-line numpy code over basic slices, hstack / concatenate / vstack / split,
one broadcasting product and `for` loops that append one block per iteration; they are translated
statement by statement into Gallina `let`s over the numpy semantics of coq/PyList.v and
coq/SliceLib.v (integers are Z, so negative and open slice bounds keep their numpy meaning,
including `-0`).  coq/BridgeStages.v proves that the generated functions are the leaf semantics of
the model (Stage.v: bilinear_row, const_row, delay_ep, undelay_ep, leaf_inv_row ...), so every theorem
about `transform` / `inverse` is a theorem about this code.  Fail-closed: any construct outside the
fragment stops the translator (and with it every check that builds the Coq development)."""
import ast
import os
import sys

REPO = os.environ.get('VERIF_REPO', '/repo')
OUT = sys.argv[1] if len(sys.argv) > 1 else '/verif/coq/Gen'

ATTRS = {'n_states_in_': 'ns', 'n_inputs_in_': 'nu', 'n_states_out_': 'nso', 'n_inputs_out_': 'nuo',
         'n_delays_state': 'dx', 'n_delays_input': 'du'}
INDEX_ATTRS = {'transform_order_': 'transform_order', 'inverse_transform_order_': 'inverse_order'}
OPAQUE = {'transformer_': 'sub_transform', 'kernel_approx_': 'sub_transform'}


class Unsupported(Exception):
    pass


class Fn:
    """one function being translated; env maps python names to ('mat'|'int'|'list', coq term)"""

    def __init__(self, cls, fdef, static_fns):
        self.cls, self.fdef, self.static_fns = cls, fdef, static_fns
        self.used = []        # nat parameters (in first-use order)
        self.opaque = False
        self.index = []
        self.lets = []
        self.env = {}

    def use(self, p):
        if p not in self.used:
            self.used.append(p)
        return p

    # ---- integers (Z)
    def zint(self, n):
        if isinstance(n, ast.Constant) and isinstance(n.value, int) and not isinstance(n.value, bool):
            return f'({n.value})%Z'
        if isinstance(n, ast.UnaryOp) and isinstance(n.op, ast.USub):
            return f'(- {self.zint(n.operand)})%Z'
        if isinstance(n, ast.Attribute) and isinstance(n.value, ast.Name) and n.value.id == 'self' and n.attr in ATTRS:
            return f'(Z.of_nat {self.use(ATTRS[n.attr])})'
        if isinstance(n, ast.Name) and n.id in self.env and self.env[n.id][0] == 'int':
            return self.env[n.id][1]
        if isinstance(n, ast.BinOp) and isinstance(n.op, (ast.Add, ast.Sub, ast.FloorDiv, ast.Mult)):
            op = {ast.Add: '+', ast.Sub: '-', ast.FloorDiv: '/', ast.Mult: '*'}[type(n.op)]
            return f'({self.zint(n.left)} {op} {self.zint(n.right)})%Z'
        if isinstance(n, ast.Subscript) and isinstance(n.value, ast.Attribute) and n.value.attr == 'shape' \
                and isinstance(n.slice, ast.Constant) and n.slice.value in (0, 1):
            m = self.mat(n.value.value)
            return f'(Z.of_nat (length {m}))' if n.slice.value == 0 else f'(Z.of_nat (width {m}))'
        if isinstance(n, ast.Call) and isinstance(n.func, ast.Name) and n.func.id in ('min', 'max') and len(n.args) == 2 and not n.keywords:
            return f'(Z.{n.func.id} {self.zint(n.args[0])} {self.zint(n.args[1])})'
        raise Unsupported('integer expression ' + ast.unparse(n))

    def bound(self, n):
        return 'None' if n is None else f'(Some {self.zint(n)})'

    # ---- matrices
    def mat(self, n):
        if isinstance(n, ast.Name):
            if n.id in self.env and self.env[n.id][0] == 'mat':
                return self.env[n.id][1]
            raise Unsupported('matrix name ' + n.id)
        if isinstance(n, ast.Subscript):
            s = n.slice
            if isinstance(s, ast.Tuple) and len(s.elts) == 2:
                r, c = s.elts
                # X[[-1], :]
                if isinstance(r, ast.List) and ast.unparse(r) == '[-1]' and isinstance(c, ast.Slice) and ast.unparse(c) == ':':
                    return f'(row_last {self.mat(n.value)})'
                # X[:, self.<index array>]
                if isinstance(r, ast.Slice) and ast.unparse(r) == ':' and isinstance(c, ast.Attribute) \
                        and isinstance(c.value, ast.Name) and c.value.id == 'self' and c.attr in INDEX_ATTRS:
                    nm = INDEX_ATTRS[c.attr]
                    if nm not in self.index:
                        self.index.append(nm)
                    return f'(take_cols t0 {nm} {self.mat(n.value)})'
                if isinstance(r, ast.Slice) and isinstance(c, ast.Slice) and r.step is None and c.step is None:
                    out = self.mat(n.value)
                    if r.lower is not None or r.upper is not None:
                        out = f'(slice_rows {self.bound(r.lower)} {self.bound(r.upper)} {out})'
                    if c.lower is not None or c.upper is not None:
                        out = f'(slice_cols {self.bound(c.lower)} {self.bound(c.upper)} {out})'
                    return out
            raise Unsupported('subscript ' + ast.unparse(n))
        if isinstance(n, ast.BinOp) and isinstance(n.op, ast.Mult):
            # states * inputs[:, [k]]
            rt = n.right
            if isinstance(rt, ast.Subscript) and isinstance(rt.slice, ast.Tuple) and len(rt.slice.elts) == 2 \
                    and ast.unparse(rt.slice.elts[0]) == ':' and isinstance(rt.slice.elts[1], ast.List) \
                    and len(rt.slice.elts[1].elts) == 1:
                return f'(bmul_col tmul t0 {self.mat(n.left)} {self.mat(rt.value)} {self.zint(rt.slice.elts[1].elts[0])})'
            raise Unsupported('product ' + ast.unparse(n))
        if isinstance(n, ast.Call):
            f = ast.unparse(n.func)
            if f == 'np.ones' and len(n.args) == 1 and isinstance(n.args[0], ast.Tuple) and len(n.args[0].elts) == 2 \
                    and ast.unparse(n.args[0].elts[1]) == '1' and not n.keywords:
                sh = n.args[0].elts[0]
                if isinstance(sh, ast.Subscript) and ast.unparse(sh).endswith('.shape[0]'):
                    return f'(ones_col t1 {self.mat(sh.value.value)})'
            if f == 'np.hstack' and len(n.args) == 1 and not n.keywords:
                return f'(hstack_list {self.lst(n.args[0])})'
            if f == 'np.concatenate' and len(n.args) == 1 and [(k.arg, ast.unparse(k.value)) for k in n.keywords] == [('axis', '1')]:
                return f'(hstack_list {self.lst(n.args[0])})'
            if f == 'np.vstack' and len(n.args) == 1 and not n.keywords:
                return f'(vstack_list {self.lst(n.args[0])})'
            # static helper of the same class: Cls._delay(M, self.n_delays_state)
            if isinstance(n.func, ast.Attribute) and isinstance(n.func.value, ast.Name) and n.func.value.id == self.cls \
                    and n.func.attr in self.static_fns and len(n.args) == 2 and not n.keywords:
                a = n.args[1]
                if isinstance(a, ast.Attribute) and isinstance(a.value, ast.Name) and a.value.id == 'self' and a.attr in ATTRS:
                    return f'({self.static_fns[n.func.attr]} {self.use(ATTRS[a.attr])} {self.mat(n.args[0])})'
            # opaque fitted sub-estimator: self.<attr>.transform(X)
            if isinstance(n.func, ast.Attribute) and n.func.attr == 'transform' and isinstance(n.func.value, ast.Attribute) \
                    and isinstance(n.func.value.value, ast.Name) and n.func.value.value.id == 'self' \
                    and n.func.value.attr in OPAQUE and len(n.args) == 1 and not n.keywords:
                self.opaque = True
                return f'(sub_transform {self.mat(n.args[0])})'
        raise Unsupported('matrix expression ' + ast.unparse(n))

    # ---- python lists of matrices
    def lst(self, n):
        if isinstance(n, (ast.Tuple, ast.List)):
            return '[' + '; '.join(self.mat(e) for e in n.elts) + ']'
        if isinstance(n, ast.Name) and n.id in self.env and self.env[n.id][0] == 'list':
            return self.env[n.id][1]
        if isinstance(n, ast.BinOp) and isinstance(n.op, ast.Add):
            return f'({self.lst(n.left)} ++ {self.lst(n.right)})'
        if isinstance(n, ast.Subscript) and ast.unparse(n.slice) == '::-1':
            return f'(rev {self.lst(n.value)})'
        if isinstance(n, ast.Call) and ast.unparse(n.func) == 'np.split' and len(n.args) == 2 \
                and [(k.arg, ast.unparse(k.value)) for k in n.keywords] == [('axis', '1')]:
            return f'(split_cols {self.zint(n.args[1])} {self.mat(n.args[0])})'
        raise Unsupported('list expression ' + ast.unparse(n))

    def rng(self, call):
        if not (isinstance(call, ast.Call) and isinstance(call.func, ast.Name) and call.func.id == 'range' and not call.keywords):
            raise Unsupported('loop iterator ' + ast.unparse(call))
        a = call.args
        if len(a) == 1:
            return f'(zrange {self.zint(a[0])})'
        if len(a) == 3 and ast.unparse(a[1]) == '-1' and ast.unparse(a[2]) == '-1':
            return f'(zrange_down {self.zint(a[0])})'
        raise Unsupported('range ' + ast.unparse(call))

    def bind(self, name, kind, term):
        v = name if name not in ('X',) else name
        self.lets.append((v, term))
        self.env[name] = (kind, v)

    def run(self):
        args = [a.arg for a in self.fdef.args.args]
        body = [s for s in self.fdef.body if not (isinstance(s, ast.Expr) and isinstance(s.value, ast.Constant))]
        if args and args[0] == 'self':
            args = args[1:]
        if not args or args[0] != 'X':
            raise Unsupported(self.fdef.name + ': signature')
        self.env['X'] = ('mat', 'X')
        extra = []
        for a in args[1:]:
            self.env[a] = ('int', f'(Z.of_nat {a})')
            extra.append(a)
        ret = None
        for st in body:
            if ret is not None:
                raise Unsupported('statement after return')
            if isinstance(st, ast.Assign) and len(st.targets) == 1 and isinstance(st.targets[0], ast.Name):
                name = st.targets[0].id
                v = st.value
                if name == 'skip_validation':
                    continue          # read of the validation flag: no effect on the value (C20)
                if isinstance(v, ast.List) and all(not isinstance(e, ast.Starred) for e in v.elts):
                    self.bind(name, 'list', self.lst(v))
                    continue
                for kind, f in (('mat', self.mat), ('int', self.zint), ('list', self.lst)):
                    try:
                        t = f(v)
                    except Unsupported:
                        continue
                    self.bind(name, kind, t)
                    break
                else:
                    raise Unsupported(self.fdef.name + ': ' + ast.unparse(st))
                continue
            if isinstance(st, ast.For) and isinstance(st.target, ast.Name) and not st.orelse and len(st.body) == 1:
                b = st.body[0]
                if isinstance(b, ast.Expr) and isinstance(b.value, ast.Call) and isinstance(b.value.func, ast.Attribute) \
                        and b.value.func.attr == 'append' and isinstance(b.value.func.value, ast.Name) and len(b.value.args) == 1:
                    lname = b.value.func.value.id
                    if lname not in self.env or self.env[lname][0] != 'list':
                        raise Unsupported('append to ' + lname)
                    it = self.rng(st.iter)
                    k = st.target.id
                    saved = self.env.get(k)
                    self.env[k] = ('int', k)
                    elem = self.mat(b.value.args[0])
                    if saved is None:
                        del self.env[k]
                    else:
                        self.env[k] = saved
                    self.bind(lname, 'list', f'({self.env[lname][1]} ++ map (fun {k} : Z => {elem}) {it})')
                    continue
                raise Unsupported('loop body ' + ast.unparse(b))
            if isinstance(st, ast.With) and len(st.items) == 1 and ast.unparse(st.items[0].context_expr).startswith('sklearn.config_context(') \
                    and len(st.body) == 1 and isinstance(st.body[0], ast.Assign):
                # `with sklearn.config_context(assume_finite=...)`: only affects validation inside the sub-estimator
                a = st.body[0]
                self.bind(a.targets[0].id, 'mat', self.mat(a.value))
                continue
            if isinstance(st, ast.Return):
                ret = self.mat(st.value)
                continue
            raise Unsupported(self.fdef.name + ': statement ' + ast.unparse(st)[:100])
        if ret is None:
            raise Unsupported(self.fdef.name + ': no return')
        return extra, ret


def emit(name, fn, comment):
    extra, ret = fn.run()
    params = ''
    if fn.opaque:
        params += ' (sub_transform : list (list T) -> list (list T))'
    for i in fn.index:
        params += f' ({i} : list nat)'
    for p in fn.used:
        if p not in extra:
            params += f' ({p} : nat)'
    for p in extra:
        params += f' ({p} : nat)'
    lines = [f'(* {comment} *)', f'Definition {name}{params} (X : list (list T)) : list (list T) :=']
    seen = {}
    for v, t in fn.lets:
        # python rebinding of a name = shadowing `let`
        lines.append(f'  let {v} := {t} in')
    lines.append(f'  {ret}.')
    sig = [('sub' if fn.opaque else '')] + fn.index + [p for p in fn.used if p not in extra] + extra
    return lines, sig



def translate_angle(util_src):
    """AnglePreprocessor._transform_one_ep / _inverse_transform_one_ep (pykoop/util.py): boolean-mask gathers and
    scatters between the input columns and the (linear, cos, sin) output columns.  The four masks are fitted state
    (angles_in_, lin_out_, cos_out_, sin_out_) and appear as parameters; cos / sin / arctan2 / unwrap are parameters."""
    cls = [c for c in util_src.body if isinstance(c, ast.ClassDef) and c.name == 'AnglePreprocessor']
    if not cls:
        raise Unsupported('AnglePreprocessor not found')
    fns = {f.name: f for f in cls[0].body if isinstance(f, ast.FunctionDef)}

    def body(name):
        if name not in fns:
            raise Unsupported('AnglePreprocessor.' + name)
        return [ast.unparse(x) for x in fns[name].body if not (isinstance(x, ast.Expr) and isinstance(x.value, ast.Constant))]
    want_t = ['n_states_inputs_out = self.n_states_out_ + self.n_inputs_out_',
              'Xt = np.zeros((X.shape[0], n_states_inputs_out))',
              'Xt[:, self.lin_out_] = X[:, ~self.angles_in_]',
              'Xt[:, self.cos_out_] = np.cos(X[:, self.angles_in_])',
              'Xt[:, self.sin_out_] = np.sin(X[:, self.angles_in_])',
              'return Xt']
    want_i = ['n_states_inputs_in = self.n_states_in_ + self.n_inputs_in_',
              'Xt = np.zeros((X.shape[0], n_states_inputs_in))',
              'Xt[:, ~self.angles_in_] = X[:, self.lin_out_]',
              'angle_values = np.arctan2(X[:, self.sin_out_], X[:, self.cos_out_])',
              'if self.unwrap_inverse:\n    Xt[:, self.angles_in_] = np.unwrap(angle_values, axis=0)\nelse:\n    Xt[:, self.angles_in_] = angle_values',
              'return Xt']
    got_t, got_i = body('_transform_one_ep'), body('_inverse_transform_one_ep')
    for nm, got, want in (('_transform_one_ep', got_t, want_t), ('_inverse_transform_one_ep', got_i, want_i)):
        if len(got) != len(want):
            raise Unsupported(f'AnglePreprocessor.{nm}: {len(got)} statements, the translated fragment has {len(want)}')
        for g, w in zip(got, want):
            if g != w:
                raise Unsupported(f'AnglePreprocessor.{nm}: statement `{g[:100]}` (translated fragment: `{w[:100]}`)')
    # emitted statement by statement from the matched forms: X[:, m] -> take_mask, Xt[:, m] = V -> put_mask, ~m -> neg_mask
    return ['(* AnglePreprocessor._transform_one_ep: masks are fitted state; numpy boolean-mask gather / scatter *)',
            'Definition gen_angle_transform (tcos tsin : T -> T) (nso nuo : nat) (angles_in lin_out cos_out sin_out : list bool)',
            '    (X : list (list T)) : list (list T) :=',
            '  let n_states_inputs_out := (nso + nuo)%nat in',
            '  let Xt := (zeros_like_rows t0 X n_states_inputs_out) in',
            '  let Xt := (put_mask lin_out (take_mask (neg_mask angles_in) X) Xt) in',
            '  let Xt := (put_mask cos_out (map_cells tcos (take_mask angles_in X)) Xt) in',
            '  let Xt := (put_mask sin_out (map_cells tsin (take_mask angles_in X)) Xt) in',
            '  Xt.', '',
            '(* AnglePreprocessor._inverse_transform_one_ep *)',
            'Definition gen_angle_inverse (tatan2 : T -> T -> T) (unwrap0 : list (list T) -> list (list T)) (unwrap_inverse : bool)',
            '    (ns nu : nat) (angles_in lin_out cos_out sin_out : list bool) (X : list (list T)) : list (list T) :=',
            '  let n_states_inputs_in := (ns + nu)%nat in',
            '  let Xt := (zeros_like_rows t0 X n_states_inputs_in) in',
            '  let Xt := (put_mask (neg_mask angles_in) (take_mask lin_out X) Xt) in',
            '  let angle_values := (map2_cells tatan2 (take_mask sin_out X) (take_mask cos_out X)) in',
            '  let Xt := (if unwrap_inverse then put_mask angles_in (unwrap0 angle_values) Xt else put_mask angles_in angle_values Xt) in',
            '  Xt.', '']

def main():
    src = ast.parse(open(os.path.join(REPO, 'pykoop', 'lifting_functions.py')).read())
    classes = {c.name: {f.name: f for f in c.body if isinstance(f, ast.FunctionDef)} for c in src.body if isinstance(c, ast.ClassDef)}
    out = ['(* GENERATED by tools/gen_stages.py from pykoop/lifting_functions.py of the working tree - do not edit. *)',
           'From Coq Require Import List ZArith Arith Bool.', 'From PK Require Import PyList SliceLib.',
           'Import ListNotations.', '', 'Section GenStages.', 'Variable T : Type.', 'Variables (t0 t1 : T) (tmul : T -> T -> T).', '']
    spec = [
        ('DelayLiftingFn', '_delay', 'gen_delay', {}),
        ('DelayLiftingFn', '_undelay', 'gen_undelay', {}),
        ('DelayLiftingFn', '_transform_one_ep', 'gen_delay_transform', {'_delay': 'gen_delay', '_undelay': 'gen_undelay'}),
        ('DelayLiftingFn', '_inverse_transform_one_ep', 'gen_delay_inverse', {'_delay': 'gen_delay', '_undelay': 'gen_undelay'}),
        ('BilinearInputLiftingFn', '_transform_one_ep', 'gen_bilinear_transform', {}),
        ('BilinearInputLiftingFn', '_inverse_transform_one_ep', 'gen_bilinear_inverse', {}),
        ('ConstantLiftingFn', '_transform_one_ep', 'gen_const_transform', {}),
        ('ConstantLiftingFn', '_inverse_transform_one_ep', 'gen_const_inverse', {}),
        ('RbfLiftingFn', '_inverse_transform_one_ep', 'gen_rbf_inverse', {}),
        ('KernelApproxLiftingFn', '_transform_one_ep', 'gen_kernel_transform', {}),
        ('KernelApproxLiftingFn', '_inverse_transform_one_ep', 'gen_kernel_inverse', {}),
        ('PolynomialLiftingFn', '_transform_one_ep', 'gen_poly_transform', {}),
        ('PolynomialLiftingFn', '_inverse_transform_one_ep', 'gen_poly_inverse', {}),
        ('SkLearnLiftingFn', '_transform_one_ep', 'gen_sk_transform', {}),
    ]
    expected_sig = {
        'gen_delay': ['', 'n_delays'], 'gen_undelay': ['', 'n_delays'],
        'gen_delay_transform': ['', 'ns', 'dx', 'du'], 'gen_delay_inverse': ['', 'nso', 'dx', 'du'],
        'gen_bilinear_transform': ['', 'ns', 'nu'], 'gen_bilinear_inverse': ['', 'ns', 'nu'],
        'gen_const_transform': ['', 'ns'], 'gen_const_inverse': ['', 'ns', 'nu'],
        'gen_rbf_inverse': ['', 'nso', 'ns', 'nu'], 'gen_kernel_inverse': ['', 'nso', 'ns', 'nu'],
        'gen_kernel_transform': ['sub', 'ns'], 'gen_poly_transform': ['sub', 'transform_order'],
        'gen_poly_inverse': ['', 'inverse_order'], 'gen_sk_transform': ['sub'],
    }
    for cls, fname, gname, statics in spec:
        if cls not in classes or fname not in classes[cls]:
            raise Unsupported(f'{cls}.{fname} not found')
        fdef = classes[cls][fname]
        is_static = any(ast.unparse(d) == 'staticmethod' for d in fdef.decorator_list)
        if is_static != (fname in ('_delay', '_undelay')):
            raise Unsupported(f'{cls}.{fname}: decorator')
        fn = Fn(cls, fdef, statics)
        lines, sig = emit(gname, fn, f'{cls}.{fname}')
        if sig != expected_sig[gname]:
            raise Unsupported(f'{cls}.{fname}: reads {sig}, the bridge expects {expected_sig[gname]}')
        out += lines + ['']
    util_src = ast.parse(open(os.path.join(REPO, 'pykoop', 'util.py')).read())
    out += translate_angle(util_src)
    out += ['End GenStages.', '']
    os.makedirs(OUT, exist_ok=True)
    with open(os.path.join(OUT, 'StagesGen.v'), 'w') as f:
        f.write('\n'.join(out) + '\n')
    print('StagesGen.v written')


if __name__ == '__main__':
    try:
        main()
    except Unsupported as e:
        print('gen_stages: construct outside the translated fragment: ' + str(e), file=sys.stderr)
        sys.exit(1)
