#!/bin/sh
# usage: seedcheck.sh <seed-dir> <variant> <check-id> [tier]
# Applies a seeded change in a scratch worktree of /repo HEAD and runs one check against it.
D=$1; V=$2; P=$3; T=${4:-quick}
WT=/var/tmp/sc_$(basename $D)_${V}_$P
git -C /repo worktree add -q --detach $WT HEAD || exit 2
( cd $WT && git apply $D/$V.diff ) || { echo "PATCH-FAILED"; git -C /repo worktree remove --force $WT; exit 2; }
cd /verif
START=$(date +%s)
VERIF_REPO=$WT ./check $P --tier $T > /var/tmp/sc_out_$$.txt 2>&1
rc=$?
END=$(date +%s)
nv=$(grep -c '^VIOLATION' /var/tmp/sc_out_$$.txt)
echo "seed=$(basename $D)/$V check=$P rc=$rc violations=$nv secs=$((END-START)) :: $(grep '^VIOLATION' /var/tmp/sc_out_$$.txt | head -2 | tr '\n' ' ')"
[ $rc -ge 2 ] && tail -5 /var/tmp/sc_out_$$.txt
rm -f /var/tmp/sc_out_$$.txt
git -C /repo worktree remove --force $WT
