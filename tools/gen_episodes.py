#!/venv/bin/python
"""Translator for the episode utilities of pykoop/koopman_pipeline.py (C03, C05, C08):
shift_episodes, extract_initial_conditions, extract_input, strip_initial_conditions.

Each of them is `episodes = split_episodes(X, ...)`, a loop `for (i, X_i) in episodes:` whose
body slices X_i and appends `(i, <array>)` to one or two lists, and `combine_episodes(...)` of
those lists.  The loop body is translated into Gallina functions of one episode over the numpy
slice semantics of coq/PyList.v (`pyslice` with negative and open bounds); the frame (split,
apply per episode with the label kept, combine each list) is checked structurally.
BridgeEpisodes.v proves that the generated per-episode functions are the ones of the model
(Episodes.v), so the theorems of C03 / C05 / C08 about `map_episodes` apply to the code.
Fail-closed."""
import ast
import os
import sys

REPO = os.environ.get('VERIF_REPO', '/repo')
OUT = sys.argv[1] if len(sys.argv) > 1 else '/verif/coq/Gen'


class Unsupported(Exception):
    pass


def bound(n, env):
    """a slice bound: None -> open; integer constant; name of a nat parameter; -name"""
    if n is None:
        return 'None'
    if isinstance(n, ast.Constant) and isinstance(n.value, int):
        return f'(Some ({n.value})%Z)'
    if isinstance(n, ast.UnaryOp) and isinstance(n.op, ast.USub):
        if isinstance(n.operand, ast.Constant) and isinstance(n.operand.value, int):
            return f'(Some (-{n.operand.value})%Z)'
        if isinstance(n.operand, ast.Name) and env.get(n.operand.id) == 'nat':
            return f'(Some (- Z.of_nat {n.operand.id})%Z)'
    if isinstance(n, ast.Name) and env.get(n.id) == 'nat':
        return f'(Some (Z.of_nat {n.id}))'
    if isinstance(n, ast.Name) and env.get(n.id) == 'width_minus_inputs':
        return f'(Some (Z.of_nat (width X_i - n_inputs)))'
    raise Unsupported('slice bound ' + ast.unparse(n))


def expr(n, env):
    """array expression built from the episode X_i (or a previous local) by basic slicing"""
    if isinstance(n, ast.Name):
        if n.id in env and env[n.id].startswith('('):
            return env[n.id]
        if n.id == 'X_i':
            return 'X_i'
        raise Unsupported('name ' + n.id)
    if isinstance(n, ast.Subscript):
        base = expr(n.value, env)
        s = n.slice
        if isinstance(s, ast.Tuple) and len(s.elts) == 2 and all(isinstance(e, ast.Slice) for e in s.elts):
            r, c = s.elts
            if r.step is not None or c.step is not None:
                raise Unsupported('slice step')
            out = base
            if r.lower is not None or r.upper is not None:
                out = f'(slice_rows {bound(r.lower, env)} {bound(r.upper, env)} {out})'
            if c.lower is not None or c.upper is not None:
                out = f'(slice_cols {bound(c.lower, env)} {bound(c.upper, env)} {out})'
            return out
        if isinstance(s, ast.Slice) and s.step is None:
            return f'(slice_rows {bound(s.lower, env)} {bound(s.upper, env)} {base})'
        raise Unsupported('subscript ' + ast.unparse(n))
    if isinstance(n, ast.Call) and ast.unparse(n.func) == 'np.zeros' and ast.unparse(n.args[0]) == '(X_i.shape[0], 0)':
        return '(map (fun _ => []) X_i)'
    raise Unsupported('expression ' + ast.unparse(n))


def body_term(stmts, env, outputs):
    """returns {list name: coq term}; handles `if n_inputs == 0: ... else: ...` forks"""
    env = dict(env)
    result = {}
    for st in stmts:
        if isinstance(st, ast.Assign) and len(st.targets) == 1 and isinstance(st.targets[0], ast.Name):
            name = st.targets[0].id
            if ast.unparse(st.value) == 'X_i.shape[1] - n_inputs':
                env[name] = 'width_minus_inputs'
                continue
            env[name] = expr(st.value, env)
            continue
        if isinstance(st, ast.If):
            if ast.unparse(st.test) != 'n_inputs == 0':
                raise Unsupported('test ' + ast.unparse(st.test))
            a_env, b_env = dict(env), dict(env)
            ra = body_term(st.body, a_env, outputs)
            rb = body_term(st.orelse, b_env, outputs)
            if ra[1] or rb[1]:
                raise Unsupported('append inside a branch')
            for k in set(ra[0]) | set(rb[0]):
                if k not in ra[0] or k not in rb[0]:
                    env.pop(k, None)          # local of one branch only: not visible afterwards
                    continue
                if ra[0][k] == rb[0][k]:
                    continue
                if ra[0][k].startswith('(') or rb[0][k].startswith('('):
                    env[k] = f'(if Nat.eqb n_inputs 0 then {ra[0][k]} else {rb[0][k]})'
            continue
        if isinstance(st, ast.Expr) and isinstance(st.value, ast.Call) and isinstance(st.value.func, ast.Attribute) \
                and st.value.func.attr == 'append':
            lst = ast.unparse(st.value.func.value)
            arg = st.value.args[0]
            if not (isinstance(arg, ast.Tuple) and len(arg.elts) == 2 and ast.unparse(arg.elts[0]) == 'i'):
                raise Unsupported('appended value is not (i, array): the episode label must be kept')
            if lst not in outputs:
                raise Unsupported('append to ' + lst)
            result[lst] = expr(arg.elts[1], env)
            continue
        raise Unsupported('statement ' + ast.unparse(st)[:120])
    new = {k: v for k, v in env.items()}
    return new, result


def translate(fn, params):
    """params: nat parameters of the function that may appear in slice bounds"""
    stmts = [s for s in fn.body if not (isinstance(s, ast.Expr) and isinstance(s.value, ast.Constant))]
    if not (isinstance(stmts[0], ast.Assign) and ast.unparse(stmts[0]) == 'episodes = split_episodes(X, episode_feature=episode_feature)'):
        raise Unsupported(fn.name + ': does not start by splitting into episodes')
    lists = []
    loop = None
    tail = []
    for st in stmts[1:]:
        if isinstance(st, ast.Assign) and isinstance(st.value, ast.List) and not st.value.elts:
            lists.append(st.targets[0].id)
        elif isinstance(st, ast.For):
            if loop is not None or ast.unparse(st.target) not in ('(i, X_i)', 'i, X_i') or ast.unparse(st.iter) != 'episodes' or st.orelse:
                raise Unsupported(fn.name + ': loop shape')
            loop = st
        else:
            tail.append(st)
    if loop is None:
        raise Unsupported(fn.name + ': no loop over episodes')
    env = {p: 'nat' for p in params}
    _, res = body_term(loop.body, env, lists)
    if set(res) != set(lists):
        raise Unsupported(fn.name + ': not every list receives one entry per episode')
    # frame: every list is recombined with the same episode_feature and returned in order
    combined = {}
    ret = None
    for st in tail:
        if isinstance(st, ast.Assign) and isinstance(st.value, ast.Call) and ast.unparse(st.value.func) == 'combine_episodes':
            a = st.value
            if len(a.args) != 1 or ast.unparse(a.args[0]) not in lists or \
                    [(k.arg, ast.unparse(k.value)) for k in a.keywords] != [('episode_feature', 'episode_feature')]:
                raise Unsupported(fn.name + ': combine_episodes call')
            combined[st.targets[0].id] = ast.unparse(a.args[0])
        elif isinstance(st, ast.Return):
            ret = [ast.unparse(e) for e in (st.value.elts if isinstance(st.value, ast.Tuple) else [st.value])]
        else:
            raise Unsupported(fn.name + ': ' + ast.unparse(st)[:100])
    if ret is None or any(r not in combined for r in ret):
        raise Unsupported(fn.name + ': returns something other than the recombined lists')
    return [(combined[r], res[combined[r]]) for r in ret]



def src_eq(node, text):
    return ast.unparse(node).replace(' ', '') == text.replace(' ', '')


def translate_unique(fn):
    """unique_episodes(X_ep): an optional validation guard (raise only, under `not skip_validation`), then
    `return np.flatnonzero(np.bincount(X_ep.astype(int)))`"""
    stmts = [s for s in fn.body if not (isinstance(s, ast.Expr) and isinstance(s.value, ast.Constant))]
    if [a.arg for a in fn.args.args] != ['X_ep']:
        raise Unsupported('unique_episodes: signature')
    body = list(stmts)
    if isinstance(body[0], ast.If) and src_eq(body[0].test, "not config.get_config()['skip_validation']") and not body[0].orelse:
        inner = body[0].body
        ok = len(inner) == 1 and isinstance(inner[0], ast.If) and not inner[0].orelse and \
            all(isinstance(x, ast.Raise) for x in inner[0].body)
        if not ok:
            raise Unsupported('unique_episodes: the validation block does more than raise')
        body = body[1:]
    if len(body) != 1 or not isinstance(body[0], ast.Return) or \
            not src_eq(body[0].value, 'np.flatnonzero(np.bincount(X_ep.astype(int)))'):
        raise Unsupported('unique_episodes: ' + ast.unparse(body[0])[:100])
    return '(flatnonzero (bincount X_ep))'


def translate_split(fn):
    """split_episodes(X, episode_feature): label column / data columns, one boolean-mask selection per unique label"""
    stmts = [s for s in fn.body if not (isinstance(s, ast.Expr) and isinstance(s.value, ast.Constant))]
    if [a.arg for a in fn.args.args] != ['X', 'episode_feature']:
        raise Unsupported('split_episodes: signature')
    if len(stmts) != 2 or not isinstance(stmts[0], ast.If) or not src_eq(stmts[0].test, 'episode_feature') \
            or not isinstance(stmts[1], ast.Return) or not src_eq(stmts[1].value, 'episodes'):
        raise Unsupported('split_episodes: shape of the body')
    t, e = stmts[0].body, stmts[0].orelse
    if len(e) != 1 or not src_eq(e[0], 'episodes = [(0, X)]'):
        raise Unsupported('split_episodes: branch without episode feature: ' + ast.unparse(e[0])[:80])
    if len(t) != 4 or not src_eq(t[0], 'X_ep = X[:, 0]') or not src_eq(t[1], 'X = X[:, 1:]') or not src_eq(t[2], 'episodes = []'):
        raise Unsupported('split_episodes: branch with episode feature (prologue)')
    loop = t[3]
    if not (isinstance(loop, ast.For) and src_eq(loop.target, 'i') and src_eq(loop.iter, 'unique_episodes(X_ep)')
            and not loop.orelse and len(loop.body) == 1 and src_eq(loop.body[0], 'episodes.append((i, X[X_ep == i, :]))')):
        raise Unsupported('split_episodes: loop: ' + ast.unparse(loop)[:160])
    return ('(if episode_feature then\n'
            '     let X_ep := label_column X in let X := data_columns X in\n'
            '     [] ++ map (fun i => (i, mask_rows (map (fun l => N.eqb l i) X_ep) X)) (gen_unique_episodes X_ep)\n'
            '   else [(0%N, data_columns X)])')


def translate_combine(fn):
    """combine_episodes(episodes, episode_feature): label column re-attached (or not) per episode, vstack"""
    stmts = [s for s in fn.body if not (isinstance(s, ast.Expr) and isinstance(s.value, ast.Constant))]
    if [a.arg for a in fn.args.args] != ['episodes', 'episode_feature']:
        raise Unsupported('combine_episodes: signature')
    if len(stmts) != 4 or not src_eq(stmts[0], 'combined_episodes = []') or not isinstance(stmts[1], ast.For) \
            or not src_eq(stmts[2], 'Xc = np.vstack(combined_episodes)') or not src_eq(stmts[3], 'return Xc'):
        raise Unsupported('combine_episodes: shape of the body')
    loop = stmts[1]
    if not (src_eq(loop.target, '(i, X)') and src_eq(loop.iter, 'episodes') and not loop.orelse and len(loop.body) == 1
            and isinstance(loop.body[0], ast.If) and src_eq(loop.body[0].test, 'episode_feature')):
        raise Unsupported('combine_episodes: loop')
    a, b = loop.body[0].body, loop.body[0].orelse
    if len(a) != 1 or not src_eq(a[0], 'combined_episodes.append(np.hstack((i * np.ones((X.shape[0], 1)), X)))'):
        raise Unsupported('combine_episodes: labelled branch: ' + ast.unparse(a[0])[:120])
    if len(b) != 1 or not src_eq(b[0], 'combined_episodes.append(X)'):
        raise Unsupported('combine_episodes: unlabelled branch')
    return ('(vstack_list ([] ++ map (fun e => let i := fst e in let X := snd e in\n'
            '       if episode_feature then attach_label i X else attach_label 0%N X) episodes))')


def main():
    src = ast.parse(open(os.path.join(REPO, 'pykoop', 'koopman_pipeline.py')).read())
    fns = {f.name: f for f in src.body if isinstance(f, ast.FunctionDef)}
    out = ['(* GENERATED by tools/gen_episodes.py from the episode utilities of the working tree - do not edit. *)',
           'From Coq Require Import List ZArith NArith Arith Bool.', 'From PK Require Import PyList SliceLib.',
           'Import ListNotations.', '', 'Section GenEpisodes.', 'Variable T : Type.', '']
    spec = [('shift_episodes', ['n_inputs'], ['gen_shift_unshifted_ep', 'gen_shift_shifted_ep']),
            ('extract_initial_conditions', ['min_samples', 'n_inputs'], ['gen_extract_ic_ep']),
            ('extract_input', ['n_inputs'], ['gen_extract_input_ep']),
            ('strip_initial_conditions', ['min_samples'], ['gen_strip_ic_ep'])]
    for name, params, gens in spec:
        if name not in fns:
            raise Unsupported('function ' + name)
        got = [a.arg for a in fns[name].args.args]
        if got[0] != 'X' or 'episode_feature' not in got or any(p not in got for p in params):
            raise Unsupported(name + ': signature ' + str(got))
        terms = translate(fns[name], params)
        if len(terms) != len(gens):
            raise Unsupported(name + ': number of results')
        for g, (lst, t) in zip(gens, terms):
            ps = ' '.join(f'({p} : nat)' for p in params)
            out += [f'(* {name}: the entry appended to `{lst}` for one episode X_i *)',
                    f'Definition {g} {ps} (X_i : list (list T)) : list (list T) :=', f'  {t}.', '']
    for nm in ('unique_episodes', 'split_episodes', 'combine_episodes'):
        if nm not in fns:
            raise Unsupported('function ' + nm)
    out += ['(* unique_episodes: the labels are whole numbers (N); the guard that rejects other values is a raise-only block *)',
            'Definition gen_unique_episodes (X_ep : list N) : list N :=', '  ' + translate_unique(fns['unique_episodes']) + '.', '',
            '(* split_episodes on a data matrix given as (label, data row) pairs; without episode feature the label is ignored *)',
            'Definition gen_split_episodes (X : list (N * list T)) (episode_feature : bool) : list (N * list (list T)) :=',
            '  ' + translate_split(fns['split_episodes']) + '.', '',
            '(* combine_episodes *)',
            'Definition gen_combine_episodes (episodes : list (N * list (list T))) (episode_feature : bool) : list (N * list T) :=',
            '  ' + translate_combine(fns['combine_episodes']) + '.', '']
    out += ['End GenEpisodes.', '']
    os.makedirs(OUT, exist_ok=True)
    with open(os.path.join(OUT, 'EpisodesGen.v'), 'w') as f:
        f.write('\n'.join(out) + '\n')
    print('EpisodesGen.v written')


if __name__ == '__main__':
    try:
        main()
    except Unsupported as e:
        print('gen_episodes: construct outside the translated fragment: ' + str(e), file=sys.stderr)
        sys.exit(1)
