#!/bin/sh
# Runs the pinned test suite of /repo (guard off) and compares with BASELINE.json's stable_pass list.
# usage: tools/baseline.sh [repo_dir]   -> prints missing stable-pass tests; exit 0 iff none missing
R=${1:-/repo}
OUT=$(mktemp -d /var/tmp/baseline.XXXXXX)
cd "$R" && env -u PYKOOP_VERIF PYTHONPATH="$R" /venv/bin/python -m pytest -ra -q -p no:cacheprovider --timeout=900 --continue-on-collection-errors --junitxml="$OUT/junit.xml" > "$OUT/log.txt" 2>&1
/venv/bin/python - "$OUT/junit.xml" <<'PY'
import json, sys, xml.etree.ElementTree as ET
b = json.load(open('/root/.vp/BASELINE.json'))
passed = set()
for tc in ET.parse(sys.argv[1]).getroot().iter('testcase'):
    bad = any(c.tag in ('failure', 'error', 'skipped') for c in tc)
    if not bad:
        passed.add(f"{tc.get('classname')}::{tc.get('name')}")
missing = [t for t in b['stable_pass'] if t not in passed]
print('passed', len(passed), 'stable_pass', len(b['stable_pass']), 'missing', len(missing))
for m in missing[:50]:
    print('MISSING', m)
sys.exit(1 if missing else 0)
PY
rc=$?
rm -rf "$OUT"
exit $rc
