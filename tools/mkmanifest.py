#!/venv/bin/python
"""Regenerates MANIFEST.json from the table below (kept valid at all times)."""
import json, os
V = os.path.dirname(os.path.dirname(os.path.abspath(__file__)))
ALL = [f'C{k:02d}' for k in range(1, 21)]
CLAIMS = {}
def claim(pid, category, text, note, technique, design_ref):
    CLAIMS[pid] = dict(category=category, text=text, note=note, technique=technique, design_ref=design_ref)

exec(open(os.path.join(V, 'tools', 'claims.py')).read())

checks = []
for pid in ALL:
    if pid not in CLAIMS:
        continue
    c = CLAIMS[pid]
    checks.append({
        'property_id': pid,
        'quick_cmd': f'./check {pid} --tier quick',
        'thorough_cmd': f'./check {pid} --tier thorough',
        'evidence_file': f'/verif/evidence/{pid}.json',
        'replay_cmd_template': f'./check {pid} --replay {{path}}',
        'engine': 'coq-model+correspondence',
        'level_claimed': {'category': c['category'], 'text': c['text'], 'design_ref': c['design_ref']},
        'level_note': c['note'],
        'technique': c['technique'],
    })
na = [{'property_id': p, 'reason': NOT_YET.get(p, 'check not built yet in this session; no claim made')} for p in ALL if p not in CLAIMS]
m = {
    'version': 1,
    'setup_cmd': './setup.sh',
    'hooks': {
        'guard': 'PYKOOP_VERIF',
        'enable': 'no source hooks: recording regressors, integer sub-estimators, the scripted solver and thread shims are installed by the harness at run time through public extension points; PYKOOP_VERIF=1 is exported by ./check for completeness',
        'baseline_off_cmd': 'cd /repo && env -u PYKOOP_VERIF /venv/bin/python -m pytest -ra -q -p no:cacheprovider --timeout=900 --continue-on-collection-errors',
        'source_commits': [],
        'add_only': True,
    },
    'engines': [{
        'name': 'coq-model+correspondence',
        'path': '/verif/coq + /verif/harness',
        'serves_properties': sorted(CLAIMS),
        'kind_free_text': 'Machine-checked proof in Coq 8.16 of theorems about a hand-written executable model of pykoop; the model is tied to /repo on every run by executing it inside Coq (vm_compute) on generated cases and comparing with the implementation, by translators regenerating Gen/*.v from the source, and by certificate checks; a direct property search on the implementation produces the replay when a tie or proof breaks.',
    }],
    'checks': checks,
    'not_applicable': na,
    'notes': 'See DESIGN.md. known_findings.json lists recorded genuine defects; fix: commits in /repo are listed there under fixed.',
}
json.dump(m, open(os.path.join(V, 'MANIFEST.json'), 'w'), indent=1)
print('claimed', sorted(CLAIMS), 'not claimed', [x['property_id'] for x in na])
