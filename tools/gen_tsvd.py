#!/venv/bin/python
"""Translator for the rank selection and the slicing of Tsvd.fit (pykoop/tsvd.py, C14).

After `Q, sig, Zh = linalg.svd(X, full_matrices=False)` and `Z = Zh.T` the method chooses `rank` in an if / elif chain on
`self.truncation` and slices the three factors with it.  The chain is translated branch by branch (a branch is a short
block of assignments to `rank` and to locals, possibly under one `if .. else`):

  sig.shape[0]                         ->  length sig
  self.truncation_param                ->  the parameter (a number of singular values for 'rank', a value for 'cutoff')
  np.where(sig > self.truncation_param)->  the ascending list of indices i with cutoff < sig[i]   (find_all)
  <indices>[0].size > 0                ->  that list is not empty
  np.max(<indices>) + 1                ->  its largest element plus one
  optht.optht(X.T, sig[, param])       ->  an oracle (third-party optimal hard threshold), a parameter

and `Q[:, :rank]`, `sig[:rank]`, `Z[:, :rank]` stored as the three fitted attributes become `firstn rank` of the list of
columns / values.  Validation statements in front may only raise.  coq/BridgeTsvd.v proves the generated function equal
to `rank_rule` / `truncate` of coq/TsvdModel.v.  Fail-closed."""
import ast
import os
import sys

REPO = os.environ.get('VERIF_REPO', '/repo')
OUT = sys.argv[1] if len(sys.argv) > 1 else '/verif/coq/Gen'
METHODS = ['economy', 'unknown_noise', 'known_noise', 'cutoff', 'rank']


class Unsupported(Exception):
    pass


def u(n):
    return ast.unparse(n)


class Br:
    def __init__(self, method):
        self.method = method
        self.env = {}

    def nat(self, n):
        t = u(n)
        if t == 'sig.shape[0]':
            return '(length sig)'
        if t == 'self.truncation_param' and self.method == 'rank':
            return 'rank_param'
        if isinstance(n, ast.Constant) and isinstance(n.value, int) and n.value >= 0:
            return f'{n.value}'
        if isinstance(n, ast.BinOp) and isinstance(n.op, ast.Add):
            return f'({self.nat(n.left)} + {self.nat(n.right)})'
        if isinstance(n, ast.Call) and u(n.func) == 'np.max' and len(n.args) == 1 and isinstance(n.args[0], ast.Name) \
                and self.env.get(n.args[0].id) == 'idx' and not n.keywords:
            return f'(list_max {n.args[0].id})'
        if isinstance(n, ast.Call) and u(n.func) == 'optht.optht' and not n.keywords:
            a = [u(x) for x in n.args]
            if a == ['X.T', 'sig'] and self.method == 'unknown_noise':
                return 'oracle'
            if a == ['X.T', 'sig', 'self.truncation_param'] and self.method == 'known_noise':
                return 'oracle'
        raise Unsupported(f'Tsvd.fit ({self.method}): number {t}')

    def idx(self, n):
        # np.where(sig > self.truncation_param): the indices of the values above the cutoff
        if isinstance(n, ast.Call) and u(n.func) == 'np.where' and len(n.args) == 1 and not n.keywords \
                and isinstance(n.args[0], ast.Compare) and len(n.args[0].ops) == 1 and isinstance(n.args[0].ops[0], ast.Gt) \
                and u(n.args[0].left) == 'sig' and u(n.args[0].comparators[0]) == 'self.truncation_param' and self.method == 'cutoff':
            return '(find_all (fun s => ltb cutoff_param s) sig)'
        raise Unsupported(f'Tsvd.fit ({self.method}): index set {u(n)}')

    def cond(self, n):
        # <indices>[0].size > 0
        if isinstance(n, ast.Compare) and len(n.ops) == 1 and isinstance(n.ops[0], ast.Gt) and u(n.comparators[0]) == '0' \
                and isinstance(n.left, ast.Attribute) and n.left.attr == 'size' and isinstance(n.left.value, ast.Subscript) \
                and u(n.left.value.slice) == '0' and isinstance(n.left.value.value, ast.Name) \
                and self.env.get(n.left.value.value.id) == 'idx':
            return f'(0 <? length {n.left.value.value.id})'
        raise Unsupported(f'Tsvd.fit ({self.method}): condition {u(n)}')

    def block(self, stmts):
        """returns the Gallina term of `rank` after the statements"""
        lets = []
        rank = None
        for s in stmts:
            if rank is not None:
                raise Unsupported(f'Tsvd.fit ({self.method}): statement after the rank is set')
            if isinstance(s, ast.Assign) and len(s.targets) == 1 and isinstance(s.targets[0], ast.Name):
                nm = s.targets[0].id
                if nm == 'rank':
                    rank = self.nat(s.value)
                else:
                    lets.append(f'let {nm} := {self.idx(s.value)} in')
                    self.env[nm] = 'idx'
                continue
            if isinstance(s, ast.If) and s.orelse:
                c = self.cond(s.test)
                a = Br(self.method); a.env = dict(self.env)
                b = Br(self.method); b.env = dict(self.env)
                rank = f'(if {c} then {a.block(s.body)} else {b.block(s.orelse)})'
                continue
            raise Unsupported(f'Tsvd.fit ({self.method}): statement {u(s)[:120]}')
        if rank is None:
            raise Unsupported(f'Tsvd.fit ({self.method}): rank is not set')
        return ' '.join(lets + [rank])


def main():
    src = ast.parse(open(os.path.join(REPO, 'pykoop', 'tsvd.py')).read())
    cls = [c for c in src.body if isinstance(c, ast.ClassDef) and c.name == 'Tsvd']
    if not cls:
        raise Unsupported('class Tsvd not found')
    fit = [f for f in cls[0].body if isinstance(f, ast.FunctionDef) and f.name == 'fit']
    if not fit:
        raise Unsupported('Tsvd.fit not found')
    body = [s for s in fit[0].body if not (isinstance(s, ast.Expr) and isinstance(s.value, ast.Constant))]
    t = [u(s) for s in body]
    try:
        i_svd = t.index('(Q, sig, Zh) = linalg.svd(X, full_matrices=False)')
    except ValueError:
        try:
            i_svd = t.index('Q, sig, Zh = linalg.svd(X, full_matrices=False)')
        except ValueError:
            raise Unsupported('Tsvd.fit: the economy SVD call')
    # in front of the SVD: check_array, bookkeeping of n_features_in_, lists of method names, raise-only checks
    for s in body[:i_svd]:
        ok = (u(s) == 'X = sklearn.utils.validation.check_array(X)' or u(s) == 'self.n_features_in_ = X.shape[1]'
              or (isinstance(s, ast.Assign) and isinstance(s.targets[0], ast.Name) and s.targets[0].id.startswith('valid_methods'))
              or (isinstance(s, ast.If) and not s.orelse and all(isinstance(x, ast.Raise) for x in s.body)))
        if not ok:
            raise Unsupported(f'Tsvd.fit: statement in front of the SVD: {u(s)[:120]}')
    rest = body[i_svd + 1:]
    if u(rest[0]) != 'Z = Zh.T' or not isinstance(rest[1], ast.If):
        raise Unsupported('Tsvd.fit: Z = Zh.T / the chain on self.truncation')
    # the if / elif chain
    branches = {}
    node = rest[1]
    while True:
        c = node.test
        if not (isinstance(c, ast.Compare) and u(c.left) == 'self.truncation' and len(c.ops) == 1 and isinstance(c.ops[0], ast.Eq)
                and isinstance(c.comparators[0], ast.Constant)):
            raise Unsupported(f'Tsvd.fit: test of the chain: {u(c)}')
        m = c.comparators[0].value
        if m in branches or m not in METHODS:
            raise Unsupported(f'Tsvd.fit: method {m}')
        branches[m] = Br(m).block(node.body)
        if len(node.orelse) == 1 and isinstance(node.orelse[0], ast.If):
            node = node.orelse[0]
            continue
        if not all(isinstance(x, (ast.Assert, ast.Raise)) for x in node.orelse):
            raise Unsupported('Tsvd.fit: the final else of the chain does more than fail')
        break
    if sorted(branches) != sorted(METHODS):
        raise Unsupported(f'Tsvd.fit: methods {sorted(branches)}')
    tail = [u(s) for s in rest[2:]]
    want = {'Q_r = Q[:, :rank]', 'sig_r = sig[:rank]', 'Z_r = Z[:, :rank]', 'self.left_singular_vectors_ = Q_r',
            'self.singular_values_ = sig_r', 'self.right_singular_vectors_ = Z_r', 'return self'}
    seen = set()
    for s, txt in zip(rest[2:], tail):
        if txt in want:
            seen.add(txt)
        elif (isinstance(s, ast.Assign) and u(s.targets[0]) == 'stats') or txt.startswith('log.info('):
            continue
        else:
            raise Unsupported(f'Tsvd.fit: statement after the chain: {txt[:120]}')
    if seen != want:
        raise Unsupported(f'Tsvd.fit: slicing / stores: missing {sorted(want - seen)}')
    out = ['(* GENERATED by tools/gen_tsvd.py from pykoop/tsvd.py of the working tree - do not edit. *)',
           'From Coq Require Import List Bool Arith.', 'From PK Require Import PyList.', 'Import ListNotations.', '',
           'Section GenTsvd.', 'Variable Sv : Type.', 'Variable ltb : Sv -> Sv -> bool.', '',
           'Inductive gen_method := ' + ' | '.join('M_' + m for m in METHODS) + '.', '',
           '(* np.max of a non-empty index list *)',
           'Definition list_max (l : list nat) : nat := match l with [] => 0 | i :: rest => fold_left Nat.max rest i end.', '',
           '(* the rank chosen by Tsvd.fit; oracle: what optht.optht returns *)',
           'Definition gen_tsvd_rank (method : gen_method) (rank_param : nat) (cutoff_param : Sv) (oracle : nat) (sig : list Sv) : nat :=',
           '  match method with']
    out += [f'  | M_{m} => {branches[m]}' for m in METHODS]
    out += ['  end.', '',
            '(* the fitted attributes: Q[:, :rank], sig[:rank], Z[:, :rank] (the factors as lists of columns) *)',
            'Definition gen_tsvd_factors (A B : Type) (method : gen_method) (rank_param : nat) (cutoff_param : Sv) (oracle : nat)',
            '    (Qcols : list A) (sig : list Sv) (Zcols : list B) : list A * list Sv * list B :=',
            '  let rank := gen_tsvd_rank method rank_param cutoff_param oracle sig in',
            '  (firstn rank Qcols, firstn rank sig, firstn rank Zcols).', '', 'End GenTsvd.', '']
    os.makedirs(OUT, exist_ok=True)
    with open(os.path.join(OUT, 'TsvdGen.v'), 'w') as f:
        f.write('\n'.join(out) + '\n')
    print('TsvdGen.v written')


if __name__ == '__main__':
    try:
        main()
    except Unsupported as e:
        print('gen_tsvd: construct outside the translated fragment: ' + str(e), file=sys.stderr)
        sys.exit(1)
