#!/venv/bin/python
"""Translator for the H-infinity LMIs (C10): the PICOS block matrices of pykoop/lmi_regressors.py into mathcomp `block_mx` terms.
The translation itself is in tools/lmilib.py (shared by the four gen_lmi_*.py).  Fail-closed."""
import os
import sys

sys.path.insert(0, os.path.dirname(os.path.abspath(__file__)))
import lmilib  # noqa

OUT = sys.argv[1] if len(sys.argv) > 1 else '/verif/coq/Gen'

if __name__ == '__main__':
    lmilib.run('gen_lmi_hinf.py', lmilib.emit_hinf, os.path.join(OUT, 'LmiHinfGen.v'))
