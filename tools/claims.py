# property claims (exec'd by mkmanifest.py)
NOT_YET = {}
claim('C05', 'proof',
      'Unbounded Coq theorems (Props/C05.v) on the model of shift_episodes / KoopmanRegressor.fit: the training pairs are exactly the within-episode consecutive pairs for every matrix, labelling, arrangement and n_inputs; arrangement invariance; injective relabelling permutes the pairs. The model is executed in Coq against what a recording regressor receives from the real code (bare and pipeline-embedded), and the coef_ invariance clause is checked on five regressor classes.',
      'Trusted: Coq kernel (vm_compute), the case generator/renderer, numpy boolean-mask semantics as modelled in Episodes.v (validated by the correspondence), LAPACK as oracle for the numeric coef_ clause (rtol 1e-6).',
      'Coq proof + vm_compute model/implementation correspondence + direct property test', 'DESIGN.md §3 C05')
