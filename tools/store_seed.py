#!/venv/bin/python
"""store_seed.py <seed-dir> <PID>: copy verified seeded changes into /verif/seeded/<PID>_<v>/"""
import json, os, shutil, sys, re
src, pid = sys.argv[1], sys.argv[2]
notes = open(os.path.join(src, 'notes.md')).read() if os.path.exists(os.path.join(src, 'notes.md')) else ''
for v in ('a', 'b', 'c', 'd', 'e', 'f', 'g', 'h', 'i', 'j', 'k', 'l', 'm', 'n'):
    vf = os.path.join(src, f'verify_{v}.json')
    if not os.path.exists(vf):
        continue
    ver = json.load(open(vf))
    ok = ver['patch_applies'] and ver['demo_exit_pristine'] == 0 and ver['demo_exit_with_patch'] != 0 \
        and ver['demo_exit_after_revert'] == 0 and 'missing 0' in ver['suite']
    if not ok:
        print('NOT KEPT', pid, v, ver); continue
    dst = os.path.join('/verif/seeded', f'{pid}_{v}')
    os.makedirs(dst, exist_ok=True)
    shutil.copy(os.path.join(src, f'{v}.diff'), os.path.join(dst, 'patch.diff'))
    shutil.copy(os.path.join(src, f'demo_{v}.py'), os.path.join(dst, 'demo.py'))
    open(os.path.join(dst, 'notes.md'), 'w').write(notes)
    meta = {
        'property': pid, 'variant': v,
        'origin': 'written by an independent sub-agent given only the property text and a scratch worktree',
        'needs_to_manifest': 'see notes.md (section for variant %s)' % v,
        'confirmed_by_me': {
            'procedure': 'tools/verify_seed.sh in a scratch worktree of /repo HEAD: demo on pristine tree, git apply patch.diff, demo again, full pinned suite compared with BASELINE.json stable_pass (tools/baseline.sh), git checkout, demo again',
            'demo_exit_pristine': ver['demo_exit_pristine'], 'demo_exit_with_patch': ver['demo_exit_with_patch'],
            'demo_exit_after_revert': ver['demo_exit_after_revert'], 'suite_with_patch': ver['suite']},
    }
    json.dump(meta, open(os.path.join(dst, 'meta.json'), 'w'), indent=1)
    print('kept', dst)
