#!/venv/bin/python
"""Translator for the closed-form numeric code of C17 / C18: regenerates coq/Gen/Numeric.v
from /repo's current source.

Translated (per data row; a row is `list R`, a weight matrix is the list of its columns, a
centre array the list of its rows):
  * RandomFourierKernelApprox.transform          (both methods: the `if self.method ==` fork)
  * KernelApproxLiftingFn._transform_one_ep      (stacking)
  * RbfLiftingFn._transform_one_ep               (difference, radius, radial function, stacking)
  * RbfLiftingFn._rbf_<name> for every entry of _rbf_lookup, and _offset_lookup
  * centers._feature_range                       (per feature column x0 :: l)

The translator is a small kinded abstract interpreter of the Python AST: every value has a
kind (S scalar, V row vector, M matrix / list of vectors, LV list of difference vectors,
COL feature column, B bool) and each numpy operation is mapped to the Coq function of
coq/AlgR/NumLib.v that has its per-row meaning.  Any construct outside the table below makes
the translator fail (exit 1): fail-closed."""
import ast
import os
import sys
from fractions import Fraction

REPO = os.environ.get('VERIF_REPO', '/repo')
OUT = sys.argv[1] if len(sys.argv) > 1 else '/verif/coq/Gen'


class Unsupported(Exception):
    pass


def num(v):
    if isinstance(v, bool):
        raise Unsupported('bool constant')
    if isinstance(v, int):
        return f'(IZR ({v}))' if v < 0 else f'{v}'
    if isinstance(v, float):
        fr = Fraction(repr(v))
        return f'({fr.numerator} / {fr.denominator})'
    raise Unsupported(f'constant {v!r}')


def dotted(n):
    if isinstance(n, ast.Name):
        return n.id
    if isinstance(n, ast.Attribute):
        return dotted(n.value) + '.' + n.attr
    raise Unsupported(ast.dump(n))


SCALAR_FUNS = {'np.sqrt': 'sqrt', 'np.cos': 'cos', 'np.sin': 'sin', 'np.exp': 'exp', 'np.log': 'ln',
               'np.abs': 'Rabs'}


class Interp:
    def __init__(self, env, assume=None, local_funs=None):
        self.env = dict(env)          # name -> (kind, coq term)
        self.assume = assume or {}    # source text of a test -> bool
        self.lets = []
        self.local_funs = local_funs or {}

    # ------------------------------------------------------------ expressions
    def ex(self, n):
        try:
            key = ast.unparse(n)
        except Exception:  # noqa
            key = None
        if key is not None and key in self.env and not isinstance(n, (ast.Name, ast.Attribute)):
            return self.env[key]
        if isinstance(n, ast.Constant):
            return ('S', num(n.value))
        if isinstance(n, (ast.Name, ast.Attribute)):
            key = dotted(n)
            if key in self.env:
                return self.env[key]
            raise Unsupported(f'unknown name {key}')
        if isinstance(n, ast.UnaryOp) and isinstance(n.op, ast.USub):
            k, t = self.ex(n.operand)
            if k == 'S':
                return ('S', f'(- {t})')
            if k == 'V':
                return ('V', f'(vscale (-1) {t})')
            raise Unsupported('negation of ' + k)
        if isinstance(n, ast.BinOp):
            return self.binop(n)
        if isinstance(n, ast.Call):
            return self.call(n)
        if isinstance(n, ast.Subscript):
            return self.subscript(n)
        if isinstance(n, ast.Compare) and len(n.ops) == 1 and isinstance(n.ops[0], ast.Lt):
            (ka, a), (kb, b) = self.ex(n.left), self.ex(n.comparators[0])
            if ka == kb == 'S':
                return ('B', f'(Rlt_dec {a} {b})')
        raise Unsupported(ast.dump(n)[:200])

    def binop(self, n):
        (ka, a), (kb, b) = self.ex(n.left), self.ex(n.right)
        op = type(n.op).__name__
        if op == 'Pow':
            if ka == 'S' and isinstance(n.right, ast.Constant) and isinstance(n.right.value, int) \
                    and n.right.value >= 0:
                return ('S', f'({a} ^ {n.right.value})')
            raise Unsupported('power')
        if op == 'MatMult':
            if (ka, kb) == ('V', 'M'):
                return ('V', f'(rowmat {a} {b})')
            raise Unsupported(f'matmul {ka} {kb}')
        sym = {'Add': '+', 'Sub': '-', 'Mult': '*', 'Div': '/'}.get(op)
        if sym is None:
            raise Unsupported(op)
        if (ka, kb) == ('S', 'S'):
            return ('S', f'({a} {sym} {b})')
        if op == 'Mult' and (ka, kb) == ('S', 'V'):
            return ('V', f'(vscale {a} {b})')
        if op == 'Mult' and (ka, kb) == ('V', 'S'):
            return ('V', f'(vscale {b} {a})')
        if op == 'Add' and (ka, kb) == ('V', 'V'):
            return ('V', f'(vadd {a} {b})')
        if op == 'Add' and (ka, kb) == ('V', 'S'):
            return ('V', f'(vadds {a} {b})')
        if op == 'Add' and (ka, kb) == ('S', 'V'):
            return ('V', f'(vadds {b} {a})')
        if op == 'Sub' and (ka, kb) == ('V', 'V'):
            return ('V', f'(vsub {a} {b})')
        if op == 'Sub' and (ka, kb) == ('VB', 'M'):      # X[:, newaxis, :] - centres
            return ('LV', f'(bdiff {a} {b})')
        raise Unsupported(f'{op} on {ka},{kb}')

    def call(self, n):
        f = dotted(n.func)
        kw = {k.arg: k.value for k in n.keywords}
        if f in SCALAR_FUNS and len(n.args) == 1 and not kw:
            k, t = self.ex(n.args[0])
            if k == 'S':
                return ('S', f'({SCALAR_FUNS[f]} {t})')
            if k == 'V':
                return ('V', f'(map {SCALAR_FUNS[f]} {t})')
            if k == 'COL' and f == 'np.abs':
                x0, l = t
                return ('COL', (f'(Rabs {x0})', f'(map Rabs {l})'))
            raise Unsupported(f'{f} of {k}')
        if f == 'np.hstack' and len(n.args) == 1 and isinstance(n.args[0], ast.Tuple) and not kw:
            parts = [self.ex(e) for e in n.args[0].elts]
            if all(k == 'V' for k, _ in parts):
                return ('V', '(' + ' ++ '.join(t for _, t in parts) + ')')
            raise Unsupported('hstack of ' + str([k for k, _ in parts]))
        if f == 'linalg.norm' and len(n.args) == 1 and set(kw) == {'axis'} \
                and ast.literal_eval(kw['axis']) == -1:
            k, t = self.ex(n.args[0])
            if k == 'LV':
                return ('V', f'(map vnorm {t})')
            raise Unsupported('norm of ' + k)
        if f in ('np.max', 'np.min') and len(n.args) == 1 and set(kw) == {'axis'} \
                and ast.literal_eval(kw['axis']) == 0:
            k, t = self.ex(n.args[0])
            if k == 'COL':
                x0, l = t
                return ('S', f'({"Rlist_max" if f == "np.max" else "Rlist_min"} {x0} {l})')
            raise Unsupported(f'{f} of {k}')
        if f == 'np.piecewise' and len(n.args) == 3 and not kw:
            k, r = self.ex(n.args[0])
            conds, funs = n.args[1], n.args[2]
            if k == 'S' and isinstance(conds, ast.List) and len(conds.elts) == 1 \
                    and isinstance(funs, ast.List) and len(funs.elts) == 2:
                kc, c = self.ex(conds.elts[0])
                f0, f1 = funs.elts
                if kc == 'B' and isinstance(f0, ast.Name) and f0.id in self.local_funs \
                        and isinstance(f1, ast.Constant):
                    return ('S', f'(if {c} then {self.local_funs[f0.id]} {r} else {num(f1.value)})')
            raise Unsupported('piecewise')
        if f in self.env and self.env[f][0] == 'F' and len(n.args) == 1 and not kw:
            k, t = self.ex(n.args[0])
            if k == 'V':
                return ('V', f'(map {self.env[f][1]} {t})')
            if k == 'S':
                return ('S', f'({self.env[f][1]} {t})')
        if f in self.env and self.env[f][0] == 'FV' and len(n.args) == 1 and not kw:
            k, t = self.ex(n.args[0])
            if k == 'V':
                return ('V', f'({self.env[f][1]} {t})')
        raise Unsupported('call ' + f)

    def subscript(self, n):
        k, t = self.ex(n.value)
        s = n.slice
        if k == 'V' and isinstance(s, ast.Tuple):
            e = s.elts
            full = lambda q: isinstance(q, ast.Slice) and q.lower is None and q.upper is None and q.step is None
            if len(e) == 2 and full(e[0]) and isinstance(e[1], ast.Slice) and e[1].step is None:
                lo, hi = e[1].lower, e[1].upper
                if lo is None and hi is not None:
                    kk, b = self.ex(hi)
                    if kk == 'N':
                        return ('V', f'(firstn {b} {t})')
                if hi is None and lo is not None:
                    kk, b = self.ex(lo)
                    if kk == 'N':
                        return ('V', f'(skipn {b} {t})')
            if len(e) == 3 and full(e[0]) and full(e[2]) and dotted(e[1]) == 'np.newaxis':
                return ('VB', t)
        raise Unsupported('subscript ' + ast.dump(n)[:200])

    # ------------------------------------------------------------ statements
    def run(self, body):
        for st in body:
            if isinstance(st, ast.Expr) and isinstance(st.value, ast.Constant) and isinstance(st.value.value, str):
                continue
            if isinstance(st, ast.Expr) and isinstance(st.value, ast.Call) \
                    and dotted(st.value.func).endswith('check_is_fitted'):
                continue
            if isinstance(st, ast.Assign) and len(st.targets) == 1:
                tg = st.targets[0]
                if isinstance(tg, ast.Name):
                    # X = check_array(X): identity on valid input
                    if isinstance(st.value, ast.Call) and dotted(st.value.func).endswith('check_array') \
                            and len(st.value.args) == 1 and isinstance(st.value.args[0], ast.Name) \
                            and st.value.args[0].id == tg.id:
                        continue
                    k, t = self.ex(st.value)
                    if k == 'COL' or k == 'B':
                        self.env[tg.id] = (k, t)
                    else:
                        self.lets.append((tg.id, t))
                        self.env[tg.id] = (k, tg.id)
                    continue
            if isinstance(st, ast.If):
                src = ast.unparse(st.test)
                if src in self.assume:
                    r = self.run(st.body if self.assume[src] else st.orelse)
                    if r is not None:
                        return r
                    continue
                raise Unsupported('unassumed test ' + src)
            if isinstance(st, ast.Return):
                if isinstance(st.value, ast.Tuple):
                    parts = [self.ex(e) for e in st.value.elts]
                    return ('T', '(' + ', '.join(t for _, t in parts) + ')')
                return self.ex(st.value)
            raise Unsupported(ast.dump(st)[:200])
        return None

    def term(self, result):
        out = result[1]
        for name, t in reversed(self.lets):
            out = f'let {name} := {t} in\n  {out}'
        return out


def find_class(tree, name):
    for n in tree.body:
        if isinstance(n, ast.ClassDef) and n.name == name:
            return n
    raise Unsupported('class ' + name)


def find_fn(body, name):
    for n in body:
        if isinstance(n, ast.FunctionDef) and n.name == name:
            return n
    raise Unsupported('function ' + name)


def class_assign(cls, name):
    for n in cls.body:
        if isinstance(n, ast.Assign) and len(n.targets) == 1 and isinstance(n.targets[0], ast.Name) \
                and n.targets[0].id == name:
            return n.value
    raise Unsupported('class attribute ' + name)


def decision_tree(stmts, target, leaves, some_var=None):
    """Coq term for the value assigned to `target` by a tree of if-statements whose tests are
    `self.offset is None` (match on the option) or `isinstance(self.rbf, str)` (the bool)."""
    found = None
    for st in stmts:
        if isinstance(st, ast.Assign) and len(st.targets) == 1 and ast.unparse(st.targets[0]) == target:
            v = ast.unparse(st.value)
            if v not in leaves:
                raise Unsupported(f'{target} assigned from {v}')
            leaf = leaves[v]
            if leaf == 'SOME':
                if some_var is None:
                    raise Unsupported(f'{target} = self.offset outside the branch where it is not None')
                leaf = some_var
            if found is not None:
                raise Unsupported(f'{target} assigned twice on one path')
            found = leaf
        elif isinstance(st, ast.If) and any(
                isinstance(n, ast.Assign) and ast.unparse(n.targets[0]) == target for n in ast.walk(st)):
            if found is not None:
                raise Unsupported(f'{target} assigned twice on one path')
            test = ast.unparse(st.test)
            if test == 'self.offset is None':
                a = decision_tree(st.body, target, leaves, None)
                b = decision_tree(st.orelse, target, leaves, 'o')
                found = f'(match offset with None => {a} | Some o => {b} end)'
            elif test == 'self.offset is not None':
                a = decision_tree(st.body, target, leaves, 'o')
                b = decision_tree(st.orelse, target, leaves, None)
                found = f'(match offset with Some o => {a} | None => {b} end)'
            elif test == 'isinstance(self.rbf, str)':
                a = decision_tree(st.body, target, leaves, some_var)
                b = decision_tree(st.orelse, target, leaves, some_var)
                found = f'(if rbf_is_name then {a} else {b})'
            else:
                raise Unsupported(f'test `{test}` in the resolution of {target}')
    if found is None:
        raise Unsupported(f'a path does not assign {target}')
    return found


def rvs_call(fn, target):
    """the keyword arguments of the single `<dist>.rvs(...)` call assigned to / building `target`"""
    hits = []
    for n in ast.walk(fn):
        if isinstance(n, ast.Assign) and ast.unparse(n.targets[0]) == target:
            for c in ast.walk(n.value):
                if isinstance(c, ast.Call) and isinstance(c.func, ast.Attribute) and c.func.attr == 'rvs':
                    hits.append((n, c))
    if len(hits) != 1:
        raise Unsupported(f'expected exactly one rvs call for {target}, found {len(hits)}')
    n, c = hits[0]
    if c.args:
        raise Unsupported('positional rvs arguments')
    return n, c, {k.arg: k.value for k in c.keywords}


def qs(s):
    return '"' + s.replace('"', "'") + '"'


def sampling_facts(ka, ce):
    """how fit draws its random numbers: distribution table, rvs arguments, which seed object
    each call receives (the seeding discipline itself - scipy's check_random_state - is modelled
    in coq/SeedModel.v)"""
    out = ['(* ---- sampling statements of the fit methods *)', 'Require Import String.', 'Local Open Scope string_scope.']
    cls = find_class(ka, 'RandomFourierKernelApprox')
    lk = class_assign(cls, '_ft_lookup')
    pairs = [(k.value, dotted(v)) for k, v in zip(lk.keys, lk.values)]
    out += ['Definition gen_ft_lookup : list (string * string) :=',
            '  [' + '; '.join(f'({qs(a)}, {qs(b)})' for a, b in pairs) + '].', '']
    fit = find_fn(cls.body, 'fit')
    _, c, kw = rvs_call(fit, 'self.random_weights_')
    if set(kw) != {'scale', 'size', 'random_state'} or dotted(c.func) != 'self.ft_.rvs':
        raise Unsupported('random_weights_ rvs call')
    it = Interp({})
    out += [f'Definition gen_weights_rvs_scale : R := {it.ex(kw["scale"])[1]}%R.',
            f'Definition gen_weights_rvs_size : string := {qs(ast.unparse(kw["size"]))}.',
            f'Definition gen_weights_rvs_seed : string := {qs(ast.unparse(kw["random_state"]))}.']
    _, c, kw = rvs_call(fit, 'self.random_offsets_')
    if set(kw) != {'loc', 'scale', 'size', 'random_state'}:
        raise Unsupported('random_offsets_ rvs call')
    it = Interp({'np.pi': ('S', 'PI')})
    out += [f'Definition gen_offsets_rvs_dist : string := {qs(dotted(c.func))}.',
            f'Definition gen_offsets_rvs_loc : R := {it.ex(kw["loc"])[1]}%R.',
            f'Definition gen_offsets_rvs_scale : R := {it.ex(kw["scale"])[1]}%R.',
            f'Definition gen_offsets_rvs_size : string := {qs(ast.unparse(kw["size"]))}.',
            f'Definition gen_offsets_rvs_seed : string := {qs(ast.unparse(kw["random_state"]))}.', '']
    # order of the two draws in fit (weights first)
    order = [ast.unparse(n.targets[0]) for n in ast.walk(fit) if isinstance(n, ast.Assign)
             and ast.unparse(n.targets[0]) in ('self.random_weights_', 'self.random_offsets_')
             and any(isinstance(c, ast.Call) and isinstance(c.func, ast.Attribute) and c.func.attr == 'rvs'
                     for c in ast.walk(n.value))]
    out += ['Definition gen_rff_draw_order : list string := [' + '; '.join(qs(o) for o in order) + '].', '']
    # UniformRandomCenters: one rvs call per feature inside a comprehension over range(n_features_in_)
    ufit = find_fn(find_class(ce, 'UniformRandomCenters').body, 'fit')
    n, c, kw = rvs_call(ufit, 'self.centers_')
    if set(kw) != {'loc', 'scale', 'size', 'random_state'}:
        raise Unsupported('UniformRandomCenters rvs call')
    comps = [x for x in ast.walk(n.value) if isinstance(x, ast.ListComp)]
    if len(comps) != 1 or len(comps[0].generators) != 1 \
            or ast.unparse(comps[0].generators[0].iter) != 'range(self.n_features_in_)' \
            or ast.unparse(comps[0].generators[0].target) != 'i' or comps[0].elt is not c:
        raise Unsupported('UniformRandomCenters: per-feature comprehension not recognised')
    shape_src = ast.unparse(n.value)
    if not (shape_src.startswith('np.array([') and shape_src.endswith(']).T')):
        raise Unsupported('UniformRandomCenters: centres are not np.array([...]).T')
    it = Interp({'self.range_min_[i]': ('S', 'lo'), 'self.range_max_[i]': ('S', 'hi')})
    out += [f'Definition gen_uniform_rvs_dist : string := {qs(dotted(c.func))}.',
            f'Definition gen_uniform_rvs_loc (lo hi : R) : R := {it.ex(kw["loc"])[1]}%R.',
            f'Definition gen_uniform_rvs_scale (lo hi : R) : R := {it.ex(kw["scale"])[1]}%R.',
            f'Definition gen_uniform_rvs_size : string := {qs(ast.unparse(kw["size"]))}.',
            f'Definition gen_uniform_rvs_seed : string := {qs(ast.unparse(kw["random_state"]))}.', '']
    # GridCenters: linspace per feature and the meshgrid / reshape / transpose arrangement
    gfit = find_fn(find_class(ce, 'GridCenters').body, 'fit')
    lins = [x for x in ast.walk(gfit) if isinstance(x, ast.Assign) and ast.unparse(x.targets[0]) == 'linspaces']
    cen = [x for x in ast.walk(gfit) if isinstance(x, ast.Assign) and ast.unparse(x.targets[0]) == 'self.centers_']
    if len(lins) != 1 or len(cen) != 1:
        raise Unsupported('GridCenters.fit shape')
    out += [f'Definition gen_grid_linspaces : string := {qs(" ".join(ast.unparse(lins[0].value).split()))}.',
            f'Definition gen_grid_centers : string := {qs(" ".join(ast.unparse(cen[0].value).split()))}.', '']
    return out


def main():
    out = ['(* GENERATED by tools/gen_numeric.py from the working tree of pykoop - do not edit. *)',
           'From Coq Require Import Reals List.',
           'From PK.AlgR Require Import Rff Range NumLib.',
           'Import ListNotations.',
           'Local Open Scope R_scope.', '']
    ka = ast.parse(open(os.path.join(REPO, 'pykoop', 'kernel_approximation.py')).read())
    lf = ast.parse(open(os.path.join(REPO, 'pykoop', 'lifting_functions.py')).read())
    ce = ast.parse(open(os.path.join(REPO, 'pykoop', 'centers.py')).read())

    # ---- RandomFourierKernelApprox.transform, one definition per method
    fn = find_fn(find_class(ka, 'RandomFourierKernelApprox').body, 'transform')
    env = {'X': ('V', 'X'), 'self.shape': ('S', 'shape'), 'self.n_components': ('S', 'n_components'),
           'self.random_weights_': ('M', 'random_weights_'), 'self.random_offsets_': ('V', 'random_offsets_')}
    tests = [ast.unparse(n.test) for n in ast.walk(fn) if isinstance(n, ast.If)]
    if tests != ["self.method == 'weight_only'"]:
        raise Unsupported('RandomFourierKernelApprox.transform: unexpected branching ' + str(tests))
    for meth, val in (('weight_only', True), ('weight_offset', False)):
        it = Interp(env, assume={"self.method == 'weight_only'": val})
        r = it.run(fn.body)
        if r is None or r[0] != 'V':
            raise Unsupported('transform does not return a row')
        out += [f'Definition gen_rff_transform_{meth} (shape n_components : R) (random_weights_ : list (list R))',
                '  (random_offsets_ : list R) (X : list R) : list R :=', '  ' + it.term(r) + '.', '']
    # the fit-time validation of the method names (so that the fork above is exhaustive)
    fit = find_fn(find_class(ka, 'RandomFourierKernelApprox').body, 'fit')
    vm = [n for n in ast.walk(fit) if isinstance(n, ast.Assign) and isinstance(n.targets[0], ast.Name)
          and n.targets[0].id == 'valid_methods']
    if len(vm) != 1 or sorted(ast.literal_eval(vm[0].value)) != ['weight_offset', 'weight_only']:
        raise Unsupported('valid_methods changed')
    # n_features_out_
    nfo = {}
    for n in ast.walk(fit):
        if isinstance(n, ast.If) and ast.unparse(n.test) == "self.method == 'weight_only'":
            for br, key in ((n.body, 'weight_only'), (n.orelse, 'weight_offset')):
                for s in br:
                    if isinstance(s, ast.Assign) and ast.unparse(s.targets[0]) == 'self.n_features_out_':
                        it = Interp({'self.n_components': ('S', 'n_components')})
                        nfo[key] = it.ex(s.value)[1]
    if set(nfo) != {'weight_only', 'weight_offset'}:
        raise Unsupported('n_features_out_ rule not found')
    for k, t in nfo.items():
        t = t.replace('(', '').replace(')', '')
        out += [f'Definition gen_rff_n_features_out_{k} (n_components : nat) : nat := ({t})%nat.', '']

    # ---- KernelApproxLiftingFn._transform_one_ep
    fn = find_fn(find_class(lf, 'KernelApproxLiftingFn').body, '_transform_one_ep')
    it = Interp({'X': ('V', 'X'), 'self.n_states_in_': ('N', 'n_states_in_'),
                 'self.kernel_approx_.transform': ('FV', 'kernel_transform')})
    r = it.run(fn.body)
    out += ['Definition gen_kernel_lift_row (n_states_in_ : nat) (kernel_transform : list R -> list R) (X : list R) : list R :=',
            '  ' + it.term(r) + '.', '']

    # ---- RbfLiftingFn
    rb = find_class(lf, 'RbfLiftingFn')
    lookup = class_assign(rb, '_rbf_lookup')
    names = []
    if not isinstance(lookup, ast.Dict):
        raise Unsupported('_rbf_lookup')
    for k, v in zip(lookup.keys, lookup.values):
        names.append((k.value, v.id))
    for pyname, fname in names:
        f = find_fn(rb.body, fname)
        if [a.arg for a in f.args.args] != ['r']:
            raise Unsupported(fname + ' signature')
        local = {}
        body = []
        for st in f.body:
            if isinstance(st, ast.FunctionDef):      # local helper (bump)
                if [a.arg for a in st.args.args] != ['s']:
                    raise Unsupported('local helper signature')
                it2 = Interp({'s': ('S', 's')})
                r2 = it2.run(st.body)
                out += [f'Definition gen_rbf_{pyname}_{st.name} (s : R) : R :=', '  ' + it2.term(r2) + '.', '']
                local[st.name] = f'gen_rbf_{pyname}_{st.name}'
            else:
                body.append(st)
        it = Interp({'r': ('S', 'r')}, local_funs=local)
        r = it.run(body)
        if r is None or r[0] != 'S':
            raise Unsupported(fname + ' result')
        out += [f'Definition gen_rbf_{pyname} (r : R) : R :=', '  ' + it.term(r) + '.', '']
    offs = class_assign(rb, '_offset_lookup')
    offd = {k.value: v.value for k, v in zip(offs.keys, offs.values)}
    if set(offd) != {n for n, _ in names}:
        raise Unsupported('_offset_lookup keys')
    for pyname, _ in names:
        out += [f'Definition gen_rbf_offset_{pyname} : R := {num(offd[pyname])}.']
    out += ['', 'Definition gen_rbf_names : list (nat * (R -> R) * R) :=', '  ['
            + ';\n   '.join(f'({i}%nat, gen_rbf_{n}, gen_rbf_offset_{n})' for i, (n, _) in enumerate(names)) + '].', '']
    out += ['(* order of _rbf_lookup: ' + ', '.join(n for n, _ in names) + ' *)', '']
    fn = find_fn(rb.body, '_transform_one_ep')
    it = Interp({'X': ('V', 'X'), 'self.n_states_in_': ('N', 'n_states_in_'), 'self.shape': ('S', 'shape'),
                 'self.offset_': ('S', 'offset_'), 'self.centers_.centers_': ('M', 'centers_'),
                 'self.rbf_': ('F', 'rbf_')})
    r = it.run(fn.body)
    out += ['Definition gen_rbf_lift_row (n_states_in_ : nat) (shape offset_ : R) (centers_ : list (list R))',
            '  (rbf_ : R -> R) (X : list R) : list R :=', '  ' + it.term(r) + '.', '']
    # offset / radial-function resolution in _fit_one_ep: the if-tree that assigns self.offset_ / self.rbf_
    fit = find_fn(rb.body, '_fit_one_ep')
    leaves_off = {'self._offset_lookup[self.rbf]': 'lookup', '0': '0', 'self.offset': 'SOME'}
    t = decision_tree(fit.body, 'self.offset_', leaves_off)
    out += ['Definition gen_rbf_resolve_offset (offset : option R) (rbf_is_name : bool) (lookup : R) : R :=',
            '  ' + t + '.', '']
    leaves_rbf = {'self._rbf_lookup[self.rbf]': 'lookup', 'self.rbf': 'given'}
    t = decision_tree(fit.body, 'self.rbf_', leaves_rbf)
    out += ['Definition gen_rbf_resolve_rbf (rbf_is_name : bool) (lookup given : R -> R) : R -> R :=',
            '  ' + t + '.', '']

    # ---- centers._feature_range on one column
    fn = find_fn(ce.body, '_feature_range')
    for sym in (True, False):
        it = Interp({'X': ('COL', ('x0', 'l'))}, assume={'symmetric_range': sym})
        r = it.run(fn.body)
        if r is None or r[0] != 'T':
            raise Unsupported('_feature_range result')
        out += [f'Definition gen_feature_range_{"sym" if sym else "plain"} (x0 : R) (l : list R) : R * R :=',
                '  ' + it.term(r) + '.', '']
    out += sampling_facts(ka, ce)
    os.makedirs(OUT, exist_ok=True)
    with open(os.path.join(OUT, 'Numeric.v'), 'w') as f:
        f.write('\n'.join(out) + '\n')
    print('Numeric.v written')


if __name__ == '__main__':
    try:
        main()
    except Unsupported as e:
        print('gen_numeric: construct outside the translated fragment: ' + str(e), file=sys.stderr)
        sys.exit(1)
