#!/venv/bin/python
"""Translator for the bookkeeping of KoopmanPipeline.fit_transformers, KoopmanPipeline.fit and SplitPipeline.fit (C04, C05):
which dimensions every stage is fitted with, which dimensions the composite declares, and what the regressor is fitted on.

The three methods are recognised statement by statement (the exact statement texts below; validation, cloning of the
stages and name checks may only be what they are today); a stage is a function
    lf width n_inputs episode_feature = (n_features_out_, n_states_out_, n_inputs_out_)
of the width of the data it is fitted on, so that `X_out = lf.fit_transform(X_out, ..)` threads `n_features_out_` as the
next width (that a transform returns `n_features_out_` columns is property C04 itself, checked on every generated case).
coq/BridgeFit.v proves the generated functions equal to `csdims` (chains) and to the `Split` case of `sdims`.
Fail-closed."""
import ast
import os
import sys

REPO = os.environ.get('VERIF_REPO', '/repo')
OUT = sys.argv[1] if len(sys.argv) > 1 else '/verif/coq/Gen'


class Unsupported(Exception):
    pass


def u(n):
    return ast.unparse(n)


def stmts(f):
    return [u(s) for s in f.body if not (isinstance(s, ast.Expr) and isinstance(s.value, ast.Constant))]


def clone_block(attr):
    return (f'if self.{attr} is not None:\n    for key, lf in self.{attr}:\n        used_keys.append(key)\n'
            f'        self.{attr}_.append(tuple((key, sklearn.base.clone(lf))))')


HEAD = ['self.feature_names_in_ = _extract_feature_names(X)',
        'X = sklearn.utils.validation.check_array(X, **self._check_array_params)',
        'self.episode_feature_ = episode_feature', 'self.n_features_in_ = X.shape[1]',
        'self.n_states_in_ = X.shape[1] - n_inputs - (1 if episode_feature else 0)', 'self.n_inputs_in_ = n_inputs', 'used_keys = []']


def raise_free(t):
    """drop the message of a raise (free text)"""
    return t


def main():
    src = ast.parse(open(os.path.join(REPO, 'pykoop', 'koopman_pipeline.py')).read())
    cl = {c.name: {f.name: f for f in c.body if isinstance(f, ast.FunctionDef)} for c in src.body if isinstance(c, ast.ClassDef)}
    for cn, fn in (('KoopmanPipeline', 'fit_transformers'), ('KoopmanPipeline', 'fit'), ('SplitPipeline', 'fit')):
        if cn not in cl or fn not in cl[cn]:
            raise Unsupported(f'{cn}.{fn} not found')
        if [a.arg for a in cl[cn][fn].args.args] != ['self', 'X', 'y', 'n_inputs', 'episode_feature']:
            raise Unsupported(f'{cn}.{fn}: signature')
    # ---- KoopmanPipeline.fit_transformers
    want = HEAD + ['self.lifting_functions_ = []', clone_block('lifting_functions'), 'self._validate_names(used_keys)',
                   'X_out = X', 'n_inputs_out = n_inputs',
                   ('for _, lf in self.lifting_functions_:\n    X_out = lf.fit_transform(X_out, n_inputs=n_inputs_out, '
                    'episode_feature=episode_feature)\n    n_inputs_out = lf.n_inputs_out_'),
                   ('if len(self.lifting_functions_) > 0:\n    last_pp = self.lifting_functions_[-1][1]\n'
                    '    self.n_features_out_ = last_pp.n_features_out_\n    self.n_states_out_ = last_pp.n_states_out_\n'
                    '    self.n_inputs_out_ = last_pp.n_inputs_out_\nelse:\n    self.n_features_out_ = self.n_features_in_\n'
                    '    self.n_states_out_ = self.n_states_in_\n    self.n_inputs_out_ = self.n_inputs_in_'),
                   'self.min_samples_ = self.n_samples_in(1)', 'self.transformers_fit_ = True', 'return self']
    got = stmts(cl['KoopmanPipeline']['fit_transformers'])
    if got != want:
        d = [i for i in range(min(len(got), len(want))) if got[i] != want[i]]
        raise Unsupported('KoopmanPipeline.fit_transformers: statement ' + (f'{d[0]}: {got[d[0]][:200]}' if d else 'count'))
    # ---- KoopmanPipeline.fit
    got = stmts(cl['KoopmanPipeline']['fit'])
    want = ['sklearn.utils.validation.check_array(X, ensure_min_samples=2, **self._check_array_params)', None,
            'self.regressor_ = sklearn.base.clone(self.regressor)',
            'self.fit_transformers(X, n_inputs=n_inputs, episode_feature=episode_feature)', 'Xt = self.transform(X)',
            'self.regressor_.fit(Xt, n_inputs=self.n_inputs_out_, episode_feature=self.episode_feature_)',
            'self.regressor_fit_ = True', 'return self']
    if len(got) != len(want) or any(w is not None and g != w for g, w in zip(got, want)) \
            or not got[1].startswith('if self.regressor is None:\n    raise ValueError('):
        raise Unsupported('KoopmanPipeline.fit: ' + ' | '.join(got)[:500])
    # ---- SplitPipeline.fit
    got = stmts(cl['SplitPipeline']['fit'])
    want = HEAD + ['self.lifting_functions_state_ = []', clone_block('lifting_functions_state'), 'self.lifting_functions_input_ = []',
                   clone_block('lifting_functions_input'), 'self._validate_names(used_keys)',
                   'if self.episode_feature_:\n    X_ep = X[:, [0]]\n    X = X[:, 1:]',
                   'X_state = X[:, :self.n_states_in_]', 'X_input = X[:, self.n_states_in_:]',
                   'if self.episode_feature_:\n    X_state = np.hstack((X_ep, X_state))\n    X_input = np.hstack((X_ep, X_input))',
                   'X_out_state = X_state',
                   ('for _, lf in self.lifting_functions_state_:\n    X_out_state = lf.fit_transform(X_out_state, n_inputs=0, '
                    'episode_feature=self.episode_feature_)'),
                   'X_out_input = X_input',
                   ('for _, lf in self.lifting_functions_input_:\n    X_out_input = lf.fit_transform(X_out_input, '
                    'n_inputs=X_out_input.shape[1] - (1 if self.episode_feature_ else 0), episode_feature=self.episode_feature_)'),
                   None, None,
                   'self.n_features_out_ = self.n_states_out_ + self.n_inputs_out_ + (1 if self.episode_feature_ else 0)',
                   'self.min_samples_ = self.n_samples_in(1)', 'return self']
    if len(got) != len(want) or any(w is not None and g != w for g, w in zip(got, want)):
        d = [i for i in range(min(len(got), len(want))) if want[i] is not None and got[i] != want[i]]
        raise Unsupported('SplitPipeline.fit: statement ' + (f'{d[0]}: {got[d[0]][:200]}' if d else 'count'))
    body = [s for s in cl['SplitPipeline']['fit'].body if not (isinstance(s, ast.Expr) and isinstance(s.value, ast.Constant))]

    def out_dims(node, lst, chk, attr, fallback):
        # if len(self.<lst>) > 0: last_tf = self.<lst>[-1][1]; if last_tf.<chk> != 0: raise ..; self.<attr> = last_tf.<attr>  else: self.<attr> = self.<fallback>
        ok = (isinstance(node, ast.If) and u(node.test) == f'len(self.{lst}) > 0' and len(node.body) == 3
              and u(node.body[0]) == f'last_tf = self.{lst}[-1][1]'
              and isinstance(node.body[1], ast.If) and u(node.body[1].test) == f'last_tf.{chk} != 0' and not node.body[1].orelse
              and all(isinstance(x, ast.Raise) for x in node.body[1].body)
              and u(node.body[2]) == f'self.{attr} = last_tf.{attr}'
              and [u(x) for x in node.orelse] == [f'self.{attr} = self.{fallback}'])
        if not ok:
            raise Unsupported(f'SplitPipeline.fit: output dimensions from {lst}: {u(node)[:200]}')
    out_dims(body[20], 'lifting_functions_state_', 'n_inputs_out_', 'n_states_out_', 'n_states_in_')
    out_dims(body[21], 'lifting_functions_input_', 'n_states_out_', 'n_inputs_out_', 'n_inputs_in_')
    out = ['(* GENERATED by tools/gen_fit.py from pykoop/koopman_pipeline.py of the working tree - do not edit. *)',
           'From Coq Require Import List Arith Bool.', 'Import ListNotations.', '',
           '(* a stage: width of the data it is fitted on, n_inputs, episode_feature -> (n_features_out_, n_states_out_, n_inputs_out_) *)',
           'Definition gen_stage_fit := nat -> nat -> bool -> nat * nat * nat.', '',
           '(* KoopmanPipeline.fit_transformers: ((n_features_in_, n_states_in_, n_inputs_in_), (n_features_out_, n_states_out_, n_inputs_out_)) *)',
           'Definition gen_pipeline_fit_dims (lifting_functions : list gen_stage_fit) (width n_inputs : nat) (episode_feature : bool)',
           '    : (nat * nat * nat) * (nat * nat * nat) :=',
           '  let n_features_in := width in',
           '  let n_states_in := width - n_inputs - (if episode_feature then 1 else 0) in',
           '  let n_inputs_in := n_inputs in',
           '  let loop := fold_left (fun (acc : nat * nat * option (nat * nat * nat)) (lf : gen_stage_fit) =>',
           '      let X_out_width := fst (fst acc) in let n_inputs_out := snd (fst acc) in',
           '      let d := lf X_out_width n_inputs_out episode_feature in',
           '      (fst (fst d), snd d, Some d)) lifting_functions (width, n_inputs, (None : option (nat * nat * nat))) in',
           '  let out := match snd loop with Some last_pp => last_pp | None => (n_features_in, n_states_in, n_inputs_in) end in',
           '  ((n_features_in, n_states_in, n_inputs_in), out).', '',
           '(* KoopmanPipeline.fit: the regressor is fitted on transform(X) with n_inputs = n_inputs_out_ and the episode flag of the fit *)',
           'Definition gen_pipeline_fit_regressor_args (A : Type) (transform : A -> A) (lifting_functions : list gen_stage_fit)',
           '    (width n_inputs : nat) (episode_feature : bool) (X : A) : A * nat * bool :=',
           '  let n_inputs_out := snd (snd (gen_pipeline_fit_dims lifting_functions width n_inputs episode_feature)) in',
           '  (transform X, n_inputs_out, episode_feature).', '',
           '(* SplitPipeline.fit: the state branch sees the label and the state columns with n_inputs = 0, the input branch the label',
           '   and the input columns, all of them inputs *)',
           'Definition gen_split_fit_dims (lifting_functions_state lifting_functions_input : list gen_stage_fit)',
           '    (width n_inputs : nat) (episode_feature : bool) : (nat * nat * nat) * (nat * nat * nat) :=',
           '  let ep := if episode_feature then 1 else 0 in',
           '  let n_features_in := width in',
           '  let n_states_in := width - n_inputs - ep in',
           '  let n_inputs_in := n_inputs in',
           '  let X_state_width := ep + n_states_in in',
           '  let X_input_width := ep + (width - ep - n_states_in) in',
           '  let loop_state := fold_left (fun (acc : nat * option (nat * nat * nat)) (lf : gen_stage_fit) => let d := lf (fst acc) 0 episode_feature in (fst (fst d), Some d))',
           '                              lifting_functions_state (X_state_width, (None : option (nat * nat * nat))) in',
           '  let loop_input := fold_left (fun (acc : nat * option (nat * nat * nat)) (lf : gen_stage_fit) => let d := lf (fst acc) (fst acc - ep) episode_feature in (fst (fst d), Some d))',
           '                              lifting_functions_input (X_input_width, (None : option (nat * nat * nat))) in',
           '  let n_states_out := match snd loop_state with Some last_tf => snd (fst last_tf) | None => n_states_in end in',
           '  let n_inputs_out := match snd loop_input with Some last_tf => snd last_tf | None => n_inputs_in end in',
           '  let n_features_out := n_states_out + n_inputs_out + ep in',
           '  ((n_features_in, n_states_in, n_inputs_in), (n_features_out, n_states_out, n_inputs_out)).', '']
    os.makedirs(OUT, exist_ok=True)
    with open(os.path.join(OUT, 'FitGen.v'), 'w') as f:
        f.write('\n'.join(out) + '\n')
    print('FitGen.v written')


if __name__ == '__main__':
    try:
        main()
    except Unsupported as e:
        print('gen_fit: construct outside the translated fragment: ' + str(e), file=sys.stderr)
        sys.exit(1)
