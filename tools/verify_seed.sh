#!/bin/sh
# usage: verify_seed.sh <dir-with-diff-and-demo> <variant a|b>
# Confirms in a scratch worktree of /repo HEAD: demo passes on pristine, fails with the patch,
# and the pinned test suite still passes with the patch. Writes <dir>/verify_<v>.json.
D=$1; V=$2
WT=/var/tmp/vs_$(basename $D)_$V
git -C /repo worktree add -q --detach $WT HEAD || exit 2
cd $WT
mkdir -p _seed && cp $D/demo_$V.py _seed/
PYTHONPATH=$WT /venv/bin/python _seed/demo_$V.py >/dev/null 2>&1; pristine=$?
if git apply $D/$V.diff 2>/dev/null; then applied=0; else applied=1; fi
PYTHONPATH=$WT /venv/bin/python _seed/demo_$V.py >/dev/null 2>&1; mutated=$?
suite=$(/verif/tools/baseline.sh $WT 2>/dev/null | grep -v condarc | head -1)
git checkout -q -- pykoop
PYTHONPATH=$WT /venv/bin/python _seed/demo_$V.py >/dev/null 2>&1; reverted=$?
cd /
git -C /repo worktree remove --force $WT
printf '{"variant":"%s","patch_applies":%s,"demo_exit_pristine":%s,"demo_exit_with_patch":%s,"demo_exit_after_revert":%s,"suite":"%s"}\n' "$V" "$([ $applied = 0 ] && echo true || echo false)" $pristine $mutated $reverted "$suite" > $D/verify_$V.json
cat $D/verify_$V.json
