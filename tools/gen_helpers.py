#!/venv/bin/python
"""Translator for the lift / retract helper family of KoopmanLiftingFn (pykoop/koopman_pipeline.py, C16):
lift, retract, lift_state, retract_state, lift_input, retract_input.

The helpers work on raw arrays whose column 0 is the episode label when the call has an episode feature.  Every
statement becomes a Gallina `let` over the numpy semantics of coq/PyList.v / coq/SliceLib.v; `self.transform` /
`self.inverse_transform` are parameters (their own code is translated by tools/gen_frames.py / tools/gen_stages.py),
`split_episodes` / `combine_episodes` on raw arrays are parameters instantiated in the bridge with the generated
functions composed with the label-column conversion.  The call-time flag is an `option bool` (None = use the fit-time
flag).  coq/BridgeHelpers.v proves the generated helpers equal to the model (Helpers.v).  Fail-closed."""
import ast
import os
import sys

REPO = os.environ.get('VERIF_REPO', '/repo')
OUT = sys.argv[1] if len(sys.argv) > 1 else '/verif/coq/Gen'
NAT_ATTRS = {'n_states_in_': 'ns_in', 'n_states_out_': 'ns_out', 'n_inputs_in_': 'nu_in', 'n_inputs_out_': 'nu_out'}


class Unsupported(Exception):
    pass


def u(n):
    return ast.unparse(n)


class Fn:
    def __init__(self, name, fdef):
        self.name, self.fdef = name, fdef
        self.params = []
        self.flag = 'call'           # coq term of the python variable episode_feature: option bool, or bool once resolved
        self.flag_kind = 'option'

    def param(self, nm, ty):
        if (nm, ty) not in self.params:
            self.params.append((nm, ty))
        return nm

    def zint(self, n):
        if isinstance(n, ast.Constant) and isinstance(n.value, int) and not isinstance(n.value, bool):
            return f'({n.value})%Z'
        if isinstance(n, ast.Attribute) and isinstance(n.value, ast.Name) and n.value.id == 'self' and n.attr in NAT_ATTRS:
            return f'(Z.of_nat {self.param(NAT_ATTRS[n.attr], "nat")})'
        if isinstance(n, ast.BinOp) and isinstance(n.op, ast.Add):
            return f'({self.zint(n.left)} + {self.zint(n.right)})%Z'
        if isinstance(n, ast.IfExp) and u(n.test) == 'episode_feature' and self.flag_kind == 'bool' \
                and u(n.body) == '1' and u(n.orelse) == '0':
            return f'(if {self.flag} then 1 else 0)%Z'
        raise Unsupported(f'{self.name}: integer expression {u(n)}')

    def bound(self, n):
        return 'None' if n is None else f'(Some {self.zint(n)})'

    def mat(self, n, env):
        if isinstance(n, ast.Name) and n.id in env:
            return env[n.id]
        if isinstance(n, ast.Subscript) and isinstance(n.slice, ast.Tuple) and len(n.slice.elts) == 2:
            r, c = n.slice.elts
            if u(r) == ':' and isinstance(c, ast.List) and u(c) == '[0]':
                return f'(take_cols t0 [0%nat] {self.mat(n.value, env)})'
            if isinstance(r, ast.Slice) and isinstance(c, ast.Slice) and u(r) == ':' and c.step is None:
                return f'(slice_cols {self.bound(c.lower)} {self.bound(c.upper)} {self.mat(n.value, env)})'
        if isinstance(n, ast.Call) and u(n.func) == 'np.hstack' and len(n.args) == 1 and isinstance(n.args[0], ast.Tuple):
            return '(hstack_list [' + '; '.join(self.mat(e, env) for e in n.args[0].elts) + '])'
        if isinstance(n, ast.Call) and u(n.func) == 'np.zeros' and len(n.args) == 1 and isinstance(n.args[0], ast.Tuple) \
                and len(n.args[0].elts) == 2 and u(n.args[0].elts[0]).endswith('.shape[0]'):
            base = self.mat(n.args[0].elts[0].value.value, env)
            w = n.args[0].elts[1]
            wz = self.zint(w)
            return f'(zeros_like_rows t0 {base} (Z.to_nat {wz}))'
        if isinstance(n, ast.Call) and isinstance(n.func, ast.Attribute) and isinstance(n.func.value, ast.Name) and n.func.value.id == 'self':
            m = n.func.attr
            if m in ('transform', 'inverse_transform') and len(n.args) == 1 and not n.keywords:
                return f'({self.param(m, "list (list T) -> list (list T)")} {self.mat(n.args[0], env)})'
            if m in ('lift', 'retract') and len(n.args) == 1 and [(k.arg, u(k.value)) for k in n.keywords] == [('episode_feature', 'episode_feature')]:
                if self.flag_kind != 'bool':
                    raise Unsupported(f'{self.name}: {m} called before the flag is resolved')
                f = self.param(m, 'option bool -> list (list T) -> list (list T)')
                return f'({f} (Some {self.flag}) {self.mat(n.args[0], env)})'
        raise Unsupported(f'{self.name}: array expression {u(n)}')

    def block(self, stmts, env, out_name):
        """straight-line block assigning matrices; returns coq term of `out_name` wrapped in lets"""
        env = dict(env)
        lets = []
        for st in stmts:
            if not (isinstance(st, ast.Assign) and len(st.targets) == 1 and isinstance(st.targets[0], ast.Name)):
                raise Unsupported(f'{self.name}: statement {u(st)[:100]}')
            nm = st.targets[0].id
            lets.append(f'let {nm} := {self.mat(st.value, env)} in')
            env[nm] = nm
        if out_name not in env:
            raise Unsupported(f'{self.name}: block does not define {out_name}')
        return ' '.join(lets) + f' {out_name}'

    def per_episode_block(self, stmts, env, out_name):
        """eps = split_episodes(X, episode_feature=episode_feature); eps_t = []; for i, X_i in eps: ...append((i, Y)); out = combine_episodes(eps_t, ...)"""
        t = [u(x) for x in stmts]
        if not (len(stmts) == 4 and t[0] == 'eps = split_episodes(X, episode_feature=episode_feature)' and t[1] == 'eps_t = []'
                and isinstance(stmts[2], ast.For) and u(stmts[2].target) == '(i, X_i)' and u(stmts[2].iter) == 'eps'
                and t[3] == f'{out_name} = combine_episodes(eps_t, episode_feature=episode_feature)'):
            raise Unsupported(f'{self.name}: per-episode branch: {t}')
        lb = stmts[2].body
        if not (len(lb) == 2 and isinstance(lb[0], ast.Assign) and u(lb[1]) == f'eps_t.append((i, {u(lb[0].targets[0])}))'):
            raise Unsupported(f'{self.name}: per-episode loop body')
        env2 = dict(env); env2['X_i'] = 'X_i'
        body = self.mat(lb[0].value, env2)
        sp = self.param('split_episodes_raw', 'list (list T) -> bool -> list (N * list (list T))')
        cb = self.param('combine_episodes_raw', 'list (N * list (list T)) -> bool -> list (list T)')
        # in this branch the call flag is a given boolean different from the fit flag
        return (f'let eps := {sp} X call_flag in let eps_t := [] ++ map (fun e => let i := fst e in let X_i := snd e in '
                f'let {u(lb[0].targets[0])} := {body} in (i, {u(lb[0].targets[0])})) eps in {cb} eps_t call_flag')

    def run_lift(self):
        body = [s for s in self.fdef.body if not (isinstance(s, ast.Expr) and isinstance(s.value, ast.Constant))]
        if [a.arg for a in self.fdef.args.args] != ['self', 'X', 'episode_feature']:
            raise Unsupported(f'{self.name}: signature')
        if not (len(body) == 2 and isinstance(body[0], ast.If) and u(body[1]) == 'return Xt'):
            raise Unsupported(f'{self.name}: shape of the body')
        top = body[0]
        if u(top.test) != 'episode_feature == self.episode_feature_ or episode_feature is None':
            raise Unsupported(f'{self.name}: first test {u(top.test)}')
        if not (len(top.orelse) == 1 and isinstance(top.orelse[0], ast.If) and u(top.orelse[0].test) == 'self.episode_feature_'):
            raise Unsupported(f'{self.name}: second test')
        env = {'X': 'X'}
        self.param('fit_flag', 'bool')
        same = self.block(top.body, env, 'Xt')
        fake = self.block(top.orelse[0].body, env, 'Xt')
        per = self.per_episode_block(top.orelse[0].orelse, env, 'Xt')
        return ('match call with\n  | None => ' + same + '\n  | Some call_flag =>\n      if Bool.eqb call_flag fit_flag then ' + same +
                '\n      else if fit_flag then ' + fake + '\n      else ' + per + '\n  end')

    def run_helper(self):
        body = [s for s in self.fdef.body if not (isinstance(s, ast.Expr) and isinstance(s.value, ast.Constant))]
        if [a.arg for a in self.fdef.args.args] != ['self', 'X', 'episode_feature']:
            raise Unsupported(f'{self.name}: signature')
        if not (isinstance(body[0], ast.If) and u(body[0].test) == 'episode_feature is None' and not body[0].orelse
                and [u(x) for x in body[0].body] == ['episode_feature = self.episode_feature_']):
            raise Unsupported(f'{self.name}: the call flag is not resolved first')
        self.param('fit_flag', 'bool')
        self.flag = 'c'; self.flag_kind = 'bool'
        env = {'X': 'X'}
        lets = ['let c := match call with None => fit_flag | Some b => b end in']
        ret = None
        for st in body[1:]:
            if isinstance(st, ast.Assign) and isinstance(st.targets[0], ast.Name):
                nm = st.targets[0].id
                lets.append(f'let {nm} := {self.mat(st.value, env)} in')
                env[nm] = nm
            elif isinstance(st, ast.If) and u(st.test) == 'episode_feature' and len(st.body) == 1 and len(st.orelse) == 1 \
                    and isinstance(st.body[0], ast.Assign) and isinstance(st.orelse[0], ast.Assign) \
                    and u(st.body[0].targets[0]) == u(st.orelse[0].targets[0]):
                nm = st.body[0].targets[0].id
                lets.append(f'let {nm} := (if c then {self.mat(st.body[0].value, env)} else {self.mat(st.orelse[0].value, env)}) in')
                env[nm] = nm
            elif isinstance(st, ast.Return) and isinstance(st.value, ast.Name) and st.value.id in env:
                ret = st.value.id
            else:
                raise Unsupported(f'{self.name}: statement {u(st)[:120]}')
        if ret is None:
            raise Unsupported(f'{self.name}: no return')
        return '\n  '.join(lets) + f'\n  {ret}'


def main():
    src = ast.parse(open(os.path.join(REPO, 'pykoop', 'koopman_pipeline.py')).read())
    cls = [c for c in src.body if isinstance(c, ast.ClassDef) and c.name == 'KoopmanLiftingFn'][0]
    fns = {f.name: f for f in cls.body if isinstance(f, ast.FunctionDef)}
    out = ['(* GENERATED by tools/gen_helpers.py from KoopmanLiftingFn of the working tree - do not edit. *)',
           'From Coq Require Import List ZArith NArith Arith Bool.', 'From PK Require Import PyList SliceLib.',
           'Import ListNotations.', '', 'Section GenHelpers.', 'Variable T : Type.', 'Variable t0 : T.', '']
    expected = {
        'lift': ['fit_flag', 'transform', 'split_episodes_raw', 'combine_episodes_raw'],
        'retract': ['fit_flag', 'inverse_transform', 'split_episodes_raw', 'combine_episodes_raw'],
        'lift_state': ['fit_flag', 'nu_in', 'lift', 'ns_out'],
        'retract_state': ['fit_flag', 'nu_out', 'retract', 'ns_in'],
        'lift_input': ['fit_flag', 'lift', 'ns_out'],
        'retract_input': ['fit_flag', 'ns_out', 'retract', 'ns_in'],
    }
    for nm in ('lift', 'retract', 'lift_state', 'retract_state', 'lift_input', 'retract_input'):
        if nm not in fns:
            raise Unsupported(nm + ' not found')
        fn = Fn(nm, fns[nm])
        term = fn.run_lift() if nm in ('lift', 'retract') else fn.run_helper()
        got = [p for p, _ in fn.params]
        if got != expected[nm]:
            raise Unsupported(f'{nm}: reads {got}, the bridge expects {expected[nm]}')
        ps = ''.join(f' ({p} : {t})' for p, t in fn.params)
        out += [f'(* KoopmanLiftingFn.{nm} *)',
                f'Definition gen_{nm}{ps} (call : option bool) (X : list (list T)) : list (list T) :=', '  ' + term + '.', '']
    out += ['End GenHelpers.', '']
    os.makedirs(OUT, exist_ok=True)
    with open(os.path.join(OUT, 'HelpersGen.v'), 'w') as f:
        f.write('\n'.join(out) + '\n')
    print('HelpersGen.v written')


if __name__ == '__main__':
    try:
        main()
    except Unsupported as e:
        print('gen_helpers: construct outside the translated fragment: ' + str(e), file=sys.stderr)
        sys.exit(1)
