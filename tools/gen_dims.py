#!/venv/bin/python
"""M1 translator for C04: the integer bookkeeping of the lifting functions is EXECUTED, not
parsed: the real `_fit_one_ep` / `n_samples_in` methods of /repo's working tree are called on
a stub `self` whose attributes are symbolic non-negative integers (polynomials over named
unknowns with + * max; comparisons fork the execution and are recorded as conditions; any
other operation fails closed).  The resulting normal forms are written as Gallina over nat
into coq/Gen/Dims.v; BridgeC04.v proves that they are the formulas of the stage model
(Stage.leaf_dims / leaf_samples_in).  The `n_features_out_` / `min_samples_` statements of the
two base-class `fit` methods are evaluated symbolically from their AST.

A harmless refactor regenerates the same normal form; a changed formula regenerates a
different definition and the bridge stops checking."""
import ast
import itertools
import os
import sys

REPO = os.environ.get('VERIF_REPO', '/repo')
OUT = sys.argv[1] if len(sys.argv) > 1 else '/verif/coq/Gen'
sys.path.insert(0, REPO)


class Unsupported(Exception):
    pass


class Fork(Exception):
    pass


class Ctx:
    decisions = []      # scripted answers to symbolic comparisons, in order
    taken = []          # (condition text, bool) actually taken on this run


def _mono_mul(a, b):
    d = dict(a)
    for k, v in b:
        d[k] = d.get(k, 0) + v
    return tuple(sorted(d.items()))


class Sym:
    """polynomial with integer coefficients over atoms (unknown names or max-terms)"""

    def __init__(self, terms=None):
        self.t = {k: v for k, v in (terms or {}).items() if v != 0}

    @staticmethod
    def var(name):
        return Sym({((name, 1),): 1})

    @staticmethod
    def const(c):
        return Sym({(): int(c)})

    @staticmethod
    def lift(x):
        if isinstance(x, Sym):
            return x
        if isinstance(x, bool):
            raise Unsupported('bool used as a number')
        if isinstance(x, int):
            return Sym.const(x)
        raise Unsupported(f'non-integer operand {x!r}')

    def __add__(self, o):
        o = Sym.lift(o)
        d = dict(self.t)
        for k, v in o.t.items():
            d[k] = d.get(k, 0) + v
        return Sym(d)
    __radd__ = __add__

    def __mul__(self, o):
        o = Sym.lift(o)
        d = {}
        for k1, v1 in self.t.items():
            for k2, v2 in o.t.items():
                k = _mono_mul(k1, k2)
                d[k] = d.get(k, 0) + v1 * v2
        return Sym(d)
    __rmul__ = __mul__

    def __sub__(self, o):
        raise Unsupported('subtraction of symbolic sizes')
    __rsub__ = __sub__

    def __neg__(self):
        raise Unsupported('negation of a symbolic size')

    def is_const(self):
        return all(k == () for k in self.t)

    def _cmp(self, o, op):
        o = Sym.lift(o)
        if self.is_const() and o.is_const():
            a, b = self.t.get((), 0), o.t.get((), 0)
            return {'==': a == b, '!=': a != b, '<': a < b, '<=': a <= b, '>': a > b, '>=': a >= b}[op]
        text = (op, self.coq(), o.coq())
        i = len(Ctx.taken)
        if i < len(Ctx.decisions):
            ans = Ctx.decisions[i]
            Ctx.taken.append((text, ans))
            return ans
        raise Fork()

    def __eq__(self, o):
        return self._cmp(o, '==')

    def __ne__(self, o):
        return self._cmp(o, '!=')

    def __lt__(self, o):
        return self._cmp(o, '<')

    def __le__(self, o):
        return self._cmp(o, '<=')

    def __gt__(self, o):
        return self._cmp(o, '>')

    def __ge__(self, o):
        return self._cmp(o, '>=')

    __hash__ = None

    def __index__(self):
        raise Unsupported('symbolic size used as a concrete integer')

    def __bool__(self):
        raise Unsupported('truth value of a symbolic size')

    def coq(self):
        if not self.t:
            return '0'
        parts = []
        for k in sorted(self.t):
            c = self.t[k]
            if c < 0:
                raise Unsupported('negative coefficient')
            fs = []
            for name, p in k:
                fs += [name] * p
            if c != 1 or not fs:
                fs = [str(c)] + fs
            parts.append(' * '.join(fs))
        return '(' + ' + '.join(parts) + ')'


def sym_max(*args):
    if len(args) == 1:
        args = tuple(args[0])
    args = [Sym.lift(a) for a in args]
    if all(a.is_const() for a in args):
        return Sym.const(max(a.t.get((), 0) for a in args))
    out = args[0]
    for a in args[1:]:
        name = f'(Nat.max {out.coq()} {a.coq()})'
        out = Sym.var(name)
    return out


class SymBool:
    """symbolic flag (episode_feature_): forks on use"""

    def __init__(self, name):
        self.name = name

    def __bool__(self):
        i = len(Ctx.taken)
        if i < len(Ctx.decisions):
            ans = Ctx.decisions[i]
            Ctx.taken.append((('flag', self.name, ''), ans))
            return ans
        raise Fork()


def explore(fn):
    """run fn() under every combination of answers to the symbolic comparisons it makes;
    returns [(conditions, result)]"""
    results = []
    stack = [[]]
    while stack:
        dec = stack.pop()
        Ctx.decisions, Ctx.taken = dec, []
        try:
            r = fn()
        except Fork:
            if len(dec) > 6:
                raise Unsupported('too many symbolic branches')
            stack.append(dec + [False])
            stack.append(dec + [True])
            continue
        results.append((list(Ctx.taken), r))
    return results


def cond_coq(c):
    (op, a, b), ans = c
    if op == 'flag':
        t = a
    elif op == '==':
        t = f'Nat.eqb {a} {b}'
    elif op == '!=':
        t = f'negb (Nat.eqb {a} {b})'
    elif op == '<':
        t = f'Nat.ltb {a} {b}'
    elif op == '<=':
        t = f'Nat.leb {a} {b}'
    elif op == '>':
        t = f'Nat.ltb {b} {a}'
    else:
        t = f'Nat.leb {b} {a}'
    return t, ans


def tree(results, render):
    """nested if-then-else over the recorded conditions (they are explored in a fixed order)"""
    if len(results) == 1 and not results[0][0]:
        return render(results[0][1])
    first = results[0][0][0][0]
    yes = [(c[1:], r) for c, r in results if c and c[0][0] == first and c[0][1]]
    no = [(c[1:], r) for c, r in results if c and c[0][0] == first and not c[0][1]]
    if len(yes) + len(no) != len(results) or not yes or not no:
        raise Unsupported('branches do not share their first condition')
    t, _ = cond_coq((first, True))
    return f'(if {t} then {tree(yes, render)} else {tree(no, render)})'


def render_tuple(r):
    if isinstance(r, tuple):
        return '(' + ', '.join(Sym.lift(x).coq() for x in r) + ')'
    return Sym.lift(r).coq()


def stub(cls, **attrs):
    import inspect
    import types
    if inspect.isabstract(cls):
        return types.SimpleNamespace(**attrs)
    o = object.__new__(cls)
    for k, v in attrs.items():
        object.__setattr__(o, k, v)
    return o


def main():
    import sklearn.base
    import numpy as np
    import pykoop
    import pykoop.lifting_functions as lf
    import pykoop.koopman_pipeline as kp
    ns, nu = Sym.var('n_states_in_'), Sym.var('n_inputs_in_')
    X = np.zeros((2, 2))
    out = ['(* GENERATED by tools/gen_dims.py by symbolic execution of the working tree of pykoop - do not edit. *)',
           'From Coq Require Import Arith Bool.', '']

    def run_method(cls, name, attrs, args=(), patch_max=True):
        fn = getattr(cls, name)
        g = fn.__globals__
        saved = g.get('max', None)
        had = 'max' in g
        g['max'] = sym_max

        def call():
            return fn(stub(cls, **attrs), *args)
        try:
            return explore(call)
        finally:
            if had:
                g['max'] = saved
            else:
                del g['max']

    # ---- DelayLiftingFn
    dx, du = Sym.var('n_delays_state'), Sym.var('n_delays_input')
    r = run_method(lf.DelayLiftingFn, '_fit_one_ep', dict(n_states_in_=ns, n_inputs_in_=nu, n_delays_state=dx, n_delays_input=du), (X,))
    out += ['Definition gen_delay_fit (n_states_in_ n_inputs_in_ n_delays_state n_delays_input : nat) : nat * nat * nat :=',
            '  ' + tree(r, render_tuple) + '.', '']
    n = Sym.var('n_samples_out')
    r = run_method(lf.DelayLiftingFn, 'n_samples_in', dict(n_delays_state=dx, n_delays_input=du), (n,))
    out += ['Definition gen_delay_samples_in (n_delays_state n_delays_input n_samples_out : nat) : nat :=',
            '  ' + tree(r, render_tuple) + '.', '']
    # ---- BilinearInputLiftingFn, ConstantLiftingFn
    for cls, nm in ((lf.BilinearInputLiftingFn, 'bilinear'), (lf.ConstantLiftingFn, 'const')):
        r = run_method(cls, '_fit_one_ep', dict(n_states_in_=ns, n_inputs_in_=nu), (X,))
        out += [f'Definition gen_{nm}_fit (n_states_in_ n_inputs_in_ : nat) : nat * nat :=', '  ' + tree(r, render_tuple) + '.', '']
    # ---- RbfLiftingFn with a stub centre generator
    class StubCenters(sklearn.base.BaseEstimator):
        def fit(self, X, y=None):
            self.n_centers_ = Sym.var('n_centers_')
            return self
    r = run_method(lf.RbfLiftingFn, '_fit_one_ep',
                   dict(n_states_in_=ns, n_inputs_in_=nu, rbf='gaussian', centers=StubCenters(), offset=None, shape=1), (X,))
    out += ['Definition gen_rbf_fit (n_states_in_ n_inputs_in_ n_centers_ : nat) : nat * nat :=', '  ' + tree(r, render_tuple) + '.', '']
    # ---- KernelApproxLiftingFn with a stub kernel approximation
    class StubKernel(sklearn.base.BaseEstimator):
        def fit(self, X, y=None):
            self.n_features_out_ = Sym.var('n_features_kernel_')
            return self
    r = run_method(lf.KernelApproxLiftingFn, '_fit_one_ep',
                   dict(n_states_in_=ns, n_inputs_in_=nu, kernel_approx=StubKernel()), (X,))
    out += ['Definition gen_kernel_fit (n_states_in_ n_inputs_in_ n_features_kernel_ : nat) : nat * nat :=',
            '  ' + tree(r, render_tuple) + '.', '']
    # ---- SkLearnLiftingFn with a stub transformer
    class StubTf(sklearn.base.BaseEstimator):
        def fit(self, X, y=None):
            return self
    r = run_method(lf.SkLearnLiftingFn, '_fit_one_ep', dict(n_states_in_=ns, n_inputs_in_=nu, transformer=StubTf()), (X,))
    out += ['Definition gen_sk_fit (n_states_in_ n_inputs_in_ : nat) : nat * nat :=', '  ' + tree(r, render_tuple) + '.', '']
    # ---- EpisodeIndependentLiftingFn.n_samples_in
    r = run_method(kp.EpisodeIndependentLiftingFn, 'n_samples_in', {}, (n,))
    out += ['Definition gen_indep_samples_in (n_samples_out : nat) : nat :=', '  ' + tree(r, render_tuple) + '.', '']

    # ---- base-class fit: the statements assigning n_features_out_ and min_samples_
    src = ast.parse(open(os.path.join(REPO, 'pykoop', 'koopman_pipeline.py')).read())
    for cname, nm, ret in (('EpisodeIndependentLiftingFn', 'indep', '(n_x, n_u)'), ('EpisodeDependentLiftingFn', 'dep', '(n_x, n_u, n_k)')):
        cls = [c for c in src.body if isinstance(c, ast.ClassDef) and c.name == cname][0]
        fit = [f for f in cls.body if isinstance(f, ast.FunctionDef) and f.name == 'fit'][0]
        stmts = {}
        unpack = None
        for st in ast.walk(fit):
            if isinstance(st, ast.Assign) and len(st.targets) == 1:
                t = ast.unparse(st.targets[0])
                if t in ('self.n_states_out_', 'self.n_inputs_out_', 'self.n_features_out_', 'self.min_samples_'):
                    if t in stmts:
                        raise Unsupported(f'{cname}.fit assigns {t} twice')
                    stmts[t] = st.value
                if isinstance(st.value, ast.Call) and ast.unparse(st.value.func) == 'self._fit_one_ep':
                    unpack = ast.unparse(st.targets[0])
        if unpack != ret.strip('()').replace(' ', '') and unpack != ret and unpack != ret.strip('()'):
            raise Unsupported(f'{cname}.fit: result of _fit_one_ep unpacked as {unpack}')
        if set(stmts) != {'self.n_states_out_', 'self.n_inputs_out_', 'self.n_features_out_', 'self.min_samples_'}:
            raise Unsupported(f'{cname}.fit: bookkeeping statements not found')

        class S:
            pass

        def evaluate():
            s = S()
            s.episode_feature_ = SymBool('episode_feature_')
            env = dict(self=s, n_x=Sym.var('n_x'), n_u=Sym.var('n_u'), n_k=Sym.var('n_k'))
            for t in ('self.n_states_out_', 'self.n_inputs_out_', 'self.n_features_out_', 'self.min_samples_'):
                v = eval(compile(ast.Expression(stmts[t]), '<fit>', 'eval'), {}, env)
                setattr(s, t.split('.')[1], v)
            return (s.n_states_out_, s.n_inputs_out_, s.n_features_out_, s.min_samples_)
        r = explore(evaluate)
        args = 'n_x n_u : nat' if nm == 'indep' else 'n_x n_u n_k : nat'
        out += [f'Definition gen_{nm}_fit_attrs ({args}) (episode_feature_ : bool) : nat * nat * nat * nat :=',
                '  ' + tree(r, render_tuple) + '.', '']
    os.makedirs(OUT, exist_ok=True)
    with open(os.path.join(OUT, 'Dims.v'), 'w') as f:
        f.write('\n'.join(out) + '\n')
    print('Dims.v written')


if __name__ == '__main__':
    try:
        main()
    except Unsupported as e:
        print('gen_dims: operation outside the symbolic-integer fragment: ' + str(e), file=sys.stderr)
        sys.exit(1)
