#!/venv/bin/python
"""Translator for pykoop.koopman_pipeline.score_trajectory (C08): the decision structure and the data flow to the metric.

  finite check of both arrays  ->  error exit (raise when error_score is a string, else return error_score)
  strip_initial_conditions of both arrays with the given min_samples / episode_feature
  weights from the stripped EXPECTED array (n_steps, discount_factor, episode_feature)
  label column dropped from both iff episode_feature
  metric(sample_weight=weights, multioutput='uniform_average', [overrides], y_true=expected, y_pred=predicted)
  finite check of the score  ->  error exit
  sign flipped unless the metric is one of the greater-is-better ones
  a finite numeric error_score that the score does not reach is returned instead

Statement by statement, by the shape of each statement (texts of messages are free); the metric itself (scikit-learn) is a
parameter, `strip_initial_conditions` and `_weights_from_data_matrix` are the functions translated by tools/gen_episodes.py /
tools/gen_frames.py.  The result is an `option (option S)`: None = raised, Some None = error_score returned,
Some (Some s) = the score.  coq/BridgeScore.v proves the generated function equal to `score_trajectory` of coq/Score.v
over the rationals.  Fail-closed."""
import ast
import os
import sys

REPO = os.environ.get('VERIF_REPO', '/repo')
OUT = sys.argv[1] if len(sys.argv) > 1 else '/verif/coq/Gen'


class Unsupported(Exception):
    pass


def u(n):
    return ast.unparse(n)


def error_exit(stmts):
    """[if isinstance(error_score, str): raise ... else: warnings.warn(...); return error_score]"""
    if len(stmts) != 1 or not isinstance(stmts[0], ast.If):
        return False
    s = stmts[0]
    return (u(s.test) == 'isinstance(error_score, str)' and len(s.body) == 1 and isinstance(s.body[0], ast.Raise)
            and len(s.orelse) == 2 and isinstance(s.orelse[0], ast.Expr) and u(s.orelse[0].value.func) == 'warnings.warn'
            and u(s.orelse[1]) == 'return error_score')


def translate_scorer(src):
    """the closure `koopman_pipeline_scorer` returned by KoopmanPipeline.make_scorer: which arrays are predicted from and
    which are compared"""
    kp = [c for c in src.body if isinstance(c, ast.ClassDef) and c.name == 'KoopmanPipeline']
    if not kp:
        raise Unsupported('KoopmanPipeline not found')
    ms = [f for f in kp[0].body if isinstance(f, ast.FunctionDef) and f.name == 'make_scorer']
    if not ms:
        raise Unsupported('make_scorer not found')
    margs = [a.arg for a in ms[0].args.args]
    if margs != ['n_steps', 'discount_factor', 'regression_metric', 'regression_metric_kw', 'error_score', 'multistep', 'relift_state']:
        raise Unsupported(f'make_scorer: signature {margs}')
    inner = [f for f in ms[0].body if isinstance(f, ast.FunctionDef)]
    rest = [x for x in ms[0].body if not isinstance(x, ast.FunctionDef) and not (isinstance(x, ast.Expr) and isinstance(x.value, ast.Constant))]
    if len(inner) != 1 or inner[0].name != 'koopman_pipeline_scorer' or [u(x) for x in rest] != ['return koopman_pipeline_scorer']:
        raise Unsupported('make_scorer: does more than define and return koopman_pipeline_scorer')
    f = inner[0]
    if [a.arg for a in f.args.args] != ['estimator', 'X', 'y']:
        raise Unsupported('koopman_pipeline_scorer: signature')
    body = [x for x in f.body if not (isinstance(x, ast.Expr) and isinstance(x.value, ast.Constant))]
    t = [u(x) for x in body]
    if len(body) != 3 or t[0].replace('(X_unshifted, X_shifted)', 'X_unshifted, X_shifted') != ('X_unshifted, X_shifted = shift_episodes(X, n_inputs=estimator.n_inputs_in_, '
                                  'episode_feature=estimator.episode_feature_)') \
            or not isinstance(body[1], ast.If) or u(body[1].test) != 'multistep' or t[2] != 'return score':
        raise Unsupported('koopman_pipeline_scorer: shape of the body: ' + ' | '.join(t)[:300])
    common = ('regression_metric=regression_metric, regression_metric_kw=regression_metric_kw, error_score=error_score, '
              'min_samples=estimator.min_samples_, episode_feature=estimator.episode_feature_)')
    want_multi = ['x0 = extract_initial_conditions(X_unshifted, min_samples=estimator.min_samples_, n_inputs=estimator.n_inputs_in_, '
                  'episode_feature=estimator.episode_feature_)',
                  'u = extract_input(X_unshifted, n_inputs=estimator.n_inputs_in_, episode_feature=estimator.episode_feature_)',
                  'X_predicted = estimator.predict_trajectory(x0, u, relift_state=relift_state)',
                  'score = score_trajectory(X_predicted, X_shifted, n_steps=n_steps, discount_factor=discount_factor, ' + common]
    if [u(x) for x in body[1].body] != want_multi:
        raise Unsupported('koopman_pipeline_scorer: multi-step branch: ' + ' | '.join(u(x) for x in body[1].body)[:600])
    single = list(body[1].orelse)
    # messages about ignored arguments only
    while single and isinstance(single[0], ast.If) and not single[0].orelse and all(
            isinstance(x, ast.Expr) and u(x.value.func) == 'log.info' for x in single[0].body):
        single = single[1:]
    want_single = ['X_predicted = estimator.predict(X_unshifted)',
                   'score = score_trajectory(X_predicted, X_shifted, n_steps=None, discount_factor=1, ' + common]
    if [u(x) for x in single] != want_single:
        raise Unsupported('koopman_pipeline_scorer: single-step branch: ' + ' | '.join(u(x) for x in single)[:600])
    return ['(* the scorer returned by KoopmanPipeline.make_scorer (KoopmanPipeline.score is make_scorer() with its defaults).',
            '   predict_trajectory is called with the episode flag of the fit; Out: whatever score_trajectory returns *)',
            'Definition gen_koopman_pipeline_scorer (Out D : Type)',
            '    (shift_episodes : nat -> bool -> list (N * list T) -> list (N * list T) * list (N * list T))',
            '    (extract_initial_conditions : nat -> nat -> bool -> list (N * list T) -> list (N * list T))',
            '    (extract_input : nat -> bool -> list (N * list T) -> list (N * list T))',
            '    (predict_trajectory : bool -> list (N * list T) -> list (N * list T) -> list (N * list T))',
            '    (predict : list (N * list T) -> list (N * list T))',
            '    (score_trajectory : option nat -> D -> nat -> bool -> list (N * list T) -> list (N * list T) -> Out)',
            '    (one : D) (n_inputs_in min_samples : nat) (episode_feature : bool)',
            '    (multistep relift_state : bool) (n_steps : option nat) (discount_factor : D) (X : list (N * list T)) : Out :=',
            '  let X_unshifted := fst (shift_episodes n_inputs_in episode_feature X) in',
            '  let X_shifted := snd (shift_episodes n_inputs_in episode_feature X) in',
            '  if multistep then',
            '    let x0 := extract_initial_conditions min_samples n_inputs_in episode_feature X_unshifted in',
            '    let u := extract_input n_inputs_in episode_feature X_unshifted in',
            '    let X_predicted := predict_trajectory relift_state x0 u in',
            '    score_trajectory n_steps discount_factor min_samples episode_feature X_predicted X_shifted',
            '  else',
            '    let X_predicted := predict X_unshifted in',
            '    score_trajectory None one min_samples episode_feature X_predicted X_shifted.', '']


def main():
    src = ast.parse(open(os.path.join(REPO, 'pykoop', 'koopman_pipeline.py')).read())
    fns = {f.name: f for f in src.body if isinstance(f, ast.FunctionDef)}
    if 'score_trajectory' not in fns:
        raise Unsupported('score_trajectory not found')
    f = fns['score_trajectory']
    want_args = ['X_predicted', 'X_expected', 'n_steps', 'discount_factor', 'regression_metric', 'regression_metric_kw',
                 'error_score', 'min_samples', 'episode_feature']
    if [a.arg for a in f.args.args] != want_args:
        raise Unsupported('score_trajectory: signature')
    body = [s for s in f.body if not (isinstance(s, ast.Expr) and isinstance(s.value, ast.Constant))]
    if len(body) != 16:
        raise Unsupported(f'score_trajectory: {len(body)} statements, 16 expected')
    # 0: the table of metrics: every neg_<name> entry is sklearn.metrics.<name> (a loss), the other two are scores
    d = body[0]
    if not (isinstance(d, ast.Assign) and u(d.targets[0]) == 'regression_metrics' and isinstance(d.value, ast.Dict)):
        raise Unsupported('score_trajectory: table of metrics')
    table = {}
    for k, v in zip(d.value.keys, d.value.values):
        if not isinstance(k, ast.Constant) or not u(v).startswith('sklearn.metrics.'):
            raise Unsupported('score_trajectory: entry of the table of metrics')
        table[k.value] = u(v)[len('sklearn.metrics.'):]
    g = body[1]
    if not (isinstance(g, ast.Assign) and u(g.targets[0]) == 'greater_is_better' and isinstance(g.value, ast.List)
            and all(isinstance(e, ast.Constant) for e in g.value.elts)):
        raise Unsupported('score_trajectory: greater_is_better')
    gib = [e.value for e in g.value.elts]
    for k, v in table.items():
        if k in gib:
            if v != k + '_score':
                raise Unsupported(f'score_trajectory: metric {k} -> {v}')
        elif not k.startswith('neg_') or v != k[len('neg_'):]:
            raise Unsupported(f'score_trajectory: loss {k} -> {v} is not sklearn.metrics.<name without neg_>')
    # 2: finite check of the inputs
    s = body[2]
    if not (isinstance(s, ast.If) and not s.orelse and error_exit(s.body)
            and u(s.test) == 'not (np.all(np.isfinite(X_predicted)) and np.all(np.isfinite(X_expected)))'):
        raise Unsupported('score_trajectory: finite check of the inputs')
    t = [u(x) for x in body]
    fixed = {
        3: 'X_expected = strip_initial_conditions(X_expected, min_samples=min_samples, episode_feature=episode_feature)',
        4: 'X_predicted = strip_initial_conditions(X_predicted, min_samples=min_samples, episode_feature=episode_feature)',
        5: 'weights = _weights_from_data_matrix(X_expected, n_steps=n_steps, discount_factor=discount_factor, episode_feature=episode_feature)',
        6: 'if episode_feature:\n    X_expected = X_expected[:, 1:]\n    X_predicted = X_predicted[:, 1:]',
        7: "regression_metric_args = {'sample_weight': weights, 'multioutput': 'uniform_average'}",
        8: 'if regression_metric_kw is not None:\n    regression_metric_args.update(regression_metric_kw)',
        9: "regression_metric_args['y_true'] = X_expected",
        10: "regression_metric_args['y_pred'] = X_predicted",
        11: ('if isinstance(regression_metric, str):\n    score = regression_metrics[regression_metric](**regression_metric_args)\n'
             'else:\n    score = regression_metric(**regression_metric_args)'),
        13: 'if regression_metric not in greater_is_better:\n    score *= -1',
        15: 'return score',
    }
    for i, want in fixed.items():
        if t[i] != want:
            raise Unsupported(f'score_trajectory: statement {i}: {t[i][:200]}')
    s = body[12]
    if not (isinstance(s, ast.If) and not s.orelse and error_exit(s.body) and u(s.test) == 'not np.all(np.isfinite(score))'):
        raise Unsupported('score_trajectory: finite check of the score')
    s = body[14]
    if not (isinstance(s, ast.If) and not s.orelse and len(s.body) == 2 and u(s.body[1]) == 'return error_score'
            and isinstance(s.body[0], ast.Expr) and u(s.body[0].value.func) == 'warnings.warn'
            and u(s.test) == 'not isinstance(error_score, str) and np.isfinite(error_score) and (score < error_score)'):
        raise Unsupported('score_trajectory: comparison with error_score')
    out = ['(* GENERATED by tools/gen_score.py from pykoop/koopman_pipeline.py of the working tree - do not edit. *)',
           'From Coq Require Import List ZArith NArith Arith Bool.', 'From PK Require Import PyList SliceLib.',
           'From PK.Gen Require Import EpisodesGen FramesGen.', 'Import ListNotations.', '', 'Section GenScore.',
           'Variable T : Type.', '',
           '(* metrics by name: ' + ', '.join(f'{k} -> sklearn.metrics.{v}' for k, v in table.items()) + ';',
           '   greater is better: ' + ', '.join(gib) + ' *)', '',
           '(* score_trajectory.  error_score: None = a string (raise), Some None = nan / inf, Some (Some e) = a finite number;',
           '   result: None = raised, Some None = error_score returned, Some (Some s) = the score.',
           '   metric sample_weight y_true y_pred: the regression metric with the default keyword arguments',
           "   (multioutput='uniform_average'; regression_metric_kw may override sample_weight and multioutput, never y_true / y_pred) *)",
           'Definition gen_score_trajectory (S W : Type)',
           '    (all_finite : list (N * list T) -> bool) (score_finite : S -> bool) (negate : S -> S) (score_lt : S -> S -> bool)',
           '    (metric : list W -> list (list T) -> list (list T) -> S)',
           '    (strip_initial_conditions : nat -> bool -> list (N * list T) -> list (N * list T))',
           '    (dpow : nat -> W) (wzero : W) (greater_is_better : bool)',
           '    (n_steps : option nat) (error_score : option (option S)) (min_samples : nat) (episode_feature : bool)',
           '    (X_predicted X_expected : list (N * list T)) : option (option S) :=',
           '  let error_exit := match error_score with None => None | Some _ => Some None end in',
           '  if negb (all_finite X_predicted && all_finite X_expected) then error_exit else',
           '  let X_expected := strip_initial_conditions min_samples episode_feature X_expected in',
           '  let X_predicted := strip_initial_conditions min_samples episode_feature X_predicted in',
           '  let weights := gen_weights_from_data_matrix T W dpow wzero n_steps episode_feature X_expected in',
           '  let X_expected := data_columns X_expected in',
           '  let X_predicted := data_columns X_predicted in',
           '  let score := metric weights X_expected X_predicted in',
           '  if negb (score_finite score) then error_exit else',
           '  let score := if negb greater_is_better then negate score else score in',
           '  match error_score with',
           '  | Some (Some e) => if score_lt score e then Some None else Some (Some score)',
           '  | _ => Some (Some score)',
           '  end.', '', 'End GenScore.', '']
    out = out[:-2] + translate_scorer(src) + ['End GenScore.', '']
    os.makedirs(OUT, exist_ok=True)
    with open(os.path.join(OUT, 'ScoreGen.v'), 'w') as fh:
        fh.write('\n'.join(out) + '\n')
    print('ScoreGen.v written')


if __name__ == '__main__':
    try:
        main()
    except Unsupported as e:
        print('gen_score: construct outside the translated fragment: ' + str(e), file=sys.stderr)
        sys.exit(1)
