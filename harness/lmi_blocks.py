"""M5-exact: the LMI blocks built by pykoop's `_create_problem_a/_b` (through PICOS) against the
executable model coq/LmiBlocks.v.  Integer / dyadic test values are assigned to the PICOS
variables, the LMI constraint's slack (the block itself: `block >> 0`) is read back exactly and
compared entry by entry INSIDE Coq with the model evaluated on the same values."""
from fractions import Fraction

import numpy as np

from . import common, datapath as dp, lmi
import pykoop
import pykoop.lmi_regressors as L


def q(v):
    fr = Fraction(float(v)).limit_denominator(1 << 40)
    if float(fr) != float(v):
        raise ValueError('value is not exactly representable')
    return f'(Qmake ({fr.numerator}) {fr.denominator}%positive)'


def qm(M):
    M = np.atleast_2d(np.asarray(M, dtype=float))
    return '[' + ';'.join('[' + ';'.join(q(v) for v in r) + ']' for r in M) + ']'


def sym_int(rng, n):
    A = rng.integers(-2, 3, size=(n, n)).astype(float)
    return A + A.T + 5 * np.eye(n)


def last_lmi_slack(problem):
    cs = [c for c in problem.constraints.values() if type(c).__name__ == 'LMIConstraint']
    return np.array(cs[-1].slack, dtype=float)


def weight_of(rng, kind, k=None):
    if kind == 'none':
        return None, 'WNone'
    k = int(rng.integers(1, 3)) if k is None else k
    Aw = rng.integers(-1, 2, size=(k, k)) / 2.0
    Bw = rng.integers(-1, 2, size=(k, 1)).astype(float)
    Cw = rng.integers(-2, 3, size=(1, k)).astype(float)
    if k > 1 and len(set(Cw.ravel().tolist())) < k or not np.all(Cw):
        Cw = (np.arange(1, k + 1) * rng.choice([-1.0, 1.0])).reshape(1, k)     # distinct non-zero output gains
    if not np.any(Bw):
        Bw[0, 0] = 1.0
    Dw = rng.integers(-1, 2, size=(1, 1)) / 2.0
    tag = 'WPre' if kind == 'pre' else 'WPost'
    return (kind, Aw, Bw, Cw, Dw), f'({tag} {qm(Aw)} {qm(Bw)} {qm(Cw)} {qm(Dw)})'


def run_blocks(rng, n, name, families=None):
    batch = dp.CoqBatch(name, header_extra='From Coq Require Import QArith.\nFrom PK Require Import QMat LmiBlocks.\nOpen Scope Q_scope.\n')
    made, samples, dist = 0, [], {}
    Xd, _, _ = lmi.linear_data(np.random.default_rng(1), 2, 1, length=6)
    for cid in range(n):
        fams = families or ['sr_b', 'sr_a', 'dis_b', 'dis_a', 'hinf_b', 'hinf_a', 'sr_dmdc_b']
        fam = fams[cid % len(fams)]
        pth = int(rng.integers(1, 4)); nu = int(rng.integers(1, 3))
        U = rng.integers(-3, 4, size=(pth, pth + nu)).astype(float)
        payload = dict(test='lmi_block', builder=fam, U=U.tolist())
        try:
            if fam in ('sr_b', 'sr_a', 'sr_dmdc_b'):
                rho = float(rng.choice([0.5, 0.75, 1.0, 1.5]))
                if fam == 'sr_dmdc_b':
                    reg = L.LmiDmdcSpectralRadiusConstr(spectral_radius=rho, picos_eps=0)
                else:
                    reg = L.LmiEdmdSpectralRadiusConstr(spectral_radius=rho, picos_eps=0)
                P = sym_int(rng, pth) if fam != 'sr_a' else (rng.integers(-2, 3, size=(pth, pth)).astype(float) + 4 * np.eye(pth))
                if fam == 'sr_a':
                    # data with pth states and nu inputs, so that U has the right shape
                    X, _, _ = lmi.linear_data(np.random.default_rng(cid), pth, nu, length=pth + nu + 4)
                    Xu, Xs = pykoop.shift_episodes(X, n_inputs=nu, episode_feature=True)
                    reg.tsvd_ = pykoop.Tsvd()
                    pr = reg._create_problem_a(Xu[:, 1:], Xs[:, 1:], P)
                    for nm, v in pr.variables.items():
                        v.value = U if nm == 'U' else np.zeros(v.shape)
                    model = f'lyap_block_a {q(rho)} {qm(P)} {qm(U)}'
                else:
                    pr = reg._create_problem_b(U)
                    pr.variables['P'].value = P
                    model = f'lyap_block_b {q(rho)} {qm(P)} {qm(U)}'
                payload.update(rho=rho, P=P.tolist())
            elif fam in ('dis_b', 'dis_a'):
                Xi = sym_int(rng, pth + nu) - 5 * np.eye(pth + nu) if cid % 2 else None
                reg = L.LmiEdmdDissipativityConstr(supply_rate=Xi, picos_eps=0)
                xi_eff = Xi if Xi is not None else np.block([[np.eye(pth), np.zeros((pth, nu))], [np.zeros((nu, pth)), -np.eye(nu)]])
                P = sym_int(rng, pth)
                if fam == 'dis_a':
                    X, _, _ = lmi.linear_data(np.random.default_rng(cid), pth, nu, length=pth + nu + 4)
                    Xu, Xs = pykoop.shift_episodes(X, n_inputs=nu, episode_feature=True)
                    reg.tsvd_ = pykoop.Tsvd()
                    pr = reg._create_problem_a(Xu[:, 1:], Xs[:, 1:], P)
                    for nm, v in pr.variables.items():
                        v.value = U if nm == 'U' else np.zeros(v.shape)
                else:
                    pr = reg._create_problem_b(U)
                    pr.variables['P'].value = P
                model = f'dissip_block {qm(xi_eff)} {qm(P)} {qm(U)}'
                payload.update(Xi=xi_eff.tolist(), P=P.tolist())
            else:
                wk = ['none', 'pre', 'post'][(cid // len(fams)) % 3]
                # weighted cases go through every combination of one / two channels and filter order one / two
                j = cid // (3 * len(fams))
                if wk != 'none':
                    if wk == 'pre':
                        nu = 1 + j % 2
                    else:
                        pth = 1 + j % 2 if j % 4 < 2 else 2 + j % 2
                    U = rng.integers(-3, 4, size=(pth, pth + nu)).astype(float)
                    payload['U'] = U.tolist()
                w, wcoq = weight_of(rng, wk, None if wk == 'none' else 1 + (j // 2) % 2)
                gamma = float(rng.integers(1, 6))
                reg = L.LmiEdmdHinfReg(weight=w, picos_eps=0, alpha=1.0, ratio=1.0)
                nP = pth + (0 if w is None else (nu if wk == 'pre' else pth) * w[1].shape[0])
                P = sym_int(rng, nP)
                if fam == 'hinf_a':
                    X, _, _ = lmi.linear_data(np.random.default_rng(cid), pth, nu, length=pth + nu + 4)
                    Xu, Xs = pykoop.shift_episodes(X, n_inputs=nu, episode_feature=True)
                    reg.tsvd_ = pykoop.Tsvd(); reg.alpha_tikhonov_ = 0.0; reg.alpha_other_ = 1.0
                    pr = reg._create_problem_a(Xu[:, 1:], Xs[:, 1:], P)
                    for nm, v in pr.variables.items():
                        v.value = U if nm == 'U' else (gamma if nm == 'gamma' else np.zeros(v.shape))
                else:
                    pr = reg._create_problem_b(U, np.array([gamma]))
                    pr.variables['P'].value = P
                model = f'hinf_block {wcoq} {q(gamma)} {qm(P)} {qm(U)}'
                payload.update(weight=wk, gamma=gamma, P=P.tolist())
        except Exception as e:  # noqa
            batch.add('', [(f'builder raised {type(e).__name__}: {e}', 'false')], payload)
            continue
        try:
            S = last_lmi_slack(pr)
        except Exception:  # noqa
            dist['slack_not_readable'] = dist.get('slack_not_readable', 0) + 1     # PICOS cannot evaluate this test point
            continue
        payload['block_built_by_the_code'] = S.tolist()
        try:
            lit = qm(S)
        except ValueError:
            # the model's entries are small dyadic rationals for these test values: an entry that is not cannot agree
            batch.add('', [(f'lmi_block/{fam}: block has entries that the documented block cannot produce from these test values', 'false')], payload)
            continue
        batch.add('', [(f'lmi_block/{fam}', f'qmat_eqb ({model}) {lit}')], payload)
        made += 1
        dist[fam] = dist.get(fam, 0) + 1
        if len(samples) < 1:
            samples.append({k: v for k, v in payload.items() if k != 'block_built_by_the_code'})
    failed, errors = batch.run(shard=60)
    return batch, failed, errors, made, samples, dist


class Merged:
    """several CoqBatch results presented as one to _dp.conclude"""

    def __init__(self, parts):
        self.meta, self.failed, self.errors = {}, [], []
        for k, (batch, failed, errors) in enumerate(parts):
            for i, v in batch.meta.items():
                self.meta[(k, i)] = v
            self.failed += [(k, i) for i in failed]
            self.errors += errors
