"""Shared plumbing for the pykoop verification checks (paths, Coq runner,
evidence writer, known findings, violation reporting)."""
import fcntl
import hashlib
import json
import os
import re
import shutil
import subprocess
import sys
import time

VERIF = os.path.dirname(os.path.dirname(os.path.abspath(__file__)))
REPO = os.environ.get('VERIF_REPO', '/repo')
COQ = os.path.join(VERIF, 'coq')
if os.path.realpath(REPO) == '/repo':
    BUILD = os.path.join(VERIF, 'build')
    EVID = os.path.join(VERIF, 'evidence')
    REPLAYS = os.path.join(VERIF, 'replays')
else:
    # a scratch tree is being checked (self-test of the machinery): keep its case files,
    # evidence and replays apart from those of /repo so runs can proceed in parallel
    BUILD = os.path.join(VERIF, 'build', 'scratch_' + hashlib.sha1(REPO.encode()).hexdigest()[:8])
    EVID = os.path.join(BUILD, 'evidence')
    REPLAYS = os.path.join(BUILD, 'replays')
    COQ = os.path.join(BUILD, 'coq')       # private copy: Gen/*.v differ per source tree
CORPUS = os.path.join(VERIF, 'corpus')

# make the implementation importable from the working tree under test
os.environ['PYTHONPATH'] = REPO
os.environ.setdefault('PYTHONHASHSEED', '0')
os.environ.setdefault('OMP_NUM_THREADS', '1')
os.environ.setdefault('OPENBLAS_NUM_THREADS', '1')
if REPO not in sys.path:
    sys.path.insert(0, REPO)

GUARD = 'PYKOOP_VERIF'
os.environ[GUARD] = '1'

REALS_AXIOMS = ('ClassicalDedekindReals.sig_forall_dec', 'ClassicalDedekindReals.sig_not_dec',
                'FunctionalExtensionality.functional_extensionality_dep')

COQ_TIMEOUT = int(os.environ.get('VERIF_COQ_TIMEOUT', '900'))

# A broken implementation can blow up memory (e.g. rows duplicated at every stage); make
# that a Python MemoryError (a failing case) instead of an OOM kill of the whole check.
try:
    import resource
    _lim = int(os.environ.get('VERIF_MEM_GB', '10')) * (1 << 30)
    resource.setrlimit(resource.RLIMIT_AS, (_lim, _lim))
except Exception:  # noqa
    pass


def seed():
    try:
        return int(os.environ.get('VERIF_SEED', '20261001'))
    except ValueError:
        return 20261001


def sh(cmd, cwd=None, timeout=None, env=None):
    p = subprocess.run(cmd, cwd=cwd, shell=isinstance(cmd, str),
                       stdout=subprocess.PIPE, stderr=subprocess.STDOUT,
                       timeout=timeout, env=env, text=True)
    return p.returncode, p.stdout


class Lock:
    def __init__(self, name):
        os.makedirs(os.path.join(VERIF, 'build'), exist_ok=True)
        self.path = os.path.join(VERIF, 'build', name + '.lock')

    def __enter__(self):
        self.f = open(self.path, 'w')
        fcntl.flock(self.f, fcntl.LOCK_EX)
        return self

    def __exit__(self, *a):
        fcntl.flock(self.f, fcntl.LOCK_UN)
        self.f.close()


def regenerate():
    """Run every source translator: coq/Gen/*.v are rebuilt from REPO's working tree.
    A translator that stops (construct outside its fragment) leaves a stub in place of each of its
    outputs that does not compile, so exactly the Coq files that depend on it - and through them the
    properties that rely on it - fail to build; properties that do not use it are unaffected."""
    gen = os.path.join(COQ, 'Gen')
    os.makedirs(gen, exist_ok=True)
    # the translators write into a fresh directory; a file is then installed only when its text differs from the one in
    # place, so that an unchanged source tree leaves coq/Gen (and every .vo that depends on it) untouched - checks that run
    # side by side do not rewrite compiled files under each other
    tmp = gen + '.new.%d' % os.getpid()
    shutil.rmtree(tmp, ignore_errors=True)
    os.makedirs(tmp)
    logs = {}
    for tool in sorted(os.listdir(os.path.join(VERIF, 'tools'))):
        if tool.startswith('gen_') and tool.endswith('.py'):
            env = dict(os.environ, VERIF_REPO=REPO)
            tpath = os.path.join(VERIF, 'tools', tool)
            try:
                rc, out = sh(['/venv/bin/python', tpath, tmp], timeout=300, env=env)
            except subprocess.TimeoutExpired:
                rc, out = 124, 'timeout'
            logs[tool] = (rc, out[-2000:])
            if rc != 0:
                msg = re.sub(r'[^\w .,:;=<>/\[\]-]', ' ', out[-400:])
                for o in re.findall(r"os\.path\.join\(OUT, '(\w+\.v)'\)", open(tpath).read()):
                    with open(os.path.join(tmp, o), 'w') as f:
                        f.write(f'(* {tool} could not translate the working tree: {msg} *)\n'
                                'Definition translator_stopped : False := I.\n')
    for o in sorted(os.listdir(tmp)):
        if not o.endswith('.v'):
            continue
        src, dst = os.path.join(tmp, o), os.path.join(gen, o)
        if not os.path.exists(dst) or open(src).read() != open(dst).read():
            os.replace(src, dst)
    shutil.rmtree(tmp, ignore_errors=True)
    return logs


def coq_build(targets=None):
    """Regenerate Gen/*.v from the source tree under test, then (re)build the Coq
    development (full .vo build). Returns (ok, log)."""
    with Lock('coqbuild' + ('' if COQ == os.path.join(VERIF, 'coq') else os.path.basename(BUILD))):
        if COQ != os.path.join(VERIF, 'coq'):
            os.makedirs(COQ, exist_ok=True)
            sh(['rsync', '-a', '--delete', '--exclude', 'Gen/', os.path.join(VERIF, 'coq') + '/', COQ + '/'], timeout=300)
        gl = regenerate()
        bad = {k: v for k, v in gl.items() if v[0] != 0}
        rc, out = sh('coq_makefile -f _CoqProject -o Makefile', cwd=COQ, timeout=120)
        if rc != 0:
            return False, out
        tgt = '' if not targets else ' '.join(targets)
        rc, out = sh(f'timeout {COQ_TIMEOUT} make -j{os.cpu_count() or 4} {tgt}',
                     cwd=COQ, timeout=COQ_TIMEOUT + 30)
        if bad:
            out = 'translator stopped: ' + json.dumps(bad)[:3000] + '\n' + out
        return rc == 0, out


def coqc_file(path, extra_q=None, timeout=None):
    """Compile one generated .v file against the development. Returns (rc, out)."""
    args = ['coqc', '-Q', COQ, 'PK', '-w', 'none']
    for (d, n) in (extra_q or []):
        args += ['-Q', d, n]
    args.append(path)
    t = timeout or COQ_TIMEOUT
    try:
        p = subprocess.run(['timeout', str(t)] + args, cwd=os.path.dirname(path),
                           stdout=subprocess.PIPE, stderr=subprocess.STDOUT, text=True,
                           timeout=t + 30)
        return p.returncode, p.stdout
    except subprocess.TimeoutExpired:
        return 124, 'timeout'


def parse_failed(out):
    """Parse the `= [..] : list nat` answer printed by Eval vm_compute in failed ..."""
    m = re.search(r'=\s*\[(.*?)\]\s*:\s*list nat', out, re.S)
    if not m:
        return None
    body = m.group(1).strip()
    if not body:
        return []
    return [int(x.replace('%nat', '')) for x in re.split(r'[;\s]+', body) if x.strip()]


def audit_sources():
    """Stranger's audit: no Admitted / axioms / disabled checks anywhere in coq/."""
    bad = []
    pat = re.compile(r'\b(Admitted|admit|Axiom|Axioms|Parameter|Parameters|Conjecture|'
                     r'Admit Obligations|bypass_check|type-in-type|impredicative-set)\b|'
                     r'Unset\s+(Guard|Positivity|Universe)')
    for root, _, files in os.walk(COQ):
        for fn in files:
            if not fn.endswith('.v'):
                continue
            p = os.path.join(root, fn)
            txt = open(p).read()
            txt = re.sub(r'\(\*.*?\*\)', '', txt, flags=re.S)
            for i, line in enumerate(txt.split('\n'), 1):
                if pat.search(line):
                    bad.append(f'{os.path.relpath(p, COQ)}:{i}: {line.strip()}')
    return bad


_ASSUME_RE = re.compile(r'^(Closed under the global context|Axioms:)', re.M)


def props_assumptions(pid):
    """Compile Props/<pid>.v (already built by make) and return the text printed by
    its Print Assumptions commands, by re-running coqc on it (cheap)."""
    path = os.path.join(COQ, 'Props', f'{pid}.v')
    if not os.path.exists(path):
        return None, 'missing'
    rc, out = coqc_file(path)
    return rc, out


def load_known():
    p = os.path.join(VERIF, 'known_findings.json')
    if not os.path.exists(p):
        return {'findings': [], 'fixed': []}
    return json.load(open(p))


def known_for(pid):
    return [f for f in load_known().get('findings', []) if f['property'] == pid]


def write_replay(pid, payload):
    os.makedirs(REPLAYS, exist_ok=True)
    blob = json.dumps(payload, sort_keys=True, default=str)
    h = hashlib.sha1(blob.encode()).hexdigest()[:10]
    path = os.path.join(REPLAYS, f'{pid}-{h}.json')
    with open(path, 'w') as f:
        json.dump(payload, f, indent=1, sort_keys=True, default=str)
    return path


# distinctness accounting: checks note a key per generated case; finish() subtracts the duplicates it saw
_NOTED = {'total': 0, 'keys': set()}


def note_case(*parts):
    h = hashlib.sha1()
    for x in parts:
        if hasattr(x, 'tobytes'):
            h.update(str(getattr(x, 'shape', '')).encode()); h.update(x.tobytes())
        else:
            h.update(json.dumps(x, sort_keys=True, default=str).encode())
    _NOTED['total'] += 1
    _NOTED['keys'].add(h.hexdigest())


class Result:
    """Collects what a check did; prints interface lines; writes evidence."""

    def __init__(self, pid, tier, level):
        self.pid = pid
        self.tier = tier
        self.level = level
        self.t0 = time.time()
        self.violations = []      # (replay_path, no_input_found)
        self.known_hits = []
        self.coverage = {}
        self.assumptions = []

    def violation(self, payload, found_input=True):
        path = write_replay(self.pid, payload)
        suffix = '' if found_input else ' no-failing-input-found'
        print(f'VIOLATION property={self.pid} replay={path}{suffix}', flush=True)
        self.violations.append((path, not found_input))

    def known(self, what):
        line = f'KNOWN-FINDING: property={self.pid} {what}'
        if line not in self.known_hits:
            self.known_hits.append(line)
            print(line, flush=True)

    def finish(self):
        os.makedirs(EVID, exist_ok=True)
        dup = _NOTED['total'] - len(_NOTED['keys'])
        if _NOTED['total']:
            self.coverage['cases_keyed_for_distinctness'] = _NOTED['total']
            self.coverage['duplicate_cases_seen'] = dup
            if isinstance(self.coverage.get('distinct_nontrivial'), int):
                self.coverage['distinct_nontrivial'] = max(0, self.coverage['distinct_nontrivial'] - dup)
        ev = {
            'property_id': self.pid,
            'tier': self.tier,
            'seed': seed(),
            'level': self.level,
            'coverage': self.coverage,
            'assumptions': self.assumptions,
            'wall_s': round(time.time() - self.t0, 2),
            'violations': len(self.violations),
            'known_findings_reported': self.known_hits,
        }
        with open(os.path.join(EVID, f'{self.pid}.json'), 'w') as f:
            json.dump(ev, f, indent=1, default=str)
        return 1 if self.violations else 0
