"""Every public entry point of a fitted regressor / pipeline that is documented as reading only: predictions,
frequency responses and the plotting helpers (on the Agg backend).  A property about the fitted state must still
hold after any of them was called."""
import warnings

import numpy as np


def exercise(est, X=None):
    """calls the read-only helpers of `est` (exceptions of a helper are not the subject here and are swallowed:
    some need inputs, some need a particular regressor)"""
    import matplotlib
    matplotlib.use('Agg')
    import matplotlib.pyplot as plt
    called = []
    reg = getattr(est, 'regressor_', est)
    calls = []
    for nm in ('plot_eigenvalues', 'plot_koopman_matrix', 'plot_svd'):
        for o in (est, reg):
            if hasattr(o, nm):
                calls.append((nm, (lambda o=o, nm=nm: getattr(o, nm)())))
    for o in (est, reg):
        if hasattr(o, 'frequency_response'):
            calls.append(('frequency_response', lambda o=o: o.frequency_response(t_step=0.1)))
        if hasattr(o, 'plot_bode'):
            calls.append(('plot_bode', lambda o=o: o.plot_bode(t_step=0.1)))
    if X is not None:
        for nm in ('predict', 'predict_trajectory', 'score', 'plot_predicted_trajectory', 'plot_lifted_trajectory', 'transform'):
            if hasattr(est, nm):
                calls.append((nm, (lambda nm=nm: getattr(est, nm)(X))))
    with warnings.catch_warnings():
        warnings.simplefilter('ignore')
        for nm, f in calls:
            try:
                f()
                called.append(nm)
            except Exception:  # noqa
                pass
            finally:
                plt.close('all')
    return called
