"""Integer-exact sub-estimators supplied by the harness through pykoop's
documented extension points, mirroring coq/ZInst.v.  They keep every cell an
exact integer (in float64) through the public API, so implementation and model
are compared without tolerance."""
import numpy as np
import sklearn.base

import pykoop
import pykoop.util


def sk_sign(id_, c):
    return 1 if (id_ + c) % 2 == 0 else -1


def sk_off(id_, c):
    return ((id_ * 7 + c * 3) % 11) - 5


class IntAffine(sklearn.base.BaseEstimator, sklearn.base.TransformerMixin):
    """Column-wise integer affine 'scaler' (x -> s_c * x + o_c, s_c = +-1)."""

    def __init__(self, id=0):
        self.id = id

    def fit(self, X, y=None):
        X = np.asarray(X)
        self.n_features_in_ = X.shape[1]
        c = np.arange(X.shape[1])
        self.sign_ = np.array([sk_sign(self.id, k) for k in c], dtype=float)
        self.off_ = np.array([sk_off(self.id, k) for k in c], dtype=float)
        return self

    def transform(self, X):
        return np.asarray(X) * self.sign_ + self.off_

    def inverse_transform(self, X):
        return self.sign_ * (np.asarray(X) - self.off_)


class IntRadial:
    """Callable radial function r -> (id+1) * round(r**2): integer on integer data."""

    def __init__(self, id=0):
        self.id = id

    def __call__(self, r):
        return (self.id + 1) * np.round(r**2)

    def __repr__(self):
        return f'IntRadial({self.id})'


class IntKernel(pykoop.KernelApproximation):
    """Kernel approximation with integer features z_j(row) = (j+1)*sum(row) + id."""

    def __init__(self, id=0, n_feat=2):
        self.id = id
        self.n_feat = n_feat

    def fit(self, X, y=None):
        X = np.asarray(X)
        self.n_features_in_ = X.shape[1]
        self.n_features_out_ = self.n_feat
        return self

    def transform(self, X):
        X = np.asarray(X)
        s = np.sum(X, axis=1, keepdims=True)
        j = np.arange(self.n_feat).reshape(1, -1) + 1.0
        return s * j + float(self.id)


class _NumpyProxy:
    """Stands in for the `np` name inside pykoop.util: cos/sin/arctan2/unwrap are
    replaced by the integer stand-ins of ZInst.v (zcos, zsin, zatan2, zunwrap);
    every other attribute is numpy's own."""

    def __init__(self, real):
        self._real = real

    def __getattr__(self, name):
        return getattr(self._real, name)

    @staticmethod
    def cos(x):
        return 2 * np.asarray(x) + 1

    @staticmethod
    def sin(x):
        return 3 * np.asarray(x) - 1

    @staticmethod
    def arctan2(s, c):
        return np.floor_divide(np.asarray(c) - 1, 2)

    @staticmethod
    def unwrap(a, axis=0):
        return np.cumsum(a, axis=axis)


class integer_trig:
    """Context manager installing the proxy in pykoop.util (harness-side only)."""

    def __enter__(self):
        self._saved = pykoop.util.np
        pykoop.util.np = _NumpyProxy(self._saved)
        return self

    def __exit__(self, *a):
        pykoop.util.np = self._saved
