"""check <ID> [--tier quick|thorough] [--replay file] — entry point of every check."""
import argparse
import importlib
import json
import os
import re
import sys
import traceback

from . import common


# statement files shared by several properties (generated-code bridges used by all of them)
SHARED_PROPS = {p: ['Stages', 'Frames'] for p in ('C01', 'C02', 'C03', 'C04', 'C16')}
SHARED_PROPS.update({p: ['Frames'] for p in ('C05', 'C07')})


def proof_step(res, pid, allow_axioms=()):
    """Build the Coq development (full .vo build), audit it, and collect the
    Print Assumptions output under every theorem of Props/<pid>.v.
    Returns True when every obligation of this property is discharged."""
    cov = res.coverage
    cov['checker_cmd'] = ('coq_makefile -f _CoqProject -o Makefile && make  (coqc 8.16.1, full .vo build) '
                          f'; coqc Props/{pid}.v re-run for Print Assumptions')
    import glob
    rel = [f'Props/{pid}.v'] + sorted('Props/' + os.path.basename(x) for x in glob.glob(os.path.join(common.VERIF, 'coq', 'Props', f'{pid}_*.v'))) \
        + [f'Props/{x}.v' for x in SHARED_PROPS.get(pid, [])]
    ok, log = common.coq_build()
    if not ok:
        # is THIS property's development affected?  (a translator that stopped, or a bridge that no longer
        # compiles, breaks exactly the files that depend on it)
        ok2, log2 = common.coq_build([r + 'o' for r in rel])
        if not ok2:
            cov['obligations'] = cov.get('obligations', 0) or 1
            cov['discharged'] = 0
            res.build_log = log2[-4000:]
            return False
    bad = common.audit_sources()
    if bad:
        cov['audit'] = bad
        res.build_log = 'audit failed: ' + '; '.join(bad)
        cov['obligations'] = 1
        cov['discharged'] = 0
        return False
    paths = [os.path.join(common.COQ, r) for r in rel]
    thms, examples, out = [], [], ''
    for path in paths:
        src = open(path).read()
        src_nc = re.sub(r'\(\*.*?\*\)', '', src, flags=re.S)
        t1 = re.findall(r'^\s*(?:Theorem|Corollary)\s+(\w+)', src_nc, re.M)
        thms += t1
        examples += re.findall(r'^\s*Example\s+(\w+)', src_nc, re.M)
        rc, o1 = common.coqc_file(path)
        if rc != 0:
            cov['obligations'] = len(thms) or 1
            cov['discharged'] = 0
            res.build_log = o1[-4000:]
            return False
        out += '\n' + o1
    # parse assumptions
    blocks = re.split(r'\n(?=Closed under the global context|Axioms:)', '\n' + out)
    axioms = set()
    closed = 0
    for b in blocks:
        b = b.strip()
        if b.startswith('Closed under the global context'):
            closed += 1
        elif b.startswith('Axioms:'):
            for m in re.finditer(r'^([A-Za-z_][\w\.]*)\s*:', b[len('Axioms:'):], re.M):
                axioms.add(m.group(1))
    unexpected = sorted(a for a in axioms if a not in allow_axioms)
    cov['obligations'] = len(thms)
    cov['discharged'] = len(thms)
    cov['theorems'] = thms
    cov['non_vacuity_examples'] = examples
    cov['print_assumptions'] = {'closed_under_global_context': closed,
                                'axioms': sorted(axioms)}
    cov.setdefault('trusted_base', [])
    cov['trusted_base'] += [
        'Coq 8.16.1 kernel (coqc; vm_compute for case evaluation; no native_compute)',
        'axioms reported by Print Assumptions: ' + (', '.join(sorted(axioms)) or 'none (closed under the global context)'),
    ]
    if unexpected:
        res.build_log = 'unexpected axioms: ' + ', '.join(unexpected)
        cov['discharged'] = 0
        return False
    return True


def main():
    ap = argparse.ArgumentParser()
    ap.add_argument('pid')
    ap.add_argument('--tier', default=os.environ.get('VERIF_TIER', 'quick'))
    ap.add_argument('--replay', default=None)
    a = ap.parse_args()
    tier = a.tier if a.tier in ('quick', 'thorough') else 'quick'
    pid = a.pid.upper()
    mod = importlib.import_module(f'harness.props.{pid.lower()}')
    if a.replay:
        rc = mod.replay(a.replay)
        sys.exit(rc)
    res = common.Result(pid, tier, getattr(mod, 'LEVEL', 'proof'))
    res.build_log = ''
    try:
        mod.run(res, tier)
    except Exception:  # the machinery itself failed: never report a bogus pass
        tb = traceback.format_exc()
        print(tb, file=sys.stderr)
        res.coverage.setdefault('explanation', '')
        res.coverage['harness_error'] = tb[-3000:]
        # an exception raised INSIDE the implementation under test while the harness exercised it on an input the
        # unchanged code handles: the correspondence can no longer be established, which is reported as a violation
        # without a concrete failing input (the traceback is the replay); anything else is a harness failure (exit 2)
        impl = {os.path.join(r, 'pykoop') + os.sep for r in (common.REPO, os.path.realpath(common.REPO))}
        if any(i in tb for i in impl):
            res.violation(dict(property=pid, broken=['the implementation raised while the check was establishing the '
                                                     'model / implementation correspondence: ' + tb[-2500:]],
                               theorem_or_correspondence='correspondence run of ' + pid), found_input=False)
            sys.exit(res.finish() or 1)
        res.finish()
        print(f'ERROR: check machinery for {pid} crashed (not a verdict)', file=sys.stderr)
        sys.exit(2)
    rc = res.finish()
    sys.exit(rc)
