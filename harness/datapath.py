"""M2 — the hand-written Coq model is executed inside Coq (vm_compute, T := Z) on
the same pipelines / layouts as the implementation, and every output cell is
compared inside Coq; only the ids of disagreeing checks come back.

A *case* is a dict produced by gen_case(); run_impl_case() runs pykoop through
its public API and records outputs; emit_checks() turns each requested
observable into Coq boolean checks."""
import os
import traceback
import warnings

import numpy as np

from . import common
from . import stagegen as sg
from . import intest
import pykoop

warnings.filterwarnings('ignore')


def gen_case(rng, cid, max_len=3, max_depth=2, allow=None, short_prob=0.0,
             need=None, tagged=False, max_eps=4):
    allow = allow or sg.LEAF_KINDS
    for _ in range(200):
        ns = int(rng.integers(1, 4))
        nu = int(rng.integers(0, 3))
        ep = bool(rng.random() < 0.7)
        from . import direct as _direct
        if cid < len(_direct.CHAIN_POOL) and set(sg.kinds_of(('pipe', _direct.CHAIN_POOL[cid]))) <= set(allow) | {'split', 'pipe'}:
            chain = _direct.CHAIN_POOL[cid]; ns, nu = 2, 1
            d = (ns, nu)
            for sp in chain:
                d = sg.dims_out(sp, *d)
            need = None
            if cid in _direct.POOL_SINGLE_EPISODE:
                max_eps = 1
            else:
                ep = (cid % 8 != 7)         # the fixed pool: an episode feature whatever the random stream does
        else:
            chain, d = sg.gen_chain(rng, ns, nu, max_len, max_depth, allow)
        if not chain:
            continue
        top = ('pipe', chain)
        if need and not need(top):
            continue
        w = sg.min_samples(top)
        order, mode = sg.gen_layout(rng, w, short_prob=(0.0 if cid < len(_direct.CHAIN_POOL) else short_prob),   # the fixed pool always gets usable episodes
                                        
                                    max_eps=max_eps if ep else 1,
                                    many=True if (ep and max_eps >= 3 and cid % 40 == 7) else None,
                                        # the fixed pool of pipelines meets non-contiguous arrangements whatever the random stream does
                                        mode=(['interleave', 'chunks', 'interleave', 'desc', 'chunks', 'shuffleblocks'][cid % 6] if cid < len(_direct.CHAIN_POOL) else None))
        if not ep:
            order = [0] * len(order)
        X = sg.gen_data(rng, order, ns, nu, ep, tagged=tagged)
        Xfit = X
        if nu > 0 and rng.random() < 0.12:
            # fit on free-response data (all inputs zero), use on driven data
            Xfit = np.array(X, copy=True)
            Xfit[:, (1 if ep else 0) + ns:] = 0
        pres = PRESENTATIONS[cid % len(PRESENTATIONS)]
        same = Xfit is X
        X = present(X, pres)
        Xfit = X if same else present(Xfit, pres)
        return dict(cid=cid, chain=chain, ns=ns, nu=nu, ep=ep, X=X, Xfit=Xfit, mode=mode,
                    w=w, dims=d, presentation=pres)
    raise RuntimeError('generator could not produce a case')


def present(X, mode):
    """the same numbers, presented to the library as another kind of array"""
    X = np.asarray(X)
    if mode == 'int' and np.all(X == np.round(X)):
        return X.astype(np.int64)
    if mode == 'fortran':
        return np.asfortranarray(X)
    if mode == 'view':
        big = np.zeros((X.shape[0] * 2, X.shape[1] * 2 + 1))
        big[::2, 1::2] = X
        return big[::2, 1::2]               # non-contiguous view with the same contents
    if mode == 'readonly':
        Y = np.array(X, copy=True)
        Y.setflags(write=False)
        return Y
    return X


PRESENTATIONS = ['float', 'float', 'int', 'fortran', 'view', 'readonly']


def prefit_history(kp, case):
    """History before the fit under test: the same pipeline object is first fitted on data of the same width
    with another layout (other number of inputs, or the episode column read as a state).  Deterministic in
    the case id; estimators that reject the other layout are left unfitted."""
    cid = int(case.get('cid', 0))
    if cid % 4 != 3:
        return False
    X = case.get('Xfit', case['X'])
    try:
        if cid % 8 == 3:
            alt = case['nu'] - 1 if case['nu'] > 0 else 1
            if case['ns'] + case['nu'] - alt < 1:
                return False
            getattr(kp, 'fit_transformers', kp.fit)(X, n_inputs=alt, episode_feature=case['ep'])
        else:
            getattr(kp, 'fit_transformers', kp.fit)(X, n_inputs=case['nu'], episode_feature=not case['ep'])
    except Exception:  # noqa
        return False
    # ... and used: every read-only entry point is called once on the earlier fit (anything memoised per
    # object would now hold values of that fit)
    for call in (lambda: kp.transform(X), lambda: kp.inverse_transform(kp.transform(X)), lambda: kp.lift(X),
                 lambda: kp.lift_state(np.asarray(X)[:, :(1 if kp.episode_feature_ else 0) + kp.n_states_in_]),
                 lambda: kp.lift_input(X), lambda: kp.retract(kp.lift(X)),
                 lambda: kp.retract_state(kp.lift_state(np.asarray(X)[:, :(1 if kp.episode_feature_ else 0) + kp.n_states_in_])),
                 lambda: kp.retract_input(kp.lift_input(X)),
                 lambda: kp.get_feature_names_out(), lambda: kp.get_feature_names_in(), lambda: kp.n_samples_in(3)):
        try:
            call()
        except Exception:  # noqa
            pass
    return True


def fit_case(case):
    kp = sg.build_top(case['chain'])
    case['prefit'] = prefit_history(kp, case)
    kp.fit_transformers(case.get('Xfit', case['X']), n_inputs=case['nu'], episode_feature=case['ep'])
    return kp


def describe(case):
    return dict(cid=case['cid'], chain=repr(case['chain']), n_states=case['ns'],
                n_inputs=case['nu'], episode_feature=case['ep'],
                rows=int(case['X'].shape[0]), layout=case['mode'], array_presentation=case.get('presentation', 'float'),
                fit_on_zero_inputs=bool(case.get('Xfit') is not case['X']),
                min_samples=case['w'])


class CoqBatch:
    """Accumulates definitions and checks, writes shards, runs coqc in parallel."""

    def __init__(self, name, header_extra=''):
        self.name = name
        self.items = []      # (defs_text, [(check_id, bool_expr)], payload)
        self.header_extra = header_extra
        self.next_id = 1
        self.meta = {}       # check id -> (case payload, tag)

    def add(self, defs, checks, payload):
        common.note_case('coq', self.name, defs, [e for _, e in checks])
        out = []
        for tag, expr in checks:
            i = self.next_id
            self.next_id += 1
            out.append((i, expr))
            self.meta[i] = (payload, tag)
        self.items.append((defs, out))

    def run(self, shard=120):
        d = os.path.join(common.BUILD, 'cases', self.name)
        os.makedirs(d, exist_ok=True)
        for f in os.listdir(d):
            os.unlink(os.path.join(d, f))
        files = []
        for k in range(0, len(self.items), shard):
            part = self.items[k:k + shard]
            fn = os.path.join(d, f'cases_{k // shard}.v')
            with open(fn, 'w') as f:
                f.write('From Coq Require Import List ZArith NArith Bool String.\n'
                        'From PK Require Import PyList Episodes Stage Helpers ZInst.\n'
                        + self.header_extra +
                        'Import ListNotations.\nOpen Scope Z_scope.\n')
                names = []
                for j, (defs, checks) in enumerate(part):
                    f.write(defs + '\n')
                    nm = f'chk_{j}'
                    body = ';\n  '.join(f'({i}%nat, {e})' for i, e in checks)
                    f.write(f'Definition {nm} : list (nat * bool) := [\n  {body}].\n')
                    names.append(nm)
                f.write('Definition all_checks : list (nat * bool) := List.concat [' + '; '.join(names) + '].\n')
                f.write('Eval vm_compute in failed all_checks.\n')
            files.append(fn)
        from concurrent.futures import ThreadPoolExecutor
        failed, errors = [], []
        with ThreadPoolExecutor(max_workers=min(16, os.cpu_count() or 4)) as ex:
            for fn, (rc, out) in zip(files, ex.map(common.coqc_file, files)):
                got = common.parse_failed(out) if rc == 0 else None
                if got is None:
                    errors.append((fn, out[-3000:]))
                else:
                    failed += got
        return failed, errors


def coq_case_defs(case, kp, prefix):
    """Definitions naming the stage term, dims and input matrix of one case."""
    st = sg.render_top(case['chain'], kp)
    X = sg.render_dmat(case['X'], case['ep'])
    ep = 'true' if case['ep'] else 'false'
    return (f'Definition {prefix}_s : zstage := {st}.\n'
            f'Definition {prefix}_d : dims := ({case["ns"]}%nat, {case["nu"]}%nat).\n'
            f'Definition {prefix}_ep := {ep}.\n'
            f'Definition {prefix}_X : dmat Z := {X}.')


def safe(fn):
    try:
        return fn(), None
    except Exception as e:  # noqa
        return None, f'{type(e).__name__}: {e}'
