"""Predicates of the recorded known findings.  A predicate is only consulted when
its id is listed under 'findings' in /verif/known_findings.json for that property."""
import numpy as np

from . import common, stagegen as sg


def listed(pid):
    return {f['id']: f for f in common.known_for(pid)}


def n_episodes(case):
    return len(set(np.asarray(case['X'])[:, 0].tolist())) if case['ep'] else 1


def has_unwrap(spec):
    if spec[0] == 'angle':
        return bool(spec[2]) and len(spec[1]) > 0
    if spec[0] == 'split':
        return any(has_unwrap(s) for s in spec[1] + spec[2])
    if spec[0] == 'pipe':
        return any(has_unwrap(s) for s in spec[1])
    return False


def F11(case):
    """AnglePreprocessor(unwrap_inverse=True) with angle features and more than one episode."""
    return has_unwrap(('pipe', case['chain'])) and n_episodes(case) > 1


def F12(case):
    """SplitPipeline inside the pipeline and an episode shorter than min_samples_."""
    if not sg.has_kind(('pipe', case['chain']), ('split',)):
        return False
    X = np.asarray(case['X'])
    if not case['ep']:
        return False
    lens = [int(np.sum(X[:, 0] == l)) for l in set(X[:, 0].tolist())]
    return min(lens) < case['w']


# ---------------------------------------------------------------- witnesses
# Each recorded finding has a fixed witness replayed on the implementation on
# every run: KNOWN-FINDING is printed only while the witness still fails.
def witness_F11():
    import pykoop
    X = np.array([[0, 3.0], [0, 3.1], [1, -3.0], [1, -3.1]])
    ap = pykoop.AnglePreprocessor(angle_features=np.array([0]), unwrap_inverse=True)
    ap.fit(X, n_inputs=0, episode_feature=True)
    Xi = ap.inverse_transform(ap.transform(X))
    return not np.allclose(Xi, X, atol=1e-9)


def witness_F12():
    import pykoop
    sp = pykoop.SplitPipeline(
        lifting_functions_state=[('d', pykoop.DelayLiftingFn(2, 2))],
        lifting_functions_input=None)
    X = np.array([[0, 1., 10.], [0, 2., 20.],
                  [1, 3., 30.], [1, 4., 40.], [1, 5., 50.], [1, 6., 60.], [1, 7., 70.]])
    sp.fit(X, n_inputs=1, episode_feature=True)
    try:
        Xt = sp.transform(X)
    except Exception:  # noqa
        return False
    # rows labelled 1 must carry episode 1's inputs (50, 60, 70)
    got = Xt[Xt[:, 0] == 1][:, -1].tolist()
    return got != [50., 60., 70.]


def witness_F14():
    import pykoop
    X = np.array([[1., 2., 3.], [2., 1., 1.], [0.5, 2., 2.]])     # x0, x1, u0
    kp = pykoop.KoopmanPipeline(lifting_functions=[
        ('b', pykoop.BilinearInputLiftingFn()), ('p', pykoop.PolynomialLiftingFn(order=2))])
    kp.fit_transformers(X, n_inputs=1)
    names = list(kp.get_feature_names_out())
    Xt = kp.transform(X)
    if 'x1*u0^2' not in names:
        return False
    j = names.index('x1*u0^2')
    # conventional reading x1*(u0^2) = 18 at the first sample; the column holds (x1*u0)^2 = 36
    return abs(Xt[0, j] - 36.0) < 1e-9 and abs(X[0, 1] * X[0, 2] ** 2 - Xt[0, j]) > 1.0


def witness_F9():
    import warnings
    import pykoop.lmi_regressors as L
    rng = np.random.default_rng(0)
    rows = []
    x = np.array([1.0, -0.5])
    for k in range(14):
        u = rng.normal(size=1)
        rows.append([0.0] + list(x) + list(u))
        x = 0.5 * x + 0.3 * u
    with warnings.catch_warnings():
        warnings.simplefilter('ignore')
        reg = L.LmiEdmdDissipativityConstr(max_iter=2, solver_params={'solver': 'cvxopt'})
        reg.fit(np.array(rows), n_inputs=1, episode_feature=True)
    return not np.any(reg.coef_)


def witness_F8():
    import warnings
    import pykoop
    X = np.array([[0.0, 1.0 * 0.5 ** k] for k in range(8)])        # x+ = 0.5 x, exactly
    kp = pykoop.KoopmanPipeline(regressor=pykoop.Edmd())
    kp.fit(X, n_inputs=0, episode_feature=True)
    with warnings.catch_warnings():
        warnings.simplefilter('ignore')
        exact = np.max(np.abs(kp.predict_trajectory(X)[:, 1:] - X[:, 1:])) < 1e-12
        # the witness of the theorem C08_scorer_alignment_refuted (x+ = 2 x, data 1 2 4 8, Koopman matrix [[2]]): the model
        # reproduces the data and the scorer returns -10, as the scorer generated from the source does inside Coq
        Xw = np.array([[1.0], [2.0], [4.0], [8.0]])
        kw = pykoop.KoopmanPipeline(regressor=pykoop.DataRegressor(coef=np.array([[2.0]])))
        kw.fit(Xw, n_inputs=0, episode_feature=False)
        coq = bool(np.array_equal(kw.predict_trajectory(Xw), Xw) and abs(kw.score(Xw) + 10.0) < 1e-9)
        return bool(exact and abs(kp.score(X)) > 1e-6 and coq)


def witness_F3():
    import pykoop
    X = np.array([[0., 10., -3.], [4., 20., 5.], [2., 15., 1.]])
    g = pykoop.UniformRandomCenters(n_centers=5, random_state=3).fit(X)
    un = (g.centers_ - g.range_min_) / (g.range_max_ - g.range_min_)
    return bool(np.allclose(un[:, 0], un[:, 1], atol=1e-12) and np.allclose(un[:, 0], un[:, 2], atol=1e-12))


def witness_F4():
    import pykoop
    import scipy.stats
    X = np.array([[0., 1.], [1., 0.], [2., 2.]])
    ka = pykoop.RandomFourierKernelApprox('laplacian', n_components=6, method='weight_offset', random_state=11).fit(X)
    return bool(np.allclose(ka.random_offsets_ / (2 * np.pi), scipy.stats.cauchy.cdf(ka.random_weights_[0, :]), atol=1e-9))


def F16(regressor_name, A):
    """Dmd / Dmdc with exact modes on data of a singular state matrix."""
    return regressor_name.endswith('/exact') and bool(np.min(np.abs(np.linalg.eigvals(np.asarray(A, dtype=float)))) < 1e-9)


def witness_F16():
    """the kernel-computed witness of RefutedDmd.v replayed on the implementation: x+ = [[0,1],[0,1]] x"""
    import pykoop
    A = np.array([[0., 1.], [0., 1.]])
    rows = []
    for l, x0 in enumerate(([1., 2.], [3., -1.], [-2., 0.5])):
        x = np.array(x0)
        for _ in range(3):
            rows.append([float(l)] + list(x)); x = A @ x
    X = np.array(rows)
    proj = pykoop.Dmd(mode_type='projected').fit(X, n_inputs=0, episode_feature=True).coef_.T
    ex = pykoop.Dmd(mode_type='exact').fit(X, n_inputs=0, episode_feature=True).coef_.T
    return bool(np.allclose(proj, A, atol=1e-9) and np.allclose(ex, [[.5, .5], [.5, .5]], atol=1e-9))


WITNESS = {'F16': witness_F16, 'F3': witness_F3, 'F4': witness_F4, 'F11': witness_F11, 'F12': witness_F12, 'F14': witness_F14, 'F9': witness_F9, 'F8': witness_F8}


def report_known(res, pid):
    """Print KNOWN-FINDING for every listed finding of this property whose witness
    still fails; returns the dict of listed ids."""
    ids = listed(pid)
    for fid, f in ids.items():
        w = WITNESS.get(fid)
        try:
            still = w() if w else True
        except Exception:  # noqa
            still = True
        if still:
            res.known(f"{fid}: {f['what']}")
    return ids
