"""Structured random generation of lifting pipelines and episode layouts, the
construction of the corresponding pykoop objects through the public API, and the
rendering of the *fitted* objects as Coq `stage` terms (coq/Stage.v)."""
import itertools

import numpy as np
import sklearn.base
import sklearn.preprocessing

from . import common  # noqa: F401  (sets sys.path for the working tree)
import pykoop
from . import intest


class IntCenters(pykoop.centers.Centers if hasattr(pykoop, 'centers') else object):
    """Deterministic integer centres of the right width (harness-side Centers)."""

    def __init__(self, k=2, id=0):
        self.k = k
        self.id = id

    def fit(self, X, y=None):
        X = np.asarray(X)
        self.n_features_in_ = X.shape[1]
        i = np.arange(self.k).reshape(-1, 1)
        c = np.arange(X.shape[1]).reshape(1, -1)
        self.centers_ = (((i * 5 + c * 3 + self.id) % 7) - 3).astype(float)
        self.n_centers_ = self.k
        return self


# ----------------------------------------------------------------- specs
# leaf specs:  ('poly', order, interaction_only) ('bilinear',) ('const',)
#              ('delay', dx, du) ('rbf', id, k) ('kernel', id, nfeat) ('sk', id)
#              ('angle', feats_tuple, unwrap)
# composite:   ('split', [xs], [us])   ('pipe', [stages])

def poly_powers(n, order, interaction_only):
    pf = sklearn.preprocessing.PolynomialFeatures(
        degree=order, interaction_only=interaction_only, include_bias=False)
    pf.fit(np.zeros((1, n)))
    return pf.powers_


def dims_out(spec, ns, nu):
    k = spec[0]
    if k == 'poly':
        if ns + nu == 0:
            return (0, 0)
        P = poly_powers(ns + nu, spec[1], spec[2])
        inp = np.any(P[:, ns:] != 0, axis=1)
        return (int(np.sum(~inp)), int(np.sum(inp)))
    if k == 'bilinear':
        return (ns, (ns + 1) * nu)
    if k == 'const':
        return (ns + 1, nu)
    if k == 'delay':
        return (ns * (spec[1] + 1), nu * (spec[2] + 1))
    if k == 'rbf':
        return (ns + spec[2], nu) if nu == 0 else (ns, nu + spec[2])
    if k == 'kernel':
        return (ns + spec[2], nu) if nu == 0 else (ns, nu + spec[2])
    if k == 'sk':
        return (ns, nu)
    if k == 'angle':
        f = set(spec[1])
        a_s = sum(1 for j in range(ns) if j in f)
        a_u = sum(1 for j in range(ns, ns + nu) if j in f)
        return (ns + a_s, nu + a_u)
    if k == 'split':
        d = (ns, 0)
        for s in spec[1]:
            d = dims_out(s, *d)
        e = (0, nu)
        for s in spec[2]:
            e = dims_out(s, *e)
        return (d[0], e[1])
    if k == 'pipe':
        d = (ns, nu)
        for s in spec[1]:
            d = dims_out(s, *d)
        return d
    raise ValueError(k)


def min_samples(spec, n=1):
    k = spec[0]
    if k == 'delay':
        return n + max(spec[1], spec[2])
    if k == 'split':
        a = n
        for s in reversed(spec[1]):
            a = min_samples(s, a)
        b = n
        for s in reversed(spec[2]):
            b = min_samples(s, b)
        return max(a, b)
    if k == 'pipe':
        a = n
        for s in reversed(spec[1]):
            a = min_samples(s, a)
        return a
    return n


def has_kind(spec, kinds):
    if spec[0] in kinds:
        return True
    if spec[0] == 'split':
        return any(has_kind(s, kinds) for s in spec[1] + spec[2])
    if spec[0] == 'pipe':
        return any(has_kind(s, kinds) for s in spec[1])
    return False


def depth(spec):
    if spec[0] == 'split':
        return 1 + max([depth(s) for s in spec[1] + spec[2]] + [0])
    if spec[0] == 'pipe':
        return 1 + max([depth(s) for s in spec[1]] + [0])
    return 0


def kinds_of(spec, acc=None):
    acc = [] if acc is None else acc
    acc.append(spec[0])
    if spec[0] == 'split':
        for s in spec[1] + spec[2]:
            kinds_of(s, acc)
    if spec[0] == 'pipe':
        for s in spec[1]:
            kinds_of(s, acc)
    return acc


MAXW = 26


def gen_leaf(rng, ns, nu, allow, in_split_state=False, in_split_input=False):
    """One random leaf valid for (ns, nu); returns None if nothing fits."""
    for _ in range(20):
        k = rng.choice(allow)
        n = ns + nu
        if n == 0:
            return None
        if k == 'poly':
            order = int(rng.choice([1, 2, 2, 3]))
            import math
            while order > 1 and math.comb(n + order, order) > 300:
                order -= 1          # keep the number of monomials (and the time of one case) bounded
            io = bool(rng.random() < 0.3)
            s = ('poly', order, io)
        elif k == 'bilinear':
            s = ('bilinear',)
        elif k == 'const':
            s = ('const',)
        elif k == 'delay':
            dx = int(rng.integers(0, 4))
            du = dx if rng.random() < 0.5 else int(rng.integers(0, 4))
            s = ('delay', dx, du)
        elif k == 'rbf':
            s = ('rbf', int(rng.integers(0, 3)), int(rng.integers(1, 4)))
            if s[1] % 3 == 0 and ns + nu > 5:
                # with real sub-estimators id 0 is GridCenters(2 points per feature): 2^(ns+nu) centres
                s = ('rbf', 1, s[2])
        elif k == 'kernel':
            s = ('kernel', int(rng.integers(0, 4)), int(rng.integers(1, 4)))
        elif k == 'sk':
            s = ('sk', int(rng.integers(0, 9)))
        elif k == 'angle':
            cnt = int(rng.integers(0, min(n, 3) + 1))
            feats = tuple(int(x) for x in rng.choice(n, size=cnt, replace=False))   # any order
            # fourth entry: the indices as handed to pykoop; some are written from the end (numpy semantics)
            raw = tuple(int(f - n) if rng.random() < 0.3 else int(f) for f in feats)
            s = ('angle', feats, bool(rng.random() < 0.25), raw)
        else:
            raise ValueError(k)
        d = dims_out(s, ns, nu)
        if d[0] + d[1] > MAXW:
            continue
        # a state branch of a split must not create input features and vice versa
        if in_split_state and d[1] != 0:
            continue
        if in_split_input and d[0] != 0:
            continue
        return s
    return None


LEAF_KINDS = ['poly', 'bilinear', 'const', 'delay', 'rbf', 'kernel', 'sk', 'angle']


def gen_chain(rng, ns, nu, max_len, max_depth, allow, st=False, inp=False):
    out = []
    d = (ns, nu)
    L = int(rng.integers(0 if (st or inp) else 1, max_len + 1))
    for _ in range(L):
        r = rng.random()
        s = None
        if max_depth > 0 and r < 0.22 and not st and not inp and d[0] > 0:
            xs, _ = gen_chain(rng, d[0], 0, 2, max_depth - 1, allow, st=True)
            us, _ = gen_chain(rng, 0, d[1], 2, max_depth - 1, allow, inp=True) if d[1] > 0 else ([], None)
            s = ('split', xs, us)
        elif max_depth > 0 and r < 0.34:
            sub, _ = gen_chain(rng, d[0], d[1], 2, max_depth - 1, allow, st=st, inp=inp)
            s = ('pipe', sub)
        else:
            s = gen_leaf(rng, d[0], d[1], allow, st, inp)
        if s is None:
            break
        nd = dims_out(s, *d)
        if nd[0] + nd[1] > MAXW or (st and nd[1] != 0) or (inp and nd[0] != 0):
            break
        out.append(s)
        d = nd
    return out, d


def gen_layout(rng, w, short_prob=0.0, max_eps=4, extra=5, many=None, mode=None):
    """Episode layout: list of (label, length) plus an arrangement of rows."""
    n_eps = int(rng.integers(1, max_eps + 1))
    pool = [0, 1, 2, 3, 4, 5, 7, 9, 12]
    if rng.random() < 0.2:
        # large, adjacent labels (run ids): float comparison of labels must stay exact
        pool = [100000, 100001, 100002, 250000, 250001, 3000000, 3000001]
    if (max_eps >= 3 and rng.random() < 0.07) if many is None else many:
        # a log with many short episodes (more than any size threshold a fast path is likely to use)
        n_eps = int(rng.integers(17, 24)); pool = list(range(0, 30)); extra = min(extra, 1)
    labels = [int(x) for x in rng.choice(pool, size=n_eps, replace=False)]
    lens = []
    for _ in labels:
        if rng.random() < short_prob and w > 1:
            lens.append(int(rng.integers(max(1, w - 2), w)))
        else:
            lens.append(int(w + rng.integers(0, extra + 1)))
    drawn = rng.choice(['contig', 'contig', 'desc', 'interleave', 'shuffleblocks'])
    mode = drawn if mode is None else mode
    order = []
    if mode == 'contig':
        for l, n in sorted(zip(labels, lens)):
            order += [l] * n
    elif mode == 'desc':
        for l, n in sorted(zip(labels, lens), reverse=True):
            order += [l] * n
    elif mode == 'shuffleblocks':
        for l, n in zip(labels, lens):
            order += [l] * n
    elif mode == 'chunks':
        # every episode recorded in two sessions, the sessions of the episodes alternating (A1 B1 C1 A2 B2 C2); each
        # chunk alone is at least w samples long
        halves = [(l, max(w, (n + 1) // 2)) for l, n in zip(labels, lens)]
        for _ in range(2):
            for l, n in halves:
                order += [l] * n
    else:
        rem = dict(zip(labels, lens))
        while any(v > 0 for v in rem.values()):
            cands = [l for l, v in rem.items() if v > 0]
            l = int(rng.choice(cands))
            order.append(l)
            rem[l] -= 1
    return order, str(mode)


def gen_data(rng, order, ns, nu, ep, lo=-3, hi=4, tagged=False):
    n = len(order)
    if tagged:
        vals = np.arange(1, n * (ns + nu) + 1, dtype=float).reshape(n, ns + nu)
    else:
        vals = rng.integers(lo, hi, size=(n, ns + nu)).astype(float)
    if ep:
        return np.hstack((np.array(order, dtype=float).reshape(-1, 1), vals))
    return vals


# ----------------------------------------------------------------- pykoop objects
_uid = itertools.count()


def build(spec):
    k = spec[0]
    if k == 'poly':
        return pykoop.PolynomialLiftingFn(order=spec[1], interaction_only=spec[2])
    if k == 'bilinear':
        return pykoop.BilinearInputLiftingFn()
    if k == 'const':
        return pykoop.ConstantLiftingFn()
    if k == 'delay':
        return pykoop.DelayLiftingFn(n_delays_state=spec[1], n_delays_input=spec[2])
    if k == 'rbf':
        return pykoop.RbfLiftingFn(rbf=intest.IntRadial(spec[1]),
                                   centers=IntCenters(k=spec[2], id=spec[1]),
                                   shape=1, offset=0)
    if k == 'kernel':
        return pykoop.KernelApproxLiftingFn(
            kernel_approx=intest.IntKernel(id=spec[1], n_feat=spec[2]))
    if k == 'sk':
        return pykoop.SkLearnLiftingFn(intest.IntAffine(id=spec[1]))
    if k == 'angle':
        return pykoop.AnglePreprocessor(
            angle_features=np.array(spec[3] if len(spec) > 3 else spec[1], dtype=int), unwrap_inverse=spec[2])
    if k == 'split':
        return pykoop.SplitPipeline(
            lifting_functions_state=[(f's{next(_uid)}', build(s)) for s in spec[1]],
            lifting_functions_input=[(f'u{next(_uid)}', build(s)) for s in spec[2]],
        )
    if k == 'pipe':
        return pykoop.KoopmanPipeline(
            lifting_functions=[(f'p{next(_uid)}', build(s)) for s in spec[1]],
            regressor=pykoop.DataRegressor(),
        )
    raise ValueError(k)


def build_top(chain, regressor=None):
    return pykoop.KoopmanPipeline(
        lifting_functions=[(f't{next(_uid)}', build(s)) for s in chain],
        regressor=regressor,
    )


# ----------------------------------------------------------------- Coq rendering
def znum(v):
    v = int(v)
    return f'({v})' if v < 0 else str(v)


def zrow(r):
    return '[' + ';'.join(znum(x) for x in r) + ']'


def nat_list(l):
    return '[' + ';'.join(str(int(x)) for x in l) + ']%nat'


def render_leaf(spec, obj):
    k = spec[0]
    if k == 'poly':
        P = obj.transformer_.powers_
        rows = ';'.join(nat_list(r) for r in P)
        return f'(LPoly Z [{rows}])'
    if k == 'bilinear':
        return '(LBilinear Z)'
    if k == 'const':
        return '(LConst Z)'
    if k == 'delay':
        return f'(LDelay Z {spec[1]} {spec[2]})'
    if k == 'rbf':
        C = obj.centers_.centers_
        return f'(LRbf {spec[1]}%nat [{";".join(zrow(r) for r in C)}])'
    if k == 'kernel':
        return f'(LKernel Z {spec[1]} {spec[2]})'
    if k == 'sk':
        return f'(LSk Z {spec[1]})'
    if k == 'angle':
        return f'(LAngle Z {nat_list(spec[1])} {"true" if spec[2] else "false"})'
    raise ValueError(k)


def render_chain(specs, objs):
    out = '(CNil Z)'
    for s, o in reversed(list(zip(specs, objs))):
        out = f'(CCons {render_stage(s, o)} {out})'
    return out


def render_stage(spec, obj):
    k = spec[0]
    if k == 'split':
        xs = [o for _, o in obj.lifting_functions_state_]
        us = [o for _, o in obj.lifting_functions_input_]
        return f'(Split {render_chain(spec[1], xs)} {render_chain(spec[2], us)})'
    if k == 'pipe':
        cs = [o for _, o in obj.lifting_functions_]
        return f'(Pipe {render_chain(spec[1], cs)})'
    return f'(Leaf {render_leaf(spec, obj)})'


def render_top(chain, kp):
    return f'(Pipe {render_chain(chain, [o for _, o in kp.lifting_functions_])})'


def to_dmat(X, ep):
    """numpy data matrix -> list of (label, [cells]) with integer cells."""
    X = np.asarray(X)
    out = []
    for r in X:
        if ep:
            out.append((int(r[0]), [int(v) for v in r[1:]]))
        else:
            out.append((0, [int(v) for v in r]))
    return out


def is_integral(X, bound=2.0**50):
    X = np.asarray(X, dtype=float)
    return bool(np.all(np.isfinite(X)) and np.all(X == np.round(X)) and
                (X.size == 0 or np.max(np.abs(X)) < bound))


def render_dmat(X, ep):
    rows = ';'.join(f'({l}%N,{zrow(c)})' for l, c in to_dmat(X, ep))
    return f'[{rows}]'


def render_raw(R):
    R = np.asarray(R)
    return '[' + ';'.join(zrow(r) for r in R) + ']'


def render_fitted(prefix):
    return f'(Build_fitted {prefix}_s {prefix}_ep {prefix}_d)'


def opt_bool(b):
    return 'None' if b is None else ('(Some true)' if b else '(Some false)')


def coq_str(s):
    return '"' + str(s).replace('"', '""') + '"'


def render_strs(l):
    return '[' + ';'.join(coq_str(s) for s in l) + ']%string'
