"""Direct property tests on the implementation (the property's own predicate,
real sub-estimators, tolerance 1e-9).  They provide the concrete failing input
(replay) when a proof obligation or the model correspondence breaks, and they
are also run on every check because they are cheap."""
import itertools

import numpy as np
import sklearn.preprocessing

from . import common, stagegen as sg
import pykoop

_uid = itertools.count()
TOL = 1e-9

# ---- domain monitor: the round-trip clauses are claimed for angle features inside (-pi, pi] at the point where
# their pre-processor sits (hypothesis of C01's theorems).  A generated pipeline can move data out of that range
# (e.g. a StandardScaler in front of an AnglePreprocessor applied to data other than the fit data); the
# harness records the largest |angle| any AnglePreprocessor.transform received, and a failing case with an
# out-of-range angle is counted as outside the domain instead of being reported.
ANGLE_MAX = [0.0]
_angle_orig = pykoop.AnglePreprocessor._transform_one_ep


def _angle_recording(self, X):
    try:
        idx = np.asarray(self.angle_features, dtype=int).ravel()
        if idx.size and np.asarray(X).size:
            ANGLE_MAX[0] = max(ANGLE_MAX[0], float(np.max(np.abs(np.asarray(X, dtype=float)[:, idx]))))
    except Exception:  # noqa
        pass
    return _angle_orig(self, X)


pykoop.AnglePreprocessor._transform_one_ep = _angle_recording


def angle_out_of_domain():
    return ANGLE_MAX[0] > np.pi - 1e-9


# ------------------------------------------------------------ real pipelines
def build_real(spec):
    k = spec[0]
    if k == 'poly':
        return pykoop.PolynomialLiftingFn(order=spec[1], interaction_only=spec[2])
    if k == 'bilinear':
        return pykoop.BilinearInputLiftingFn()
    if k == 'const':
        return pykoop.ConstantLiftingFn()
    if k == 'delay':
        return pykoop.DelayLiftingFn(n_delays_state=spec[1], n_delays_input=spec[2])
    if k == 'rbf':
        names = ['exponential', 'gaussian', 'multiquadric', 'inverse_quadratic',
                 'inverse_multiquadric', 'thin_plate', 'bump_function']
        # (QmcCenters / GaussianRandomCenters reject constant columns, e.g. after a
        # ConstantLiftingFn; they are exercised by C18 / C04 on non-degenerate data)
        cent = [pykoop.GridCenters(n_points_per_feature=2),
                pykoop.UniformRandomCenters(n_centers=spec[2], random_state=spec[1]),
                pykoop.DataCenters()][spec[1] % 3]
        if spec[1] % 3 == 1 and spec[1] >= 3:
            cent = pykoop.GaussianRandomCenters(n_centers=spec[2], random_state=spec[1])
        return pykoop.RbfLiftingFn(rbf=names[(spec[1] * 3 + spec[2]) % 7], centers=cent,
                                   shape=0.5 + 0.25 * spec[1])
    if k == 'kernel':
        return pykoop.KernelApproxLiftingFn(kernel_approx=pykoop.RandomFourierKernelApprox(
            n_components=spec[2], random_state=spec[1],
            method='weight_only' if spec[1] % 2 else 'weight_offset'))
    if k == 'sk':
        t = [sklearn.preprocessing.StandardScaler(), sklearn.preprocessing.MinMaxScaler(),
             sklearn.preprocessing.MaxAbsScaler()][spec[1] % 3]
        return pykoop.SkLearnLiftingFn(t)
    if k == 'angle':
        feats = np.array(spec[3] if len(spec) > 3 else spec[1], dtype=int)
        if not spec[2]:
            # no unwrapping on the way back is the documented default: the argument is left out
            return pykoop.AnglePreprocessor(angle_features=feats)
        return pykoop.AnglePreprocessor(angle_features=feats, unwrap_inverse=spec[2])
    if k == 'split':
        return pykoop.SplitPipeline(
            lifting_functions_state=[(f's{next(_uid)}', build_real(s)) for s in spec[1]],
            lifting_functions_input=[(f'u{next(_uid)}', build_real(s)) for s in spec[2]])
    if k == 'pipe':
        return pykoop.KoopmanPipeline(
            lifting_functions=[(f'p{next(_uid)}', build_real(s)) for s in spec[1]],
            regressor=pykoop.DataRegressor())
    raise ValueError(k)


def build_case_estimator(case):
    """the estimator a direct case is about: a KoopmanPipeline around the chain, or - when the chain is one stage
    and the case says so - that stage used directly (lifting function or SplitPipeline)"""
    if case.get('bare'):
        return build_real(case['chain'][0])
    return build_real_top(case['chain'])


def n_inputs_form(nu, form):
    """the same number of inputs as a python int, a numpy integer scalar or a 0-d integer array"""
    return {'int': int(nu), 'np.int64': np.int64(nu), '0-d array': np.array(int(nu))}[form]


def episode_flag_form(ep, form):
    """the same flag as a python bool, a numpy bool or an integer (a truthy / falsy value like any other)"""
    return {'bool': bool(ep), 'np.bool_': np.bool_(ep), 'int': int(ep)}[form]


def fit_case_estimator(est, case, X):
    nu = n_inputs_form(case['nu'], case.get('n_inputs_form', 'int'))
    ep = episode_flag_form(case['ep'], case.get('episode_flag_form', 'bool'))
    if hasattr(est, 'fit_transformers'):
        return est.fit_transformers(X, n_inputs=nu, episode_feature=ep)
    return est.fit(X, n_inputs=nu, episode_feature=ep)


def build_real_top(chain, regressor=None):
    return pykoop.KoopmanPipeline(
        lifting_functions=[(f't{next(_uid)}', build_real(s)) for s in chain],
        regressor=regressor)


def real_data(rng, order, ns, nu, ep):
    """Smooth-ish real data inside (-pi, pi): each episode is a slow random walk, so
    consecutive samples of one episode never differ by more than pi."""
    n = len(order)
    vals = np.zeros((n, ns + nu))
    state = {}
    for r, l in enumerate(order):
        if l not in state:
            state[l] = rng.uniform(-2.5, 2.5, size=ns + nu)
        else:
            state[l] = np.clip(state[l] + rng.uniform(-0.5, 0.5, size=ns + nu), -3.0, 3.0)
        vals[r] = state[l]
    if ep:
        return np.hstack((np.array(order, dtype=float).reshape(-1, 1), vals))
    return vals


# pipelines every data-path check meets at least once, whatever the random stream does: several delay stages
# inside ONE branch of a SplitPipeline (the branch's sample count is the composition, not the max), delays on
# both branches, a delay after a split, nested pipelines with delays
CHAIN_POOL = [
    [('split', [('delay', 1, 0), ('poly', 2, False), ('delay', 2, 0)], [('delay', 0, 1)])],
    [('split', [('delay', 1, 0)], [('delay', 0, 2), ('delay', 0, 1)])],
    [('split', [('delay', 2, 0), ('delay', 1, 0)], []), ('delay', 1, 1)],
    [('pipe', [('delay', 1, 2), ('delay', 2, 1)]), ('bilinear',)],
    [('split', [('pipe', [('delay', 1, 0), ('delay', 1, 0)])], [('delay', 0, 3)])],
    # a constant column in the data a centre generator is fitted on (zero range of one feature)
    [('const',), ('rbf', 0, 2)],
    # two angle features (a state and the input) unwrapped on the way back: one episode (recorded finding F11
    # concerns several), values of the two columns more than pi apart in the same sample
    [('angle', (0, 2), True, (0, -1))],
    [('bilinear',)],          # (keeps the next entry at an index where the stage is used directly)
    # one unwrapped angle, several episodes that start far apart (consecutive episodes more than pi from each other):
    # the helpers called with an episode flag on an estimator fitted without one must unwrap per episode
    [('angle', (0,), True, (0,))],
    # a delay stage with ZERO delays in one branch of a split (it still regroups rows by episode), the other branch
    # empty or row-wise: the two branches must be zipped episode by episode whatever the arrangement of the rows
    [('split', [('delay', 0, 0)], [])],
    [('split', [('sk', 0)], [('delay', 0, 0)])],
    # a centre generator that draws several centres for a block of ONE feature (the single input of the input branch)
    [('split', [], [('rbf', 4, 3)])],
    # an angle pre-processor built with its defaults (no unwrapping on the way back), episodes far apart: what it gives back
    # for a sample does not depend on the samples around it
    [('angle', (0,), False, (0,))],
]
POOL_SINGLE_EPISODE = {6}          # indices of CHAIN_POOL that are generated with one episode
POOL_FAR_EPISODES = {8, 12}        # ... with an episode feature and episodes alternating around -2.6 / +2.6


def _leaves(specs):
    for sp in specs:
        if sp[0] == 'split':
            yield from _leaves(sp[1]); yield from _leaves(sp[2])
        elif sp[0] == 'pipe':
            yield from _leaves(sp[1])
        else:
            yield sp


def grid_after_data_centres(chain):
    """with the real sub-estimators, RBF id = 2 mod 3 takes every data row as a centre and id = 0 mod 3 puts a grid of
    2 points per feature: the second after the first means 2^(features + rows) centres"""
    wide = False
    for sp in _leaves(chain):
        if sp[0] == 'rbf' and sp[1] % 3 == 2:
            wide = True
        elif sp[0] == 'rbf' and sp[1] % 3 == 0 and wide:
            return True
    return False


def gen_real_case(rng, cid, max_len=3, max_depth=2, allow=None, short_prob=0.0, need=None,
                  min_eps=1, max_eps=4, force_ep=None, use_pool=True):
    allow = allow or sg.LEAF_KINDS
    for _ in range(300):
        ns = int(rng.integers(1, 4))
        nu = int(rng.integers(0, 3))
        ep = bool(rng.random() < 0.75) if force_ep is None else force_ep
        if force_ep is None and use_pool and cid < len(CHAIN_POOL) and cid not in POOL_SINGLE_EPISODE:
            ep = (cid % 8 != 7)         # the fixed pool: an episode feature whatever the random stream does (one entry without)
        if use_pool and cid < len(CHAIN_POOL) and set(sg.kinds_of(('pipe', CHAIN_POOL[cid]))) <= set(allow) | {'split', 'pipe'}:
            chain = CHAIN_POOL[cid]; ns, nu = 2, 1
            d = (ns, nu)
            for sp in chain:
                d = sg.dims_out(sp, *d)
            need = None
            if cid in POOL_SINGLE_EPISODE:
                max_eps = 1
            if cid in POOL_FAR_EPISODES:
                ep = True if force_ep is None else force_ep
                max_eps = max(max_eps, 3); min_eps = max(min_eps, 2)
        else:
            chain, d = sg.gen_chain(rng, ns, nu, max_len, max_depth, allow)
        if not chain or grid_after_data_centres(chain):
            continue
        top = ('pipe', chain)
        if need and not need(top):
            continue
        w = sg.min_samples(top)
        for _ in range(20):
            order, mode = sg.gen_layout(rng, w, short_prob=(0.0 if cid < len(CHAIN_POOL) else short_prob),   # the fixed pool always gets usable episodes
                                        
                                        max_eps=max_eps if ep else 1, extra=4,
                                        many=True if (ep and max_eps >= 3 and cid % 40 == 7) else None,
                                        # the fixed pool of pipelines meets non-contiguous arrangements whatever the random stream does
                                        mode=(['interleave', 'chunks', 'interleave', 'desc', 'chunks', 'shuffleblocks'][cid % 6] if cid < len(CHAIN_POOL) else None))
            if not ep:
                order = [0] * len(order)
            if len(set(order)) >= min_eps or not ep:
                break
        # nested KoopmanPipelines fit their own regressor: make sure one episode has w+1 rows
        if len(order) < w + 2:
            order = order + [order[-1]] * 2
        X = real_data(rng, order, ns, nu, ep)
        if use_pool and cid in POOL_FAR_EPISODES and chain is CHAIN_POOL[cid] and ep:
            labs = sorted(set(order))
            for r_, l_ in enumerate(order):
                X[r_, 1] = (2.6 if labs.index(l_) % 2 else -2.6) + 0.1 * X[r_, 1] / 3.0
        elif use_pool and cid in POOL_SINGLE_EPISODE and chain is CHAIN_POOL[cid]:
            # the two unwrapped angle columns stay more than pi apart (both inside (-pi, pi), both slowly varying)
            o = 1 if ep else 0
            X[:, o + 0] = -2.8 + 0.1 * np.abs(X[:, o + 0])
            X[:, o + 2] = 2.8 - 0.1 * np.abs(X[:, o + 2])
        elif nu > 0 and rng.random() < 0.2:
            # an unforced episode: the whole input sequence of one episode is exactly zero (zero input is
            # an input like any other: its lifted value need not be zero)
            lab = order[int(rng.integers(0, len(order)))]
            X[np.array(order) == lab, (1 if ep else 0) + ns:] = 0.0
        Xfit = X
        if nu > 0 and rng.random() < 0.12:
            Xfit = np.array(X, copy=True)
            Xfit[:, (1 if ep else 0) + ns:] = 0
        from . import datapath as _dpm
        pres = ['float', 'float', 'fortran', 'view', 'int'][cid % 5]
        same = Xfit is X
        if pres == 'int':
            # whole numbers as an integer-typed matrix; only without an episode column (splitting into episodes
            # converts to float, which would hide the dtype from the stages)
            if ep:
                pres = 'float'
            else:
                X = np.round(1.5 * X); Xfit = X if same else np.round(1.5 * Xfit)
        X = _dpm.present(X, pres)
        Xfit = X if same else _dpm.present(Xfit, pres)
        return dict(cid=cid, chain=chain, ns=ns, nu=nu, ep=ep, X=X, Xfit=Xfit, mode=mode, w=w, dims=d,
                    presentation=pres)
    raise RuntimeError('generator could not produce a case')


def episodes_of(X, ep):
    X = np.asarray(X)
    if not ep:
        return {0: X}
    out = {}
    for l in sorted(set(X[:, 0].tolist())):
        out[l] = X[X[:, 0] == l][:, 1:]
    return out


def close(a, b, tol=TOL):
    a = np.asarray(a, dtype=float)
    b = np.asarray(b, dtype=float)
    if a.shape != b.shape:
        return False
    if a.size == 0:
        return True
    scale = max(1.0, float(np.max(np.abs(b))))
    return bool(np.all(np.isfinite(a)) and np.max(np.abs(a - b)) <= tol * scale)


def desc(case, **kw):
    d = dict(chain=repr(case['chain']), n_states=case['ns'], n_inputs=case['nu'],
             episode_feature=case['ep'], layout=case['mode'], min_samples=case['w'],
             X=np.asarray(case['X']).tolist(),
             fit_on_zero_inputs=bool(case.get('Xfit') is not case['X']),
             cid=int(case.get('cid', 0)), refitted_after_other_layout=bool(case.get('prefit', False)),
             array_presentation=case.get('presentation', 'float'),
             skip_validation=bool(case.get('skip_validation', False)), used_directly=bool(case.get('bare', False)),
             n_inputs_given_as=case.get('n_inputs_form', 'int'), episode_feature_given_as=case.get('episode_flag_form', 'bool'))
    d.update(kw)
    return d


def min_ep_len(case):
    eps = episodes_of(case['X'], case['ep'])
    return min(v.shape[0] for v in eps.values())


def lag_of(spec):
    """number of leading samples of each episode lost by inverse(transform(.)) : |dx - du| per
    delay stage (summed along chains, branch-wise max alignment in splits is exercised but
    expected loss is computed from produced lengths)."""
    return None


# ------------------------------------------------------------ C01
def c01_roundtrip(case, kp):
    """Returns (ok, info). inverse_transform(transform(X)) must equal, per episode, the
    trailing samples of X; and for pipelines without pre-processors the leading lifted-state
    columns are the original state."""
    X = case['X']; ep = case['ep']; ns = case['ns']
    Xt = kp.transform(X)
    Xi = kp.inverse_transform(Xt)
    e_in = episodes_of(X, ep); e_t = episodes_of(Xt, ep); e_i = episodes_of(Xi, ep)
    pre = sg.has_kind(('pipe', case['chain']), ('angle', 'sk'))
    for l, E in e_in.items():
        if E.shape[0] < case['w']:
            continue
        if l not in e_i or l not in e_t:
            return False, dict(what='episode label lost by the round trip', label=l)
        R = e_i[l]
        if R.shape[0] == 0 or R.shape[0] > E.shape[0] or R.shape[1] != E.shape[1]:
            return False, dict(what='round-trip episode has wrong shape', label=l,
                               got_shape=list(R.shape), in_shape=list(E.shape))
        if not close(R, E[E.shape[0] - R.shape[0]:]):
            return False, dict(what='inverse_transform(transform(X)) differs from the trailing samples of X',
                               label=l, got=R.tolist(), want=E[E.shape[0] - R.shape[0]:].tolist())
        # exact expected length: len - (w-1) lifted samples, inverse restores all when delays equal
        Tl = e_t[l]
        if not pre:
            if not close(Tl[:, :ns], E[E.shape[0] - Tl.shape[0]:, :ns]):
                return False, dict(what='leading lifted-state columns are not the original state', label=l)
    # the lift and its inverse are functions of the VALUES: whole-number data given as an integer-typed array
    # must be lifted and retracted exactly like the same numbers given as floats
    Xw = np.round(np.asarray(X, dtype=float))
    if ep:
        Xw[:, 0] = np.asarray(X)[:, 0]
    try:
        Tf = kp.transform(Xw)
        Ti = kp.transform(Xw.astype(np.int64))
        If = kp.inverse_transform(Tf)
        Ii = kp.inverse_transform(Ti)
    except Exception as e:  # noqa
        return False, dict(what=f'transform / inverse_transform on integer-typed data raised {type(e).__name__}: {e}')
    if not (close(Ti, Tf) and close(Ii, If)):
        return False, dict(what='transform / inverse_transform depend on the dtype of the data (integer-typed array with the '
                                'same values gives other results)')
    return True, None


def c01_roundtrip_helpers(case, kp):
    """retract(lift(X)) with a call-time episode flag different from the fit-time one: a twin of the estimator is fitted
    with the other flag (without an episode feature on the data columns / with one on a zero label column) and used on
    the case's matrix through lift / retract with the flag of the matrix; per episode the trailing samples come back."""
    X = np.asarray(case['X'], dtype=float); ep = case['ep']
    if min_ep_len(case) < case['w']:
        return True, None
    twin = build_case_estimator(case)
    Xf = np.asarray(case.get('Xfit', case['X']), dtype=float)
    try:
        if ep:
            fit_case_estimator(twin, dict(case, ep=False), Xf[:, 1:])
        else:
            fit_case_estimator(twin, dict(case, ep=True), np.hstack((np.zeros((Xf.shape[0], 1)), Xf)))
    except Exception:  # noqa  (the estimator rejects this layout: outside the domain)
        return True, None
    R = twin.retract(twin.lift(X, episode_feature=ep), episode_feature=ep)
    e_in = episodes_of(X, ep); e_r = episodes_of(R, ep)
    for l, E in e_in.items():
        if l not in e_r:
            return False, dict(what='retract(lift(X)) with a call-time episode flag lost an episode', label=l,
                               twin_fitted_with_episode_feature=not ep)
        Rl = e_r[l]
        if Rl.shape[0] == 0 or Rl.shape[0] > E.shape[0] or Rl.shape[1] != E.shape[1] or not close(Rl, E[E.shape[0] - Rl.shape[0]:]):
            return False, dict(what='retract(lift(X)) with a call-time episode flag different from the fit-time one does not '
                                    'return the trailing samples of the episode', label=l, twin_fitted_with_episode_feature=not ep,
                               got=Rl.tolist(), want=E[max(0, E.shape[0] - Rl.shape[0]):].tolist())
    return True, None


# ------------------------------------------------------------ C02
def c02_noninterference(case, rng, kp):
    X = case['X']; ep = case['ep']; ns = case['ns']; nu = case['nu']
    Xt = kp.transform(X)
    off = 1 if ep else 0
    if Xt.shape[1] != off + kp.n_states_out_ + kp.n_inputs_out_ or kp.n_features_out_ != Xt.shape[1]:
        return False, dict(what='lifted width is not episode + n_states_out_ + n_inputs_out_',
                           width=int(Xt.shape[1]), n_states_out=int(kp.n_states_out_),
                           n_inputs_out=int(kp.n_inputs_out_))
    if nu == 0:
        return True, None
    X2 = np.array(X, copy=True)
    X2[:, off + ns:] = rng.uniform(-3, 3, size=(X.shape[0], nu))
    Xt2 = kp.transform(X2)
    a = Xt[:, :off + kp.n_states_out_]; b = Xt2[:, :off + kp.n_states_out_]
    if a.shape != b.shape or not np.array_equal(a, b):
        return False, dict(what='changing only the input columns changed the lifted-state block',
                           X_perturbed=X2.tolist())
    return True, None


# ------------------------------------------------------------ C03
def c03_episodes(case, rng, kp, inverse=True):
    """Each episode alone == within the multi-episode matrix; arrangement irrelevant;
    an output sample depends only on its own window."""
    X = case['X']; ep = case['ep']; nu = case['nu']; w = case['w']
    if not ep:
        return True, None
    Xt = kp.transform(X)
    e_in = episodes_of(X, True); e_t = episodes_of(Xt, True)
    for l, E in e_in.items():
        alone = np.hstack((l * np.ones((E.shape[0], 1)), E))
        try:
            ta = kp.transform(alone)
        except ValueError:
            continue          # episode too short on its own: error branch
        got = e_t.get(l, np.zeros((0, Xt.shape[1] - 1)))
        if not close(got, ta[:, 1:]) or (ta.shape[0] and not np.all(ta[:, 0] == l)):
            return False, dict(what='episode transformed inside a multi-episode matrix differs from the '
                                    'episode transformed alone', label=l, got=got.tolist(), want=ta[:, 1:].tolist())
        if inverse and ta.shape[0] > 0:
            ia = kp.inverse_transform(ta)
            gi = episodes_of(kp.inverse_transform(Xt), True).get(l, np.zeros((0, X.shape[1] - 1)))
            if not close(gi, ia[:, 1:]):
                return False, dict(what='inverse_transform mixes episodes', label=l,
                                   got=gi.tolist(), want=ia[:, 1:].tolist())
    # arrangement: contiguous ascending blocks vs the given arrangement
    order = np.argsort(X[:, 0], kind='stable')
    Xs = X[order]
    ts = episodes_of(kp.transform(Xs), True)
    if sorted(ts) != sorted(e_t) or any(not close(ts[m], e_t[m]) for m in e_t):
        return False, dict(what='row arrangement of the episodes changes the per-episode result',
                           X_sorted=Xs.tolist())
    # causality: perturb every row of ONE episode that lies outside the window of its last sample; the window is
    # the one the estimator itself declares (min_samples_)
    w = int(kp.min_samples_)
    l = sorted(e_in)[int(rng.integers(0, len(e_in)))]
    idx = np.flatnonzero(X[:, 0] == l)
    if len(idx) > w:
        X2 = np.array(X, copy=True)
        X2[idx[:len(idx) - w], 1:] += rng.uniform(0.1, 0.4, size=(len(idx) - w, X.shape[1] - 1))
        t2 = episodes_of(kp.transform(X2), True)
        if l in e_t and e_t[l].shape[0] > 0:
            if l not in t2 or not close(t2[l][-1], e_t[l][-1]):
                return False, dict(what='last lifted sample depends on samples older than min_samples_',
                                   label=l, X_perturbed=X2.tolist())
        for m in e_t:
            if m != l and not close(t2.get(m, np.zeros((0, 0))), e_t[m]):
                return False, dict(what='perturbing one episode changed another episode', label=m,
                                   X_perturbed=X2.tolist())
    return True, None


# ------------------------------------------------------------ C04
def walk(obj, path='top'):
    yield path, obj
    if isinstance(obj, pykoop.KoopmanPipeline):
        for n, o in obj.lifting_functions_:
            yield from walk(o, path + '/' + n)
    elif isinstance(obj, pykoop.SplitPipeline):
        for n, o in obj.lifting_functions_state_:
            yield from walk(o, path + '/' + n)
        for n, o in obj.lifting_functions_input_:
            yield from walk(o, path + '/' + n)


def c04_dims(case, kp):
    X = case['X']; ep = case['ep']; nu = case['nu']
    off = 1 if ep else 0
    # every stage: declared vs produced, chain consistency
    for path, o in walk(kp):
        if o.n_features_out_ != off + o.n_states_out_ + o.n_inputs_out_:
            return False, dict(what='n_features_out_ != episode + n_states_out_ + n_inputs_out_', stage=path)
        if o.n_features_in_ != off + o.n_states_in_ + o.n_inputs_in_:
            return False, dict(what='n_features_in_ != episode + n_states_in_ + n_inputs_in_', stage=path)
        if o.min_samples_ != o.n_samples_in(1):
            return False, dict(what='min_samples_ != n_samples_in(1)', stage=path,
                               min_samples=int(o.min_samples_), n_samples_in_1=int(o.n_samples_in(1)))
        for n in (1, 2, 5):
            if o.n_samples_in(n) != n + o.min_samples_ - 1:
                return False, dict(what='n_samples_in is not additive', stage=path, n=n,
                                   got=int(o.n_samples_in(n)), min_samples=int(o.min_samples_))
        if isinstance(o, pykoop.KoopmanPipeline):
            prev = (o.n_states_in_, o.n_inputs_in_)
            tot = 1
            for n_, lf in o.lifting_functions_:
                if (lf.n_states_in_, lf.n_inputs_in_) != prev:
                    return False, dict(what="stage input dims differ from previous stage's output dims",
                                       stage=path + '/' + n_)
                prev = (lf.n_states_out_, lf.n_inputs_out_)
                tot += lf.min_samples_ - 1
            if (o.n_states_out_, o.n_inputs_out_) != prev:
                return False, dict(what="pipeline does not report its last stage's dims", stage=path)
            if o.min_samples_ != tot:
                return False, dict(what='pipeline min_samples_ is not the sum over stages', stage=path,
                                   got=int(o.min_samples_), want=int(tot))
        if isinstance(o, pykoop.AnglePreprocessor):
            # hypothesis of the bridge theorem Stages_angle: the fitted output masks are one linear column per
            # non-angle input column and a (cos, sin) pair per angle column, in input order
            m = [bool(b) for b in o.angles_in_]
            want = dict(lin_out_=sum(([False, False] if b else [True] for b in m), []),
                        cos_out_=sum(([True, False] if b else [False] for b in m), []),
                        sin_out_=sum(([False, True] if b else [False] for b in m), []))
            for nm_, w_ in want.items():
                if [bool(b) for b in getattr(o, nm_)] != w_:
                    return False, dict(what=f'AnglePreprocessor.{nm_} is not the mask the input mask determines', stage=path,
                                       angles_in=m, got=[bool(b) for b in getattr(o, nm_)])
            if len(m) != o.n_states_in_ + o.n_inputs_in_ or len(want['lin_out_']) != o.n_states_out_ + o.n_inputs_out_:
                return False, dict(what='AnglePreprocessor masks do not have the declared lengths', stage=path)
        if isinstance(o, pykoop.SplitPipeline):
            ws = 1 + sum(lf.min_samples_ - 1 for _, lf in o.lifting_functions_state_)
            wu = 1 + sum(lf.min_samples_ - 1 for _, lf in o.lifting_functions_input_)
            if o.min_samples_ != max(ws, wu):
                return False, dict(what='split min_samples_ is not the max of its branches', stage=path)
    Xt = kp.transform(X)
    if Xt.shape[1] != kp.n_features_out_:
        return False, dict(what='transform width != n_features_out_', width=int(Xt.shape[1]),
                           declared=int(kp.n_features_out_))
    e_in = episodes_of(X, ep); e_t = episodes_of(Xt, ep)
    if min(v.shape[0] for v in e_in.values()) >= kp.min_samples_:
        for l, E in e_in.items():
            want = E.shape[0] - kp.min_samples_ + 1
            got = e_t[l].shape[0] if l in e_t else 0
            if got != want:
                return False, dict(what='episode of length n does not yield n - min_samples_ + 1 lifted samples',
                                   label=l, n=int(E.shape[0]), got=int(got), min_samples=int(kp.min_samples_))
    # every intermediate stage produces what it declares
    Xk = X
    for n_, lf in getattr(kp, 'lifting_functions_', []):
        Xk = lf.transform(Xk)
        if Xk.shape[1] != lf.n_features_out_:
            return False, dict(what='stage transform width != its n_features_out_', stage=n_,
                               width=int(Xk.shape[1]), declared=int(lf.n_features_out_))
    return True, None


# ------------------------------------------------------------ C16
def _trail(a, b):
    """rows of b trailing-aligned per episode is handled by callers; here: same shape"""
    return a.shape == b.shape


def c16_helpers(case, rng, kp):
    X = case['X']; epf = case['ep']; ns = case['ns']; nu = case['nu']; w = case['w']
    nso, nuo = kp.n_states_out_, kp.n_inputs_out_
    pre = sg.has_kind(('pipe', case['chain']), ('angle', 'sk'))
    if min_ep_len(case) < w:
        return True, None
    for call in (None, True, False):
        c = epf if call is None else call
        if c == epf:
            Xc = X
        elif c:           # estimator fitted without episode feature, call with one
            order, _ = sg.gen_layout(rng, w, max_eps=3, extra=3)
            Xc = real_data(rng, order, ns, nu, True)
        else:             # fitted with, call without
            Xc = X[X[:, 0] == X[0, 0]][:, 1:]
        off = 1 if c else 0
        # reference for lift / retract from transform / inverse_transform on padded or split data
        def ref(fn, M):
            if c == epf:
                return fn(M)
            if epf and not c:
                return fn(np.hstack((np.zeros((M.shape[0], 1)), M)))[:, 1:]
            out = []
            for l in sorted(set(M[:, 0].tolist())):
                r = fn(M[M[:, 0] == l][:, 1:])
                out.append(np.hstack((l * np.ones((r.shape[0], 1)), r)))
            return np.vstack(out)
        L = kp.lift(Xc, episode_feature=call)
        Lref = ref(kp.transform, Xc)
        if not close(L, Lref):
            return False, dict(what='lift differs from transform on the padded/stripped data', call=call,
                               Xc=Xc.tolist())
        R = kp.retract(L, episode_feature=call)
        if not close(R, ref(kp.inverse_transform, L)):
            return False, dict(what='retract differs from inverse_transform on the padded/stripped data',
                               call=call, Xc=Xc.tolist())
        Ls = kp.lift_state(Xc[:, :off + ns], episode_feature=call)
        if not close(Ls, L[:, :off + nso]):
            return False, dict(what='lift_state is not the episode+state block of lift', call=call,
                               Xc=Xc.tolist(), got_shape=list(Ls.shape), want_shape=[L.shape[0], off + nso])
        Li = kp.lift_input(Xc, episode_feature=call)
        want = np.hstack((L[:, :off], L[:, off + nso:]))
        if not close(Li, want):
            return False, dict(what='lift_input is not the episode+input block of lift', call=call,
                               Xc=Xc.tolist(), got_shape=list(Li.shape), want_shape=list(want.shape))
        # None behaves as the fit-time value
        if call is None:
            for nm, a, b in [('lift', L, kp.lift(Xc, episode_feature=epf)),
                             ('lift_state', Ls, kp.lift_state(Xc[:, :off + ns], episode_feature=epf)),
                             ('lift_input', Li, kp.lift_input(Xc, episode_feature=epf)),
                             ('retract', R, kp.retract(L, episode_feature=epf)),
                             ('retract_state', kp.retract_state(Ls), kp.retract_state(Ls, episode_feature=epf)),
                             ('retract_input', kp.retract_input(Li), kp.retract_input(Li, episode_feature=epf))]:
                if a.shape != b.shape or not np.array_equal(a, b):
                    return False, dict(what=f'{nm}(episode_feature=None) differs from passing the fit-time value',
                                       Xc=Xc.tolist())
        if has_unwrap_spec(case):
            continue
        # retract_state / retract_input invert lift_state / lift_input (trailing samples per episode)
        Rs = kp.retract_state(Ls, episode_feature=call)
        Ri = kp.retract_input(Li, episode_feature=call)
        for nm, got, src in [('retract_state', Rs, Xc[:, :off + ns]),
                             ('retract_input', Ri, np.hstack((Xc[:, :off], Xc[:, off + ns:])))]:
            eg = episodes_of(got, c); es = episodes_of(src, c)
            for l, E in es.items():
                g = eg.get(l)
                if g is None or g.shape[0] == 0 or g.shape[0] > E.shape[0] or g.shape[1] != E.shape[1] \
                        or not close(g, E[E.shape[0] - g.shape[0]:]):
                    return False, dict(what=f'{nm} does not invert its lift counterpart', call=call, label=l,
                                       Xc=Xc.tolist())
    return True, None


def has_unwrap_spec(case):
    from . import known
    return known.has_unwrap(('pipe', case['chain']))


# ------------------------------------------------------------ C07
def c07_prediction(case, rng, kp0):
    X = case['X']; ep = case['ep']; ns = case['ns']; nu = case['nu']
    if min_ep_len(case) < case['w'] + 1:
        return True, None
    nso, nuo = kp0.n_states_out_, kp0.n_inputs_out_
    coef = rng.normal(size=(nso + nuo, nso)) * (0.3 / max(1.0, np.sqrt(nso + nuo)))
    kp = build_real_top(case['chain'], regressor=pykoop.DataRegressor(coef=coef))
    kp.fit(case.get('Xfit', X), n_inputs=nu, episode_feature=ep)
    w = kp.min_samples_
    off = 1 if ep else 0
    A = coef.T[:, :nso]; B = coef.T[:, nso:]
    unwrap = has_unwrap_spec(case)
    # ---- one-step prediction = retract(lift(x) @ coef)
    P = kp.predict(X)
    Xt = kp.transform(X)
    et = episodes_of(Xt, ep)
    blocks = []
    for l in sorted(et):
        pr = et[l] @ coef
        pr = np.hstack((pr, np.zeros((pr.shape[0], nuo))))
        blocks.append(np.hstack((l * np.ones((pr.shape[0], 1)), pr)) if ep else pr)
    ref = kp.inverse_transform(np.vstack(blocks))
    ref = ref[:, :off + ns]
    if not close(P, ref, 1e-8):
        return False, dict(what='predict differs from retracting the lifted sample times the Koopman matrix')
    # ---- without a delay (and without unwrapping on the way back) a one-step prediction is a function of its own sample:
    # the prediction of a sample given alone is the row it gets inside the batch
    if w == 1 and not unwrap:
        Xa = np.asarray(X, dtype=float)
        # ... also with the Koopman matrix that leaves the lifted state where it is (the prediction is then the sample itself)
        kp_same = build_real_top(case['chain'], regressor=pykoop.DataRegressor(coef=np.vstack((np.eye(nso), np.zeros((nuo, nso))))))
        kp_same.fit(case.get('Xfit', X), n_inputs=nu, episode_feature=ep)
        for kpx, Px, which in ((kp, P, 'a random contractive Koopman matrix'), (kp_same, kp_same.predict(X), 'the identity as Koopman matrix')):
            for lab in (sorted(set(Xa[:, 0].tolist())) if ep else [None]):
                rows = np.flatnonzero(Xa[:, 0] == lab) if ep else np.arange(Xa.shape[0])
                Pl = Px[Px[:, 0] == lab] if ep else Px
                for j in range(min(len(rows), 12)):
                    alone = kpx.predict(Xa[[rows[j]]])
                    if alone.shape != Pl[[j]].shape or not close(alone, Pl[[j]], 1e-9):
                        return False, dict(what='the one-step prediction of a sample given alone differs from its row in the prediction '
                                                'of the whole matrix (no delay in the pipeline)', row=int(rows[j]), koopman_matrix=which,
                                           alone=alone.tolist(), in_batch=Pl[[j]].tolist())
    # ---- trajectories
    x0 = pykoop.extract_initial_conditions(X, min_samples=w, n_inputs=nu, episode_feature=ep)
    u = pykoop.extract_input(X, n_inputs=nu, episode_feature=ep)
    for relift in (True, False):
        Xp = kp.predict_trajectory(x0, u, relift_state=relift)
        Xp1 = kp.predict_trajectory(X, relift_state=relift)
        if Xp.shape != Xp1.shape or not np.array_equal(Xp, Xp1):
            return False, dict(what='the two call forms of predict_trajectory disagree', relift_state=relift)
        XU = kp.predict_trajectory(x0, u, relift_state=relift, return_input=True)
        TH = kp.predict_trajectory(x0, u, relift_state=relift, return_lifted=True)
        THU = kp.predict_trajectory(x0, u, relift_state=relift, return_lifted=True, return_input=True)
        ep_p = episodes_of(Xp, ep); ep_u = episodes_of(u, ep); ep_x0 = episodes_of(x0, ep)
        ep_xu = episodes_of(XU, ep); ep_th = episodes_of(TH, ep); ep_thu = episodes_of(THU, ep)
        if sorted(ep_p) != sorted(ep_u):
            return False, dict(what='prediction lost or invented an episode', relift_state=relift)
        for l in ep_u:
            Xl = ep_p[l]; Ul = ep_u[l]
            if Xl.shape != (Ul.shape[0], ns):
                return False, dict(what='prediction does not have one row per input sample', label=l,
                                   relift_state=relift, got=list(Xl.shape), n_inputs_rows=int(Ul.shape[0]))
            if not np.array_equal(Xl[:w], ep_x0[l]):
                return False, dict(what='initial conditions are not reproduced verbatim', label=l,
                                   relift_state=relift)
            if not np.array_equal(ep_xu[l], np.hstack((Xl, Ul))):
                return False, dict(what='return_input does not pass the inputs through unchanged', label=l,
                                   relift_state=relift)
            Th = ep_th[l]
            if not np.all(np.isfinite(Xl)) or float(np.max(np.abs(Xl))) > 1e8:
                continue          # this episode's prediction diverged (nonlinear lifting): the NaN branch, tested separately
            if not np.array_equal(ep_thu[l][:, :nso], Th) or ep_thu[l].shape[1] != nso + nuo:
                return False, dict(what='return_lifted/return_input blocks inconsistent', label=l, relift_state=relift)
            Ups = ep_thu[l][:, nso:]
            if relift:
                for k in range(w, Ul.shape[0]):
                    th = kp.lift_state(Xl[k - w:k], episode_feature=False)
                    up = kp.lift_input(np.hstack((Xl[k - w:k], Ul[k - w:k])), episode_feature=False)
                    nxt = kp.retract_state(th @ A.T + up @ B.T, episode_feature=False)[[-1], :]
                    if not close(Xl[[k]], nxt, 1e-8):
                        return False, dict(what='k-th predicted state is not the one-step prediction from the '
                                                'previously predicted states and true inputs', label=l, k=k,
                                           relift_state=True)
                if not unwrap and not close(Th, kp.lift_state(Xl, episode_feature=False), 1e-8):
                    return False, dict(what='returned lifted trajectory is not the lift of the returned states',
                                       label=l, relift_state=True)
            else:
                m = Ul.shape[0] - w + 1
                if Th.shape[0] != m:
                    return False, dict(what='lifted trajectory has the wrong number of rows', label=l)
                if not close(Th[[0]], kp.lift_state(ep_x0[l], episode_feature=False), 1e-9):
                    return False, dict(what='theta[0] is not the lifted initial condition', label=l)
                for k in range(m):
                    up = kp.lift_input(np.hstack((Xl[k:k + w], Ul[k:k + w])), episode_feature=False)
                    if not close(Ups[[k]], up, 1e-8):
                        return False, dict(what='upsilon[k] is not the lifted input of window k', label=l, k=k)
                    if k + 1 < m:
                        if not close(Th[[k + 1]], Th[[k]] @ A.T + Ups[[k]] @ B.T, 1e-9):
                            return False, dict(what='theta[k+1] != A theta[k] + B upsilon[k]', label=l, k=k)
                        xr = kp.retract_state(Th[[k + 1]], episode_feature=False)[[-1], :]
                        if not close(Xl[[k + w]], xr, 1e-8):
                            return False, dict(what='state k+w is not the retraction of theta[k+1]', label=l, k=k)
        # each episode's prediction is independent of the other episodes
        if ep and len(ep_u) > 1:
            l = sorted(ep_u)[int(rng.integers(0, len(ep_u)))]
            x0l = x0[x0[:, 0] == l]; ul = u[u[:, 0] == l]
            alone = kp.predict_trajectory(x0l, ul, relift_state=relift)
            if not np.array_equal(alone[:, 1:], ep_p[l]):
                return False, dict(what='prediction of one episode depends on the other episodes', label=l,
                                   relift_state=relift)
    # the call-time episode flag overrides the fit-time one: one episode predicted with its label column under the
    # fit-time flag, and without it (or with an added one) under the override, must give the same states
    Xa = np.asarray(X, dtype=float)
    if ep:
        Xl = Xa[Xa[:, 0] == Xa[0, 0]]
        with_label, without = Xl, Xl[:, 1:]
    else:
        with_label, without = np.hstack((np.zeros((Xa.shape[0], 1)), Xa)), Xa
    if without.shape[0] >= w + 1:
        for relift in (True, False):
            try:
                if ep:
                    want = kp.predict_trajectory(with_label, relift_state=relift)[:, 1:]
                else:
                    want = kp.predict_trajectory(without, relift_state=relift)
            except Exception:  # noqa
                continue
            if not np.all(np.isfinite(want)) or float(np.max(np.abs(want))) > 1e8:
                continue
            try:
                if ep:
                    got = kp.predict_trajectory(without, relift_state=relift, episode_feature=False)
                else:
                    got = kp.predict_trajectory(with_label, relift_state=relift, episode_feature=True)
                    if got.shape[1] == want.shape[1] + 1:
                        got = got[:, 1:]
            except Exception as e:  # noqa
                return False, dict(what=f'predict_trajectory with an episode_feature override raised {type(e).__name__}: {e}',
                                   relift_state=relift, call_flag=not ep)
            if got.shape != want.shape or not close(got, want, 1e-9):
                return False, dict(what='predict_trajectory called with an episode_feature different from the fit-time one does not '
                                        'give the prediction of the same episode under the fit-time flag (shape or values)',
                                   relift_state=relift, call_flag=not ep, got_shape=list(got.shape), want_shape=list(want.shape))
    # history: the Koopman matrix of the fitted regressor is replaced (the regressor is refitted / its coef_ is
    # assigned) after predictions have been made: one-step and multi-step prediction must both follow
    coef2 = rng.normal(size=coef.shape) * (0.3 / max(1.0, np.sqrt(nso + nuo)))
    fresh = build_real_top(case['chain'], regressor=pykoop.DataRegressor(coef=coef2))
    fresh.fit(case.get('Xfit', X), n_inputs=nu, episode_feature=ep)
    # reference first: with a freshly built pipeline around the new matrix.  If THAT prediction diverges (a random matrix
    # behind a nonlinear lifting may), the new matrix is outside what can be compared and the history is skipped
    try:
        ref = {relift: fresh.predict_trajectory(X, relift_state=relift) for relift in (True, False)}
        ref_one = fresh.predict(X)
        usable = all(np.all(np.isfinite(v)) and float(np.max(np.abs(v))) < 1e8 for v in list(ref.values()) + [ref_one])
    except Exception:  # noqa
        usable = False
    if usable:
        try:
            if int(case.get('cid', 0)) % 2 == 0:
                kp.regressor_.coef_ = coef2
            else:
                kp.regressor_.set_params(coef=coef2)
                kp.regressor_.fit(kp.transform(case.get('Xfit', X)), n_inputs=kp.n_inputs_out_, episode_feature=ep)
            for relift in (True, False):
                a = kp.predict_trajectory(X, relift_state=relift)
                if not close(a, ref[relift], 1e-9):
                    return False, dict(what='after the regressor of a fitted pipeline received a new Koopman matrix, predict_trajectory '
                                            'still iterates the old one (trajectory is not the iterated one-step prediction)',
                                       relift_state=relift)
            if not close(kp.predict(X), ref_one, 1e-9):
                return False, dict(what='predict does not use the current Koopman matrix of the regressor')
        except Exception as e:  # noqa
            return False, dict(what=f'prediction after replacing the Koopman matrix raised {type(e).__name__}: {e}')
    # the prediction is a function of the VALUES of the data: integer-typed arrays holding the same
    # numbers as float arrays must give the same trajectories (both call forms)
    Xi = np.round(2 * X)
    if ep:
        Xi[:, 0] = X[:, 0]
    x0i = pykoop.extract_initial_conditions(Xi, min_samples=w, n_inputs=nu, episode_feature=ep)
    ui = pykoop.extract_input(Xi, n_inputs=nu, episode_feature=ep)
    for relift in (True, False):
        try:
            b1 = kp.predict_trajectory(Xi, relift_state=relift)
        except Exception:  # noqa
            continue          # the float prediction itself leaves the finite range on these data: nothing to compare
        if not np.all(np.isfinite(b1)):
            continue
        try:
            a1 = kp.predict_trajectory(Xi.astype(np.int64), relift_state=relift)
            a2 = kp.predict_trajectory(x0i.astype(np.int64), ui.astype(np.int64), relift_state=relift)
        except Exception as e:  # noqa
            return False, dict(what=f'predict_trajectory on integer-typed data raised {type(e).__name__}: {e}',
                               relift_state=relift)
        if not (close(a1, b1, 1e-9) and close(a2, b1, 1e-9)):
            if np.all(np.isfinite(b1)):
                return False, dict(what='prediction depends on the dtype of the data (integer-typed arrays with the same '
                                        'values give another trajectory)', relift_state=relift)
    return True, None


def c07_divergence(rng):
    """An episode whose prediction overflows must not disturb the other episodes
    (the NaN / 'prediction diverged' branch)."""
    bad = []
    n = 0
    combos = [(o, b) for o in itertools.permutations([0, 1, 2]) for b in (0, 1, 2)]      # every order x every diverging label
    for trial, (order, big) in enumerate(combos):
        order = np.array(order)
        for relift in (True, False):
            n += 1
            kp = pykoop.KoopmanPipeline(
                lifting_functions=[('p', pykoop.PolynomialLiftingFn(order=2))],
                regressor=pykoop.DataRegressor(coef=np.array([[0.5, 0.0], [1.0, 0.0]])))
            # x+ = 0.5 x + x^2 : diverges from x0 = 1e200 (overflow), converges from 0.1
            T = 12
            rows = []
            for l in order:
                x0 = (1e200 if trial < 3 else 1e30) if l == big else 0.1 * (l + 1)
                for k in range(T):
                    rows.append([float(l), x0 if k == 0 else 0.0])
            X = np.array(rows)
            kp.fit(np.array([[0., 0.1], [0., 0.2], [1., 0.3], [1., 0.1]]), n_inputs=0, episode_feature=True)
            import warnings
            with warnings.catch_warnings():
                warnings.simplefilter('ignore')
                P = kp.predict_trajectory(X, relift_state=relift)
            for l in order:
                if l == big:
                    continue
                Xl = X[X[:, 0] == l]
                with warnings.catch_warnings():
                    warnings.simplefilter('ignore')
                    alone = kp.predict_trajectory(Xl, relift_state=relift)
                got = P[P[:, 0] == l]
                if got.shape != alone.shape or not np.array_equal(got, alone, equal_nan=True):
                    bad.append(dict(what='a diverging episode changes the prediction of another episode',
                                    relift_state=relift, diverging_label=big, label=int(l),
                                    episode_order=[int(v) for v in order], X=X.tolist()))
    return n, bad


# ------------------------------------------------------------ refit histories (C02 / C04 / C15)
def leaf_refit(rng, kinds=None, helpers=False):
    """A bare lifting function fitted once with one state/input split and fitted again with
    another split of the same width must behave as a fresh estimator fitted with the latter."""
    bad = []
    n = 0
    specs = [('poly', 2, False), ('poly', 3, True), ('bilinear',), ('const',), ('delay', 1, 2),
             ('rbf', 1, 2), ('kernel', 1, 3), ('sk', 0), ('angle', (1, 0), False)]
    for spec in specs:
        for (nu1, nu2) in ((1, 2), (2, 0), (0, 1), (2, 1)):
            for ep in (False, True):
                n += 1
                order, _ = sg.gen_layout(rng, 3, max_eps=3 if ep else 1, extra=3)
                X = real_data(rng, order if ep else [0] * len(order), 1, 2, ep)   # 3 feature columns
                reused = build_real(spec)
                fresh = build_real(spec)
                try:
                    reused.fit(X, n_inputs=nu1, episode_feature=ep)
                    reused.fit(X, n_inputs=nu2, episode_feature=ep)
                    fresh.fit(X, n_inputs=nu2, episode_feature=ep)
                    a = reused.transform(X); b = fresh.transform(X)
                    ok = ((reused.n_states_out_, reused.n_inputs_out_, reused.min_samples_)
                          == (fresh.n_states_out_, fresh.n_inputs_out_, fresh.min_samples_)
                          and a.shape == b.shape and np.array_equal(a, b))
                    info = dict(reused=[int(reused.n_states_out_), int(reused.n_inputs_out_)],
                                fresh=[int(fresh.n_states_out_), int(fresh.n_inputs_out_)])
                    if ok and helpers:
                        # the lift / retract helpers of the refitted estimator are those of the fresh one
                        Xs_ = X[:, :X.shape[1] - nu2]
                        for nm, arg in (('lift', X), ('lift_state', Xs_), ('lift_input', X)):
                            ha, hb = getattr(reused, nm)(arg), getattr(fresh, nm)(arg)
                            if ha.shape != hb.shape or not np.array_equal(ha, hb):
                                ok = False; info['helper'] = nm
                                break
                except Exception as e:  # noqa
                    ok, info = False, dict(error=f'{type(e).__name__}: {e}')
                if not ok:
                    bad.append(dict(what='an estimator refitted with a different state/input split differs from a '
                                         'fresh one (stale fitted state)', stage=repr(spec), n_inputs_first=nu1,
                                    n_inputs_second=nu2, episode_feature=ep, X=X.tolist(), **info))
    return n, bad


# ------------------------------------------------------------ kernel approximations that are not in the model's pool
def extra_kernel_cases(rng):
    """KernelApproxLiftingFn around estimators whose number of features is decided at fit time (scikit-learn's Nystroem with
    more components requested than there are samples, pykoop's random binning with several components) or taken from a
    scikit-learn sampler: bare and followed by a delay stage in a pipeline, with and without inputs, two episodes.
    Yields (description, estimator factory, X, n_inputs)."""
    import sklearn.kernel_approximation as ska
    kinds = [('Nystroem(n_components=100) on fewer samples', lambda: ska.Nystroem(n_components=100, random_state=0)),
             ('RBFSampler(n_components=5)', lambda: ska.RBFSampler(n_components=5, random_state=0)),
             ('RandomBinningKernelApprox(n_components=3)', lambda: pykoop.RandomBinningKernelApprox(n_components=3, random_state=1)),
             ('RandomBinningKernelApprox(n_components=1)', lambda: pykoop.RandomBinningKernelApprox(n_components=1, random_state=2))]
    out = []
    for name, mk in kinds:
        for nu in (0, 1):
            for wrapped in (False, True):
                order = [0] * 7 + [1] * 6
                X = real_data(rng, order, 2, nu, True)

                def make(mk=mk, wrapped=wrapped):
                    lf = pykoop.KernelApproxLiftingFn(kernel_approx=mk())
                    if not wrapped:
                        return lf
                    return pykoop.KoopmanPipeline(lifting_functions=[('k', lf), ('d', pykoop.DelayLiftingFn(1, 1))],
                                                  regressor=pykoop.DataRegressor())
                out.append((f'{name}, n_inputs={nu}, ' + ('then DelayLiftingFn(1, 1) in a KoopmanPipeline' if wrapped else 'used directly'),
                            make, X, nu))
    return out


def fit_any(est, X, nu, ep=True):
    if hasattr(est, 'fit_transformers'):
        return est.fit_transformers(X, n_inputs=nu, episode_feature=ep)
    return est.fit(X, n_inputs=nu, episode_feature=ep)


def extra_kernel_checks(rng, which):
    """which: 'roundtrip' (C01), 'names' (C19), 'noninterference' (C02), 'dims' (C04).  Returns (n, bad)."""
    bad = []
    n = 0
    for name, make, X, nu in extra_kernel_cases(rng):
        n += 1
        try:
            est = fit_any(make(), X, nu)
            Xt = est.transform(X)
            if which == 'roundtrip':
                Xi = est.inverse_transform(Xt)
                # (equal numbers of state and input delays: the delay stage gives every sample back)
                want = np.vstack([X[X[:, 0] == l] for l in sorted(set(X[:, 0].tolist()))])
                if Xi.shape != want.shape or not close(Xi, want, 1e-9):
                    bad.append(dict(what='inverse_transform(transform(X)) differs from X', estimator=name,
                                    got_shape=list(Xi.shape), want_shape=list(want.shape), X=X.tolist()))
            elif which == 'names':
                for kw in (dict(), dict(symbols_only=True), dict(format='latex')):
                    names = est.get_feature_names_out(**kw)
                    if len(names) != Xt.shape[1] or len(set(names.tolist())) != len(names):
                        bad.append(dict(what='get_feature_names_out does not give one distinct name per lifted column', estimator=name,
                                        n_names=int(len(names)), n_columns=int(Xt.shape[1]), arguments=str(kw), X=X.tolist()))
                        break
            elif which == 'dims':
                if Xt.shape[1] != est.n_features_out_ or est.n_states_out_ + est.n_inputs_out_ + 1 != Xt.shape[1]:
                    bad.append(dict(what='declared output dimensions do not match the transformed array', estimator=name,
                                    produced=int(Xt.shape[1]), n_features_out=int(est.n_features_out_),
                                    n_states_out=int(est.n_states_out_), n_inputs_out=int(est.n_inputs_out_), X=X.tolist()))
            elif which == 'noninterference' and nu > 0:
                Xb = np.array(X, copy=True)
                Xb[:, -nu:] = Xb[:, -nu:] + rng.uniform(0.3, 0.9, size=(X.shape[0], nu))
                a = Xt[:, :1 + est.n_states_out_]
                b = est.transform(Xb)[:, :1 + est.n_states_out_]
                ls = est.lift_state(X[:, :X.shape[1] - nu])
                if not close(a, b, 1e-12):
                    bad.append(dict(what='changing only the input columns changed the lifted-state block', estimator=name, X=X.tolist()))
                elif ls.shape != a.shape or not close(ls, a, 1e-12):
                    bad.append(dict(what='lift_state differs from the state block of transform', estimator=name, X=X.tolist()))
        except Exception as e:  # noqa
            bad.append(dict(what=f'implementation raised {type(e).__name__}: {e}'[:400], estimator=name, X=X.tolist()))
    return n, bad


def c07_inplace_substage(rng):
    """A wrapped scikit-learn transformer that works in place (copy=False, valid scikit-learn usage) must give the same
    predictions as its copying twin: the arrays predict / predict_trajectory build while iterating are theirs alone."""
    import sklearn.preprocessing as skp
    bad = []
    n = 0
    for ep in (False, True):
        for nu in (0, 1):
            for with_delay in (False, True):
                order = [0] * 8 + ([1] * 7 if ep else [])
                X = real_data(rng, order, 2, nu, ep)
                coef = None
                res = {}
                for copy in (True, False):
                    lfs = [('s', pykoop.SkLearnLiftingFn(skp.StandardScaler(copy=copy)))]
                    if with_delay:
                        lfs.append(('d', pykoop.DelayLiftingFn(1, 1)))
                    probe = pykoop.KoopmanPipeline(lifting_functions=lfs, regressor=pykoop.DataRegressor())
                    if coef is None:
                        probe.fit_transformers(np.array(X, copy=True), n_inputs=nu, episode_feature=ep)
                        nso, nuo = probe.n_states_out_, probe.n_inputs_out_
                        coef = rng.normal(size=(nso + nuo, nso)) * (0.3 / np.sqrt(nso + nuo))
                    kp = pykoop.KoopmanPipeline(lifting_functions=lfs, regressor=pykoop.DataRegressor(coef=coef))
                    kp.fit(np.array(X, copy=True), n_inputs=nu, episode_feature=ep)
                    out = {}
                    for relift in (True, False):
                        out[('trajectory', relift)] = kp.predict_trajectory(np.array(X, copy=True), relift_state=relift)
                    out[('predict', None)] = kp.predict(np.array(X, copy=True))
                    res[copy] = out
                n += 1
                for key in res[True]:
                    a, b = res[True][key], res[False][key]
                    if a.shape != b.shape or not close(a, b, 1e-9):
                        bad.append(dict(what=f'{key[0]} with a wrapped transformer that works in place (copy=False) differs from the same '
                                             'pipeline with a copying transformer', relift_state=key[1], episode_feature=ep, n_inputs=nu,
                                        delay_stage=with_delay, X=X.tolist(), test='inplace_substage'))
                        break
    return n, bad
