"""C15 — fit depends only on parameters and data, never on history."""
import json
import threading
import warnings

import joblib
import numpy as np
import sklearn.base
import sklearn.preprocessing

from .. import common, driver, known, lmi
from . import _dp
import pykoop
import pykoop.lmi_regressors as L

LEVEL = 'proof'
PID = 'C15'
warnings.filterwarnings('ignore')


# ------------------------------------------------------------------ the estimator zoo
def data(rng, ep=True, n_eps=2, ns=2, nu=1, length=9):
    rows = []
    A = rng.normal(size=(ns, ns)) * 0.5; B = rng.normal(size=(ns, nu))
    for l in range(n_eps):
        x = rng.normal(size=ns)
        for _ in range(length):
            u = rng.normal(size=nu)
            rows.append(([float(l)] if ep else []) + list(x) + list(u))
            x = A @ x + (B @ u if nu else 0) + 0.05 * rng.normal(size=ns)
    return np.array(rows)


def zoo():
    S = lmi.SOLVER
    lf = dict(kind='lf')
    out = [
        ('SkLearnLiftingFn', lambda: pykoop.SkLearnLiftingFn(sklearn.preprocessing.StandardScaler()), lf),
        ('PolynomialLiftingFn', lambda: pykoop.PolynomialLiftingFn(order=2), lf),
        ('BilinearInputLiftingFn', lambda: pykoop.BilinearInputLiftingFn(), lf),
        ('ConstantLiftingFn', lambda: pykoop.ConstantLiftingFn(), lf),
        ('DelayLiftingFn', lambda: pykoop.DelayLiftingFn(1, 2), lf),
        ('AnglePreprocessor', lambda: pykoop.AnglePreprocessor(angle_features=np.array([0])), lf),
        ('AnglePreprocessor/negative index', lambda: pykoop.AnglePreprocessor(angle_features=np.array([-1, 0]), unwrap_inverse=False), lf),
        ('RbfLiftingFn/Qmc', lambda: pykoop.RbfLiftingFn(centers=pykoop.QmcCenters(n_centers=3, random_state=1, qmc_kw={'scramble': True})), lf),
        ('RbfLiftingFn/Grid', lambda: pykoop.RbfLiftingFn(rbf='thin_plate', centers=pykoop.GridCenters(2)), lf),
        ('KernelApproxLiftingFn/RFF', lambda: pykoop.KernelApproxLiftingFn(pykoop.RandomFourierKernelApprox(n_components=4, random_state=3)), lf),
        ('KernelApproxLiftingFn/Binning', lambda: pykoop.KernelApproxLiftingFn(pykoop.RandomBinningKernelApprox(n_components=3, random_state=3)), lf),
        ('SplitPipeline', lambda: pykoop.SplitPipeline(
            lifting_functions_state=[('p', pykoop.PolynomialLiftingFn(order=2))],
            lifting_functions_input=[('s', pykoop.SkLearnLiftingFn(sklearn.preprocessing.StandardScaler())),
                                     ('d', pykoop.DelayLiftingFn(0, 1))]), lf),
        ('KoopmanPipeline', lambda: pykoop.KoopmanPipeline(
            lifting_functions=[('a', pykoop.PolynomialLiftingFn(order=2)), ('b', pykoop.DelayLiftingFn(1, 1)),
                               ('c', pykoop.RbfLiftingFn(centers=pykoop.UniformRandomCenters(n_centers=2, random_state=5)))],
            regressor=pykoop.Edmd(alpha=0.1)), dict(kind='pipe')),
    ]
    for name, mk in [('GridCenters', lambda: pykoop.GridCenters(2)),
                     ('UniformRandomCenters', lambda: pykoop.UniformRandomCenters(n_centers=3, random_state=2)),
                     ('GaussianRandomCenters', lambda: pykoop.GaussianRandomCenters(n_centers=3, random_state=2)),
                     ('QmcCenters', lambda: pykoop.QmcCenters(n_centers=3, random_state=2, qmc_kw={'scramble': True})),
                     ('ClusterCenters', lambda: pykoop.ClusterCenters(sklearn.cluster.KMeans(n_clusters=2, n_init=1, random_state=0))),
                     ('GaussianMixtureRandomCenters', lambda: pykoop.GaussianMixtureRandomCenters(
                         n_centers=3, estimator=sklearn.mixture.GaussianMixture(n_components=2, random_state=0))),
                     ('DataCenters', lambda: pykoop.DataCenters()),
                     ('RandomFourierKernelApprox/offset', lambda: pykoop.RandomFourierKernelApprox(n_components=4, random_state=1)),
                     ('RandomFourierKernelApprox/only', lambda: pykoop.RandomFourierKernelApprox(n_components=4, method='weight_only', random_state=1)),
                     ('RandomBinningKernelApprox', lambda: pykoop.RandomBinningKernelApprox(n_components=3, random_state=1)),
                     ('Tsvd', lambda: pykoop.Tsvd('rank', 2))]:
        out.append((name, mk, dict(kind='plain')))
    reg = dict(kind='reg')
    out += [('Edmd', lambda: pykoop.Edmd(alpha=0.1), reg), ('EdmdMeta', lambda: pykoop.EdmdMeta(), reg),
            ('Dmdc', lambda: pykoop.Dmdc(tsvd_unshifted=pykoop.Tsvd('rank', 3)), reg),
            ('Dmd', lambda: pykoop.Dmd(), dict(kind='reg', nu=0)),
            ('DataRegressor', lambda: pykoop.DataRegressor(), reg)]
    lm = dict(kind='reg', tol=1e-5)
    out += [('LmiEdmd/svd', lambda: L.LmiEdmd(alpha=0.1, inv_method='svd', solver_params=S), lm),
            ('LmiEdmd/svd/tsvd', lambda: L.LmiEdmd(alpha=0.1, inv_method='svd', tsvd=pykoop.Tsvd('rank', 2), solver_params=S), lm),
            ('LmiEdmd/chol', lambda: L.LmiEdmd(alpha=0.1, inv_method='chol', solver_params=S), lm),
            ('LmiDmdc', lambda: L.LmiDmdc(alpha=0.1, solver_params=S), lm),
            ('LmiEdmdSpectralRadiusConstr', lambda: L.LmiEdmdSpectralRadiusConstr(spectral_radius=0.8, max_iter=2, solver_params=S), lm),
            ('LmiEdmdHinfReg', lambda: L.LmiEdmdHinfReg(alpha=1, max_iter=2, solver_params=S), lm),
            ('LmiEdmdDissipativityConstr', lambda: L.LmiEdmdDissipativityConstr(
                supply_rate=np.diag([0.5, 0.5, -2.0]), max_iter=2, solver_params=S), lm),
            ('LmiEdmd/twonorm', lambda: L.LmiEdmd(alpha=0.1, ratio=0.5, reg_method='twonorm', inv_method='chol', solver_params=S), lm),
            ('LmiDmdcSpectralRadiusConstr', lambda: L.LmiDmdcSpectralRadiusConstr(spectral_radius=0.8, max_iter=2, solver_params=S), lm),
            ('LmiDmdcHinfReg/weight', lambda: L.LmiDmdcHinfReg(
                alpha=1, max_iter=2, solver_params=S,
                weight=('post', np.array([[0.5]]), np.array([[1.0]]), np.array([[0.5]]), np.array([[0.2]]))), lm),
            # array-valued zeros / poles given in other units than rad/s (converted at fit time)
            ('LmiHinfZpkMeta/hz', lambda: L.LmiHinfZpkMeta(
                hinf_regressor=L.LmiEdmdHinfReg(alpha=1, max_iter=1, inv_method='chol', solver_params=S), type='post',
                zeros=np.array([-0.5]), poles=np.array([-2.0]), gain=1.0, t_step=0.1, units='hz'), lm),
            ('LmiHinfZpkMeta/normalized', lambda: L.LmiHinfZpkMeta(
                hinf_regressor=L.LmiEdmdHinfReg(alpha=1, max_iter=1, inv_method='chol', solver_params=S), type='pre',
                zeros=np.array([]), poles=np.array([-0.4 + 0.0j]), gain=0.5, t_step=0.1, units='normalized'), lm)]
    return out


import sklearn.cluster  # noqa: E402
import sklearn.mixture  # noqa: E402


def do_fit(est, meta, X, nu):
    k = meta['kind']
    if k == 'plain':
        return est.fit(X[:, 1:])
    return est.fit(X, n_inputs=nu, episode_feature=True)


def do_use(est, meta, X):
    k = meta['kind']
    if k == 'lf':
        return est.transform(X)
    if k == 'pipe':
        # predict_trajectory is documented for ndarrays only (it slices its argument before any conversion)
        return est.predict_trajectory(X) if isinstance(X, np.ndarray) else est.transform(X)
    if k == 'reg':
        return est.predict(X)
    if hasattr(est, 'transform'):
        return est.transform(X[:, 1:])
    return getattr(est, 'centers_', getattr(est, 'singular_values_', None))


def fitted_state(obj, depth=0):
    """comparable snapshot of every fitted (trailing-underscore) attribute, recursively"""
    out = {}
    if depth > 5:
        return out
    for k, v in sorted(vars(obj).items()):
        if not k.endswith('_') or k.startswith('__'):
            continue
        out[k] = snap(v, depth)
    return out


def snap(v, depth):
    if isinstance(v, np.ndarray):
        return ('array', v.shape, v.copy())
    if isinstance(v, sklearn.base.BaseEstimator):
        return ('est', type(v).__name__, fitted_state(v, depth + 1))
    if isinstance(v, (list, tuple)):
        return ('seq', [snap(x, depth + 1) for x in v])
    if isinstance(v, dict):
        return ('dict', {str(k): snap(x, depth + 1) for k, x in sorted(v.items(), key=lambda kv: str(kv[0]))})
    if callable(v):
        return ('callable', getattr(v, '__name__', type(v).__name__))
    if isinstance(v, (int, float, str, bool, type(None), np.integer, np.floating)):
        return ('val', v)
    return ('repr', type(v).__name__)


def diff(a, b, tol, path=''):
    """first difference between two snapshots (None when equal up to tol on arrays/floats)"""
    if type(a) != type(b):
        return f'{path}: {type(a).__name__} vs {type(b).__name__}'
    if isinstance(a, dict):
        if sorted(a) != sorted(b):
            return f'{path}: attributes {sorted(set(a) ^ set(b))} present on one side only'
        for k in a:
            d = diff(a[k], b[k], tol, f'{path}.{k}')
            if d:
                return d
        return None
    if isinstance(a, tuple) and a and a[0] == 'array':
        if a[1] != b[1]:
            return f'{path}: shape {a[1]} vs {b[1]}'
        x, y = a[2], b[2]
        if x.dtype == object or y.dtype == object:
            return None if np.array_equal(x, y) else f'{path}: object arrays differ'
        if tol == 0:
            return None if np.array_equal(x, y, equal_nan=True) else f'{path}: arrays differ (max {np.nanmax(np.abs(x - y)) if x.size else 0})'
        if x.size and np.nanmax(np.abs(x - y)) > tol * max(1.0, float(np.nanmax(np.abs(y)))):
            return f'{path}: arrays differ by {np.nanmax(np.abs(x - y))}'
        return None
    if isinstance(a, tuple) and a and a[0] == 'val':
        if isinstance(a[1], (float, np.floating)) and isinstance(b[1], (float, np.floating)):
            return None if (np.isnan(a[1]) and np.isnan(b[1])) or abs(a[1] - b[1]) <= max(tol, 0) * max(1.0, abs(b[1])) + (0 if tol else 0) or a[1] == b[1] else f'{path}: {a[1]} vs {b[1]}'
        return None if a[1] == b[1] else f'{path}: {a[1]!r} vs {b[1]!r}'
    if isinstance(a, tuple):
        if len(a) != len(b):
            return f'{path}: lengths differ'
        for i, (x, y) in enumerate(zip(a, b)):
            d = diff(x, y, tol, f'{path}[{i}]') if isinstance(x, (tuple, dict, list)) else (None if x == y else f'{path}[{i}]: {x!r} vs {y!r}')
            if d:
                return d
        return None
    if isinstance(a, list):
        if len(a) != len(b):
            return f'{path}: lengths differ'
        for i, (x, y) in enumerate(zip(a, b)):
            d = diff(x, y, tol, f'{path}[{i}]')
            if d:
                return d
        return None
    return None if a == b else f'{path}: {a!r} vs {b!r}'


def phash(est):
    return joblib.hash(est.get_params(deep=True))


def history_case(rng, name, mk, meta, ids):
    """random history, then fit(d): must equal a fresh clone fitted on d"""
    nu = meta.get('nu', 1)
    D1 = data(rng, nu=nu); D2 = data(rng, nu=nu, length=11)
    common.note_case('history', name, D1)
    tol = meta.get('tol', 0)
    est = mk()
    h0 = phash(est)
    ops = []
    n_ops = int(rng.integers(1, 5))
    fitted = False
    named = None
    for _ in range(n_ops):
        r = rng.random()
        if meta['kind'] in ('lf', 'pipe') and nu > 0 and r < 0.2:
            # same number of columns, different state / input split
            try:
                do_fit(est, meta, D2, nu - 1); fitted = True; named = None; ops.append(f'fit(other, n_inputs={nu - 1})')
            except Exception:  # noqa
                # a fit that raised leaves the object in an undefined state (scikit-learn convention):
                # the next operation must be a proper fit
                ops.append('fit(other split) rejected'); fitted = False
        elif meta['kind'] in ('lf', 'pipe', 'reg') and 0.2 <= r < 0.3:
            # fitted on a DataFrame with named columns earlier; the fit under test gets a plain array
            import pandas
            cols = ['run'] + [f'signal {k}' for k in range(D2.shape[1] - 1)]
            try:
                do_fit(est, meta, pandas.DataFrame(D2, columns=cols), nu); fitted = True; named = cols
                ops.append('fit(DataFrame with named columns)')
            except Exception:  # noqa
                ops.append('fit(DataFrame) rejected'); fitted = False
        elif r < 0.45 or not fitted:
            do_fit(est, meta, D2 if rng.random() < 0.7 else D1, nu); fitted = True; named = None; ops.append('fit(other)')
        elif r < 0.7:
            if named:
                import pandas
                do_use(est, meta, pandas.DataFrame(D2, columns=named)); ops.append('use(DataFrame)')
            else:
                do_use(est, meta, D2); ops.append('use')
        elif r < 0.85:
            p = est.get_params(deep=False)
            est.set_params(**p); ops.append('set_params(same)')
        else:
            sklearn.base.clone(est); est.get_params(deep=True); ops.append('clone/get_params')
    if phash(est) != h0:
        return dict(what='a fit / use history modified the constructor parameters (nested dictionaries or estimators included)',
                    estimator=name, history=ops)
    if rng.random() < 0.3:
        # the caller reuses one array object: fitted on it, then its contents are replaced in place
        buf = data(rng, nu=nu)
        if buf.shape == D1.shape:
            do_fit(est, meta, buf, nu); ops.append('fit(buffer)')
            buf[...] = D1; ops.append('buffer updated in place')
            D1 = buf
    D1c = D1.copy()
    do_fit(est, meta, D1, nu)
    if not np.array_equal(D1, D1c):
        return dict(what='fit modified its input array', estimator=name)
    if phash(est) != h0:
        return dict(what='fit modified the constructor parameters', estimator=name, history=ops)
    fresh = sklearn.base.clone(est)
    do_fit(fresh, meta, D1, nu)
    s1 = fitted_state(est)
    d = diff(s1, fitted_state(fresh), tol)
    if d:
        if 'F7' in ids and getattr(est, 'inv_method', None) == 'svd' and d.startswith('.tsvd_'):
            return 'F7'
        return dict(what='fitted state after a history differs from a freshly constructed estimator fitted on the same data',
                    estimator=name, history=ops, difference=d)
    # transform / predict leave the fitted state untouched
    do_use(est, meta, D1)
    d = diff(fitted_state(est), s1, 0)
    if d:
        return dict(what='transform / predict changed the fitted state', estimator=name, difference=d)
    return None


def class_state():
    """hash of every class-level mutable attribute and every module-level plain global of the package: state that
    all estimator objects of the process share"""
    import inspect
    import sys
    out = {}
    for mname, m in sorted(sys.modules.items()):
        if not (mname == 'pykoop' or mname.startswith('pykoop.')) or m is None:
            continue
        for name, obj in sorted(vars(m).items()):
            if inspect.isclass(obj) and getattr(obj, '__module__', None) == mname:
                for k, v in sorted(vars(obj).items()):
                    if isinstance(v, (dict, list, set)) and not k.startswith('__'):      # (dunders: caches of the Python runtime)
                        out[f'{mname}.{obj.__name__}.{k}'] = joblib.hash(v)
            elif isinstance(obj, (dict, list, set, bool, int, float, str)) and not name.startswith('__'):
                out[f'{mname}.{name}'] = joblib.hash(obj)
    return out


def interference_case(rng, name_a, mk_a, name_b, mk_b):
    """operations on ANOTHER estimator object must not influence this one: A is fitted without episode
    feature on single-column data, B (another object, possibly another class) is then fitted with an episode
    feature, and A must still behave as an undisturbed twin does"""
    Xa = rng.normal(size=(7, 1))
    Xb = data(rng, nu=1)
    try:
        twin = mk_a().fit(Xa, n_inputs=0, episode_feature=False)
        want = twin.transform(Xa)
    except Exception:  # noqa
        return 'skipped'          # this kind does not accept single-column data at all
    a = mk_a().fit(Xa, n_inputs=0, episode_feature=False)
    try:
        b = mk_b().fit(Xb, n_inputs=1, episode_feature=True)
        b.transform(Xb)
    except Exception:  # noqa
        return 'skipped'
    try:
        got = a.transform(Xa)
        back = a.inverse_transform(got)
        back_want = twin.inverse_transform(want)
    except Exception as e:  # noqa
        return dict(what='using an estimator after ANOTHER estimator object was fitted raises, while an undisturbed twin works: '
                         f'{type(e).__name__}: {e}', estimator=name_a, other=name_b)
    if not np.array_equal(got, want, equal_nan=True) or not np.array_equal(back, back_want, equal_nan=True):
        return dict(what='fitting another estimator object changed the results of this one', estimator=name_a, other=name_b)
    d = diff(fitted_state(a), fitted_state(twin), 0)
    if d:
        return dict(what='fitting another estimator object changed the fitted state of this one', estimator=name_a,
                    other=name_b, difference=d)
    return None


def split_change_case(rng, name, mk, meta):
    """refit of the same object on data with the same number of columns but another state / input split"""
    D1 = data(rng, nu=1); D2 = data(rng, nu=1, length=11)
    try:
        fresh = mk(); do_fit(fresh, meta, D1, 0)
        want = do_use(fresh, meta, D1)
    except Exception:  # noqa
        return 'skipped'
    est = mk()
    try:
        do_fit(est, meta, D2, 1)
        do_use(est, meta, D2)
    except Exception:  # noqa
        return 'skipped'
    do_fit(est, meta, D1, 0)
    d = diff(fitted_state(est), fitted_state(fresh), meta.get('tol', 0))
    if d:
        return dict(what='estimator refitted with another state / input split (same number of columns) differs from a fresh '
                         'estimator fitted on the same data', estimator=name, difference=d)
    got = do_use(est, meta, D1)
    if want is not None and (np.shape(got) != np.shape(want) or not np.array_equal(got, want, equal_nan=True)):
        return dict(what='estimator refitted with another state / input split gives other results than a fresh one', estimator=name)
    return None


def thread_case(rng, name, mk, meta):
    nu = meta.get('nu', 1)
    D1 = data(rng, nu=nu)
    est = mk(); do_fit(est, meta, D1, nu)
    inputs = [data(rng, nu=nu, length=int(rng.integers(6, 12))) for _ in range(4)]
    seq = [do_use(est, meta, X) for X in inputs]
    res = [None] * len(inputs)
    bar = threading.Barrier(len(inputs))

    def work(i):
        bar.wait()
        for _ in range(3):
            res[i] = do_use(est, meta, inputs[i])
    ths = [threading.Thread(target=work, args=(i,)) for i in range(len(inputs))]
    [t.start() for t in ths]; [t.join() for t in ths]
    for a, b in zip(seq, res):
        if a is None:
            continue
        if b is None or np.shape(a) != np.shape(b) or not np.array_equal(a, b, equal_nan=True):
            return dict(what='concurrent read-only use from several threads differs from the sequential answers', estimator=name)
    return None


def params_roundtrip():
    bad = []
    n = 0
    for name, mk, meta in zoo():
        n += 1
        est = mk()
        c = sklearn.base.clone(est)
        if joblib.hash(c.get_params(deep=True)) != joblib.hash(est.get_params(deep=True)):
            bad.append(dict(what='clone does not reproduce get_params', estimator=name))
        c.set_params(**est.get_params(deep=False))
        if joblib.hash(c.get_params(deep=True)) != joblib.hash(est.get_params(deep=True)):
            bad.append(dict(what='set_params(get_params) is not the identity', estimator=name))
    kp = pykoop.KoopmanPipeline(lifting_functions=[('a', pykoop.PolynomialLiftingFn(order=2)), ('b', pykoop.DelayLiftingFn(1, 1))],
                                regressor=pykoop.Edmd())
    kp.set_params(a__order=3, b__n_delays_input=4, regressor__alpha=0.5)
    n += 1
    if kp.lifting_functions[0][1].order != 3 or kp.lifting_functions[1][1].n_delays_input != 4 or kp.regressor.alpha != 0.5:
        bad.append(dict(what='nested step__param names do not reach the step'))
    new = pykoop.ConstantLiftingFn()
    kp.set_params(b=new)
    if [k for k, _ in kp.lifting_functions] != ['a', 'b'] or kp.lifting_functions[1][1] is not new:
        bad.append(dict(what='replacing a step changed the order or the names of the steps'))
    sp = pykoop.SplitPipeline(lifting_functions_state=[('p', pykoop.PolynomialLiftingFn())],
                              lifting_functions_input=[('d', pykoop.DelayLiftingFn())])
    sp.set_params(p__order=2, d__n_delays_input=3)
    n += 1
    if sp.lifting_functions_state[0][1].order != 2 or sp.lifting_functions_input[0][1].n_delays_input != 3:
        bad.append(dict(what='nested step__param names do not reach the step (SplitPipeline)'))
    g = sp.get_params(deep=True)
    if g.get('p__order') != 2 or g.get('d__n_delays_input') != 3:
        bad.append(dict(what='get_params(deep=True) does not report nested step parameters'))
    # replacing a step BY NAME, in either branch of a SplitPipeline, directly and three levels deep: get_params must show
    # the new step, and a fit afterwards must equal a freshly constructed estimator with that step
    rng = np.random.default_rng(11)
    D = data(rng, nu=1)
    for where in ('state', 'input'):
        n += 1
        new_step = pykoop.DelayLiftingFn(1, 1) if where == 'input' else pykoop.PolynomialLiftingFn(order=3)
        sp = pykoop.SplitPipeline(lifting_functions_state=[('p', pykoop.PolynomialLiftingFn(order=2))],
                                  lifting_functions_input=[('d', pykoop.DelayLiftingFn(0, 0))])
        key = 'p' if where == 'state' else 'd'
        sp.set_params(**{key: new_step})
        got = dict(sp.lifting_functions_state if where == 'state' else sp.lifting_functions_input).get(key)
        if got is not new_step or sp.get_params(deep=True).get(key) is not new_step:
            bad.append(dict(what=f'SplitPipeline.set_params(<{where} step name>=estimator) does not replace the step '
                                 '(get_params / the step list still show the old one)', estimator='SplitPipeline'))
            continue
        fresh = pykoop.SplitPipeline(
            lifting_functions_state=[('p', new_step if where == 'state' else pykoop.PolynomialLiftingFn(order=2))],
            lifting_functions_input=[('d', new_step if where == 'input' else pykoop.DelayLiftingFn(0, 0))])
        sp.fit(D, n_inputs=1, episode_feature=True); fresh.fit(D, n_inputs=1, episode_feature=True)
        dd = diff(fitted_state(sp), fitted_state(fresh), 0)
        if dd:
            bad.append(dict(what='a SplitPipeline whose step was replaced by name fits differently from a fresh one built with '
                                 'that step', estimator='SplitPipeline', difference=dd))
        # the same through a KoopmanPipeline: split__<name>=...
        n += 1
        kp2 = pykoop.KoopmanPipeline(lifting_functions=[('split', pykoop.SplitPipeline(
            lifting_functions_state=[('p', pykoop.PolynomialLiftingFn(order=2))],
            lifting_functions_input=[('d', pykoop.DelayLiftingFn(0, 0))]))], regressor=pykoop.Edmd())
        new2 = sklearn.base.clone(new_step)
        kp2.set_params(**{'split__' + key: new2})
        inner = kp2.lifting_functions[0][1]
        got2 = dict(inner.lifting_functions_state if where == 'state' else inner.lifting_functions_input).get(key)
        if got2 is not new2:
            bad.append(dict(what=f'KoopmanPipeline.set_params(split__<{where} step name>=estimator) does not reach the step',
                            estimator='KoopmanPipeline'))
    # replacing a step by name must not reach back into objects the estimator does not own: the list the caller passed to
    # the constructor, the parameter dict handed out by get_params(deep=False) earlier, a sibling built from the same list;
    # and set_params(**saved) must restore the estimator (a fit afterwards equals the fit of a fresh copy of the original)
    for cls_name in ('KoopmanPipeline', 'SplitPipeline'):
        n += 1
        lf_a, lf_b = pykoop.PolynomialLiftingFn(order=2), pykoop.DelayLiftingFn(1, 1)
        steps = [('pl', lf_a), ('dl', lf_b)]
        if cls_name == 'KoopmanPipeline':
            mk_ = lambda st: pykoop.KoopmanPipeline(lifting_functions=st, regressor=pykoop.Edmd())  # noqa
            attr = 'lifting_functions'
        else:
            mk_ = lambda st: pykoop.SplitPipeline(lifting_functions_state=st, lifting_functions_input=None)  # noqa
            attr = 'lifting_functions_state'
        est = mk_(steps)
        sibling = mk_(steps)
        saved = est.get_params(deep=False)
        reference = sklearn.base.clone(est)
        est.set_params(pl=pykoop.PolynomialLiftingFn(order=4))
        if steps[0][1] is not lf_a or len(steps) != 2:
            bad.append(dict(what=f'{cls_name}.set_params(<step name>=estimator) modified the list the caller passed to the constructor',
                            estimator=cls_name))
            continue
        if saved[attr][0][1] is not lf_a:
            bad.append(dict(what=f'{cls_name}.set_params(<step name>=estimator) modified the parameters handed out earlier by '
                                 'get_params(deep=False)', estimator=cls_name))
            continue
        if getattr(sibling, attr)[0][1] is not lf_a:
            bad.append(dict(what=f'{cls_name}.set_params(<step name>=estimator) on one estimator changed another estimator built '
                                 'from the same step list', estimator=cls_name))
            continue
        est.set_params(**saved)
        try:
            if cls_name == 'KoopmanPipeline':
                est.fit(D, n_inputs=1, episode_feature=True); reference.fit(D, n_inputs=1, episode_feature=True)
            else:
                est.fit(D, n_inputs=1, episode_feature=True); reference.fit(D, n_inputs=1, episode_feature=True)
            dd = diff(fitted_state(est), fitted_state(reference), 0)
        except Exception as e:  # noqa
            dd = f'{type(e).__name__}: {e}'
        if dd:
            bad.append(dict(what=f'{cls_name}: set_params(<step name>=other) followed by set_params(**saved shallow parameters) does not '
                                 'restore the estimator: its fit differs from the fit of a clone taken before', estimator=cls_name,
                            difference=str(dd)[:600]))
    return n, bad


def config_history_case():
    """history that goes through the configuration: after a finished `with config_context(...)` block (normal exit or an
    exception) the configuration is what it was, and a fit that must reject its input (fractional episode labels) still does"""
    bad = []
    n = 0
    rng = np.random.default_rng(5)
    D = data(rng, nu=1)
    Dbad = np.array(D, copy=True)
    Dbad[:, 0] = Dbad[:, 0] + 0.5
    before = dict(pykoop.get_config())

    def rejects():
        try:
            pykoop.KoopmanPipeline(lifting_functions=[('p', pykoop.PolynomialLiftingFn(order=2))], regressor=pykoop.Edmd()).fit(
                Dbad, n_inputs=1, episode_feature=True)
            return False
        except ValueError:
            return True
    base = rejects()
    for how in ('normal exit', 'exception', 'nested', 'get_config result modified'):
        n += 1
        try:
            if how == 'get_config result modified':
                c = pykoop.get_config()
                c['skip_validation'] = not c['skip_validation']
            elif how == 'nested':
                with pykoop.config_context(skip_validation=True):
                    with pykoop.config_context(skip_validation=False):
                        pykoop.KoopmanPipeline(regressor=pykoop.Edmd()).fit(D, n_inputs=1, episode_feature=True)
            else:
                with pykoop.config_context(skip_validation=True):
                    pykoop.KoopmanPipeline(regressor=pykoop.Edmd()).fit(D, n_inputs=1, episode_feature=True)
                    if how == 'exception':
                        raise KeyError('x')
        except KeyError:
            pass
        after = dict(pykoop.get_config())
        now = rejects()
        if after != before or now != base:
            bad.append(dict(what=f'after a finished config_context block / a modified get_config() result ({how}) the configuration or '
                                 'the behaviour of a later fit on invalid input differs from before (the fit depends on that history)',
                            config_before=before, config_after=after, rejects_invalid_before=base, rejects_invalid_after=now))
            pykoop.set_config(**before)
    return n, bad


def polite_stop_case(ids):
    """a politely stopped earlier fit must not influence later fits"""
    rng = np.random.default_rng(3)
    X = data(rng)
    mk = lambda: L.LmiEdmdSpectralRadiusConstr(spectral_radius=0.8, max_iter=2, solver_params=lmi.SOLVER)
    ref = mk().fit(X, n_inputs=1, episode_feature=True)
    saved = L.polite_stop
    try:
        L.polite_stop = True                       # what the SIGINT handler does
        mk().fit(X, n_inputs=1, episode_feature=True)   # the stopped fit
        later = mk().fit(X, n_inputs=1, episode_feature=True)
        same = np.allclose(later.coef_, ref.coef_, atol=1e-5)
    finally:
        L.polite_stop = saved
    if not same:
        return 'F6' if 'F6' in ids else dict(what='a fit after an earlier politely stopped fit differs from a fresh fit')
    return None


def shared_step_case(rng):
    """two composite estimators built from the same step objects must not share fitted state"""
    bad = []
    steps_in = [('s', pykoop.SkLearnLiftingFn(sklearn.preprocessing.StandardScaler())), ('d', pykoop.DelayLiftingFn(0, 1))]
    steps_st = [('p', pykoop.PolynomialLiftingFn(order=2))]
    D1 = data(rng, nu=2); D2 = 3.0 + 2.0 * data(rng, nu=2)
    h_in = joblib.hash(steps_in); h_st = joblib.hash(steps_st)
    a = pykoop.SplitPipeline(lifting_functions_state=steps_st, lifting_functions_input=steps_in)
    a.fit(D1, n_inputs=2, episode_feature=True)
    t1 = a.transform(D1)
    if joblib.hash(steps_in) != h_in or joblib.hash(steps_st) != h_st:
        bad.append(dict(what='SplitPipeline.fit fitted (modified) the estimators passed to its constructor'))
    b = pykoop.SplitPipeline(lifting_functions_state=steps_st, lifting_functions_input=steps_in)
    b.fit(D2, n_inputs=2, episode_feature=True)
    if not np.array_equal(a.transform(D1), t1):
        bad.append(dict(what='fitting a second SplitPipeline built from the same step objects changed the first one'))
    steps = [('p', pykoop.PolynomialLiftingFn(order=2)), ('s', pykoop.SkLearnLiftingFn(sklearn.preprocessing.StandardScaler()))]
    h = joblib.hash(steps)
    k1 = pykoop.KoopmanPipeline(lifting_functions=steps, regressor=pykoop.Edmd()); k1.fit(D1, n_inputs=2, episode_feature=True)
    t1 = k1.transform(D1)
    k2 = pykoop.KoopmanPipeline(lifting_functions=steps, regressor=pykoop.Edmd()); k2.fit(D2, n_inputs=2, episode_feature=True)
    if joblib.hash(steps) != h or not np.array_equal(k1.transform(D1), t1):
        bad.append(dict(what='KoopmanPipeline shares fitted state with / modifies its constructor steps'))
    return 2, bad


def shared_subobject_case(rng):
    """two estimators constructed with the SAME sub-estimator object (centres, kernel approximation, scaler, Tsvd,
    scikit-learn regressor): each must work on its own clone - fitting the second must neither change the fitted
    state of the first nor fit the user's object"""
    import sklearn.linear_model
    bad = []
    n = 0
    D1 = data(rng, nu=1); D2 = 2.0 + 3.0 * data(rng, nu=1, length=11)
    makers = [
        ('RbfLiftingFn(centers=shared)', pykoop.UniformRandomCenters(n_centers=3, random_state=1), lambda o: pykoop.RbfLiftingFn(centers=o), 'lf'),
        ('KernelApproxLiftingFn(kernel_approx=shared)', pykoop.RandomFourierKernelApprox(n_components=4, random_state=2),
         lambda o: pykoop.KernelApproxLiftingFn(kernel_approx=o), 'lf'),
        ('SkLearnLiftingFn(transformer=shared)', sklearn.preprocessing.StandardScaler(), lambda o: pykoop.SkLearnLiftingFn(o), 'lf'),
        ('Dmdc(tsvd_unshifted=shared)', pykoop.Tsvd('cutoff', 0.2), lambda o: pykoop.Dmdc(tsvd_unshifted=o), 'reg'),
        ('Dmdc(tsvd_shifted=shared)', pykoop.Tsvd('cutoff', 0.2), lambda o: pykoop.Dmdc(tsvd_shifted=o), 'reg'),
        ('EdmdMeta(regressor=shared)', sklearn.linear_model.Ridge(alpha=0.1, fit_intercept=False), lambda o: pykoop.EdmdMeta(regressor=o), 'reg'),
        ('LmiEdmd(tsvd=shared)', pykoop.Tsvd('cutoff', 0.2), lambda o: L.LmiEdmd(alpha=0.1, inv_method='svd', tsvd=o, solver_params=lmi.SOLVER), 'reg'),
        ('ClusterCenters(estimator=shared)', sklearn.cluster.KMeans(n_clusters=2, n_init=1, random_state=0),
         lambda o: pykoop.RbfLiftingFn(centers=pykoop.ClusterCenters(estimator=o)), 'lf'),
    ]
    for name, obj, mk, kind in makers:
        n += 1
        h0 = joblib.hash(obj)
        try:
            a = mk(obj); a.fit(D1, n_inputs=1, episode_feature=True)
            s1 = fitted_state(a)
            out1 = a.transform(D1) if kind == 'lf' else a.predict(D1)
            b = mk(obj); b.fit(D2, n_inputs=1, episode_feature=True)
            out2 = a.transform(D1) if kind == 'lf' else a.predict(D1)
        except Exception as e:  # noqa
            import traceback
            if '/cvxopt/' in traceback.format_exc():
                continue
            bad.append(dict(what=f'shared sub-estimator history raised {type(e).__name__}: {e}', configuration=name))
            continue
        d = diff(fitted_state(a), s1, 0)
        if d or not np.array_equal(out1, out2, equal_nan=True):
            bad.append(dict(what='fitting a second estimator built with the same sub-estimator object changed the fitted state / '
                                 'results of the first one', configuration=name, difference=d))
        if joblib.hash(obj) != h0:
            bad.append(dict(what='fit modified (fitted) the sub-estimator object passed to the constructor instead of a clone',
                            configuration=name))
    return n, bad


def cache_case(rng):
    """memoised helpers: a fit must not be served results computed for other parameters"""
    bad = []
    X = data(rng, length=12)
    first = L.LmiEdmd(alpha=0.1, inv_method='svd', tsvd=pykoop.Tsvd('rank', 3), solver_params=lmi.SOLVER)
    X = np.hstack((X, rng.normal(size=(X.shape[0], 1))))        # 2 states + 2 inputs: rank 3 truncates
    first.fit(X, n_inputs=2, episode_feature=True)
    second = L.LmiEdmd(alpha=0.1, inv_method='svd', solver_params=lmi.SOLVER).fit(X, n_inputs=2, episode_feature=True)
    ref = pykoop.Edmd(alpha=0.1).fit(X, n_inputs=2, episode_feature=True)
    if np.max(np.abs(second.coef_ - ref.coef_)) > 5e-3 * max(1.0, float(np.max(np.abs(ref.coef_)))):
        bad.append(dict(what='an LMI fit after a fit with another truncation on the same data returns the other fit\'s '
                             'factorisation (stale memoised result)', difference=float(np.max(np.abs(second.coef_ - ref.coef_)))))
    return 1, bad


def run(res, tier):
    rng = np.random.default_rng(common.seed())
    proved = driver.proof_step(res, PID)
    ids = known.report_known(res, PID)
    shared_before = class_state()
    reps = 2 if tier == 'quick' else 12
    bad = []; kn = {}; dist = {}; ev = 0
    Z = zoo()
    for name, mk, meta in Z:
        for _ in range(reps):
            ev += 1
            try:
                r = history_case(rng, name, mk, meta, ids)
            except Exception as e:  # noqa
                import traceback
                if '/cvxopt/' in traceback.format_exc():
                    # numerical failure inside the SDP solver (an oracle): not a verdict on pykoop
                    dist['solver_failures'] = dist.get('solver_failures', 0) + 1
                    continue
                r = dict(what=f'history raised {type(e).__name__}: {e}', estimator=name)
            if r == 'F7':
                kn['F7'] = kn.get('F7', 0) + 1
            elif r:
                bad.append(r)
        dist[name] = reps
    for name, mk, meta in Z:
        if meta['kind'] in ('lf', 'pipe', 'reg'):
            ev += 1
            try:
                r = thread_case(rng, name, mk, meta)
            except Exception as e:  # noqa
                import traceback
                if '/cvxopt/' in traceback.format_exc():
                    dist['solver_failures'] = dist.get('solver_failures', 0) + 1
                    continue
                r = dict(what=f'thread test raised {type(e).__name__}: {e}', estimator=name)
            if r:
                bad.append(r)
    lfs = [(n, mk) for n, mk, meta in Z if meta['kind'] == 'lf']
    n_int = 0
    for i, (na, mka) in enumerate(lfs):
        for j in ([(i + 1) % len(lfs), (i + 4) % len(lfs)] if tier == 'quick' else range(len(lfs))):
            nb, mkb = lfs[j]
            r = interference_case(rng, na, mka, nb, mkb)
            if r == 'skipped':
                continue
            n_int += 1; ev += 1
            if r:
                bad.append(r)
    dist['cross_instance_interference'] = n_int
    n_sc = 0
    for name, mk, meta in Z:
        if meta['kind'] in ('lf', 'pipe'):
            r = split_change_case(rng, name, mk, meta)
            if r == 'skipped':
                continue
            n_sc += 1; ev += 1
            if r:
                bad.append(r)
    dist['refit_with_other_split'] = n_sc
    n1, b1 = params_roundtrip(); ev += n1; bad += b1
    n1, b1 = config_history_case(); ev += n1; bad += b1
    n2, b2 = shared_step_case(rng); ev += n2; bad += b2
    n2b, b2b = shared_subobject_case(rng); ev += n2b; bad += b2b
    try:
        n3, b3 = cache_case(rng); ev += n3; bad += b3
    except Exception:  # noqa
        import traceback
        if '/cvxopt/' not in traceback.format_exc():
            raise
        dist['solver_failures'] = dist.get('solver_failures', 0) + 1
    r = polite_stop_case(ids); ev += 1
    if r == 'F6':
        kn['F6'] = 1
    elif r:
        bad.append(r)
    # after all those fits of all those classes: the state shared by every estimator object of the process (class-level
    # mutable attributes, module globals) must be what it was before
    shared_after = class_state()
    changed = sorted(k for k in set(shared_before) | set(shared_after) if shared_before.get(k) != shared_after.get(k))
    ev += 1
    if changed:
        bad.append(dict(what='fitting and using estimators changed state shared by all estimator objects of the process '
                             '(class-level mutable attribute / module global): later fits depend on this history',
                        changed=changed[:10]))
    res.coverage.update(
        evaluations=ev, distinct_nontrivial=ev,
        rule=('M4: the fit-like and read-only methods of every class are re-analysed from the source on this run '
              '(tools/gen_effects.py -> Gen/Effects.v): no write or in-place mutation of a constructor parameter, no global, '
              'no dynamic attribute access, and the shared mutable state reachable from fit is exactly the recorded one '
              '(BridgeC15.v). Histories: for %d estimator configurations (10 lifting kinds, 7 centre generators, 3 kernel '
              'approximations, Tsvd, 5 regressors, 7 LMI configurations under CVXOPT, SplitPipeline, KoopmanPipeline) a random '
              'history of fits on other data / uses / set_params / clone, then fit(d): every trailing-underscore attribute '
              '(recursively, arrays bit-exact; LMI 1e-5) equals that of a fresh clone; joblib hash of get_params(deep) and '
              'input arrays unchanged. Threads: 4 threads x 3 repeated read-only uses vs sequential. Parameter round trips; '
              'shared step objects; memoised helpers across different truncations; politely stopped earlier fit. Refits with the same '
              'number of columns but another state / input split. Cross-instance interference: A fitted without episode feature on '
              'single-column data, another object B fitted with an episode feature, A must behave as an undisturbed twin.' % len(Z)),
        samples=[dict(estimator=n) for n, _, _ in Z[:3]], input_distribution=dist, known_finding_hits=kn)
    res.assumptions += ['frame facts come from a syntactic translator (idioms listed in tools/gen_effects.py) and are cross-checked by '
                        'the history runs; scheduling inside numpy/BLAS is not modelled; RandomState objects as seeds are '
                        'stateful parameters and are excluded (integer seeds are used)']

    class B:
        meta = {}
    _dp.conclude(res, PID, proved, B(), [], [], bad, 'BridgeC15.v (generated frame facts) + Props/C15.v + history runs')


def replay(path):
    d = json.load(open(path)); print(json.dumps(d, indent=1)[:3000]); return 1
