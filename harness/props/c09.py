"""C09 — spectral-radius-constrained fits respect the requested bound."""
import json
import numpy as np
from .. import common, driver, known, lmi, altern, lmi_blocks
from . import _dp
import pykoop
import pykoop.lmi_regressors as L

LEVEL = 'translation_validation'
PID = 'C09'
TOL = 2e-5


def one_fit(rng, fam, kind, ns, nu, rho, max_iter, trunc, solver_iters=None, unit=None, helpers=False):
    X, A0, B0 = lmi.linear_data(rng, ns, nu, kind=kind)
    if unit is not None:
        X = np.array(X, copy=True); X[:, ns] *= unit          # the last state recorded in other units
    sp = dict(lmi.SOLVER)
    if solver_iters is not None:
        sp['max_iterations'] = solver_iters           # the solver gives up early: status 'unknown', meaningless iterate
    kw = dict(spectral_radius=rho, max_iter=max_iter, alpha=float(rng.choice([0, 0.1])), solver_params=sp)
    if fam == 'edmd':
        inv = str(rng.choice(['svd', 'eig', 'chol', 'sqrt']))
        if inv == 'svd' and trunc == 'edmd_trunc' and ns + nu >= 2:
            kw['tsvd'] = pykoop.Tsvd('rank', int(rng.integers(max(1, ns), ns + nu)))
        reg = L.LmiEdmdSpectralRadiusConstr(inv_method=inv, **kw)
    else:
        tu = None if trunc is None else pykoop.Tsvd(*trunc)
        reg = L.LmiDmdcSpectralRadiusConstr(tsvd_unshifted=tu, **kw)
    reg.fit(X, n_inputs=nu, episode_feature=True)
    if helpers:
        from .. import readonly
        readonly.exercise(reg, X)       # documented as reading only: the bound must hold for what the estimator holds afterwards
    A, B = lmi.ab(reg, ns)
    info = None
    sr = float(np.max(np.abs(np.linalg.eigvals(A)))) if np.all(np.isfinite(A)) else float('inf')
    if sr > rho * (1 + TOL) + TOL:
        info = dict(what='spectral radius of the returned state-transition block exceeds the requested bound',
                    spectral_radius=sr, bound=rho)
    k = lmi.log_defect(reg, X, nu)
    if info is None and k is not None:
        info = dict(what='logged objective increases between iterations', log=list(map(float, reg.objective_log_)), at=k)
    if info is None and fam == 'edmd' and np.any(A):
        P = np.asarray(reg.P_)
        M = np.block([[rho * P, A.T @ P], [P @ A, rho * P]])
        lam = float(np.min(np.linalg.eigvalsh((M + M.T) / 2)))
        if lam < -1e-6 * max(1.0, float(np.max(np.abs(P)))):
            info = dict(what='returned (U, P_) does not satisfy the Lyapunov-like LMI (certificate of C09)', lambda_min=lam)
    desc = dict(family=fam, data=kind, n_states=ns, n_inputs=nu, spectral_radius_bound=rho, max_iter=max_iter,
                truncation=trunc, estimator=repr(reg), n_iter=int(reg.n_iter_), stop_reason=str(reg.stop_reason_),
                achieved_radius=sr)
    return info, desc, X


def run(res, tier):
    rng = np.random.default_rng(common.seed())
    proved = driver.proof_step(res, PID, allow_axioms=common.REALS_AXIOMS)
    known.report_known(res, PID)
    n = 26 if tier == 'quick' else 300
    bad = []; samples = []; dist = {}
    for cid in range(n):
        fam = 'edmd' if cid % 2 == 0 else 'dmdc'
        kind = ['stable', 'marginal', 'unstable', 'unstable'][int(rng.integers(0, 4))]
        ns = int(rng.integers(1, 4)); nu = int(rng.integers(0, 3))
        rho = float(rng.choice([0.3, 0.6, 0.8, 0.9, 1.0, 1.2]))
        max_iter = int(rng.choice([1, 2, 3, 5]))
        trunc = 'edmd_trunc' if (fam == 'edmd' and rng.random() < 0.5) else None
        if fam == 'dmdc' and ns + nu >= 2 and rng.random() < 0.6:
            trunc = ('rank', int(rng.integers(max(1, ns), ns + nu + 1))) if rng.random() < 0.7 else ('cutoff', 1e-3)
        solver_iters = int(rng.integers(1, 5)) if cid % 4 == 3 else None
        if solver_iters is not None:
            kind = 'unstable'; rho = float(rng.choice([0.1, 0.3]))
        try:
            info, desc, X = one_fit(rng, fam, kind, ns, nu, rho, max_iter, trunc, solver_iters, helpers=(cid % 3 == 0))
            desc['read_only_helpers_called_first'] = bool(cid % 3 == 0)
            common.note_case('fit', desc.get('estimator'), X)
            desc['solver_max_iterations'] = solver_iters
        except Exception as e:  # noqa
            dist['fit_error'] = dist.get('fit_error', 0) + 1
            continue
        dist[f'{fam}/{kind}'] = dist.get(f'{fam}/{kind}', 0) + 1
        if info:
            bad.append(dict(info, **desc, X=X.tolist()))
        if len(samples) < 3:
            samples.append(desc)
    # DMDc with a truncating SVD of the unshifted data (the returned A is Q_hat A_hat Q_hat^T and must inherit the bound)
    sweep = [(k, r, rho) for k in ('unstable', 'marginal') for r in ('strong', 'mild') for rho in (0.6, 0.9)]
    for j, (kind, strength, rho) in enumerate(sweep if tier == 'quick' else sweep * 5):
        ns = 3 if j % 2 == 0 else 2; nu = 2
        rank = ns if strength == 'strong' else ns + nu - 1
        try:
            info, desc, X = one_fit(rng, 'dmdc', kind, ns, nu, rho, 3, ('rank', rank))
        except Exception:  # noqa
            dist['fit_error'] = dist.get('fit_error', 0) + 1
            continue
        dist['dmdc_truncation_sweep'] = dist.get('dmdc_truncation_sweep', 0) + 1
        if info:
            bad.append(dict(info, **desc, X=X.tolist()))
    # one state recorded in very different units (a similarity transformation of the generating system: the bound must
    # hold for the returned matrix whatever balancing happens inside)
    usweep = [(f, u, rho) for f in ('edmd', 'dmdc') for u in (1e-3, 1e-4) for rho in (0.9, 1.0)]
    for j, (fam, unit, rho) in enumerate(usweep if tier == 'quick' else usweep * 4):
        try:
            info, desc, X = one_fit(rng, fam, 'unstable', 2, 1, rho, 6, None, unit=unit)
        except Exception:  # noqa
            dist['fit_error'] = dist.get('fit_error', 0) + 1
            continue
        dist['state_units_sweep'] = dist.get('state_units_sweep', 0) + 1
        if info:
            bad.append(dict(info, **desc, state_unit=unit, X=X.tolist()))
    # bounds above one on data that is more unstable than the bound (the constraint is active and rho != rho**2)
    osweep = [(f, rho, mi) for f in ('edmd', 'dmdc') for rho in (1.05, 1.1, 1.15) for mi in (1, 3)]
    for j, (fam, rho, mi) in enumerate(osweep if tier == 'quick' else osweep * 4):
        try:
            info, desc, X = one_fit(rng, fam, 'unstable', 2, 1, rho, mi, None)
        except Exception:  # noqa
            dist['fit_error'] = dist.get('fit_error', 0) + 1
            continue
        dist['bound_above_one_sweep'] = dist.get('bound_above_one_sweep', 0) + 1
        if info:
            bad.append(dict(info, **desc, X=X.tolist()))
    # history: the same estimator object refitted after set_params must behave as a fresh one (log included)
    for h in range(3 if tier == 'quick' else 20):
        cls = [L.LmiEdmdSpectralRadiusConstr, L.LmiDmdcSpectralRadiusConstr][h % 2]
        X, _, _ = lmi.linear_data(rng, 2, 1, kind='unstable')
        try:
            reg = cls(spectral_radius=1.1, max_iter=3, solver_params=lmi.SOLVER).fit(X, n_inputs=1, episode_feature=True)
            reg.set_params(spectral_radius=0.5)
            reg.fit(X, n_inputs=1, episode_feature=True)
            fresh = cls(spectral_radius=0.5, max_iter=3, solver_params=lmi.SOLVER).fit(X, n_inputs=1, episode_feature=True)
        except Exception:  # noqa
            dist['fit_error'] = dist.get('fit_error', 0) + 1
            continue
        dist['refit_history'] = dist.get('refit_history', 0) + 1
        A, _ = lmi.ab(reg, 2)
        sr = float(np.max(np.abs(np.linalg.eigvals(A))))
        k = lmi.log_monotone(reg.objective_log_)
        same_log = len(reg.objective_log_) == len(fresh.objective_log_) and np.allclose(reg.objective_log_, fresh.objective_log_, rtol=1e-4, atol=1e-6)
        if sr > 0.5 * (1 + TOL) + TOL or k is not None or not same_log:
            bad.append(dict(what='estimator refitted after set_params(spectral_radius=...) violates the new bound, or its objective log '
                                 'is not that of a fresh fit (increases / carries entries of the earlier fit)',
                            achieved_radius=sr, log=list(map(float, reg.objective_log_)), log_fresh=list(map(float, fresh.objective_log_)),
                            estimator=repr(reg), X=X.tolist()))
    # the same history through a KoopmanPipeline (the regressor reached by regressor__spectral_radius), and a refit on data
    # in other units on which the solver may give up with an arithmetic error: a fit that returns must respect the bound in
    # force, whatever happened to earlier fits of the same object
    for h in range(4 if tier == 'quick' else 16):
        cls = [L.LmiEdmdSpectralRadiusConstr, L.LmiDmdcSpectralRadiusConstr][h % 2]
        X, _, _ = lmi.linear_data(rng, 2, 1, kind='unstable')
        try:
            if h < 2 or h % 4 < 2:
                est = pykoop.KoopmanPipeline(regressor=cls(spectral_radius=1.1, max_iter=3, solver_params=lmi.SOLVER))
                est.fit(X, n_inputs=1, episode_feature=True)
                est.set_params(regressor__spectral_radius=0.6)
                est.fit(X, n_inputs=1, episode_feature=True)
                held = est.regressor_
                how = 'KoopmanPipeline refitted after set_params(regressor__spectral_radius=0.6)'
            else:
                est = cls(spectral_radius=1.1, max_iter=3, solver_params=lmi.SOLVER).fit(X, n_inputs=1, episode_feature=True)
                est.set_params(spectral_radius=0.6)
                Xs = np.array(X, copy=True); Xs[:, 1:] *= 100.0
                est.fit(Xs, n_inputs=1, episode_feature=True)          # (cvxopt may raise ZeroDivisionError here: then nothing is claimed)
                held = est
                how = 'estimator refitted after set_params(spectral_radius=0.6) on the same data in units 100 times larger'
        except Exception:  # noqa
            dist['fit_error'] = dist.get('fit_error', 0) + 1
            continue
        dist['refit_history_pipeline_or_units'] = dist.get('refit_history_pipeline_or_units', 0) + 1
        A, _ = lmi.ab(held, 2)
        sr = float(np.max(np.abs(np.linalg.eigvals(A))))
        if sr > 0.6 * (1 + TOL) + TOL:
            bad.append(dict(what='a fit that completed after the bound was tightened returns a matrix outside the bound in force',
                            history=how, achieved_radius=sr, bound=0.6, estimator=repr(est), X=X.tolist()))
    # another estimator object fitted earlier with loosened solver tolerances must not change what a later estimator
    # with default settings is solved with (solver_params_ and result as in a process where the loose fit never ran)
    loose = dict(lmi.SOLVER, abs_prim_fsb_tol=1e-3, rel_prim_fsb_tol=1e-3, abs_dual_fsb_tol=1e-3, rel_dual_fsb_tol=1e-3,
                 abs_ipm_opt_tol=1e-3, rel_ipm_opt_tol=1e-3)
    for h in range(2 if tier == 'quick' else 10):
        cls = [L.LmiEdmdSpectralRadiusConstr, L.LmiDmdcSpectralRadiusConstr][h % 2]
        X, _, _ = lmi.linear_data(rng, 2, 1, kind='unstable')
        try:
            ref = cls(spectral_radius=0.5, max_iter=3, solver_params=lmi.SOLVER).fit(X, n_inputs=1, episode_feature=True)
            cls(spectral_radius=0.5, max_iter=3, solver_params=loose).fit(X, n_inputs=1, episode_feature=True)
            later = cls(spectral_radius=0.5, max_iter=3, solver_params=lmi.SOLVER).fit(X, n_inputs=1, episode_feature=True)
        except Exception:  # noqa
            dist['fit_error'] = dist.get('fit_error', 0) + 1
            continue
        dist['after_loose_fit_of_another_object'] = dist.get('after_loose_fit_of_another_object', 0) + 1
        want = dict(lmi.PRISTINE_SOLVER_DEFAULTS, **lmi.SOLVER)
        A, _ = lmi.ab(later, 2)
        sr = float(np.max(np.abs(np.linalg.eigvals(A))))
        if later.solver_params_ != want or sr > 0.5 * (1 + TOL) + TOL \
                or float(np.max(np.abs(later.coef_ - ref.coef_))) > 1e-4 * max(1.0, float(np.max(np.abs(ref.coef_)))):
            bad.append(dict(what='a fit with default solver settings is influenced by the solver settings of ANOTHER estimator '
                                 'object fitted earlier in the process (the requested bound is then only met to the other '
                                 'object\'s tolerance)', solver_params_used={k: v for k, v in later.solver_params_.items() if want.get(k) != v},
                            achieved_radius=sr, coef_difference=float(np.max(np.abs(later.coef_ - ref.coef_))),
                            estimator=repr(later), X=X.tolist()))
    ev = sum(v for k, v in dist.items() if k != 'fit_error')
    res.coverage.update(
        programs=ev, disagreements_checked=ev, evaluations=ev, distinct_nontrivial=ev,
        rule=('CVXOPT fits of LmiEdmdSpectralRadiusConstr / LmiDmdcSpectralRadiusConstr on data from stable, marginal and '
              'unstable systems (1..3 states, 0..2 inputs), bounds {0.3..1.2}, max_iter {1,2,3,5} (so that fits end after '
              'problem A, after problem B, and on tolerance), alpha, inv_method, truncated unshifted SVD for DMDc. Per fit: '
              'max |eig(A)| <= rho (1e-5), objective log non-increasing, and the certificate of the theorem '
              '(lambda_min of [[rho P, A^T P],[P A, rho P]] at the returned (U, P_)).'),
        samples=samples, input_distribution=dist, log_increases_explained_by_the_strictness_margin=lmi.MARGIN_HITS[0])
    res.assumptions += ['CVXOPT/PICOS return a point feasible to tolerance when they claim "optimal" (oracle contract, checked per fit)',
                        'theorem: certificate => |lambda| <= rho (AlgR/Lyapunov.v, standard-library real-number axioms)']

    # M3(b): the alternation loop driven by a scripted solver oracle vs coq/Altern.v (compared inside Coq)
    classes = [(L.LmiEdmdSpectralRadiusConstr, {}, 1), (L.LmiDmdcSpectralRadiusConstr, {}, 1)]
    batch, failed, errors, n_scr, s_scr, d_scr = altern.run_scripts(rng, classes, 40 if tier == 'quick' else 600, 'c09_altern')
    res.coverage['programs'] = res.coverage.get('programs', 0) + n_scr
    res.coverage['disagreements_checked'] = res.coverage.get('disagreements_checked', 0) + n_scr
    res.coverage['evaluations'] = res.coverage.get('evaluations', 0) + n_scr
    res.coverage['distinct_nontrivial'] = res.coverage.get('distinct_nontrivial', 0) + len(
        {json.dumps(batch.meta[i][0]['script'], sort_keys=True) + batch.meta[i][0]['estimator'] for i in batch.meta})
    res.coverage['scripted_solver_runs'] = dict(runs=n_scr, exit_reasons=d_scr, model_vs_impl_disagreements=len(failed),
                                                coq_case_errors=len(errors))
    res.coverage['samples'] = list(res.coverage.get('samples', [])) + s_scr[:1]
    res.coverage['rule'] += (' Scripted solver (M3b): random scripts of optimal / non-optimal answers to the sub-problems A_k, B_k with '
                             'tagged values, integer objectives, a polite-stop request at a random check, max_iter 1..5, atol in '
                             '{0,1,3}; the returned tags of U (and gamma_), P_, objective_log_, n_iter_, the class of stop_reason_ and '
                             'the arguments each sub-problem was built from are compared inside Coq with Altern.fit on the same script.')
    # M5-exact: the LMI block the builders hand to PICOS vs coq/LmiBlocks.v, at integer test points, compared inside Coq
    b2, f2, e2, n_blk, s_blk, d_blk = lmi_blocks.run_blocks(rng, 24 if tier == 'quick' else 300, 'c09_blocks', ['sr_b', 'sr_a', 'sr_dmdc_b'])
    res.coverage['programs'] += n_blk; res.coverage['disagreements_checked'] += n_blk; res.coverage['evaluations'] += n_blk
    res.coverage['distinct_nontrivial'] += n_blk
    res.coverage['lmi_builder_vs_model'] = dict(blocks=n_blk, builders=d_blk, model_vs_impl_disagreements=len(f2), coq_case_errors=len(e2))
    res.coverage['rule'] += (' LMI builders (M5-exact): _create_problem_a / _create_problem_b (and _create_ss with no / pre / post weight) are '
                             'called with integer and dyadic test values, the slack of the LMI constraint (the block itself) is read from '
                             'PICOS and compared entry by entry inside Coq with LmiBlocks.v.')
    merged = lmi_blocks.Merged([(batch, failed, errors), (b2, f2, e2)])
    batch, failed, errors = merged, merged.failed, merged.errors
    _dp.conclude(res, PID, proved, batch, failed, errors, bad, 'Props/C09.v (Lyapunov certificate) + per-fit certificate checks + alternation-loop correspondence (Altern.v)')


def replay(path):
    d = json.load(open(path)); print(json.dumps(d, indent=1)[:3000]); return 1
