"""C14 — truncated SVD factors are a valid best low-rank factorisation."""
import json

import numpy as np
import sklearn.base

from .. import common, driver, known, datapath as dp
from . import _dp
import pykoop

LEVEL = 'proof'
PID = 'C14'
TOL = 1e-9


def gen_matrix(rng, kind):
    m = int(rng.integers(1, 8)); n = int(rng.integers(1, 8))
    if kind == 'tall':
        m = n + int(rng.integers(1, 5))
    elif kind == 'wide':
        n = m + int(rng.integers(1, 5))
    elif kind == 'square':
        n = m
    if kind == 'slender':
        # one side many times longer than the other (snapshot matrices, long logs of few signals); every other one
        # rank deficient or with a nearly vanishing singular value
        k = int(rng.integers(1, 5)); long = k * int(rng.integers(12, 31))
        m, n = (long, k) if rng.random() < 0.5 else (k, long)
        v = int(rng.integers(0, 3))
        if v == 0 or k == 1:
            return rng.normal(size=(m, n))
        Q, _ = np.linalg.qr(rng.normal(size=(m, k)))
        Z, _ = np.linalg.qr(rng.normal(size=(n, k)))
        sv = np.sort(rng.uniform(0.5, 3.0, size=k))[::-1]
        sv[-1] = 0.0 if v == 1 else 1e-9
        return Q @ np.diag(sv) @ Z.T
    k = min(m, n)
    if kind == 'repeated':
        # prescribed, repeated singular values: X = Q diag(s) Z^T with random orthonormal Q, Z
        s = np.sort(rng.choice([4.0, 3.0, 3.0, 2.0, 2.0, 1.0, 0.5], size=k, replace=True))[::-1]
        Q, _ = np.linalg.qr(rng.normal(size=(m, k)))
        Z, _ = np.linalg.qr(rng.normal(size=(n, k)))
        return Q @ np.diag(s) @ Z.T
    if kind == 'rankdef':
        r = max(1, k - int(rng.integers(1, 3)))
        return rng.normal(size=(m, r)) @ rng.normal(size=(r, n))
    if kind == 'diag':
        X = np.zeros((m, n))
        # every other one with a singular value that is exactly zero (dead channels, padded snapshots)
        s = np.sort(rng.integers(1, 6, size=k).astype(float))[::-1]
        if rng.random() < 0.5:
            s[-1] = 0.0
        X[np.arange(k), np.arange(k)] = s
        return X
    return rng.normal(size=(m, n))


def order_codes(sig, c):
    """integer codes preserving order and equality among the singular values and the cutoff"""
    vals = sorted(set([float(v) for v in sig] + ([float(c)] if c is not None else [])))
    code = {v: i for i, v in enumerate(vals)}
    return [code[float(v)] for v in sig], (code[float(c)] if c is not None else None)


def check_one(rng, X, trunc, param, reuse=None):
    """Fits Tsvd (optionally a REUSED instance with an earlier fit on other data) and checks the
    property's predicate. Returns (ok, info, sig_full, rank)."""
    est = reuse if reuse is not None else pykoop.Tsvd(truncation=trunc, truncation_param=param)
    params_before = dict(est.get_params())
    Xc = np.array(X, copy=True)
    est.fit(X)
    common.note_case('tsvd', trunc, param, reuse is not None, np.ascontiguousarray(X, dtype=float))
    if est.get_params() != params_before:
        return False, dict(what='fit modified the constructor parameters',
                           before=str(params_before), after=str(est.get_params())), None, None
    if not np.array_equal(X, Xc):
        return False, dict(what='fit modified its input array'), None, None
    Q = est.left_singular_vectors_; s = est.singular_values_; Z = est.right_singular_vectors_
    full = np.linalg.svd(X, compute_uv=False)
    k = min(X.shape)
    r = s.shape[0]
    if Q.shape != (X.shape[0], r) or Z.shape != (X.shape[1], r):
        return False, dict(what='the three factors are not cut to the same rank',
                           shapes=[list(Q.shape), list(s.shape), list(Z.shape)]), full, r
    scale = max(1.0, float(full[0]) if full.size else 1.0)
    if r > 0:
        if np.max(np.abs(Q.T @ Q - np.eye(r))) > 1e-8 or np.max(np.abs(Z.T @ Z - np.eye(r))) > 1e-8:
            return False, dict(what='factors do not have orthonormal columns'), full, r
        if np.any(s < 0) or np.any(np.diff(s) > 1e-12 * scale):
            return False, dict(what='singular values are not non-negative and non-increasing', sig=s.tolist()), full, r
        if np.max(np.abs(s - full[:r])) > 1e-8 * scale:
            return False, dict(what='retained values are not the leading singular values', sig=s.tolist(),
                               full=full.tolist()), full, r
    err = np.linalg.norm(X - Q @ np.diag(s) @ Z.T) ** 2
    best = float(np.sum(full[r:] ** 2))
    if abs(err - best) > 1e-7 * max(1.0, scale ** 2):
        return False, dict(what='product of the factors is not the best approximation of that rank',
                           error=float(err), optimal=best), full, r
    # the rule
    if trunc == 'economy':
        want = k
    elif trunc == 'rank':
        want = min(int(param), k)
    elif trunc == 'cutoff':
        want = int(np.sum(full > param)) if not hasattr(est, '_sig_from_fit') else None
        # use the estimator's own (bit-exact) singular values for ties
        Qf, sf, Zf = np.linalg.svd(X, full_matrices=False)
        want = None
    else:
        want = None
    if trunc == 'cutoff' and r > 0 and float(np.min(s)) <= float(param):
        # the property's own predicate on the estimator's own (bit-exact) singular values
        return False, dict(what='cutoff truncation kept a singular value that does not exceed the cutoff',
                           cutoff=float(param), kept=s.tolist(), shape=list(X.shape)), full, r
    if trunc == 'cutoff' and r < k and float(np.max(full[r:])) > float(param) * (1 + 1e-9) + 1e-12 * scale:
        return False, dict(what='cutoff truncation discarded a singular value that exceeds the cutoff',
                           cutoff=float(param), kept=s.tolist(), singular_values=full.tolist(), shape=list(X.shape)), full, r
    if want is not None and r != want:
        return False, dict(what=f'retained rank does not obey the {trunc} rule', rank=int(r), expected=int(want),
                           param=param, shape=list(X.shape)), full, r
    return True, None, full, r


def run_cases(rng, n):
    batch = dp.CoqBatch('c14', header_extra='From PK Require Import TsvdModel TsvdFacts.\n')
    bad = []
    samples = []
    dist = {}
    evals = 0
    kinds = ['tall', 'wide', 'square', 'repeated', 'rankdef', 'diag', 'random', 'slender']
    for cid in range(n):
        kind = kinds[cid % len(kinds)]
        X = gen_matrix(rng, kind)
        if kind == 'diag' and cid % 2 == 1:
            X = X.astype(np.int64)            # integer-typed matrix with whole-number singular values
        elif kind == 'random' and cid % 3 == 0:
            X = np.asfortranarray(X)
        k = min(X.shape)
        # the economy factors give the bit-exact singular values the rule is applied to
        eco = pykoop.Tsvd().fit(X)
        sig = eco.singular_values_
        if sig.shape[0] != k:
            bad.append(dict(what='economy truncation does not keep all min(m, n) singular values', rank=int(sig.shape[0]), expected=k,
                            truncation='economy', truncation_param=None, X=np.asarray(X).tolist(), matrix_kind=kind, reused_estimator=False))
            sig = np.linalg.svd(np.asarray(X, dtype=float), compute_uv=False)
        r_ = int(rng.integers(0, k + 3))
        # the rank as a python int and as what numpy hands out (integer scalar, 0-d array, result of matrix_rank)
        trials = [('economy', None), ('rank', r_), ('rank', [np.int64, np.int32, np.array, np.uint8][cid % 4](max(1, r_ - 1)))]
        # a cutoff as a numpy float scalar
        trials.append(('cutoff', np.float64(sig[-1])))
        # cutoffs: between values, above all, below all, and bit-exact ties
        cuts = [float(sig[0]) + 1.0, 0.0]
        if k >= 2:
            cuts.append(float((sig[0] + sig[-1]) / 2))
        cuts.append(float(sig[int(rng.integers(0, k))]))        # exact tie with a singular value
        for c in cuts:
            trials.append(('cutoff', c))
        trials.append(('known_noise', float(rng.uniform(0.01, 1.0))))
        trials.append(('unknown_noise', None))
        for trunc, param in trials:
            evals += 1
            dist[f'{kind}/{trunc}'] = dist.get(f'{kind}/{trunc}', 0) + 1
            reuse = None
            Xuse = X
            hist = rng.random()
            if hist < 0.15:
                # history: the same estimator object was fitted before on an array that the caller has since
                # updated IN PLACE (same array object, new contents)
                reuse = pykoop.Tsvd(truncation=trunc, truncation_param=param)
                Xuse = rng.normal(size=X.shape)
                if Xuse.shape == X.shape:
                    try:
                        reuse.fit(Xuse)
                    except Exception:  # noqa
                        pass
                    Xuse[...] = X
                else:
                    reuse, Xuse = None, X
            elif hist < 0.45:
                # history: the same estimator object was fitted before on a smaller / other matrix
                reuse = pykoop.Tsvd(truncation=trunc, truncation_param=param)
                try:
                    reuse.fit(gen_matrix(rng, 'random')[:2, :2] if rng.random() < 0.5 else gen_matrix(rng, 'tall'))
                except Exception:  # noqa
                    reuse = None
            try:
                ok, info, full, r = check_one(rng, Xuse, trunc, param, reuse)
            except Exception as e:  # noqa
                import traceback
                tb = traceback.format_exc()
                if trunc in ('known_noise', 'unknown_noise') and '/optht/' in tb:
                    # the third-party optimal-hard-threshold oracle itself refuses the matrix
                    # (no singular value above its threshold): outside the claim, counted
                    dist['optht_refusals'] = dist.get('optht_refusals', 0) + 1
                    continue
                ok, info, full, r = False, dict(what=f'Tsvd.fit raised {type(e).__name__}: {e}'), None, None
            if not ok:
                bad.append(dict(info, truncation=trunc, truncation_param=(param.item() if isinstance(param, (np.generic, np.ndarray)) else param),
                                parameter_type=type(param).__name__, X=X.tolist(), matrix_kind=kind,
                                reused_estimator=reuse is not None))
                continue
            # M2: rank chosen by the implementation vs the Coq rank rule on order codes of ITS OWN
            # economy singular values (so ties are bit-exact)
            if trunc in ('economy', 'rank', 'cutoff'):
                codes, cc = order_codes(sig, param if trunc == 'cutoff' else None)
                sg_ = '[' + ';'.join(str(v) for v in codes) + ']%Z'
                if trunc == 'economy':
                    tr = '(Economy Z)'
                elif trunc == 'rank':
                    tr = f'(Rank Z {int(param)}%nat)'
                else:
                    tr = f'(Cutoff {cc}%Z)'
                batch.add('', [(f'{trunc}', f'Nat.eqb (List.length (retained Z.ltb {tr} {sg_})) {int(r)}%nat')],
                          dict(truncation=trunc, truncation_param=(param.item() if isinstance(param, (np.generic, np.ndarray)) else param), X=X.tolist(), rank_impl=int(r),
                               singular_values=sig.tolist()))
            else:
                import optht
                want = optht.optht(X.T, sig) if trunc == 'unknown_noise' else optht.optht(X.T, sig, param)
                if int(want) != int(r):
                    bad.append(dict(what=f'rank differs from the optimal hard threshold re-computed ({trunc})',
                                    rank=int(r), expected=int(want), X=X.tolist()))
        if len(samples) < 2:
            samples.append(dict(matrix_kind=kind, shape=list(X.shape), singular_values=sig.tolist(), trials=[list(map(str, t)) for t in trials]))
    failed, errors = batch.run(shard=400)
    return batch, failed, errors, bad, samples, dist, evals


def owned_tsvd_cases(rng, tier):
    """The Tsvd objects that the regressors fit and expose (tsvd_, tsvd_unshifted_, tsvd_shifted_) are Tsvd results like any
    other: after the regressor's fit - and after its other methods were used - their factors still have orthonormal columns
    and finite, non-negative, non-increasing singular values that reproduce a rank-r matrix."""
    from .. import lmi, readonly
    import pykoop.lmi_regressors as L
    bad = []
    n = 0

    def check(obj, where, X):
        if not hasattr(obj, 'singular_values_'):
            return True          # (recorded finding F7: on a hit of the memo cache the regressor's Tsvd object is left unfitted)
        Q = np.asarray(obj.left_singular_vectors_); s_ = np.asarray(obj.singular_values_); Z = np.asarray(obj.right_singular_vectors_)
        r = s_.shape[0]
        info = None
        if not (np.all(np.isfinite(s_)) and np.all(np.isfinite(Q)) and np.all(np.isfinite(Z))):
            info = dict(what='a regressor leaves its fitted Tsvd with non-finite factors', singular_values=s_.tolist())
        elif r and (np.max(np.abs(Q.T @ Q - np.eye(r))) > 1e-8 or np.max(np.abs(Z.T @ Z - np.eye(r))) > 1e-8):
            info = dict(what='a regressor leaves its fitted Tsvd with factors whose columns are not orthonormal',
                        defect=float(max(np.max(np.abs(Q.T @ Q - np.eye(r))), np.max(np.abs(Z.T @ Z - np.eye(r))))))
        elif r and (np.any(s_ < 0) or np.any(np.diff(s_) > 1e-12 * max(1.0, float(s_[0])))):
            info = dict(what='a regressor leaves its fitted Tsvd with singular values that are not non-negative and non-increasing',
                        singular_values=s_.tolist())
        if info:
            bad.append(dict(info, owner=where, X=X.tolist()))
        return info is None

    for h in range(4 if tier == 'quick' else 24):
        ns = 2 + h % 2
        X, _, _ = lmi.linear_data(rng, ns, 1 if h % 2 else 0, kind='stable')
        nu = 1 if h % 2 else 0
        Xd = X
        if h % 4 >= 2:
            # a duplicated state column: numerically rank deficient data, the tiny singular value is kept by the economy rule
            Xd = np.hstack((X[:, :1 + ns], X[:, [1]], X[:, 1 + ns:]))
        regs = [('Dmdc', lambda: pykoop.Dmdc(), ['tsvd_unshifted_', 'tsvd_shifted_'])]
        if nu == 0:
            regs.append(('Dmd', lambda: pykoop.Dmd(), ['tsvd_']))
        regs.append(('LmiEdmd(inv_method=svd)', lambda: L.LmiEdmd(alpha=1e-3, inv_method='svd', solver_params=lmi.SOLVER), ['tsvd_']))
        for name, mk, attrs in regs:
            n += 1
            try:
                reg = mk().fit(Xd, n_inputs=nu, episode_feature=True)
            except Exception:  # noqa  (a refused fit is not a result)
                continue
            ok = all(check(getattr(reg, a), f'{name}.{a}', Xd) for a in attrs if hasattr(reg, a))
            if ok and h % 2 == 0:
                try:
                    readonly.exercise(reg, Xd)
                except Exception:  # noqa
                    pass
                all(check(getattr(reg, a), f'{name}.{a} after the read-only helpers', Xd) for a in attrs if hasattr(reg, a))
    return n, bad


def run(res, tier):
    rng = np.random.default_rng(common.seed())
    proved = driver.proof_step(res, PID)
    known.report_known(res, PID)
    n = 40 if tier == 'quick' else 600
    batch, failed, errors, bad, samples, dist, evals = run_cases(rng, n)
    n_o, bad_o = owned_tsvd_cases(rng, tier)
    evals += n_o; bad = bad + bad_o; dist['tsvd_objects_owned_by_regressors'] = n_o
    res.coverage.update(
        evaluations=evals, distinct_nontrivial=evals,
        rule=('Matrices: tall / wide / square / prescribed repeated singular values / rank-deficient / diagonal / random / slender (aspect 12..30, also rank deficient); '
              'truncations: economy, rank (0..k+2), cutoff (above all, below all, between, and bit-exact ties taken from the '
              'economy fit), known_noise, unknown_noise; 35% of the fits reuse an estimator object fitted before on another '
              'matrix. M2: the retained rank of the implementation is compared inside Coq with rank_rule evaluated on order '
              'codes of the implementation\'s own singular values. Oracle contract (numeric, 1e-8): orthonormal columns, '
              'non-negative non-increasing values equal to the leading values of an independent SVD, reconstruction error '
              '= sum of discarded squares (best rank-r approximation), parameters and input unchanged.'),
        samples=samples, input_distribution=dist, model_vs_impl_disagreements=len(failed), coq_case_errors=len(errors))
    res.assumptions += ['LAPACK gesdd (scipy.linalg.svd) returns a valid SVD: checked numerically per case, not proved',
                        'Eckart-Young is not formalised: "best approximation" is checked as reconstruction error = sum of '
                        'discarded squared singular values of an independent SVD',
                        'optht (optimal hard threshold) is an oracle for known_noise / unknown_noise']
    _dp.conclude(res, PID, proved, batch, failed, errors, bad, 'Props/C14.v / rank-rule correspondence')


def replay(path):
    d = json.load(open(path)); print(json.dumps(d, indent=1)[:3000]); return 1
