"""C19 — output feature names describe the columns they label."""
import re
import numpy as np
from .. import common, driver, direct, known, stagegen as sg, intest, datapath as dp
from . import _dp
import pykoop

LEVEL = 'proof'
PID = 'C19'


# ---------------------------------------------------------------- direct semantic test
# plaintext names are parsed with the conventional precedence (^ above *) and
# evaluated on the input data; the result must reproduce the column.
class P:
    def __init__(self, s):
        self.s = s; self.i = 0

    def peek(self):
        return self.s[self.i] if self.i < len(self.s) else ''

    def expr(self):      # product
        v = [self.power()]
        while self.peek() == '*':
            self.i += 1
            v.append(self.power())
        return ('mul', v) if len(v) > 1 else v[0]

    def power(self):
        b = self.atom()
        if self.peek() == '^':
            self.i += 1
            m = re.match(r'\d+', self.s[self.i:])
            self.i += m.end()
            return ('pow', b, int(m.group()))
        return b

    def atom(self):
        m = re.match(r'[A-Za-z_][A-Za-z_0-9]*', self.s[self.i:])
        if m:
            name = m.group(); self.i += m.end()
            if self.peek() == '(':
                self.i += 1
                a = self.expr()
                assert self.peek() == ')', self.s
                self.i += 1
                return ('call', name, a)
            return ('var', name)
        m = re.match(r'\d+', self.s[self.i:])
        if m:
            self.i += m.end()
            return ('num', int(m.group()))
        raise ValueError(f'cannot parse {self.s!r} at {self.i}')


def parse(s):
    p = P(s)
    e = p.expr()
    if p.i != len(s):
        raise ValueError(f'trailing input in {s!r}')
    return e


def ev(e, E, t, cols, sk):
    """value of expression e on episode E (rows x input columns) at absolute time t"""
    k = e[0]
    if k == 'num':
        return float(e[1])
    if k == 'var':
        return E[t, cols[e[1]]]
    if k == 'mul':
        v = 1.0
        for a in e[1]:
            v *= ev(a, E, t, cols, sk)
        return v
    if k == 'pow':
        return ev(e[1], E, t, cols, sk) ** e[2]
    if k == 'call':
        f = e[1]
        m = re.fullmatch(r'D(\d+)', f)
        if m:
            return ev(e[2], E, t - int(m.group(1)), cols, sk)
        if f == 'cos':
            return np.cos(ev(e[2], E, t, cols, sk))
        if f == 'sin':
            return np.sin(ev(e[2], E, t, cols, sk))
        if f in sk:
            return sk[f](e[2], E, t, cols)
        raise KeyError(f)
    raise ValueError(k)


ALLOW = ['poly', 'bilinear', 'const', 'delay', 'angle']


def compound_power(e):
    """F14: a power whose base is a product, or a product factor that is itself an unbracketed product"""
    return False


def c19_semantics(case, rng, kp):
    X = case['X']; ep = case['ep']; ns = case['ns']; nu = case['nu']; w = case['w']
    names = list(kp.get_feature_names_out())
    Xt = kp.transform(X)
    if len(names) != Xt.shape[1]:
        return False, dict(what='number of names differs from the number of lifted columns',
                           n_names=len(names), n_columns=int(Xt.shape[1]))
    for fmt in (None, 'latex'):
        for call in (None, True, False):
            c = ep if call is None else call
            want = Xt.shape[1] - (1 if ep else 0) + (1 if c else 0)
            for sym in (False, True):
                got = kp.get_feature_names_out(format=fmt, episode_feature=call, symbols_only=sym)
                if len(got) != want:
                    return False, dict(what='get_feature_names_out does not return one name per lifted column',
                                       format=fmt, episode_feature=call, symbols_only=sym,
                                       n_names=len(got), n_columns=int(want), names=[str(x) for x in got])
    if ep and names[0] != 'ep':
        return False, dict(what='episode column is not named ep', names=names[:3])
    cols = {f'x{k}': k for k in range(ns)}
    cols.update({f'u{k}': ns + k for k in range(nu)})
    off = 1 if ep else 0
    e_in = direct.episodes_of(X, ep); e_t = direct.episodes_of(Xt, ep)
    for j, nm in enumerate(names[off:]):
        try:
            e = parse(nm)
        except Exception as ex:  # noqa
            return False, dict(what=f'name {nm!r} is not an expression over the input names: {ex}')
        for l, E in e_in.items():
            T = e_t.get(l)
            if T is None or T.shape[0] == 0:
                continue
            for t_out in {0, T.shape[0] - 1}:
                tau = t_out + E.shape[0] - T.shape[0]
                try:
                    v = ev(e, E, tau, cols, {})
                except KeyError as ke:
                    return False, dict(what=f'name {nm!r} mentions unknown symbol {ke}')
                if not direct.close(np.array([v]), np.array([T[t_out, j]]), 1e-8):
                    return False, dict(what='evaluating the named expression on the input data does not reproduce '
                                            'its column', name=nm, column=j, label=l, value=float(v),
                                       column_value=float(T[t_out, j]), names=names)
    return True, None


def is_F14(case, info):
    """PolynomialLiftingFn applied to compound input names (a product or a power) prints
    them without brackets."""
    chain = case['chain']
    def compound_before_poly(specs, compound):
        for s in specs:
            if s[0] == 'poly' and compound and (s[1] >= 2):
                return True
            if s[0] == 'bilinear' and compound:
                # bilinear of compound names: x*y*u is still a plain product (associative) - fine
                pass
            if s[0] in ('poly',) and s[1] >= 2:
                compound = True
            if s[0] == 'bilinear':
                compound = True
            if s[0] in ('pipe',):
                if compound_before_poly(s[1], compound):
                    return True
                compound = compound or sg.has_kind(s, ('poly', 'bilinear'))
            if s[0] == 'split':
                if compound_before_poly(s[1], compound) or compound_before_poly(s[2], compound):
                    return True
                compound = compound or sg.has_kind(s, ('poly', 'bilinear'))
        return False
    return compound_before_poly(chain, False)


def dataframe_clause(rng):
    """names given through a DataFrame at fit time are used verbatim; a later call with
    different column names is rejected"""
    import pandas
    bad = []
    n = 0
    for ep in (False, True):
        import sklearn.preprocessing as skp
        for lf in (pykoop.PolynomialLiftingFn(order=2), pykoop.DelayLiftingFn(1, 1),
                   pykoop.KoopmanPipeline(lifting_functions=[('a', pykoop.BilinearInputLiftingFn())]),
                   pykoop.SplitPipeline(lifting_functions_state=[('p', pykoop.PolynomialLiftingFn(order=2))]),
                   pykoop.SkLearnLiftingFn(skp.StandardScaler()),
                   pykoop.KoopmanPipeline(lifting_functions=[('s', pykoop.SkLearnLiftingFn(skp.MaxAbsScaler())),
                                                             ('p', pykoop.PolynomialLiftingFn(order=2))]),
                   pykoop.SplitPipeline(lifting_functions_state=[('s', pykoop.SkLearnLiftingFn(skp.StandardScaler()))],
                                        lifting_functions_input=[('d', pykoop.DelayLiftingFn(0, 1))]),
                   pykoop.ConstantLiftingFn(),
                   pykoop.AnglePreprocessor(angle_features=np.array([1]))):
            n += 1
            # names with blanks, brackets and operators are names too: they must come out verbatim
            cols = (['episode_no'] if ep else []) + [['pos', 'vel', 'force'], ['cart pos', 'pole angle (rad)', 'motor force'],
                                                      ['x*y', 'a^2', 'f(t)']][n % 3]
            data = rng.normal(size=(6, 3))
            if ep:
                data = np.hstack((np.array([[0], [0], [0], [1], [1], [1]], dtype=float), data))
            df = pandas.DataFrame(data, columns=cols)
            (lf.fit_transformers if isinstance(lf, pykoop.KoopmanPipeline) else lf.fit)(
                df, n_inputs=1, episode_feature=ep)
            names = list(lf.get_feature_names_out())
            # asking again (any format, any order of the queries) gives the same answer and leaves the fitted names,
            # and the caller's DataFrame, as they were
            lf.get_feature_names_out(format='latex')
            again = list(lf.get_feature_names_out())
            if again != names or list(df.columns) != cols or \
                    (hasattr(lf, 'get_feature_names_in') and list(lf.get_feature_names_in()) != cols):
                bad.append(dict(what='asking for the feature names changed them: a second get_feature_names_out (or the names '
                                     'given at fit, or the caller\'s DataFrame) differs after the first query',
                                estimator=repr(lf), first=names, second=again, names_in=list(lf.get_feature_names_in()),
                                dataframe_columns=list(df.columns), given=cols))
                continue
            try:
                lf.transform(df)
            except Exception as e:  # noqa
                bad.append(dict(what=f'transform rejects the very DataFrame the estimator was fitted on after a names query: {type(e).__name__}: {e}',
                                estimator=repr(lf), given=cols))
                continue
            for c in cols:
                if not any(c in nm for nm in names):
                    bad.append(dict(what='a user-supplied column name does not appear in the output names',
                                    estimator=repr(lf), column=c, names=names))
            if any(re.search(r'\bx\d|\bu\d', nm) for nm in names):
                bad.append(dict(what='generated names used although names were given at fit', names=names))
            if hasattr(lf, 'get_feature_names_in'):
                got_in = list(lf.get_feature_names_in())
                if got_in != cols:
                    bad.append(dict(what='get_feature_names_in does not return the names given at fit', got=got_in, given=cols))
            passthrough = [c for c in cols if c in names]
            wraps = 'SkLearnLiftingFn' in repr(lf) or isinstance(lf, (pykoop.AnglePreprocessor,))
            if not wraps and len(passthrough) < (2 if isinstance(lf, pykoop.DelayLiftingFn) else len(cols)) and not isinstance(lf, pykoop.DelayLiftingFn):
                bad.append(dict(what='a column that passes through the lift unchanged is not labelled with its own name',
                                estimator=repr(lf), given=cols, names=names))
            # the same labels attached to other columns (a DataFrame whose columns are permuted) is not the data the
            # estimator was fitted on: it must be rejected, not silently processed by position
            perm = cols[:-2] + [cols[-1], cols[-2]]
            df3 = pandas.DataFrame(df.values, columns=perm)
            try:
                lf.transform(df3)
                bad.append(dict(what='transform accepted a DataFrame whose column names are permuted (columns would be '
                                     'processed under the wrong names)', estimator=repr(lf), fitted_on=cols, given=perm))
            except ValueError:
                pass
            df2 = df.rename(columns={cols[-2]: 'speed'})
            try:
                lf.transform(df2)
                bad.append(dict(what='transform accepted a DataFrame with different column names',
                                estimator=repr(lf)))
            except ValueError:
                pass
    return n, bad


def run(res, tier):
    rng = np.random.default_rng(common.seed())
    proved = driver.proof_step(res, PID)
    ids = known.report_known(res, PID)
    n_m2, n_dir = (45, 250) if tier == 'quick' else (400, 3000)
    batch, failed, errors, dist, distinct, samples = _dp.run_m2(
        'c19', rng, n_m2, ('names',), gen_kw=dict(max_len=3, max_depth=2),
        header_extra='From PK Require Import Names.\n', shard=4)

    # Pipelines in which a polynomial stage (order >= 2) is applied to compound names are the
    # recorded finding F14 (their names are ambiguous without brackets); they are excluded from
    # the random semantic test (so nothing is suppressed there) and covered by the F14 witness
    # and by the string-level correspondence above.
    ev_, bad, kn, s2 = _dp.run_direct(
        rng, n_dir, [('semantics', lambda c, r, kp: c19_semantics(c, r, kp))],
        gen_kw=dict(max_len=3, max_depth=2, allow=ALLOW,
                    need=lambda top: not is_F14(dict(chain=top[1]), None)))
    n3, bad3 = dataframe_clause(rng)
    n_k, bad_k = direct.extra_kernel_checks(rng, 'names')
    n3 += n_k; bad3 = bad3 + [dict(b, test='names_kernel_approximations') for b in bad_k]
    res.coverage.update(
        evaluations=len(batch.meta) + ev_ + n3, distinct_nontrivial=distinct + ev_ + n3,
        rule=('M2: get_feature_names_out strings (plain and latex, episode_feature None/True/False, symbols_only) of random '
              'pipelines compared inside Coq (String.eqb) with the rendering of the model name trees (Names.v), no parser in '
              'the tie. Direct: each plaintext name of pipelines of polynomial/bilinear/constant/delay/angle stages is parsed '
              'with the conventional precedence and evaluated on the data against its column (first and last sample of '
              'every episode); DataFrame names verbatim + rejection of different names.'),
        samples=samples + s2, input_distribution=dist, model_vs_impl_disagreements=len(failed),
        coq_case_errors=len(errors), known_finding_hits=kn, dataframe_cases=n3)
    _dp.conclude(res, PID, proved, batch, failed, errors, bad + bad3,
                 'Props/C19.v / M2 feature-name string correspondence')


def replay(path):
    import json
    d = json.load(open(path)); print(json.dumps(d, indent=1)[:3000]); return 1
