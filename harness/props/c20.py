"""C20 — skipping validation never changes results; config is per-thread."""
import json
import threading

import numpy as np

from .. import common, driver, direct, known, stagegen as sg, datapath as dp
from . import _dp
import pykoop
from pykoop._sklearn_config import config as cfgmod

LEVEL = 'proof'
PID = 'C20'


# ---------------------------------------------------------------- M3(a): scripted threads
_MISSING = object()
# the importing thread's slot exactly as the import of pykoop left it (normally absent;
# a module-level initialisation would show up here and is restored, not erased, by reset)
_MAIN_INITIAL = cfgmod._threadlocal.__dict__.get('global_config', _MISSING) if hasattr(cfgmod, '_threadlocal') else _MISSING


def reset_config():
    """state of a fresh process right after `import pykoop`, for the main thread and the default"""
    if not (hasattr(cfgmod, '_threadlocal') and hasattr(cfgmod, '_global_config')):
        # the configuration store is not the one the harness knows: only the public API is left
        pykoop.set_config(skip_validation=False)
        return
    cfgmod._global_config['skip_validation'] = False
    if _MAIN_INITIAL is _MISSING:
        if 'global_config' in cfgmod._threadlocal.__dict__:
            del cfgmod._threadlocal.global_config
    else:
        cfgmod._threadlocal.global_config = _MAIN_INITIAL
        _MAIN_INITIAL['skip_validation'] = False


class Interp:
    """Executes the ops of one thread against the real pykoop config API."""

    def __init__(self):
        self.stack = []
        self.last = None
        self.obs = []

    def do(self, op, made=None):
        """made: a context object / decorated function built beforehand by ANOTHER thread (the importing one)"""
        k = op[0]
        if k == 'get':
            self.last = pykoop.get_config()
            self.obs.append(bool(self.last['skip_validation']))
        elif k == 'mut':
            if self.last is not None:
                self.last['skip_validation'] = op[1]
        elif k == 'set':
            pykoop.set_config(skip_validation=op[1])
        elif k == 'enter':
            cm = made if made is not None else pykoop.config_context(skip_validation=op[1])
            cm.__enter__()
            self.stack.append(cm)
        elif k == 'deco':
            # a function decorated with config_context(...) observes the configuration while it runs
            f = made if made is not None else pykoop.config_context(skip_validation=op[1])(
                lambda: bool(pykoop.get_config()['skip_validation']))
            self.obs.append(f())
        elif k in ('exit', 'exitexc'):
            if self.stack:
                cm = self.stack.pop()
                if k == 'exit':
                    cm.__exit__(None, None, None)
                else:
                    e = ValueError('block left by an exception')
                    try:
                        cm.__exit__(ValueError, e, None)
                    except ValueError:
                        pass


def run_script(script, n_threads, foreign=False):
    """script: list of (tid, op). tid 0 is the main (importing) thread; others are fresh
    worker threads driven by a turn token so that the interleaving is exactly the script.
    foreign: every context object and decorated function is built up front by the calling thread and only
    entered / called by the thread the script names (building one has no effect by itself)."""
    reset_config()
    made = {}
    if foreign:
        for i, (t, op) in enumerate(script):
            if op[0] == 'enter':
                made[i] = pykoop.config_context(skip_validation=op[1])
            elif op[0] == 'deco':
                made[i] = pykoop.config_context(skip_validation=op[1])(lambda: bool(pykoop.get_config()['skip_validation']))
    interps = {t: Interp() for t in range(n_threads)}
    turn = {'i': 0}
    cv = threading.Condition()
    errors = []

    def worker(t):
        try:
            while True:
                with cv:
                    while turn['i'] < len(script) and script[turn['i']][0] != t:
                        cv.wait(timeout=5)
                    if turn['i'] >= len(script):
                        return
                    op = script[turn['i']][1]
                    interps[t].do(op, made.get(turn['i']))
                    turn['i'] += 1
                    cv.notify_all()
        except Exception as e:  # noqa
            errors.append(f'{type(e).__name__}: {e}')
            with cv:
                turn['i'] = len(script)
                cv.notify_all()

    ths = [threading.Thread(target=worker, args=(t,)) for t in range(1, n_threads)]
    for th in ths:
        th.start()
    worker(0)
    for th in ths:
        th.join(timeout=10)
    # unwind any still-open context in the main thread
    reset_config()
    return {t: interps[t].obs for t in interps}, errors


def gen_script(rng, n_threads, n_ops):
    depth = {t: 0 for t in range(n_threads)}
    got = {t: False for t in range(n_threads)}
    script = []
    for _ in range(n_ops):
        t = int(rng.integers(0, n_threads))
        r = rng.random()
        vals = [None, True, False]
        if r < 0.35:
            op = ('get',); got[t] = True
        elif r < 0.45 and got[t]:
            op = ('mut', bool(rng.integers(0, 2)))
        elif r < 0.62:
            op = ('set', vals[int(rng.integers(0, 3))])
        elif r < 0.78 and depth[t] < 3:
            op = ('enter', vals[int(rng.integers(0, 3))]); depth[t] += 1
        elif r < 0.84:
            op = ('deco', vals[int(rng.integers(0, 3))])
        elif depth[t] > 0:
            op = ('exit',) if rng.random() < 0.6 else ('exitexc',); depth[t] -= 1
        else:
            op = ('get',); got[t] = True
        script.append((t, op))
    for t in range(n_threads):
        while depth[t] > 0:
            script.append((t, ('exit',))); depth[t] -= 1
        script.append((t, ('get',)))
    return script


def coq_op(op):
    k = op[0]
    ob = {None: 'None', True: '(Some true)', False: '(Some false)'}
    if k == 'get':
        return 'OGet'
    if k == 'mut':
        return f'(OMutRet {"true" if op[1] else "false"})'
    if k == 'set':
        return f'(OSet {ob[op[1]]})'
    if k == 'enter':
        return f'(OEnter {ob[op[1]]})'
    if k == 'exit':
        return 'OExit'
    if k == 'deco':
        return f'(OEnter {ob[op[1]]}); (0%nat, OGet); (0%nat, OExit'     # expanded by coq_ops
    return 'OExitExc'


def oracle(script, n_threads):
    """The property's own predicate: per-thread semantics with copies and restore."""
    val = {t: False for t in range(n_threads)}
    stack = {t: [] for t in range(n_threads)}
    obs = {t: [] for t in range(n_threads)}
    for t, op in script:
        k = op[0]
        if k == 'get':
            obs[t].append(val[t])
        elif k == 'set' and op[1] is not None:
            val[t] = op[1]
        elif k == 'enter':
            stack[t].append(val[t])
            if op[1] is not None:
                val[t] = op[1]
        elif k in ('exit', 'exitexc') and stack[t]:
            val[t] = stack[t].pop()
        elif k == 'deco':
            obs[t].append(val[t] if op[1] is None else op[1])
    return obs


def thread_scripts(rng, n):
    batch = dp.CoqBatch('c20', header_extra='From PK Require Import ConfigModel ConfigFacts.\nFrom PK.Gen Require Import Config.\n')
    bad = []
    samples = []
    stats = {'threads': {}, 'ops': 0, 'exception_exits': 0, 'nested_blocks': 0}
    for k in range(n):
        nt = int(rng.integers(1, 4))
        script = gen_script(rng, nt, int(rng.integers(4, 22)))
        foreign = bool(k % 3 == 2)
        obs, errors = run_script(script, nt, foreign=foreign)
        want = oracle(script, nt)
        stats['threads'][str(nt)] = stats['threads'].get(str(nt), 0) + 1
        stats['ops'] += len(script)
        stats['exception_exits'] += sum(1 for _, o in script if o[0] == 'exitexc')
        if errors or any(obs[t] != want[t] for t in range(nt)):
            bad.append(dict(what='a thread observed a configuration value other than the one set by its own '
                                 'well-bracketed history (isolation / restoration broken)',
                            script=[[t, list(o)] for t, o in script], observed=obs, expected=want, errors=errors,
                            contexts_built_by_the_main_thread=foreign))
        # a decorated call is enter / observe / leave in the model
        flat = []
        for t, o in script:
            flat += [(t, ('enter', o[1])), (t, ('get',)), (t, ('exit',))] if o[0] == 'deco' else [(t, o)]
        ops = '[' + '; '.join(f'({t}%nat, {coq_op(o)})' for t, o in flat) + ']'
        checks = []
        for t in range(nt):
            ob = '[' + ';'.join('true' if b else 'false' for b in obs[t]) + ']'
            checks.append((f'thread{t}', f'list_eqb Bool.eqb (obs_of {t}%nat (observe cfg_flags s{k})) {ob}'))
        batch.add(f'Definition s{k} : list (nat * op) := {ops}.', checks,
                  dict(script=[[t, list(o)] for t, o in script], observed=obs, contexts_built_by_the_main_thread=foreign))
        if len(samples) < 2:
            samples.append(dict(threads=nt, script=[[t, list(o)] for t, o in script], observed=obs))
    failed, errors = batch.run(shard=60)
    return batch, failed, errors, bad, samples, stats


# ---------------------------------------------------------------- both flag values
def flag_equivalence(case, rng, kp0):
    X = case['X']; ep = case['ep']; ns = case['ns']; nu = case['nu']
    if direct.min_ep_len(case) < case['w'] + 1:
        return True, None
    nso, nuo = kp0.n_states_out_, kp0.n_inputs_out_
    coef = rng.normal(size=(nso + nuo, nso)) * (0.3 / max(1.0, np.sqrt(nso + nuo)))
    kp = direct.build_real_top(case['chain'], regressor=pykoop.DataRegressor(coef=coef))
    kp.fit(case.get('Xfit', X), n_inputs=nu, episode_feature=ep)
    w = kp.min_samples_
    # the same check on other valid array types: single precision and integer-typed data
    kind = ['float64', 'float32', 'int64'][int(case.get('cid', 0)) % 3]
    if kind == 'float32':
        X = np.asarray(X).astype(np.float32)
    elif kind == 'int64':
        Xi = np.round(2 * np.asarray(X))
        if ep:
            Xi[:, 0] = np.asarray(X)[:, 0]
        X = Xi.astype(np.int64)

    def compute():
        out = {}

        def put(name, fn):
            # a computation that the library itself refuses (e.g. a prediction that leaves the finite range and is
            # rejected by validation) is outside "valid input"; it is recorded as such and not compared
            try:
                out[name] = fn()
            except Exception as e:  # noqa
                out[name] = ('raised', type(e).__name__)
        put('transform', lambda: kp.transform(X))
        put('inverse_transform', lambda: kp.inverse_transform(kp.transform(X)))
        put('predict', lambda: kp.predict(X))
        put('predict_trajectory', lambda: kp.predict_trajectory(X))
        put('predict_trajectory_norelift', lambda: kp.predict_trajectory(X, relift_state=False))
        eps = pykoop.split_episodes(X, episode_feature=ep)
        out['split_combine'] = pykoop.combine_episodes(eps, episode_feature=ep)
        out['n_episodes'] = np.array([len(eps)] + [e[1].shape[0] for e in eps], dtype=float)
        U, S = pykoop.shift_episodes(X, n_inputs=nu, episode_feature=ep)
        out['shift_u'] = U; out['shift_s'] = S
        out['extract_ic'] = pykoop.extract_initial_conditions(X, min_samples=w, n_inputs=nu, episode_feature=ep)
        out['extract_input'] = pykoop.extract_input(X, n_inputs=nu, episode_feature=ep)
        out['strip_ic'] = pykoop.strip_initial_conditions(X, min_samples=w, episode_feature=ep)
        return out
    with pykoop.config_context(skip_validation=False):
        a = compute()
    with pykoop.config_context(skip_validation=True):
        b = compute()
    for k in a:
        if isinstance(a[k], tuple):
            continue                      # rejected with validation on: not a valid input for this computation
        if isinstance(b[k], tuple):
            return False, dict(what=f'{k} raises with skip_validation=True although it succeeds with validation', error=b[k][1])
        if a[k].shape != b[k].shape or a[k].dtype != b[k].dtype or not np.array_equal(a[k], b[k], equal_nan=True):
            return False, dict(what=f'{k} differs between skip_validation=False and skip_validation=True',
                               computation=k, shape_validating=list(a[k].shape), shape_skipping=list(b[k].shape),
                               dtype_validating=str(a[k].dtype), dtype_skipping=str(b[k].dtype), input_dtype=kind)
    return True, None


def bare_stage_equivalence(rng):
    """every lifting-function class on its own (no pipeline in front of it), on integer-typed and single-precision
    data: transform / inverse_transform give the same dtype, shape and bits under both flag values"""
    bad = []
    n = 0
    specs = [('poly', 2, False), ('bilinear',), ('const',), ('delay', 1, 1), ('rbf', 1, 2), ('kernel', 1, 3),
             ('sk', 0), ('sk', 2), ('angle', (1, 0), False),
             # the composite that is a lifting function itself, row-wise and with a delay in a branch
             ('split', [('poly', 2, False)], [('sk', 0)]), ('split', [('delay', 1, 0)], [])]
    for spec in specs:
        for dt in (np.int64, np.int16, np.float32, np.float64):
            for ep in (False, True):
                n += 1
                base = np.round(2 * rng.normal(size=(6, 3)))
                if ep:
                    base = np.hstack((np.array([[0.], [0.], [0.], [1.], [1.], [1.]]), base))
                lf = direct.build_real(spec)
                try:
                    lf.fit(base.astype(float), n_inputs=1, episode_feature=ep)
                except Exception:  # noqa
                    continue
                X = base.astype(dt)
                out = {}
                for flag in (False, True):
                    with pykoop.config_context(skip_validation=flag):
                        try:
                            t = lf.transform(X)
                            out[flag] = (t, lf.inverse_transform(t))
                        except Exception as e:  # noqa
                            out[flag] = ('raised', type(e).__name__)
                if isinstance(out[False], tuple) and out[False] and isinstance(out[False][0], str):
                    continue                  # rejected by validation: not a valid input
                if isinstance(out[True][0], str):
                    bad.append(dict(what='a lifting function raises with skip_validation=True although it succeeds with validation',
                                    stage=repr(lf), dtype=str(np.dtype(dt))))
                    continue
                for nm, a, b in (('transform', out[False][0], out[True][0]), ('inverse_transform', out[False][1], out[True][1])):
                    if a.shape != b.shape or a.dtype != b.dtype or not np.array_equal(a, b, equal_nan=True):
                        bad.append(dict(what=f'{nm} of a bare lifting function differs between skip_validation=False and True',
                                        stage=repr(lf), input_dtype=str(np.dtype(dt)), episode_feature=ep,
                                        dtype_validating=str(a.dtype), dtype_skipping=str(b.dtype), X=X.tolist()))
                        break
    return n, bad


def run(res, tier):
    rng = np.random.default_rng(common.seed())
    proved = driver.proof_step(res, PID)
    known.report_known(res, PID)
    gen = {}
    try:
        gen = json.loads(common.sh(['/venv/bin/python', f'{common.VERIF}/tools/gen_config.py',
                                    f'{common.BUILD}/gen_probe'], timeout=120,
                                   env=dict(__import__('os').environ, VERIF_REPO=common.REPO))[1].strip().split('\n')[-1])
    except Exception:  # noqa
        pass
    n_scripts, n_dir = (240, 70) if tier == 'quick' else (3000, 800)
    batch, failed, errors, bad, samples, stats = thread_scripts(rng, n_scripts)
    ev, bad2, kn, s2 = _dp.run_direct(
        rng, n_dir, [('flag_equivalence', lambda c, r, kp: flag_equivalence(c, r, kp))],
        gen_kw=dict(max_len=3, max_depth=2, max_eps=4))
    n_bare, bad_bare = bare_stage_equivalence(rng)
    bad2 = bad2 + bad_bare
    ev += n_bare
    res.coverage.update(
        evaluations=n_scripts + ev, distinct_nontrivial=n_scripts + ev,
        traces_validated_against_impl=n_scripts,
        rule=('M4: config.py and every use of the skip_validation flag are re-translated from the source on this run into '
              'Gen/Config.v (copy/alias/finally shape) and Gen/Guards.v (one fact per guard site); BridgeC20.v must '
              're-check. M3: random scripts of get/set/config_context enter/exit/exception-exit/mutate-returned-dict/call of a function decorated with config_context, '
              'the context objects and decorated functions of every third script built beforehand by the importing thread, on 1-3 '
              'threads (thread 0 = the importing thread, others fresh), real threads driven by a turn token so the '
              'interleaving is the scripted one; every thread\'s observations are compared inside Coq with the model run '
              'with the GENERATED shape, and with an independent oracle. Direct: transform / inverse_transform / predict / '
              'predict_trajectory (both loops) / split-combine / shift / extract / strip under both flag values on random '
              'real pipelines and multi-episode layouts (interleaved rows included), np.array_equal.'),
        samples=samples + s2, script_stats=stats, translator=gen,
        model_vs_impl_disagreements=len(failed), coq_case_errors=len(errors))
    res.assumptions += ['valid input = 2-D ndarray of a numeric dtype (float64, float32, int64 are exercised; check_array is then the identity); '
                        'DataFrame / list inputs are coerced only by the guarded check_array and are outside the claim',
                        'CPython thread-local storage and the GIL as documented; the turn token fixes the interleaving at '
                        'operation granularity (operations are not preempted mid-way in the model)']
    _dp.conclude(res, PID, proved, batch, failed, errors, bad + bad2,
                 'BridgeC20.v (generated config shape / guard facts) + Props/C20.v + M3 script correspondence')


def replay(path):
    d = json.load(open(path)); print(json.dumps(d, indent=1)[:3000])
    c = d.get('case', {})
    if 'script' in c:
        script = [(t, tuple(o)) for t, o in c['script']]
        nt = max(t for t, _ in script) + 1
        obs, errors = run_script(script, nt, foreign=bool(c.get('contexts_built_by_the_main_thread', False)))
        want = oracle(script, nt)
        ok = not errors and all(obs[t] == want[t] for t in range(nt))
        print('replay: property holds now' if ok else 'replay: still failing', obs, want)
        return 0 if ok else 1
    return 1
