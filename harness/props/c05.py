"""C05 — regressors train on exactly the within-episode consecutive pairs."""
import json

import numpy as np

from .. import common, datapath as dp, stagegen as sg, intest, driver
import pykoop

LEVEL = 'proof'
PID = 'C05'


class Recorder(pykoop.KoopmanRegressor):
    """Harness-side regressor capturing what KoopmanRegressor.fit hands to the
    concrete solver (public extension point: subclass + _fit_regressor)."""
    last = None

    def _fit_regressor(self, X_unshifted, X_shifted):
        Recorder.last = (np.array(X_unshifted), np.array(X_shifted))
        return np.zeros((X_unshifted.shape[1], X_shifted.shape[1]))

    def _validate_parameters(self):
        pass


def oracle_pairs(X, nu, ep):
    """Independent oracle: consecutive pairs inside each episode, episodes in
    ascending label order; shifted side without inputs, label stripped."""
    X = np.asarray(X)
    if ep:
        labs = X[:, 0]
        body = X[:, 1:]
    else:
        labs = np.zeros(X.shape[0])
        body = X
    U, S = [], []
    for l in sorted(set(labs.tolist())):
        E = body[labs == l]
        for k in range(E.shape[0] - 1):
            U.append(E[k])
            S.append(E[k + 1][:E.shape[1] - nu] if nu else E[k + 1])
    w = body.shape[1]
    return (np.array(U).reshape(-1, w), np.array(S).reshape(-1, w - nu))


def render_pairs(U, S):
    return '[' + ';'.join(f'({sg.zrow(u)},{sg.zrow(s)})' for u, s in zip(U, S)) + ']'


def regressors(nu):
    out = [('Edmd', lambda: pykoop.Edmd(alpha=0.1)),
           ('EdmdMeta', lambda: pykoop.EdmdMeta()),
           ('Dmdc', lambda: pykoop.Dmdc()),
           ('DataRegressor', lambda: pykoop.DataRegressor())]
    if nu == 0:
        out.append(('Dmd', lambda: pykoop.Dmd()))
    return out


def float_case(rng):
    ns = int(rng.integers(1, 4))
    nu = int(rng.integers(0, 3))
    n_eps = int(rng.integers(2, 5))
    labels = [int(x) for x in rng.choice([0, 1, 2, 3, 5, 8, 13], size=n_eps, replace=False)]
    lens = [int(rng.integers(6, 14)) for _ in labels]
    A = rng.normal(size=(ns, ns)) * 0.5
    B = rng.normal(size=(ns, max(nu, 1)))[:, :nu]
    rows = []
    for l, n in zip(labels, lens):
        x = rng.normal(size=ns)
        for _ in range(n):
            u = rng.normal(size=nu)
            rows.append([l] + list(x) + list(u))
            x = A @ x + (B @ u if nu else 0) + 0.01 * rng.normal(size=ns)
    return ns, nu, np.array(rows)


def relabel_reorder(rng, X):
    labs = sorted(set(X[:, 0].tolist()))
    perm = list(rng.permutation(len(labs)))
    new = {l: float(50 - 7 * perm[k]) for k, l in enumerate(labs)}   # injective, order-reversing mix
    Y = X.copy()
    Y[:, 0] = [new[l] for l in X[:, 0]]
    # new arrangement: interleave rows randomly but keep within-episode order
    idx = {l: list(np.flatnonzero(Y[:, 0] == l)) for l in set(Y[:, 0].tolist())}
    order = []
    while any(idx.values()):
        l = rng.choice([k for k, v in idx.items() if v])
        order.append(idx[l].pop(0))
    return Y[order]


def lmi_pairs(rng, n):
    """LMI family (through CVXOPT): the fitted matrix is the one of the pairs of ITS OWN data matrix, also when an earlier
    fit in the same process saw a data matrix with the same unshifted side and another shifted side (only the last sample
    of an episode differs), or the same matrix with another n_inputs.  Reference: Edmd with the same Tikhonov alpha."""
    import pykoop.lmi_regressors as L
    from .. import lmi
    bad = []; done = 0
    for t in range(n):
        ns, nu, X = float_case(rng)
        X2 = np.array(X, copy=True)
        labs = X2[:, 0]
        last = int(np.flatnonzero(labs == labs[0])[-1])
        X2[last, 1:1 + ns] += rng.normal(size=ns)              # changes the shifted side only
        inv = ['chol', 'svd', 'eig'][t % 3]
        for name, Xa, Xb in (('same unshifted side, other last sample', X, X2), ('fresh', None, X)):
            try:
                if Xa is not None:
                    L.LmiEdmd(alpha=0.1, inv_method=inv, solver_params=lmi.SOLVER).fit(Xa, n_inputs=nu, episode_feature=True)
                reg = L.LmiEdmd(alpha=0.1, inv_method=inv, solver_params=lmi.SOLVER).fit(Xb, n_inputs=nu, episode_feature=True)
                ref = pykoop.Edmd(alpha=0.1).fit(Xb, n_inputs=nu, episode_feature=True)
            except Exception:  # noqa  (solver failure: not a verdict)
                continue
            if getattr(reg, 'solution_status_', 'optimal') != 'optimal':
                continue
            done += 1
            d = float(np.max(np.abs(reg.coef_ - ref.coef_))) / max(1.0, float(np.max(np.abs(ref.coef_))))
            if reg.coef_.shape != ref.coef_.shape or d > 2e-2:
                bad.append(dict(kind='lmi_pairs', regressor=f'LmiEdmd(inv_method={inv})', history=name, n_states=ns, n_inputs=nu,
                                coef_difference_to_Edmd=d, X=Xb.tolist(), X_of_the_earlier_fit=(Xa.tolist() if Xa is not None else None)))
    return done, bad


def direct_property(rng, n, res, samples):
    """The property's own predicate on the implementation."""
    bad = []
    done = 0
    for t in range(n):
        ns, nu, X = float_case(rng)
        Xu, Xs = oracle_pairs(X, nu, True)
        Y = relabel_reorder(rng, X)
        for name, mk in regressors(nu):
            try:
                r1 = mk().fit(X, n_inputs=nu, episode_feature=True)
                if t % 3 == 0:
                    # every documented read-only helper (plots, frequency response, predictions) is called once: the fitted
                    # matrix must still be the one of the training pairs afterwards
                    from .. import readonly
                    readonly.exercise(r1, X)
                # explicit (unshifted, shifted): the episode column is kept for the API
                Xu_ep = np.hstack((np.zeros((Xu.shape[0], 1)), Xu))
                Xs_ep = np.hstack((np.zeros((Xs.shape[0], 1)), Xs))
                r2 = mk().fit(Xu_ep, Xs_ep, n_inputs=nu, episode_feature=True)
                r3 = mk().fit(Y, n_inputs=nu, episode_feature=True)
                done += 1
                if r1.coef_.shape != r2.coef_.shape or r1.coef_.shape != r3.coef_.shape:
                    raise ValueError(f'coef_ shapes differ: {r1.coef_.shape} {r2.coef_.shape} {r3.coef_.shape}')
                scale = max(1.0, float(np.max(np.abs(r1.coef_))))
                e12 = float(np.max(np.abs(r1.coef_ - r2.coef_))) / scale
                e13 = float(np.max(np.abs(r1.coef_ - r3.coef_))) / scale
                err = None
            except Exception as e:  # noqa
                e12 = e13 = float('inf')
                err = f'{type(e).__name__}: {e}'
            if e12 > 1e-7 or e13 > 1e-6:
                bad.append(dict(kind='regressor_invariance', regressor=name, n_states=ns,
                                n_inputs=nu, X=X.tolist(), relabelled=Y.tolist(),
                                err_explicit=e12, err_relabel=e13, exception=err))
        if t < 2:
            samples.append(dict(kind='relabel/reorder + explicit pairs', n_states=ns, n_inputs=nu,
                                rows=int(X.shape[0]), labels=sorted(set(X[:, 0].tolist()))))
    return done, bad


def run(res, tier):
    rng = np.random.default_rng(common.seed())
    proved = driver.proof_step(res, PID)
    n_m2 = 150 if tier == 'quick' else 1500
    n_direct = 12 if tier == 'quick' else 120
    batch = dp.CoqBatch('c05', header_extra='From PK Require Import EpisodesFacts ShiftFacts.\n')
    samples = []
    dist = {'bare': 0, 'pipeline': 0, 'layouts': {}}
    impl_bad = []
    seen = set()
    with intest.integer_trig():
        for cid in range(n_m2):
            bare = (cid % 3 == 0)
            if bare:
                ns = int(rng.integers(1, 4)); nu = int(rng.integers(0, 3)); ep = bool(rng.random() < 0.8)
                order, mode = sg.gen_layout(rng, 1, max_eps=5 if ep else 1, extra=5)
                if not ep:
                    order = [0] * len(order)
                X = sg.gen_data(rng, order, ns, nu, ep, tagged=True)
                reg = Recorder()
                reg.fit(X, n_inputs=nu, episode_feature=ep)
                U, S = Recorder.last
                defs = f'Definition b{cid}_X : dmat Z := {sg.render_dmat(X, ep)}.'
                expr = (f'zpairs_eqb (ShiftFacts.training_pairs {"true" if ep else "false"} {nu}%nat b{cid}_X) '
                        f'{render_pairs(U, S)}')
                payload = dict(kind='bare', n_states=ns, n_inputs=nu, episode_feature=ep,
                               X=X.tolist(), layout=mode)
                batch.add(defs, [('pairs', expr)], payload)
                dist['bare'] += 1
                Ou, Os = oracle_pairs(X, nu, ep)
                if Ou.shape != U.shape or Os.shape != S.shape or not (np.array_equal(Ou, U) and np.array_equal(Os, S)):
                    impl_bad.append(dict(payload, got_unshifted=U.tolist(), got_shifted=S.tolist(),
                                         want_unshifted=Ou.tolist(), want_shifted=Os.tolist()))
            else:
                case = dp.gen_case(rng, cid, max_len=2, max_depth=1, tagged=False)
                mode = case['mode']
                try:
                    kp = sg.build_top(case['chain'], regressor=Recorder())
                    if cid % 5 in (1, 2):
                        # history: the same pipeline object was fitted before on data of the same width with another
                        # layout (other number of inputs / no episode feature)
                        try:
                            alt_nu = case['nu'] - 1 if case['nu'] > 0 else case['nu'] + 1
                            if cid % 5 == 1 and case['ns'] + case['nu'] - alt_nu >= 1:
                                kp.fit(case['X'], n_inputs=alt_nu, episode_feature=case['ep'])
                            else:
                                kp.fit_transformers(case['X'], n_inputs=case['nu'], episode_feature=not case['ep'])
                            dist['refit_with_other_layout'] = dist.get('refit_with_other_layout', 0) + 1
                        except Exception:  # noqa
                            pass
                    kp.fit(case['X'], n_inputs=case['nu'], episode_feature=case['ep'])
                except ValueError:
                    continue
                except Exception as e:  # noqa  (an internal error of the implementation on a generated pipeline: reported with the input)
                    payload = dp.describe(case)
                    payload['X'] = case['X'].tolist()
                    impl_bad.append(dict(payload, kind='pipeline', exception=f'{type(e).__name__}: {e}'[:500]))
                    continue
                U, S = Recorder.last
                if not (sg.is_integral(U) and sg.is_integral(S)):
                    continue
                p = f'c{cid}'
                defs = dp.coq_case_defs(case, kp, p)
                expr = (f'zpairs_eqb (ShiftFacts.training_pairs {p}_ep (snd (sdims {p}_s {p}_d)) '
                        f'(ztransform {p}_s {p}_ep {p}_d {p}_X)) {render_pairs(U, S)}')
                payload = dp.describe(case)
                payload['X'] = case['X'].tolist()
                batch.add(defs, [('pipeline_pairs', expr)], payload)
                dist['pipeline'] += 1
                # direct: the regressor must have seen oracle_pairs(transform(X))
                Xt = kp.transform(case['X'])
                # the number of lifted inputs is the documented one (the dims of the model), not what the estimator declares
                d_ = (case['ns'], case['nu'])
                for spec_ in case['chain']:
                    d_ = sg.dims_out(spec_, *d_)
                try:
                    Ou, Os = oracle_pairs(Xt, d_[1], case['ep'])
                except ValueError:
                    # the transformed data does not even have the documented number of lifted inputs
                    Ou = Os = np.zeros((0, 0))
                if Ou.shape != U.shape or Os.shape != S.shape or not (np.array_equal(Ou, U) and np.array_equal(Os, S)):
                    impl_bad.append(dict(payload, kind='pipeline', got_unshifted=U.tolist(), got_shifted=S.tolist(),
                                         want_unshifted=Ou.tolist(), want_shifted=Os.tolist()))
            dist['layouts'][mode] = dist['layouts'].get(mode, 0) + 1
            seen.add(json.dumps(payload, sort_keys=True, default=str))
            if len(samples) < 3:
                samples.append({k: v for k, v in payload.items() if k != 'X'} | {'X_head': payload['X'][:4]})
    failed, errors = batch.run(shard=30)
    n_reg, bad_reg = direct_property(rng, n_direct, res, samples)
    n_lmi, bad_lmi = lmi_pairs(rng, 3 if tier == 'quick' else 20)
    n_reg += n_lmi; bad_reg += bad_lmi
    res.coverage.update(
        evaluations=len(batch.meta) + n_reg,
        distinct_nontrivial=len(seen) + n_reg,
        rule=('M2: tagged integer multi-episode matrices (bare) and random lifting pipelines ending in a recording '
              'regressor; the (unshifted, shifted) matrices received by _fit_regressor are compared row by row with '
              'the Coq model training_pairs evaluated by vm_compute; distinct = distinct (pipeline, layout, data) '
              'payloads; non-trivial = at least one episode with >= 2 rows. Direct: coef_ of 5 regressor classes under '
              'explicit pairs / injective relabelling + random interleaving (rtol 1e-6), also after every read-only helper was called; '
              'LmiEdmd (CVXOPT) against Edmd on its own pairs, fresh and after a fit on a matrix with the same unshifted side.'),
        samples=samples, input_distribution=dist,
        model_vs_impl_disagreements=len(failed), coq_case_errors=len(errors),
        regressor_fits_compared=n_reg)
    res.assumptions += ['LAPACK/BLAS least-squares and SVD are oracles (tolerance 1e-6 for the coef_ clause)',
                        'check_array is the identity on float64 2-D ndarrays']
    # verdicts
    for b in impl_bad[:3]:
        res.violation(dict(property=PID, what='regressor received pairs other than the within-episode consecutive pairs',
                           case=b))
    for b in bad_reg[:3]:
        res.violation(dict(property=PID, what='fitted Koopman matrix changes under explicit pairs or relabel/reorder',
                           case=b))
    if (failed or errors or not proved) and not (impl_bad or bad_reg):
        what = []
        if not proved:
            what.append('proof obligations of Props/C05.v no longer check: ' + res.build_log[-1500:])
        if failed:
            what.append('model/implementation correspondence broken on cases: '
                        + json.dumps([res_meta(batch, i) for i in failed[:3]], default=str)[:3000])
        if errors:
            what.append('coqc failed on generated case files: ' + errors[0][1][-1500:])
        res.violation(dict(property=PID, broken='; '.join(what),
                           theorem_or_correspondence='Props/C05.v : C05_pairs / M2 training_pairs correspondence'),
                      found_input=False)


def res_meta(batch, i):
    payload, tag = batch.meta[i]
    return dict(tag=tag, case={k: v for k, v in payload.items()})


def replay(path):
    d = json.load(open(path))
    print(json.dumps(d, indent=1)[:4000])
    c = d.get('case', {})
    if 'X' in c and c.get('kind') in ('bare',):
        X = np.array(c['X'])
        reg = Recorder()
        reg.fit(X, n_inputs=c['n_inputs'], episode_feature=c['episode_feature'])
        U, S = Recorder.last
        Ou, Os = oracle_pairs(X, c['n_inputs'], c['episode_feature'])
        ok = Ou.shape == U.shape and np.array_equal(Ou, U) and np.array_equal(Os, S)
        print('replay: property holds now' if ok else 'replay: still failing')
        return 0 if ok else 1
    return 1
