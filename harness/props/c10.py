"""C10 — H-infinity regularised fits report a valid bound on the true gain."""
import json
import numpy as np
from .. import common, driver, known, lmi, altern, lmi_blocks
from . import _dp
import pykoop
import pykoop.lmi_regressors as L

LEVEL = 'translation_validation'
PID = 'C10'


def weights(rng, cid=0):
    """None / pre / post with a stable first- or second-order SISO filter (discrete state space); the order alternates
    deterministically so that every (type, order, number of inputs) combination occurs"""
    if (cid // 6) % 3 == 0:
        return None
    a = float(rng.uniform(0.1, 0.8))
    if (cid // 18) % 2 == 0:
        ss = (np.array([[a]]), np.array([[1.0]]), np.array([[float(rng.uniform(0.3, 1.5))]]), np.array([[float(rng.uniform(0.0, 1.0))]]))
    else:
        b = float(rng.uniform(-0.5, 0.5))
        ss = (np.array([[a, 0.2], [0.0, b]]), np.array([[1.0], [0.5]]), np.array([[1.0, -0.3]]), np.array([[0.4]]))
    return (['pre', 'post'][(cid // 6) % 3 - 1],) + ss


def check(reg, ns, wfun, gamma, desc, X):
    A, B = lmi.ab(reg, ns)
    if not np.all(np.isfinite(A)):
        return dict(what='non-finite Koopman matrix')
    sr = float(np.max(np.abs(np.linalg.eigvals(A))))
    if np.any(A) or np.any(B):
        if sr >= 1 + 1e-6:
            return dict(what='identified system is not asymptotically stable', spectral_radius=sr)
        h = lmi.hinf_norm(A, B, wfun=wfun)
        if h > float(gamma) * (1 + 2e-4) + 1e-6:
            return dict(what='true (weighted) H-infinity norm exceeds the reported gamma_', hinf_norm=h, gamma=float(gamma))
    k = lmi.log_defect(reg, X, B.shape[1])
    if k is not None:
        return dict(what='logged objective increases between iterations', log=list(map(float, reg.objective_log_)), at=k)
    return None


def run(res, tier):
    rng = np.random.default_rng(common.seed())
    proved = driver.proof_step(res, PID, allow_axioms=common.REALS_AXIOMS)
    known.report_known(res, PID)
    n = 54 if tier == 'quick' else 400
    bad = []; samples = []; dist = {}
    for cid in range(n):
        kind = ['stable', 'stable', 'marginal', 'unstable'][int(rng.integers(0, 4))]
        ns = int(rng.integers(1, 3)); nu = 1 + (cid // 3) % 2
        X, A0, B0 = lmi.linear_data(rng, ns, nu, kind=kind)
        fam = ['edmd', 'dmdc', 'zpk'][cid % 3]
        kw = dict(alpha=float(rng.choice([0.5, 1.0, 5.0])), ratio=float(rng.choice([1.0, 0.5])),
                  max_iter=int(rng.choice([2, 3, 4])), square_norm=bool(rng.random() < 0.3), solver_params=lmi.SOLVER)
        if cid % 2 == 1:
            # loose tolerance and room to iterate: the loop ends on its tolerance test, early in the descent
            kw.update(iter_atol=float(rng.choice([1e-2, 1e-1])), max_iter=int(rng.choice([6, 12])))
        try:
            if fam == 'zpk':
                units = str(rng.choice(['rad/s', 'hz', 'normalized']))
                t_step = float(rng.choice([0.1, 0.5, 1.0]))
                scale = {'rad/s': 1.0, 'hz': 1 / (2 * np.pi), 'normalized': t_step / np.pi}[units]
                zeros = -float(rng.uniform(0.5, 4.0)) * scale if rng.random() < 0.7 else None
                poles = -float(rng.uniform(0.5, 4.0)) * scale
                gain = float(rng.uniform(0.5, 2.0))
                disc = str(rng.choice(['bilinear', 'zoh']))
                typ = str(rng.choice(['pre', 'post']))
                kw['max_iter'] = int(rng.choice([3, 12]))
                base = L.LmiEdmdHinfReg(**kw) if rng.random() < 0.6 else L.LmiDmdcHinfReg(**kw)
                reg0 = L.LmiHinfZpkMeta(hinf_regressor=base, type=typ, zeros=zeros, poles=poles, gain=gain,
                                        discretization=disc, t_step=t_step, units=units)
                reg0.fit(X, n_inputs=nu, episode_feature=True)
                reg = reg0.hinf_regressor_
                wfun = lmi.zpk_filter(zeros, poles, gain, t_step, disc, units)
                desc = dict(estimator=repr(reg0))
            else:
                w = weights(rng, cid)
                cls = L.LmiEdmdHinfReg if fam == 'edmd' else L.LmiDmdcHinfReg
                reg = cls(weight=w, **kw)
                reg.fit(X, n_inputs=nu, episode_feature=True)
                wfun = lmi.ss_freq(*w[1:]) if w is not None else None
                desc = dict(estimator=repr(reg))
        except Exception as e:  # noqa
            dist['fit_error'] = dist.get('fit_error', 0) + 1
            continue
        dist[f'{fam}/{kind}'] = dist.get(f'{fam}/{kind}', 0) + 1
        gamma = float(np.ravel(reg.gamma_)[0])
        desc.update(family=fam, data=kind, n_states=ns, n_inputs=nu, gamma=gamma, n_iter=int(reg.n_iter_),
                    stop_reason=str(reg.stop_reason_))
        info = check(reg, ns, wfun, gamma, desc, X)
        if info is None and cid % 3 == 0:
            # every documented read-only helper (plots, frequency response, predictions) is called once: the reported bound must
            # still be a bound for the matrix the estimator holds afterwards
            from .. import readonly
            readonly.exercise(reg0 if fam == 'zpk' else reg, X)
            g2 = float(np.ravel(reg.gamma_)[0])
            try:
                info = check(reg, ns, wfun, g2, desc, X)
            except Exception as e:  # noqa  (e.g. a pole on the unit circle: the norm is not even finite)
                info = dict(what=f'the norm of the system the estimator holds cannot be evaluated: {type(e).__name__}: {e}')
            if info is None and g2 != gamma:
                info = dict(what='gamma_ changed when a read-only helper was called', before=gamma, after=g2)
            if info:
                info = dict(info, after='the read-only helpers (plot_*, frequency_response, predict, ...) were called')
        common.note_case('fit', desc.get('estimator'), X)
        if info:
            bad.append(dict(info, **desc, X=X.tolist()))
        if len(samples) < 3:
            samples.append(desc)
    # several LmiHinfZpkMeta objects built on ONE regressor object (the way filters are compared): what each reports after
    # all of them were fitted must be a bound for ITS OWN model and weight
    for h in range(2 if tier == 'quick' else 8):
        Xs, _, _ = lmi.linear_data(rng, 2, 1, kind='stable')
        shared = L.LmiEdmdHinfReg(alpha=1.0, max_iter=6, solver_params=lmi.SOLVER)
        specs = [dict(zeros=-1.0, poles=-4.0, gain=float(g), t_step=0.5) for g in (4.0, 1.0, 0.25)]
        try:
            metas = [L.LmiHinfZpkMeta(hinf_regressor=shared, type='post', discretization='bilinear', units='rad/s', **sp_).fit(
                Xs, n_inputs=1, episode_feature=True) for sp_ in specs]
        except Exception:  # noqa
            dist['fit_error'] = dist.get('fit_error', 0) + 1
            continue
        dist['metas_sharing_one_regressor'] = dist.get('metas_sharing_one_regressor', 0) + 1
        for m_, sp_ in zip(metas, specs):
            reg = m_.hinf_regressor_
            gamma = float(np.ravel(reg.gamma_)[0])
            A, B = lmi.ab(m_, 2) if hasattr(m_, 'coef_') else lmi.ab(reg, 2)
            wfun = lmi.zpk_filter(sp_['zeros'], sp_['poles'], sp_['gain'], sp_['t_step'], 'bilinear', 'rad/s')
            if np.any(A) or np.any(B):
                hn = lmi.hinf_norm(A, B, wfun=wfun)
                if hn > gamma * (1 + 2e-4) + 1e-6:
                    bad.append(dict(what='after several LmiHinfZpkMeta estimators built on one regressor object were fitted, the gamma_ '
                                         'an earlier one reports is not a bound for its own model and weight (fitted state shared '
                                         'through the constructor argument)', hinf_norm=hn, gamma=gamma, gain=sp_['gain'],
                                    estimator=repr(m_), X=Xs.tolist()))
                    break
    # one lag filter (DC gain 4, high-frequency gain 1; zero at 0.8 and pole at 0.2 of the Nyquist frequency) written in each of
    # the three unit systems, for sampling periods other than one, on a plant whose gain peaks at low frequency
    A_lag = np.array([[0.9, 0.2], [-0.2, 0.85]])
    usweep = [(t, u, c) for t in (0.1, 0.5) for u in ('normalized', 'hz', 'rad/s') for c in (L.LmiEdmdHinfReg, L.LmiDmdcHinfReg)]
    for j, (t_step, units, cls) in enumerate(usweep if tier != 'quick' else usweep[::2] + usweep[1::6]):
        nyq_hz = 1 / (2 * t_step)
        f = {'normalized': 1.0, 'hz': nyq_hz, 'rad/s': 2 * np.pi * nyq_hz}[units]
        zeros, poles = -0.8 * f, -0.2 * f
        Bl = rng.normal(size=(2, 1))
        rows = []
        for l in range(2):
            x = rng.normal(size=2)
            for _ in range(40):
                u_ = rng.normal(size=1)
                rows.append([float(l)] + list(x) + list(u_))
                x = A_lag @ x + Bl @ u_ + 0.01 * rng.normal(size=2)
        Xl = np.array(rows)
        try:
            m_ = L.LmiHinfZpkMeta(hinf_regressor=cls(alpha=1.0, ratio=1.0, max_iter=8, solver_params=lmi.SOLVER), type='post',
                                  zeros=zeros, poles=poles, gain=1.0, discretization='bilinear', t_step=t_step, units=units)
            m_.fit(Xl, n_inputs=1, episode_feature=True)
        except Exception:  # noqa
            dist['fit_error'] = dist.get('fit_error', 0) + 1
            continue
        dist['unit_system_sweep'] = dist.get('unit_system_sweep', 0) + 1
        reg = m_.hinf_regressor_
        gamma = float(np.ravel(reg.gamma_)[0])
        desc = dict(estimator=repr(m_), family='zpk', data='lag filter, low-frequency plant', n_states=2, n_inputs=1, gamma=gamma,
                    n_iter=int(reg.n_iter_), stop_reason=str(reg.stop_reason_))
        info = check(reg, 2, lmi.zpk_filter(zeros, poles, 1.0, t_step, 'bilinear', units), gamma, desc, Xl)
        if info:
            bad.append(dict(info, **desc, X=Xl.tolist()))
    # weights with a large gain on two input channels (second-order filters whose state matrix is not a multiple of the
    # identity), lightly damped plant: the cascade must be the documented one (one copy of the SISO filter per channel)
    w_diag = (np.diag([0.9, 0.5]), np.array([[1.0], [1.0]]), np.array([[0.5, -0.4]]), np.array([[0.2]]))
    w_tri = (np.array([[0.7, 0.4], [0.0, 0.6]]), np.array([[0.0], [1.0]]), np.array([[1.0, 0.2]]), np.array([[0.5]]))
    # modal second-order filter with poles of opposite sign; used with heavier regularisation and white-noise inputs
    w_modal = (np.diag([0.5, -0.3]), np.array([[1.0], [1.0]]), np.array([[0.8, -0.4]]), np.array([[0.2]]))
    sweep = [(c, t, w, 0.1) for c in (L.LmiEdmdHinfReg, L.LmiDmdcHinfReg) for t in ('pre', 'post') for w in (w_diag, w_tri)]
    # a weight whose state matrix is exactly zero (FIR: D + C B / z) is dynamic all the same
    w_fir = (np.zeros((1, 1)), np.array([[1.0]]), np.array([[0.9]]), np.array([[0.3]]))
    extra = [(c, 'pre', w_modal, 1.0) for c in (L.LmiEdmdHinfReg, L.LmiDmdcHinfReg)]
    extra += [(L.LmiEdmdHinfReg, t, w_fir, 1.0) for t in ('pre', 'post')]
    # two first-order sections in series (triangular, non-symmetric state matrix) realised with ||[B_w A_w]|| < 1, so that the
    # first iteration (P = I) is feasible and the fit is not the trivial zero matrix
    w_series = (np.array([[0.5, 0.4], [0.0, 0.5]]), np.array([[0.0], [0.5]]), np.array([[2.0, 0.0]]), np.array([[0.2]]))
    extra += [(c, 'post', w_series, 1.0) for c in (L.LmiEdmdHinfReg, L.LmiDmdcHinfReg)] + [(L.LmiEdmdHinfReg, 'pre', w_series, 1.0)]
    for j, (cls, typ, wss, alpha) in enumerate((sweep if tier != 'quick' else sweep[::2] + sweep[1::4]) + extra):
        A0 = np.array([[0.9, 0.2, 0.0], [-0.2, 0.9, 0.1], [0.0, -0.1, 0.8]]); B0 = np.array([[0.5, 0.0], [0.0, 0.3], [0.2, 0.4]])
        if alpha == 1.0:
            B0 = rng.normal(size=(3, 2))
        rows = []
        for e in range(2):
            x = rng.normal(size=3)
            for k in range(60):
                u = np.array([np.sin(0.05 * k * (e + 1)), np.cos(0.11 * k)]) + 0.3 * rng.normal(size=2)
                if alpha == 1.0:
                    u = rng.normal(size=2)
                rows.append([float(e)] + list(x) + list(u))
                x = A0 @ x + B0 @ u
        X = np.array(rows)
        try:
            reg = cls(alpha=alpha, max_iter=8 if alpha != 1.0 else 15, weight=(typ,) + wss, solver_params=lmi.SOLVER).fit(X, n_inputs=2, episode_feature=True)
        except Exception:  # noqa
            dist['fit_error'] = dist.get('fit_error', 0) + 1
            continue
        dist['high_gain_weight_sweep'] = dist.get('high_gain_weight_sweep', 0) + 1
        gamma = float(np.ravel(reg.gamma_)[0])
        desc = dict(estimator=repr(reg), family=cls.__name__, data='lightly damped 3-state 2-input', gamma=gamma,
                    n_iter=int(reg.n_iter_), stop_reason=str(reg.stop_reason_))
        common.note_case('fit', desc['estimator'], X)
        info = check(reg, 3, lmi.ss_freq(*wss), gamma, desc, X)
        if info:
            bad.append(dict(info, **desc, X=X.tolist()))
    ev = sum(v for k, v in dist.items() if k != 'fit_error')
    res.coverage.update(
        programs=ev, disagreements_checked=ev, evaluations=ev, distinct_nontrivial=ev,
        rule=('CVXOPT fits of LmiEdmdHinfReg / LmiDmdcHinfReg (no weight, pre, post; first/second-order stable SISO filters) '
              'and LmiHinfZpkMeta (zeros/poles/gain in rad/s, Hz and normalised units, bilinear and zoh) on data with 1..2 '
              'inputs; per fit: poles strictly inside the unit disc, max over a refined 2500-point frequency grid of '
              '|W| sigma_max(G) <= gamma_ (the filter is rebuilt independently from the documented meaning of the parameters), '
              'objective log non-increasing. Half of the fits use a loose iter_atol (1e-2, 1e-1) with max_iter 6 / 12 so that the '
              'loop leaves on its tolerance test.'),
        samples=samples, input_distribution=dist, log_increases_explained_by_the_strictness_margin=lmi.MARGIN_HITS[0])
    res.assumptions += ['a frequency grid gives a lower bound of the H-infinity norm: it can expose a violated bound, the upper bound '
                        'comes from the bounded-real certificate (time-domain part proved in AlgR/Dissip.v; l2 gain = H-infinity '
                        'norm and the P^-1 congruence are not machine-checked)',
                        'CVXOPT/PICOS feasibility when "optimal" is an oracle contract']

    # M3(b): the alternation loop driven by a scripted solver oracle vs coq/Altern.v (compared inside Coq)
    classes = [(L.LmiEdmdHinfReg, {}, 1), (L.LmiDmdcHinfReg, {}, 1)]
    batch, failed, errors, n_scr, s_scr, d_scr = altern.run_scripts(rng, classes, 40 if tier == 'quick' else 600, 'c10_altern')
    res.coverage['programs'] = res.coverage.get('programs', 0) + n_scr
    res.coverage['disagreements_checked'] = res.coverage.get('disagreements_checked', 0) + n_scr
    res.coverage['evaluations'] = res.coverage.get('evaluations', 0) + n_scr
    res.coverage['distinct_nontrivial'] = res.coverage.get('distinct_nontrivial', 0) + len(
        {json.dumps(batch.meta[i][0]['script'], sort_keys=True) + batch.meta[i][0]['estimator'] for i in batch.meta})
    res.coverage['scripted_solver_runs'] = dict(runs=n_scr, exit_reasons=d_scr, model_vs_impl_disagreements=len(failed),
                                                coq_case_errors=len(errors))
    res.coverage['samples'] = list(res.coverage.get('samples', [])) + s_scr[:1]
    res.coverage['rule'] += (' Scripted solver (M3b): random scripts of optimal / non-optimal answers to the sub-problems A_k, B_k with '
                             'tagged values, integer objectives, a polite-stop request at a random check, max_iter 1..5, atol in '
                             '{0,1,3}; the returned tags of U (and gamma_), P_, objective_log_, n_iter_, the class of stop_reason_ and '
                             'the arguments each sub-problem was built from are compared inside Coq with Altern.fit on the same script.')
    # M5-exact: the LMI block the builders hand to PICOS vs coq/LmiBlocks.v, at integer test points, compared inside Coq
    b2, f2, e2, n_blk, s_blk, d_blk = lmi_blocks.run_blocks(rng, 24 if tier == 'quick' else 300, 'c10_blocks', ['hinf_b', 'hinf_a'])
    res.coverage['programs'] += n_blk; res.coverage['disagreements_checked'] += n_blk; res.coverage['evaluations'] += n_blk
    res.coverage['distinct_nontrivial'] += n_blk
    res.coverage['lmi_builder_vs_model'] = dict(blocks=n_blk, builders=d_blk, model_vs_impl_disagreements=len(f2), coq_case_errors=len(e2))
    res.coverage['rule'] += (' LMI builders (M5-exact): _create_problem_a / _create_problem_b (and _create_ss with no / pre / post weight) are '
                             'called with integer and dyadic test values, the slack of the LMI constraint (the block itself) is read from '
                             'PICOS and compared entry by entry inside Coq with LmiBlocks.v.')
    merged = lmi_blocks.Merged([(batch, failed, errors), (b2, f2, e2)])
    batch, failed, errors = merged, merged.failed, merged.errors
    _dp.conclude(res, PID, proved, batch, failed, errors, bad, 'Props/C10.v (time-domain bounded-real lemma) + per-fit gain checks + alternation-loop correspondence (Altern.v)')


def replay(path):
    d = json.load(open(path)); print(json.dumps(d, indent=1)[:3000]); return 1
