"""C18 — RBF features and generated centres follow their definitions."""
import json
import os

import numpy as np
import scipy.stats

from .. import common, driver, known, datapath as dp
from . import _dp
import pykoop

LEVEL = 'proof'
PID = 'C18'
NAMES = ['exponential', 'gaussian', 'multiquadric', 'inverse_quadratic', 'inverse_multiquadric',
         'thin_plate', 'bump_function']


# ------------------------------------------------------------------ documented definitions
def rbf_spec(name, r):
    r = np.asarray(r, dtype=float)
    if name == 'exponential':
        return np.exp(-r)
    if name == 'gaussian':
        return np.exp(-r**2)
    if name == 'multiquadric':
        return np.sqrt(1 + r**2)
    if name == 'inverse_quadratic':
        return 1 / (1 + r**2)
    if name == 'inverse_multiquadric':
        return 1 / np.sqrt(1 + r**2)
    if name == 'thin_plate':
        return r**2 * np.log(r)
    if name == 'bump_function':
        out = np.zeros_like(r)
        m = r < 1
        out[m] = np.exp(-1 / (1 - r[m]**2))
        return out
    raise KeyError(name)


def rbf_case(p):
    """RbfLiftingFn.transform == [x, u, R(shape*||[x;u]-c||+offset) per centre, in centre order]."""
    rng = np.random.default_rng(p['seed'])
    ns, nu, k = p['ns'], p['nu'], p['k']
    n = ns + nu
    scale = p.get('scale', 1.0)
    C = rng.normal(size=(k, n)) * scale + p.get('mean', 0.0)
    X = rng.normal(size=(p['rows'], n)) * scale + p.get('mean', 0.0)
    if p.get('hit_center'):
        X[0] = C[0]                      # radius exactly the offset
    ep = p['ep']
    Xd = np.hstack((np.repeat(np.arange(2), (p['rows'] + 1) // 2)[:p['rows'], None].astype(float), X)) if ep else X
    if p['rbf'] == 'callable':
        fn = lambda r: 1.0 / (1.0 + r)       # noqa: E731
        spec = lambda r: 1.0 / (1.0 + r)     # noqa: E731
        default_offset = 0.0
    else:
        fn = p['rbf']
        spec = lambda r: rbf_spec(p['rbf'], r)  # noqa: E731
        default_offset = 1e-3 if p['rbf'] == 'thin_plate' else 0.0
    lf = pykoop.RbfLiftingFn(rbf=fn, centers=pykoop.DataCenters(C), shape=p['shape'], offset=p['offset'])
    lf.fit(Xd, n_inputs=nu, episode_feature=ep)
    Xt = lf.transform(Xd)
    off = default_offset if p['offset'] is None else p['offset']
    radii = p['shape'] * np.sqrt(((X[:, None, :] - C[None, :, :])**2).sum(-1)) + off
    want = np.hstack((Xd, spec(radii)))
    if Xt.shape != want.shape:
        return dict(what='RbfLiftingFn.transform has the wrong shape', got=list(Xt.shape), want=list(want.shape))
    if lf.n_features_out_ != want.shape[1]:
        return dict(what='RbfLiftingFn declares a width different from the produced one')
    if not np.allclose(Xt, want, rtol=1e-9, atol=1e-12, equal_nan=True):
        j = int(np.argmax(np.max(np.abs(Xt - want), axis=0)))
        return dict(what='RbfLiftingFn feature differs from R(shape*||[x;u]-c||+offset) of the named radial function',
                    column=j, got=Xt[:3, j].tolist(), want=want[:3, j].tolist())
    # whole-number data given as an integer-typed array: same features as the same numbers given as floats
    Xw = np.round(3 * X)
    Xwd = np.hstack((Xd[:, :1], Xw)) if ep else Xw
    Ti = lf.transform(Xwd.astype(np.int64)); Tf = lf.transform(Xwd)
    if Ti.shape != Tf.shape or not np.allclose(Ti, Tf, rtol=1e-12, atol=1e-14, equal_nan=True):
        return dict(what='RBF features depend on the dtype of the data (integer-typed rows give other features than the same '
                         'numbers as floats)')
    nso = lf.n_states_out_
    if (nu == 0 and nso != ns + k) or (nu > 0 and (nso != ns or lf.n_inputs_out_ != nu + k)):
        return dict(what='RBF block not appended where declared', n_states_out=int(nso))
    # fitted on whole-number data given as an integer-typed matrix, then asked for real-valued samples: same formula
    lf_i = pykoop.RbfLiftingFn(rbf=fn, centers=pykoop.DataCenters(C), shape=p['shape'], offset=p['offset'])
    lf_i.fit(Xwd.astype(np.int64), n_inputs=nu, episode_feature=ep)
    Tq = lf_i.transform(Xd)
    if Tq.shape != want.shape or not np.allclose(Tq, want, rtol=1e-9, atol=1e-12, equal_nan=True):
        return dict(what='RbfLiftingFn fitted on an integer-typed matrix does not give R(shape*||[x;u]-c||+offset) for real-valued samples')
    # centres generated from the data: all the rows the lifting function was fitted on count, whatever their episode
    if ep and p['rows'] >= 4:
        import sklearn.base
        gens = [pykoop.GridCenters(n_points_per_feature=2), pykoop.DataCenters(),
                pykoop.UniformRandomCenters(n_centers=3, random_state=np.random.RandomState(p['seed'] % 1000))]
        g = gens[p['seed'] % 3] if n <= 4 else gens[1 + p['seed'] % 2]
        Xe = np.array(Xd, copy=True)
        Xe[Xe[:, 0] == Xe[-1, 0], 1:] += 5.0 * scale          # the second episode lives elsewhere
        lf_g = pykoop.RbfLiftingFn(rbf=fn, centers=sklearn.base.clone(g), shape=p['shape'], offset=p['offset'])
        lf_g.fit(Xe, n_inputs=nu, episode_feature=True)
        ref = sklearn.base.clone(g).fit(Xe[:, 1:])
        got_c = np.asarray(lf_g.centers_.centers_)
        if got_c.shape != ref.centers_.shape or not np.allclose(got_c, ref.centers_, rtol=1e-12, atol=1e-12):
            return dict(what='the centres of an RbfLiftingFn fitted on several episodes are not the centres its generator gives for '
                             'all the samples', generator=repr(g), got_shape=list(got_c.shape), want_shape=list(ref.centers_.shape))
    return None


def gen_rbf_params(rng, n):
    out = []
    for i in range(n):
        name = (NAMES + ['callable'])[i % 8]
        offset = [None, 0.0, 0.1, None, 1.0, 0][(i // 8) % 6]          # every name meets every offset kind
        out.append(dict(test='rbf', rbf=name, seed=int(rng.integers(1 << 30)), ns=int(rng.integers(1, 4)),
                        nu=int(rng.integers(0, 3)), k=int(rng.integers(1, 5)), rows=int(rng.integers(2, 7)),
                        shape=float(rng.choice([0.25, 0.5, 1.0, 2.0, 3.5])), offset=offset,
                        ep=bool(rng.random() < 0.5), hit_center=bool(rng.random() < 0.4),
                        scale=float(rng.choice([0.3, 1.0, 3.0]))))
        if name == 'thin_plate' and offset is not None and offset == 0 and out[-1]['hit_center']:
            out[-1]['hit_center'] = False    # r = 0 with offset 0 is outside the domain of r^2 log r
    # one large batch (many rows x many centres): every row must be transformed
    out.append(dict(test='rbf', rbf='gaussian', seed=int(rng.integers(1 << 30)), ns=2, nu=1, k=40, rows=3000, shape=0.5,
                    offset=None, ep=False, hit_center=False, scale=1.0))
    # a larger one on data far from the origin (mean 1000, spread 1): distances must be computed from differences
    out.append(dict(test='rbf', rbf='gaussian', seed=int(rng.integers(1 << 30)), ns=5, nu=3, k=200, rows=3000, shape=0.5,
                    offset=None, ep=True, hit_center=True, scale=1.0, mean=1000.0))
    return out


# ------------------------------------------------------------------ centre generators
def make_gen(p):
    k = p['k']
    g = p['gen']
    rs = np.random.RandomState(p['rs']) if p.get('seedtype') == 'state' else p['rs']
    if g == 'grid':
        return pykoop.GridCenters(n_points_per_feature=k, symmetric_range=p['sym'])
    if g == 'uniform':
        return pykoop.UniformRandomCenters(n_centers=k, symmetric_range=p['sym'], random_state=rs)
    if g == 'gaussian':
        return pykoop.GaussianRandomCenters(n_centers=k, random_state=rs)
    if g == 'qmc':
        eng = {'lhs': scipy.stats.qmc.LatinHypercube, 'sobol': scipy.stats.qmc.Sobol, 'halton': scipy.stats.qmc.Halton,
               None: None}[p.get('engine')]
        return pykoop.QmcCenters(n_centers=k, symmetric_range=p['sym'], qmc=eng, random_state=p['rs'])
    if g == 'cluster':
        import sklearn.cluster
        return pykoop.ClusterCenters(estimator=sklearn.cluster.KMeans(n_clusters=k, n_init=2, random_state=p['rs']))
    if g == 'mixture':
        import sklearn.mixture
        return pykoop.GaussianMixtureRandomCenters(
            n_centers=k, estimator=sklearn.mixture.GaussianMixture(n_components=min(2, k), random_state=p['rs']))
    if g == 'data':
        return pykoop.DataCenters()
    if g == 'data_given':
        return pykoop.DataCenters(centers=np.arange(k * p['nf'], dtype=float).reshape(k, p['nf']))
    raise KeyError(g)


def center_case(p):
    rng = np.random.default_rng(p['seed'])
    nf, k = p['nf'], p['k']
    X = rng.normal(size=(p['rows'], nf)) * rng.uniform(0.5, 3, size=nf) + rng.normal(size=nf)
    if p.get('int_typed', p['seed'] % 3 == 0):
        X = np.round(7 * X).astype(np.int64)         # whole-number data handed over as an integer-typed matrix
    import warnings
    with warnings.catch_warnings():
        warnings.simplefilter('ignore')
        g = make_gen(p).fit(X)
    C = g.centers_
    exp_k = {'grid': k**nf, 'data': p['rows']}.get(p['gen'], k)
    if np.ndim(C) != 2 or C.shape != (g.n_centers_, nf) or g.n_centers_ != exp_k:
        return dict(what='centers_ is not an array of shape (n_centers_, n_features) with the requested count',
                    shape=list(np.shape(C)), n_centers=int(g.n_centers_), expected=[exp_k, nf])
    if p['gen'] in ('grid', 'uniform', 'qmc'):
        if p['sym']:
            hi = np.max(np.abs(X), axis=0); lo = -hi
        else:
            hi = np.max(X, axis=0); lo = np.min(X, axis=0)
        if not (np.allclose(g.range_min_, lo) and np.allclose(g.range_max_, hi)):
            return dict(what='range_min_/range_max_ are not the (symmetric) per-feature range of the data')
        tol = 1e-12 * (1 + np.abs(hi) + np.abs(lo))
        if np.any(C < lo - tol) or np.any(C > hi + tol):
            return dict(what='a generated centre lies outside the per-feature range of the data',
                        lo=lo.tolist(), hi=hi.tolist(), worst=C[np.argmax(np.max(np.maximum(lo - C, C - hi), axis=1))].tolist())
    if p['gen'] == 'grid':
        lins = [np.linspace(lo[i], hi[i], k) for i in range(nf)]
        import itertools
        want = sorted(itertools.product(*[l.tolist() for l in lins]))
        got = sorted(map(tuple, C.tolist()))
        if len(got) != len(want) or not np.allclose(np.array(got), np.array(want), rtol=1e-12, atol=1e-12):
            return dict(what='grid centres are not the full Cartesian grid of the per-feature linspaces')
    if p['gen'] == 'data' and not np.array_equal(C, X):
        return dict(what='DataCenters() centres are not the data')
    if p['gen'] == 'data_given' and not np.array_equal(C, np.arange(k * nf, dtype=float).reshape(k, nf)):
        return dict(what='DataCenters(centers) does not return the given array')
    return None


def gen_center_params(rng, n):
    gens = ['grid', 'uniform', 'gaussian', 'qmc', 'cluster', 'mixture', 'data', 'data_given']
    out = []
    for i in range(n):
        g = gens[i % len(gens)]
        nf = int(rng.integers(1, 6))
        k = int(rng.choice([1, 1, 2, 3, 5]))
        if g == 'grid':
            k = int(rng.choice([1, 2, 3])); nf = min(nf, 4)
            if (i // len(gens)) % 2 == 1:
                k = 3            # every other grid: an interior point per feature (fractional for whole-number data)
        if g == 'qmc' and True:
            pass
        out.append(dict(test='center', gen=g, nf=nf, k=k, rows=int(rng.integers(max(3, k + 1), 12)),
                        sym=bool(rng.random() < 0.5), rs=int(rng.integers(0, 1000)),
                        seedtype=str(rng.choice(['int', 'state'])),
                        engine=(None if rng.random() < 0.4 else str(rng.choice(['lhs', 'sobol', 'halton']))),
                        seed=int(rng.integers(1 << 30))))
        if (i // len(gens)) % 2 == 1:
            out[-1]['int_typed'] = bool((i // (2 * len(gens))) % 2 == 0)   # deterministic share of integer-typed data
        # (Sobol warns when the count is not a power of two; the count must be honoured all the same)
    return out


def coupling_case(p):
    """random generators must not couple different features through a shared seed: over many seeds the
    normalised coordinates of two features of the same centre are uncorrelated"""
    rng = np.random.default_rng(p['seed'])
    nf = p['nf']
    X = rng.normal(size=(30, nf)) * rng.uniform(0.5, 2, size=nf)
    if p['gen'] == 'gaussian':
        X = rng.normal(size=(400, nf))          # nearly uncorrelated features
    a, b = [], []
    for s in range(p['n_seeds']):
        q = dict(p, rs=1000 + s, k=3, sym=False)
        g = make_gen(q).fit(X)
        C = g.centers_
        if p['gen'] in ('uniform', 'qmc'):
            C = (C - g.range_min_) / (g.range_max_ - g.range_min_)
        a.append(C[0, 0]); b.append(C[0, nf - 1])
    r = float(np.corrcoef(a, b)[0, 1])
    if abs(r) > p['bound']:
        return dict(what='generated centres couple different features through the seed: normalised coordinates of '
                         'two features are correlated across seeds', correlation=r, bound=p['bound'])
    return None


# ------------------------------------------------------------------ Coq correspondences
def grid_coq_cases(rng, n, batch):
    """GridCenters on integer data with integer linspace steps: centers_ vs zgrid_fit inside Coq"""
    made = 0
    samples = []
    for cid in range(n):
        nf = int(rng.integers(1, 5)); m = int(rng.integers(1, 5)); sym = bool(rng.random() < 0.5)
        rows = int(rng.integers(2, 6))
        step = rng.integers(1, 4, size=nf)
        X = np.zeros((rows, nf))
        for j in range(nf):
            span = int(step[j]) * max(1, m - 1)
            if sym:
                half = span * int(rng.integers(1, 3))         # range [-half, half], width 2*half multiple of m-1
                col = rng.integers(-half, half + 1, size=rows)
                col[int(rng.integers(rows))] = half * int(rng.choice([-1, 1]))
            else:
                lo = int(rng.integers(-5, 6))
                col = rng.integers(lo, lo + span + 1, size=rows)
                i0, i1 = rng.choice(rows, size=2, replace=False)
                col[i0] = lo; col[i1] = lo + span
            X[:, j] = col
        try:
            g = pykoop.GridCenters(n_points_per_feature=m, symmetric_range=sym).fit(X)
            C = g.centers_
        except Exception as e:  # noqa
            batch.add('', [(f'grid raised {type(e).__name__}', 'false')], dict(test='grid_coq', X=X.tolist(), m=m, sym=sym))
            continue
        if np.ndim(C) != 2 or not np.all(C == np.round(C)):
            continue
        Xs = '[' + ';'.join('[' + ';'.join(str(int(v)) for v in r) + ']' for r in X) + ']'
        Cs = '[' + ';'.join('[' + ';'.join(str(int(v)) for v in r) + ']' for r in C) + ']'
        payload = dict(test='grid_coq', X=X.tolist(), m=m, sym=sym, centers=C.tolist())
        batch.add('', [('grid', f'zrows_eqb (zgrid_fit {"true" if sym else "false"} {m}%nat {nf}%nat {Xs}) {Cs}')], payload)
        made += 1
        if len(samples) < 2:
            samples.append(payload)
    return made, samples


def observed_positions(un, ref):
    """stream index of each normalised value (matching against numpy's reference stream)"""
    out = []
    for v in np.ravel(un):
        k = np.where(np.abs(ref - v) < 1e-12)[0]
        if len(k) != 1:
            return None
        out.append(int(k[0]))
    return out


def seed_coq_cases(rng, n, batch):
    """UniformRandomCenters: which positions of numpy's stream each feature reads, vs SeedModel.uniform_pos"""
    made = 0
    samples = []
    for cid in range(n):
        nf = int(rng.integers(1, 5)); k = int(rng.integers(1, 5)); sd = int(rng.integers(0, 500))
        kind = 'int' if cid % 2 == 0 else 'state'
        adv = int(rng.integers(0, 6)) if kind == 'state' else 0
        X = rng.normal(size=(5, nf))
        ref = np.random.RandomState(sd).uniform(size=adv + nf * k + 8)
        if kind == 'int':
            arg = sd
        else:
            arg = np.random.RandomState(sd)
            if adv:
                arg.uniform(size=adv)
        g = pykoop.UniformRandomCenters(n_centers=k, random_state=arg).fit(X)
        C = np.asarray(g.centers_)
        if C.shape != (k, nf):
            batch.add('', [('seed/shape', 'false')], dict(test='seed_coq', nf=nf, k=k, seed=sd, kind=kind))
            continue
        un = (C - g.range_min_) / (g.range_max_ - g.range_min_)
        obs = [observed_positions(un[:, j], ref) for j in range(nf)]
        payload = dict(test='seed_coq', n_features=nf, n_centers=k, seed=sd, seed_type=kind, advanced_by=adv, observed=obs)
        if any(o is None for o in obs):
            batch.add('', [('seed/positions-not-in-stream', 'false')], payload)
            continue
        lit = '[' + ';'.join('[' + ';'.join(f'({sd}%nat,{q}%nat)' for q in o) + ']' for o in obs) + ']'
        a = f'(SInt {sd}%nat)' if kind == 'int' else 'SState'
        batch.add('', [(f'seed/{kind}', f'poss_eqb (uniform_pos {a} ({sd}%nat, {adv}%nat) {nf}%nat {k}%nat) {lit}')], payload)
        made += 1
        if len(samples) < 2:
            samples.append(payload)
    return made, samples


TESTS = {'rbf': rbf_case, 'center': center_case, 'coupling': coupling_case}


def known_filter(p, info):
    """F3: UniformRandomCenters with an INTEGER seed couples the features."""
    ids = known.listed(PID)
    if 'F3' in ids and p.get('test') == 'coupling' and p.get('gen') == 'uniform' and p.get('seedtype') == 'int':
        return 'F3'
    return None


def run(res, tier):
    rng = np.random.default_rng(common.seed())
    proved = driver.proof_step(res, PID, allow_axioms=common.REALS_AXIOMS + ('Classical_Prop.classic',))
    known.report_known(res, PID)
    n_rbf, n_cen, n_grid, n_seed, n_cpl = (160, 160, 60, 60, 150) if tier == "quick" else (2400, 2000, 600, 600, 400)
    bad, dist, kn = [], {}, {}
    evals = 0
    params = gen_rbf_params(rng, n_rbf) + gen_center_params(rng, n_cen)
    for g in ('uniform', 'gaussian', 'qmc', 'mixture'):
        for st in ('int', 'state'):
            if g == 'qmc' and st == 'state':
                continue
            for nf in (2, 3):
                params.append(dict(test='coupling', gen=g, seedtype=st, nf=nf, n_seeds=n_cpl, seed=int(rng.integers(1 << 30)),
                                   engine=None, bound=0.5))
    samples = []
    for p in params:
        evals += 1
        key = p['test'] + '/' + str(p.get('rbf', p.get('gen')))
        dist[key] = dist.get(key, 0) + 1
        try:
            info = TESTS[p['test']](p)
        except Exception as e:  # noqa
            info = dict(what=f'implementation raised {type(e).__name__}: {e}')
        if info:
            k = known_filter(p, info)
            if k:
                kn[k] = kn.get(k, 0) + 1
            else:
                bad.append(dict(info, params=p))
        if len(samples) < 3 and p['test'] != 'coupling':
            samples.append(p)
    batch = dp.CoqBatch('c18', header_extra='From PK Require Import GridModel SeedModel CentersZ.\n')
    n1, s1 = grid_coq_cases(rng, n_grid, batch)
    n2, s2 = seed_coq_cases(rng, n_seed, batch)
    failed, errors = batch.run(shard=60)
    res.coverage.update(
        evaluations=evals + n1 + n2, distinct_nontrivial=len({json.dumps(p, sort_keys=True) for p in params}) + n1 + n2,
        rule=('Translator tie: tools/gen_numeric.py regenerates Gen/Numeric.v (RBF row transform, 7 named radial functions, '
              'default offsets, _feature_range, uniform centre formula, grid arrangement, seed arguments) from the source; '
              'BridgeC18.v / Props/C18.v are re-checked against it. Coq correspondences (compared inside Coq): GridCenters.centers_ '
              'on integer data vs zgrid_fit (arrangement and range); stream positions read by every feature of '
              'UniformRandomCenters (int seed / advanced RandomState) vs SeedModel.uniform_pos. Direct tests: RbfLiftingFn.transform '
              'vs the documented formula for 7 names + callable x shape x offset (incl. radius = offset at a centre, thin_plate '
              'default offset, bump cut), with/without inputs and episode feature; 8 generator configurations x 1..5 features x '
              'counts {1,2,3,5} x symmetric range x seed types x QMC engines: shape, count, range, containment, full grid, '
              'data centres; cross-feature correlation over seeds for the random generators.'),
        samples=samples + s1[:1] + s2[:1], input_distribution=dist, known_finding_hits=kn,
        model_vs_impl_disagreements=len(failed), coq_case_errors=len(errors))
    res.assumptions += ['scipy samplers (uniform, multivariate normal, QMC engines), scikit-learn KMeans / GaussianMixture are oracles; '
                        'numpy MT19937 stream is replayed as the reference for the seed model',
                        'floating-point rounding is outside the theorems (rtol 1e-9 in the direct tests)']
    _dp.conclude(res, PID, proved, batch, failed, errors, bad,
                 'Props/C18.v over Gen/Numeric.v (translator tie) / grid and seed correspondences')


def replay(path):
    d = json.load(open(path))
    print(json.dumps(d, indent=1)[:3000])
    p = (d.get('case') or {}).get('params')
    if p and p.get('test') in TESTS:
        info = TESTS[p['test']](p)
        print('replayed:', info)
        return 1 if info else 0
    return 1
