"""C07 — trajectory prediction is the iterated one-step prediction."""
import numpy as np
from .. import common, driver, direct, known
from . import _dp

LEVEL = 'proof'
PID = 'C07'


def kfilter(ids):
    def f(case, name, info):
        if 'F11' in ids and known.F11(case):
            return 'F11'
        return None
    return f


def run(res, tier):
    rng = np.random.default_rng(common.seed())
    proved = driver.proof_step(res, PID)
    ids = known.report_known(res, PID)
    n_m2, n_dir = (40, 60) if tier == 'quick' else (500, 1200)
    batch, failed, errors, dist, distinct, samples = _dp.run_m2(
        'c07', rng, n_m2, ('predict', 'ptraj'), gen_kw=dict(max_len=2, max_depth=1), shard=3)
    ev, bad, kn, s2 = _dp.run_direct(
        rng, n_dir, [('prediction', lambda c, r, kp: direct.c07_prediction(c, r, kp))],
        known_filter=kfilter(ids), gen_kw=dict(max_len=2, max_depth=2))
    n3, bad3 = direct.c07_divergence(rng)
    bad = bad + bad3
    ev += n3
    n4, bad4 = direct.c07_inplace_substage(rng)
    bad = bad + bad4
    ev += n4
    res.coverage.update(
        divergence_branch_cases=n3,
        evaluations=len(batch.meta) + ev, distinct_nontrivial=distinct + ev,
        rule=('M2: predict and predict_trajectory (relift True/False x return_lifted x return_input x both call forms) with an '
              'integer DataRegressor on integer-exact pipelines (delays with dx != du, splits, nested pipelines), compared '
              'inside Coq with Helpers.v. Direct: real pipelines with a random contractive Koopman matrix; the recursion of '
              'the property is recomputed step by step through the public helpers (lift_state / lift_input / '
              'retract_state), theta recursion, verbatim initial conditions, input pass-through, row counts, '
              'episode independence, call-form equality.'),
        samples=samples + s2, input_distribution=dist, model_vs_impl_disagreements=len(failed),
        coq_case_errors=len(errors), known_finding_hits=kn)
    res.assumptions += ['the NaN / "prediction diverged" branch is not modelled in Coq; it is exercised directly: a diverging episode must leave the other episodes bit-identical to predicting them alone']
    _dp.conclude(res, PID, proved, batch, failed, errors, bad,
                 'Props/C07.v / M2 predict + predict_trajectory correspondence')


def replay(path):
    return _dp.replay_direct(path)
