"""C03 — episodes are never mixed and samples keep their temporal order."""
import json
import numpy as np
from .. import common, driver, direct, known, datapath as dp, stagegen as sg
from . import _dp
import pykoop

LEVEL = 'proof'
PID = 'C03'


def kfilter(ids):
    def f(case, name, info):
        if 'F11' in ids and known.F11(case) and 'inverse' in (info or {}).get('what', ''):
            return 'F11'
        if 'F12' in ids and known.F12(case):
            return 'F12'
        return None
    return f


def utils_m2(rng, n):
    """Episode utilities vs the Coq model on layouts designed for this property."""
    batch = dp.CoqBatch('c03u', header_extra='From PK Require Import EpisodesFacts ShiftFacts.\n')
    bad = []
    for cid in range(n):
        ns = int(rng.integers(1, 3)); nu = int(rng.integers(0, 3))
        order, mode = sg.gen_layout(rng, 1, max_eps=5, extra=4, many=True if cid in (1, 2, 3) else None)
        X = sg.gen_data(rng, order, ns, nu, True, tagged=True)
        w = int(rng.integers(1, 4))
        p = f'u{cid}'
        defs = f'Definition {p}_X : dmat Z := {sg.render_dmat(X, True)}.'
        checks = []
        eps = pykoop.split_episodes(X, episode_feature=True)
        comb = pykoop.combine_episodes(eps, episode_feature=True)
        checks.append(('combine_split', f'dmat_eqb (combine true (split true {p}_X)) {sg.render_dmat(comb, True)}'))
        labs = '[' + ';'.join(f'{int(i)}%N' for i, _ in eps) + ']'
        checks.append(('unique', f'list_eqb N.eqb (uniq (labels {p}_X)) {labs}'))
        for (i, E) in eps:
            checks.append((f'episode/{int(i)}', f'rows_eqb (episode true {int(i)}%N {p}_X) {sg.render_raw(E)}'))
        U, S = pykoop.shift_episodes(X, n_inputs=nu, episode_feature=True)
        checks.append(('shift_u', f'dmat_eqb (fst (shift_episodes true {nu}%nat {p}_X)) {sg.render_dmat(U, True)}'))
        checks.append(('shift_s', f'dmat_eqb (snd (shift_episodes true {nu}%nat {p}_X)) {sg.render_dmat(S, True)}'))
        ic = pykoop.extract_initial_conditions(X, min_samples=w, n_inputs=nu, episode_feature=True)
        checks.append(('extract_ic', f'dmat_eqb (extract_ic true {w}%nat {nu}%nat {p}_X) {sg.render_dmat(ic, True)}'))
        ui = pykoop.extract_input(X, n_inputs=nu, episode_feature=True)
        checks.append(('extract_input', f'dmat_eqb (extract_input true {nu}%nat {p}_X) {sg.render_dmat(ui, True)}'))
        st = pykoop.strip_initial_conditions(X, min_samples=w, episode_feature=True)
        checks.append(('strip_ic', f'dmat_eqb (strip_ic true {w}%nat {p}_X) {sg.render_dmat(st, True)}'))
        batch.add(defs, checks, dict(kind='utils', layout=mode, X=X.tolist(), n_inputs=nu, min_samples=w))
        # direct: the utilities never mix episodes (tagged cells decode to their source)
        tag_ok = True
        for (i, E) in eps:
            src = X[X[:, 0] == i][:, 1:]
            tag_ok = tag_ok and np.array_equal(E, src)
        Ue = direct.episodes_of(U, True); Se = direct.episodes_of(S, True)
        for (i, E) in eps:
            if E.shape[0] >= 2:
                tag_ok = tag_ok and np.array_equal(Ue[i], E[:-1]) and np.array_equal(Se[i], E[1:, :E.shape[1] - nu] if nu else E[1:])
        if not tag_ok:
            bad.append(dict(what='episode utility mixed or reordered episodes', X=X.tolist(), n_inputs=nu))
    failed, errors = batch.run(shard=25)
    return batch, failed, errors, bad


def run(res, tier):
    rng = np.random.default_rng(common.seed())
    proved = driver.proof_step(res, PID)
    ids = known.report_known(res, PID)
    n_u, n_m2, n_dir = (80, 90, 150) if tier == 'quick' else (800, 1000, 2500)
    ub, ufailed, uerrors, ubad = utils_m2(rng, n_u)
    batch, failed, errors, dist, distinct, samples = _dp.run_m2(
        'c03', rng, n_m2, ('transform', 'inverse'), gen_kw=dict(max_len=3, max_depth=2, max_eps=5))
    ev, bad, kn, s2 = _dp.run_direct(
        rng, n_dir, [('episodes', lambda c, r, kp: direct.c03_episodes(c, r, kp))],
        known_filter=kfilter(ids),
        gen_kw=dict(max_len=3, max_depth=2, force_ep=True, min_eps=2, max_eps=5, short_prob=0.15))
    res.coverage.update(
        evaluations=len(batch.meta) + len(ub.meta) + ev, distinct_nontrivial=distinct + n_u + ev,
        rule=('M2 (utilities): split/combine/unique/shift/extract_ic/extract_input/strip_ic on tagged integer matrices with '
              'interleaved rows, descending blocks, label gaps, unequal lengths, compared inside Coq. M2 (pipelines): '
              'transform/inverse of random pipelines on multi-episode layouts. Direct: each episode alone vs inside the '
              'matrix (transform and inverse), rearrangement, causality perturbation outside the min_samples_ window, '
              'including episodes of length < min_samples_ (error branch).'),
        samples=samples + s2, input_distribution=dist,
        model_vs_impl_disagreements=len(failed) + len(ufailed), coq_case_errors=len(errors) + len(uerrors),
        known_finding_hits=kn)
    if ufailed or uerrors:
        # fold the utilities batch into the verdict
        for i in ufailed:
            batch.meta[10_000_000 + i] = ub.meta[i]
        failed = failed + [10_000_000 + i for i in ufailed]
        errors = errors + uerrors
    _dp.conclude(res, PID, proved, batch, failed, errors, bad + ubad,
                 'Props/C03.v / M2 episode-utility and transform correspondence')


def replay(path):
    return _dp.replay_direct(path)
