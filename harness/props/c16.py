"""C16 — lift/retract helpers agree with transform for every episode flag."""
import numpy as np
from .. import common, driver, direct, known
from . import _dp

LEVEL = 'proof'
PID = 'C16'


def run(res, tier):
    rng = np.random.default_rng(common.seed())
    proved = driver.proof_step(res, PID)
    known.report_known(res, PID)
    n_m2, n_dir = (45, 120) if tier == 'quick' else (500, 2000)
    batch, failed, errors, dist, distinct, samples = _dp.run_m2(
        'c16', rng, n_m2, ('helpers',), gen_kw=dict(max_len=2, max_depth=1), shard=4)
    ev, bad, kn, s2 = _dp.run_direct(
        rng, n_dir, [('helpers', lambda c, r, kp: direct.c16_helpers(c, r, kp))],
        gen_kw=dict(max_len=3, max_depth=2))
    # a bare lifting function fitted again with another state / input split: dimensions, transform and helpers of a fresh one
    n4, bad4 = direct.leaf_refit(rng, helpers=True)
    ev += n4; bad = bad + [dict(b, test='leaf_refit') for b in bad4]
    res.coverage.update(
        evaluations=len(batch.meta) + ev, distinct_nontrivial=distinct + ev,
        rule=('M2: lift, retract, lift_state, lift_input, retract_state, retract_input for call-time episode_feature in '
              '{None, True, False} against both fit-time settings, on integer-exact pipelines, every output compared '
              'inside Coq with Helpers.v. Direct: real pipelines; lift/retract vs transform/inverse_transform on data '
              'padded/stripped/split by an independent reference, lift_state/lift_input = column blocks of lift, '
              'None = fit-time value, retract_* invert lift_* (trailing samples).'),
        samples=samples + s2, input_distribution=dist, model_vs_impl_disagreements=len(failed),
        coq_case_errors=len(errors))
    _dp.conclude(res, PID, proved, batch, failed, errors, bad,
                 'Props/C16.v / M2 helper correspondence (6 helpers x 3 call flags)')


def replay(path):
    return _dp.replay_direct(path)
