"""C08 — scores measure prediction error against the aligned ground truth."""
import json
import warnings
from fractions import Fraction

import numpy as np

from .. import common, driver, known, datapath as dp, stagegen as sg, direct
from . import _dp
import pykoop

LEVEL = 'proof'
PID = 'C08'


def qnum(x):
    f = Fraction(x).limit_denominator(10 ** 6) if not isinstance(x, Fraction) else x
    return f'({f.numerator} # {f.denominator})' if f.numerator >= 0 else f'(({f.numerator}) # {f.denominator})'


def qexact(x):
    f = Fraction(float(x))
    return f'({f.numerator} # {f.denominator})' if f.numerator >= 0 else f'(({f.numerator}) # {f.denominator})'


def qdmat(X, ep):
    rows = []
    for r in np.asarray(X):
        l = int(r[0]) if ep else 0
        cells = r[1:] if ep else r
        rows.append(f'({l}%N,[' + ';'.join(qnum(Fraction(int(v))) for v in cells) + '])')
    return '[' + ';'.join(rows) + ']'


def oracle_score(Xp, Xe, n_steps, d, metric, min_samples, ep):
    """independent reading of the property: per episode, drop min_samples rows, weight d**k on step k,
    zero beyond n_steps, negated weighted error at the same time steps"""
    ee = direct.episodes_of(Xe, ep); pp = direct.episodes_of(Xp, ep)
    num = 0.0; den = 0.0
    for l in sorted(ee):
        E = ee[l][min_samples:]; P = pp[l][min_samples:]
        for k in range(E.shape[0]):
            w = (d ** k) if (n_steps is None or k < n_steps) else 0.0
            e = np.mean((P[k] - E[k]) ** 2) if metric == 'neg_mean_squared_error' else np.mean(np.abs(P[k] - E[k]))
            num += w * e; den += w
    return -num / den


def formula_cases(rng, n):
    batch = dp.CoqBatch('c08', header_extra='From Coq Require Import QArith Qabs.\nFrom PK Require Import Score.\n')
    bad = []; samples = []; dist = {}
    shared_kw = {}          # one dict shared by all calls: score_trajectory must not keep state in it
    for cid in range(n):
        ns = int(rng.integers(1, 4))
        ep = bool(rng.random() < 0.75)
        w = int(rng.integers(1, 4))
        # one episode in three (when there are several) has no sample beyond its initial conditions: nothing of it is scored
        order, mode = sg.gen_layout(rng, w + 1, short_prob=(0.3 if ep else 0.0), max_eps=4 if ep else 1, extra=5)
        if not ep:
            order = [0] * len(order)
        if ep and all(order.count(l) <= w for l in set(order)):
            order = order + [max(order) + 1] * (w + 2)        # at least one episode is scored
        Xe = sg.gen_data(rng, order, ns, 0, ep)
        Xp = Xe.copy()
        off = 1 if ep else 0
        Xp[:, off:] += rng.integers(-2, 3, size=(Xe.shape[0], ns))
        n_steps = None if rng.random() < 0.3 else int(rng.integers(1, 7))
        d = [Fraction(1), Fraction(1, 2), Fraction(3, 4), Fraction(0), Fraction(9, 10)][int(rng.integers(0, 5))]
        metric = ['neg_mean_squared_error', 'neg_mean_absolute_error'][cid % 2]
        es_kind = ['nan', 'raise', 'finite_low', 'finite_high', 'zero', 'zero_int'][cid % 6]
        es = {'nan': np.nan, 'raise': 'raise', 'finite_low': -1000.0, 'finite_high': -0.5, 'zero': 0.0, 'zero_int': 0}[es_kind]
        kw = shared_kw if cid % 3 == 0 else None
        dist[f'{metric[4:]}/{es_kind}'] = dist.get(f'{metric[4:]}/{es_kind}', 0) + 1
        with warnings.catch_warnings():
            warnings.simplefilter('ignore')
            try:
                got = pykoop.score_trajectory(Xp, Xe, n_steps=n_steps, discount_factor=float(d), regression_metric=metric,
                                              regression_metric_kw=kw, error_score=es, min_samples=w, episode_feature=ep)
                raised = False
            except ValueError:
                got = None; raised = True
        payload = dict(n_steps=n_steps, discount_factor=str(d), metric=metric, error_score=str(es), min_samples=w,
                       episode_feature=ep, X_expected=Xe.tolist(), X_predicted=Xp.tolist(), shared_kw=kw is not None)
        if kw is not None and kw:
            bad.append(dict(payload, what='score_trajectory stored state in the caller\'s regression_metric_kw dictionary',
                            kw_keys=sorted(kw)))
            shared_kw.clear()
        want = oracle_score(Xp, Xe, n_steps, float(d), metric, w, ep)
        if isinstance(es, (int, float)) and not isinstance(es, bool) and np.isfinite(es) and want < es:
            want_out = ('error_score', es)
        else:
            want_out = ('score', want)
        if raised or got is None or not np.isfinite(got) or abs(got - want_out[1]) > 1e-9 * max(1.0, abs(want_out[1])):
            bad.append(dict(payload, what='score differs from the negated discount-weighted error at aligned time steps',
                            got=None if got is None else float(got), expected=want_out[1]))
        # M2: the Coq model over Q
        m = 'MSE' if metric == 'neg_mean_squared_error' else 'MAE'
        ns_ = 'None' if n_steps is None else f'(Some {n_steps}%nat)'
        es_ = {'nan': '(Some None)', 'raise': 'None', 'finite_low': f'(Some (Some {qnum(Fraction(-1000))}))',
               'finite_high': f'(Some (Some {qnum(Fraction(-1, 2))}))', 'zero': f'(Some (Some {qnum(Fraction(0))}))',
               'zero_int': f'(Some (Some {qnum(Fraction(0))}))'}[es_kind]
        model = (f'score_trajectory {m} {ns_} {qnum(d)} {es_} {w}%nat {str(ep).lower()} true '
                 f'{qdmat(Xp, ep)} {qdmat(Xe, ep)}')
        if got is not None and isinstance(es, (int, float)) and np.isfinite(es) and got == es:
            expr = (f'match {model} with ErrorScore => true | Score s => Qle_bool (Qabs (s - {qexact(got)})) (1 # 1000000000) '
                    f'| _ => false end')
        elif got is not None:
            expr = (f'match {model} with Score s => Qle_bool (Qabs (s - {qexact(got)})) (1 # 1000000000) | _ => false end')
        else:
            expr = 'false'
        batch.add('', [('score', expr)], payload)
        if len(samples) < 2:
            samples.append({k: v for k, v in payload.items() if not k.startswith('X_')} | dict(score=None if got is None else float(got)))
    # non-finite inputs: error_score or raise
    for es in (np.nan, -7.0, 'raise'):
        Xe = np.array([[1.0, 2.0], [2.0, 3.0], [3.0, 4.0]]); Xp = Xe.copy(); Xp[1, 0] = np.inf
        with warnings.catch_warnings():
            warnings.simplefilter('ignore')
            try:
                got = pykoop.score_trajectory(Xp, Xe, error_score=es)
                ok = (np.isnan(got) if isinstance(es, float) and np.isnan(es) else got == es) and es != 'raise'
            except ValueError:
                ok = es == 'raise'
        dist['nonfinite'] = dist.get('nonfinite', 0) + 1
        if not ok:
            bad.append(dict(what='non-finite prediction does not yield error_score / raise', error_score=str(es)))
    failed, errors = batch.run(shard=40)
    return batch, failed, errors, bad, samples, dist


def scorer_cases(rng, n, ids):
    """make_scorer / KoopmanPipeline.score agree with score_trajectory applied to predict_trajectory;
    a model that reproduces the data exactly gets the best score"""
    bad = []; ev = 0; kn = {}
    for cid in range(n):
        ns = int(rng.integers(1, 3)); nu = int(rng.integers(0, 2))
        A = rng.normal(size=(ns, ns)) * 0.4; B = rng.normal(size=(ns, nu))
        rows = []
        for l in range(int(rng.integers(1, 4))):
            x = rng.normal(size=ns)
            for _ in range(int(rng.integers(6, 12))):
                u = rng.normal(size=nu)
                rows.append([float(l)] + list(x) + list(u))
                x = A @ x + (B @ u if nu else 0)
        X = np.array(rows)
        delays = int(rng.integers(0, 3))
        lfs = [('d', pykoop.DelayLiftingFn(delays, delays))] if delays else None
        kp = pykoop.KoopmanPipeline(lifting_functions=lfs, regressor=pykoop.Edmd())
        kp.fit(X, n_inputs=nu, episode_feature=True)
        n_steps = None if rng.random() < 0.4 else int(rng.integers(1, 6))
        d = float(rng.choice([1.0, 0.8, 0.5]))
        for multistep in (True, False):
            ev += 1
            scorer = pykoop.KoopmanPipeline.make_scorer(n_steps=n_steps, discount_factor=d, multistep=multistep)
            try:
                with warnings.catch_warnings():
                    warnings.simplefilter('ignore')
                    s = scorer(kp, X, None)
            except Exception as e:  # noqa
                bad.append(dict(what=f'scorer raised {type(e).__name__}: {e} on valid data', multistep=multistep,
                                n_steps=n_steps, discount_factor=d, n_delays=delays, X=X.tolist()))
                continue
            Xu, Xs = pykoop.shift_episodes(X, n_inputs=nu, episode_feature=True)
            if multistep:
                x0 = pykoop.extract_initial_conditions(Xu, min_samples=kp.min_samples_, n_inputs=nu, episode_feature=True)
                u = pykoop.extract_input(Xu, n_inputs=nu, episode_feature=True)
                P = kp.predict_trajectory(x0, u)
                ref = pykoop.score_trajectory(P, Xs, n_steps=n_steps, discount_factor=d, min_samples=kp.min_samples_,
                                              episode_feature=True)
            else:
                P = kp.predict(Xu)
                ref = pykoop.score_trajectory(P, Xs, min_samples=kp.min_samples_, episode_feature=True)
            if abs(s - ref) > 1e-12 * max(1.0, abs(ref)):
                bad.append(dict(what='scorer disagrees with score_trajectory applied to the prediction', multistep=multistep,
                                scorer=float(s), reference=float(ref), X=X.tolist()))
            # exact model (noise-free linear data, Edmd recovers it): best attainable score is 0
            if abs(s) > 1e-8:
                if multistep and 'F8' in ids:
                    kn['F8'] = kn.get('F8', 0) + 1
                else:
                    bad.append(dict(what='a model that reproduces the data exactly does not receive the best attainable score',
                                    multistep=multistep, score=float(s), X=X.tolist(), n_delays=delays))
        ev += 1
        with warnings.catch_warnings():
            warnings.simplefilter('ignore')
            if abs(kp.score(X) - pykoop.KoopmanPipeline.make_scorer()(kp, X, None)) > 1e-12:
                bad.append(dict(what='KoopmanPipeline.score disagrees with the default scorer', X=X.tolist()))
    return ev, bad, kn


def diverged_scorer_cases():
    """a model whose multi-step prediction leaves the floating-point range (unstable Koopman matrix, no lifting or only a delay,
    long horizon): the scorers return the numeric error_score, the default score is NaN, error_score='raise' raises; a
    short horizon scores normally"""
    bad = []
    n = 0
    rng = np.random.default_rng(3)
    for delays in (0, 1):
        ns = 2
        T = 400
        X = np.hstack((np.zeros((T, 1)), rng.uniform(-1, 1, size=(T, ns))))
        lfs = [('d', pykoop.DelayLiftingFn(delays, delays))] if delays else None
        p = ns * (delays + 1)
        kp = pykoop.KoopmanPipeline(lifting_functions=lfs, regressor=pykoop.DataRegressor(coef=10.0 * np.eye(p)))
        kp.fit(X, n_inputs=0, episode_feature=True)
        for relift in (True, False):
            with warnings.catch_warnings():
                warnings.simplefilter('ignore')
                n += 1
                try:
                    got = pykoop.KoopmanPipeline.make_scorer(error_score=-1e6, relift_state=relift)(kp, X, None)
                    ok = (got == -1e6)
                    info = dict(returned=float(got))
                except Exception as e:  # noqa
                    ok, info = False, dict(exception=f'{type(e).__name__}: {e}'[:200])
                if not ok:
                    bad.append(dict(what='a diverged multi-step prediction does not yield the numeric error_score from the scorer',
                                    relift_state=relift, n_delays=delays, **info))
                    continue
                n += 1
                try:
                    pykoop.KoopmanPipeline.make_scorer(error_score='raise', relift_state=relift)(kp, X, None)
                    bad.append(dict(what="a diverged multi-step prediction does not raise with error_score='raise'", relift_state=relift,
                                    n_delays=delays))
                except ValueError:
                    pass
                except Exception as e:  # noqa
                    bad.append(dict(what=f"error_score='raise' raised {type(e).__name__} instead of ValueError: {e}"[:300],
                                    relift_state=relift, n_delays=delays))
        n += 1
        with warnings.catch_warnings():
            warnings.simplefilter('ignore')
            try:
                s_ = kp.score(X)
                if not np.isnan(s_):
                    bad.append(dict(what='KoopmanPipeline.score of a diverged prediction is not NaN (the default error_score)', score=float(s_)))
                s2_ = kp.score(X[:6 + delays])
                if not np.isfinite(s2_):
                    bad.append(dict(what='a short horizon of the same model does not score normally', score=float(s2_)))
            except Exception as e:  # noqa
                bad.append(dict(what=f'KoopmanPipeline.score raised {type(e).__name__}: {e} on a diverging model'[:300], n_delays=delays))
    return n, bad


def run(res, tier):
    rng = np.random.default_rng(common.seed())
    proved = driver.proof_step(res, PID)
    ids = known.report_known(res, PID)
    n_f, n_s = (120, 12) if tier == 'quick' else (1500, 150)
    batch, failed, errors, bad, samples, dist = formula_cases(rng, n_f)
    ev, bad2, kn = scorer_cases(rng, n_s, ids)
    n_d, bad_d = diverged_scorer_cases()
    ev += n_d; bad2 = bad2 + bad_d
    res.coverage.update(
        evaluations=len(batch.meta) + ev, distinct_nontrivial=len(batch.meta) + ev,
        rule=('Formula: integer trajectories on random episode layouts, min_samples 1..3, n_steps None/1..6, discount in '
              '{1, 1/2, 3/4, 9/10, 0}, MSE / MAE, error_score in {nan, raise, finite low, finite high, 0.0, 0}; one call in three shares one '
              'regression_metric_kw dict; the returned float is compared inside Coq with the exact rational value of the model '
              '(Score.v) to 1e-9, and with an independent oracle. Scorer: exact linear models behind optional delay pipelines; '
              'scorer = score_trajectory(predict_trajectory / predict); perfect model must score 0 (one-step scorer; the '
              'multi-step scorer is recorded finding F8); KoopmanPipeline.score = default scorer; non-finite inputs.'),
        samples=samples, input_distribution=dist, model_vs_impl_disagreements=len(failed), coq_case_errors=len(errors),
        known_finding_hits=kn)
    res.assumptions += ['scikit-learn metric functions are oracles; only MSE / MAE are modelled, the other five metric names '
                        'go through the same guard / sign / floor wrapper']
    _dp.conclude(res, PID, proved, batch, failed, errors, bad + bad2, 'Props/C08.v / exact score correspondence in Coq')


def replay(path):
    d = json.load(open(path)); print(json.dumps(d, indent=1)[:3000]); return 1
