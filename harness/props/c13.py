"""C13 — DMD eigenvalues, modes and rank agree with the returned operator."""
import json

import numpy as np

from .. import common, driver, known
from . import _dp
import pykoop

LEVEL = 'translation_validation'
PID = 'C13'


def gen_data(rng):
    ns = int(rng.integers(2, 7)); nu = int(rng.choice([0, 0, 1, 2]))
    A = rng.normal(size=(ns, ns)) * 0.6 / np.sqrt(ns)
    B = rng.normal(size=(ns, nu))
    few = rng.random() < 0.3           # fewer snapshot pairs than states
    lens = [int(rng.integers(2, 5)) for _ in range(int(rng.integers(1, 3)))] if few else \
        [int(rng.integers(ns + nu + 2, ns + nu + 12)) for _ in range(int(rng.integers(1, 4)))]
    rows = []
    for l, n in enumerate(lens):
        x = rng.normal(size=ns)
        for _ in range(n):
            u = rng.normal(size=nu)
            rows.append([float(l)] + list(x) + list(u))
            x = A @ x + (B @ u if nu else 0) + 0.05 * rng.normal(size=ns)
    if rng.random() < 0.2:             # rank-deficient data: duplicate a state
        X = np.array(rows); X[:, 1 + ns - 1] = X[:, 1]
        return ns, nu, X
    return ns, nu, np.array(rows)


def tsvd_options(rng, k):
    opts = [None, pykoop.Tsvd(), pykoop.Tsvd('rank', int(rng.integers(1, k + 1))),
            pykoop.Tsvd('rank', max(1, k - 1)), pykoop.Tsvd('cutoff', 1e-6), pykoop.Tsvd('unknown_noise')]
    return opts[int(rng.integers(0, len(opts)))]


def requested_truncations_kept(reg):
    """tsvd_ / tsvd_unshifted_ / tsvd_shifted_ must be fitted copies of the truncations the estimator was given"""
    import joblib
    for given, fitted in (('tsvd', 'tsvd_'), ('tsvd_unshifted', 'tsvd_unshifted_'), ('tsvd_shifted', 'tsvd_shifted_')):
        if hasattr(reg, given) and hasattr(reg, fitted):
            g = getattr(reg, given)
            want = (g if g is not None else pykoop.Tsvd()).get_params()
            got = getattr(reg, fitted).get_params()
            if joblib.hash(want) != joblib.hash(got):
                return dict(what=f'{fitted} was not fitted with the truncation requested through `{given}`: the retained rank it '
                                 'reports is not the one of the requested rule', requested=str(want), used=str(got))
    return None


def check_fit(reg, X, ns, nu, name):
    info = requested_truncations_kept(reg)
    if info:
        return info
    coef = reg.coef_
    A = coef.T[:, :ns]
    L = np.asarray(reg.eigenvalues_); V = np.asarray(reg.modes_)
    scale = max(1.0, float(np.max(np.abs(A))))
    if np.iscomplexobj(coef):
        return dict(what='returned Koopman matrix is not real')
    if V.shape != (ns, L.shape[0]):
        return dict(what='modes_ / eigenvalues_ shapes inconsistent', modes=list(V.shape), eigs=int(L.shape[0]))
    r = L.shape[0]
    res = float(np.max(np.abs(A @ V - V * L[None, :]))) if r else 0.0
    if res > 1e-7 * scale * max(1.0, float(np.max(np.abs(V))) if r else 1.0):
        return dict(what='eigenvalues_/modes_ are not eigenpairs of the state-transition block', residual=res)
    # retained rank
    ts = getattr(reg, 'tsvd_shifted_', None) or getattr(reg, 'tsvd_', None)
    rr = int(ts.singular_values_.shape[0])
    sv = np.linalg.svd(A, compute_uv=False)
    num_rank = int(np.sum(sv > 1e-8 * max(1.0, sv[0] if sv.size else 1.0)))
    if num_rank > rr:
        return dict(what='rank of the state-transition block exceeds the retained rank of the truncated SVD',
                    rank=num_rank, retained=rr)
    # non-zero spectrum
    ea = np.linalg.eigvals(A)
    nz_a = np.sort_complex(ea[np.abs(ea) > 1e-7 * scale])
    nz_l = np.sort_complex(L[np.abs(L) > 1e-7 * scale])
    well_posed = (r == 0) or np.linalg.cond(V) < 1e6     # hypothesis W V = 1 of theorem C13_spectrum: modes of full column rank
    if well_posed and (nz_a.shape != nz_l.shape or (nz_a.size and np.max(np.abs(nz_a - nz_l)) > 1e-6 * scale)):
        return dict(what='non-zero spectrum of the state-transition block differs from eigenvalues_',
                    spectrum=[str(z) for z in nz_a], eigenvalues=[str(z) for z in nz_l])
    # certificate of theorem C13: A = V diag(L) W with W V = 1 (W = pseudo-inverse of V)
    if r:
        W = np.linalg.pinv(V)
        c1 = float(np.max(np.abs(W @ V - np.eye(r))))
        c2 = float(np.max(np.abs(np.real(V @ np.diag(L) @ W) - A)))
        if np.linalg.cond(V) < 1e6 and (c1 > 1e-6 or c2 > 1e-6 * scale):
            return dict(what='operator is not V diag(eigenvalues_) V^+ (certificate of C13 fails)', WV_err=c1, A_err=c2)
    return None


def run(res, tier):
    rng = np.random.default_rng(common.seed())
    proved = driver.proof_step(res, PID)
    known.report_known(res, PID)
    n = 60 if tier == 'quick' else 900
    bad = []; evals = 0; dist = {}; samples = []
    for cid in range(n):
        ns, nu, X = gen_data(rng)
        epflag = True
        if cid % 4 == 3:
            # whole-number data handed over as an integer-typed matrix (the fit depends on the values only); without an
            # episode column, because splitting into episodes converts to float
            X = np.round(4 * X)
            X = X[X[:, 0] == X[0, 0]][:, 1:].astype(np.int64)
            epflag = False
        k = ns + nu
        cfgs = []
        for mode in ('projected', 'exact'):
            cfgs.append(('Dmdc', mode, lambda m=mode: pykoop.Dmdc(mode_type=m, tsvd_unshifted=tsvd_options(rng, k),
                                                                  tsvd_shifted=tsvd_options(rng, ns))))
            cfgs.append(('Dmdc', mode, lambda m=mode: pykoop.Dmdc(mode_type=m)))
            if ns >= 2:
                cfgs.append(('Dmdc', mode, lambda m=mode: pykoop.Dmdc(mode_type=m, tsvd_unshifted=pykoop.Tsvd('rank', k),
                                                                      tsvd_shifted=pykoop.Tsvd('rank', max(1, ns - 1)))))
            if nu == 0:
                cfgs.append(('Dmd', mode, lambda m=mode: pykoop.Dmd(mode_type=m, tsvd=tsvd_options(rng, ns))))
                cfgs.append(('Dmd', mode, lambda m=mode: pykoop.Dmd(mode_type=m)))
        for name, mode, mk in cfgs:
            reg = mk()
            desc = repr(reg)
            try:
                reg.fit(X, n_inputs=nu, episode_feature=epflag)
                common.note_case('fit', repr(reg), X)
            except Exception as e:  # noqa  (degenerate truncations the estimator itself rejects)
                dist['fit_rejected'] = dist.get('fit_rejected', 0) + 1
                continue
            if not np.all(np.isfinite(reg.coef_)):
                dist['nonfinite'] = dist.get('nonfinite', 0) + 1
                continue
            # retained singular values that are numerically zero are inverted by the algorithm
            # (diag(1/sigma)): such fits are outside the domain (rank-deficient data need a truncation)
            svs = [t.singular_values_ for t in (getattr(reg, 'tsvd_', None), getattr(reg, 'tsvd_unshifted_', None),
                                                getattr(reg, 'tsvd_shifted_', None)) if t is not None]
            if any(sv.size == 0 or np.min(sv) <= 1e-9 * np.max(sv) for sv in svs):
                dist['numerically_zero_singular_value_retained'] = dist.get('numerically_zero_singular_value_retained', 0) + 1
                continue
            evals += 1
            dist[f'{name}/{mode}'] = dist.get(f'{name}/{mode}', 0) + 1
            if cid % 3 == 1:
                # the documented read-only helpers (plots, frequency response, predict) are called first: what is
                # published must still be consistent afterwards
                from .. import readonly
                readonly.exercise(reg, X if epflag else None)
                dist['after_read_only_helpers'] = dist.get('after_read_only_helpers', 0) + 1
            info = check_fit(reg, X, ns, nu, name)
            if info:
                bad.append(dict(info, regressor=desc, n_states=ns, n_inputs=nu, X=X.tolist()))
            if len(samples) < 2:
                samples.append(dict(regressor=desc, n_states=ns, n_inputs=nu, rows=int(X.shape[0]),
                                    eigenvalues=[str(z) for z in reg.eigenvalues_]))
    # one Tsvd object handed to two regressors: each must work on its own copy (the published SVD of the first must
    # not change when the second is fitted, and the user's object must stay unfitted)
    for h in range(4 if tier == 'quick' else 20):
        ns_, nu_, X1 = gen_data(rng); _, _, X2 = gen_data(rng)
        if X2.shape[1] != X1.shape[1] or nu_ != 0 and h % 2 == 0:
            X2 = 3.0 * X1[::-1].copy(); X2[:, 0] = X1[:, 0]
        t = pykoop.Tsvd('cutoff', 0.2)
        try:
            if nu_ == 0 and h % 2 == 0:
                r1 = pykoop.Dmd(tsvd=t).fit(X1, n_inputs=0, episode_feature=True)
                before = [r1.tsvd_.singular_values_.copy()]
                pykoop.Dmd(tsvd=t).fit(X2, n_inputs=0, episode_feature=True)
                after = [r1.tsvd_.singular_values_]
            else:
                r1 = pykoop.Dmdc(tsvd_unshifted=t, tsvd_shifted=t).fit(X1, n_inputs=nu_, episode_feature=True)
                before = [r1.tsvd_unshifted_.singular_values_.copy(), r1.tsvd_shifted_.singular_values_.copy()]
                pykoop.Dmdc(tsvd_unshifted=t, tsvd_shifted=t).fit(X2, n_inputs=nu_, episode_feature=True)
                after = [r1.tsvd_unshifted_.singular_values_, r1.tsvd_shifted_.singular_values_]
        except Exception:  # noqa
            dist['fit_rejected'] = dist.get('fit_rejected', 0) + 1
            continue
        evals += 1
        dist['shared_tsvd_object'] = dist.get('shared_tsvd_object', 0) + 1
        if hasattr(t, 'singular_values_') or any(a.shape != b.shape or not np.array_equal(a, b) for a, b in zip(after, before)):
            bad.append(dict(what='fitting a second regressor built with the same Tsvd object changed the truncated SVD published by the '
                                 'first one (retained rank / singular values no longer belong to its operator), or fitted the user\'s object',
                            regressor=repr(r1), user_object_fitted=hasattr(t, 'singular_values_'), X=X1.tolist()))
    # history: a refit that is refused (a parameter value the estimator does not accept, here a differently cased mode name)
    # leaves the attributes of the earlier completed fit: eigenvalues_, modes_ and coef_ still belong together
    for h in range(4 if tier == 'quick' else 16):
        ns_, nu_, X1 = gen_data(rng); _, _, X2 = gen_data(rng)
        try:
            if nu_ == 0 and h % 2 == 0:
                reg = pykoop.Dmd(mode_type='projected').fit(X1, n_inputs=0, episode_feature=True)
            else:
                reg = pykoop.Dmdc(mode_type='projected').fit(X1, n_inputs=nu_, episode_feature=True)
        except Exception:  # noqa
            continue
        # (the domain of the ordinary cases: finite result, no numerically zero singular value retained)
        svs_ = [t.singular_values_ for t in (getattr(reg, 'tsvd_', None), getattr(reg, 'tsvd_unshifted_', None),
                                             getattr(reg, 'tsvd_shifted_', None)) if t is not None]
        if not np.all(np.isfinite(reg.coef_)) or any(sv.size == 0 or np.min(sv) <= 1e-9 * np.max(sv) for sv in svs_) \
                or check_fit(reg, X1, ns_, nu_, type(reg).__name__):
            continue          # nothing to preserve: the first fit is outside the domain (or already reported above)
        reg.set_params(mode_type=['Exact', 'EXACT', 'Projected', 'exact '][h % 4])
        try:
            reg.fit(3.0 * X1[::-1].copy() if X2.shape[1] != X1.shape[1] else X2, n_inputs=nu_, episode_feature=True)
            continue          # (accepted: then it is an ordinary fit, covered above)
        except Exception:  # noqa
            pass
        evals += 1
        dist['refused_refit'] = dist.get('refused_refit', 0) + 1
        try:
            reg.set_params(mode_type='projected')
            info = check_fit(reg, X1, ns_, nu_, type(reg).__name__)
        except Exception as e:  # noqa
            info = dict(what=f'after a refused refit the attributes of the earlier fit cannot be read: {type(e).__name__}: {e}'[:300])
        if info:
            bad.append(dict(info, history='fit, set_params(mode_type=<differently cased name>), refit refused with an exception',
                            regressor=repr(reg), n_states=ns_, n_inputs=nu_, X=X1.tolist()))
    res.coverage.update(
        programs=evals, disagreements_checked=evals, evaluations=evals, distinct_nontrivial=evals,
        rule=('Dmd / Dmdc x {exact, projected} x truncation of both SVDs (none, economy, rank, cutoff, unknown_noise) x '
              'with/without inputs on noisy linear data, including fewer snapshot pairs than states and rank-deficient data. '
              'Per fit: A V = V Lambda residual, A real, numerical rank(A) <= retained rank, sorted non-zero eig(A) = '
              'eigenvalues_, and the certificate of theorem C13 (A = V diag(L) V^+, V^+ V = I).'),
        samples=samples, input_distribution=dist)
    res.assumptions += ['LAPACK eig / svd / lstsq are oracles: the algebraic theorems (Props/C13.v, any field, all sizes) turn the '
                        'numerically checked certificate into the property; tolerances 1e-6..1e-7 relative']

    class B:   # no Coq case batch for this property
        meta = {}
    _dp.conclude(res, PID, proved, B(), [], [], bad, 'Props/C13.v (algebra) + per-fit residual certificates')


def replay(path):
    d = json.load(open(path)); print(json.dumps(d, indent=1)[:3000]); return 1
