"""C06 — EDMD returns the regularised least-squares optimum; exact recovery."""
import json
from fractions import Fraction

import numpy as np

from .. import common, driver, known, datapath as dp, stagegen as sg, direct
from . import _dp
import pykoop

LEVEL = 'proof'
PID = 'C06'


def int_dataset(rng, shape):
    """integer multi-episode data: tall (q > p), square-ish or wide (q < p)"""
    ns = int(rng.integers(1, 4)); nu = int(rng.integers(0, 3))
    p = ns + nu
    if shape == 'tall':
        q = p + int(rng.integers(2, 8))
    elif shape == 'square':
        q = p
    else:
        q = max(1, p - int(rng.integers(1, p + 1))) if p > 1 else 1
    n_eps = int(rng.integers(1, 4))
    # q pairs in total: distribute q + n_eps rows over the episodes
    lens = [2] * n_eps
    extra = q + n_eps - 2 * n_eps
    if extra < 0:
        n_eps = 1; lens = [q + 1]; extra = 0
    for _ in range(extra):
        lens[int(rng.integers(0, n_eps))] += 1
    rows = []
    for l, n in enumerate(lens):
        for _ in range(n):
            rows.append([float(l)] + [float(v) for v in rng.integers(-4, 5, size=p)])
    return ns, nu, np.array(rows)


def qlit(x):
    f = Fraction(float(x))
    return f'({f.numerator} # {f.denominator})' if f.numerator >= 0 else f'(({f.numerator}) # {f.denominator})'


def qmat(M):
    return '[' + ';'.join('[' + ';'.join(qlit(v) for v in r) + ']' for r in M) + ']'


def zmat(M):
    return '[' + ';'.join('[' + ';'.join(sg.znum(v) for v in r) + ']' for r in M) + ']'


def pairs(X, nu):
    labs = X[:, 0]; body = X[:, 1:]
    U, S = [], []
    for l in sorted(set(labs.tolist())):
        E = body[labs == l]
        for k in range(E.shape[0] - 1):
            U.append(E[k]); S.append(E[k + 1][:E.shape[1] - nu] if nu else E[k + 1])
    w = body.shape[1]
    return np.array(U).reshape(-1, w), np.array(S).reshape(-1, w - nu)


def cost(U, Psi, Thp, alpha):
    return float(np.sum((Thp - U @ Psi) ** 2) + alpha * np.sum(U ** 2))


def certificate_cases(rng, n):
    """M5-exact: coef_ as exact dyadic rationals; the normal-equation residual is evaluated in Coq over Q."""
    batch = dp.CoqBatch('c06', header_extra='From Coq Require Import QArith.\nFrom PK Require Import QMat.\n')
    bad = []
    samples = []
    dist = {}
    for cid in range(n):
        shape = ['tall', 'square', 'wide'][cid % 3]
        ns, nu, X = int_dataset(rng, shape)
        alpha = [0.0, 0.5, 3.0, 1.0][int(rng.integers(0, 4))]
        Xu, Xs = pairs(X, nu)
        if Xu.shape[0] == 0:
            continue
        Psi = Xu.T; Thp = Xs.T
        p, q = Psi.shape
        dist[f'{shape}/alpha={alpha}'] = dist.get(f'{shape}/alpha={alpha}', 0) + 1
        # the same data presented in several ways: float matrix with an episode column, integer-typed matrix, and
        # (single episode) integer-typed matrix without episode column - the fit depends on the values only
        form = ['float/ep', 'int64/ep', 'int64/noep', 'float/noep'][cid % 4]
        single = len(set(X[:, 0].tolist())) == 1
        if form.endswith('/noep') and not single:
            form = form.split('/')[0] + '/ep'
        Xin = X.astype(np.int64) if form.startswith('int64') else X
        try:
            if form.endswith('/noep'):
                reg = pykoop.Edmd(alpha=alpha).fit(Xin[:, 1:], n_inputs=nu, episode_feature=False)
            else:
                reg = pykoop.Edmd(alpha=alpha).fit(Xin, n_inputs=nu, episode_feature=True)
        except Exception as e:  # noqa  (Edmd.fit raising on finite data with at least one training pair is a failing case)
            bad.append(dict(what=f'Edmd.fit raised {type(e).__name__}: {e} on a valid data matrix', alpha=alpha, n_states=ns,
                            n_inputs=nu, shape=shape, X=X.tolist(), data_given_as=form))
            continue
        dist[f'data as {form}'] = dist.get(f'data as {form}', 0) + 1
        U = reg.coef_.T
        # numeric certificate + optimality against the closed-form competitor and random competitors
        H = Psi @ Psi.T + alpha * np.eye(p)
        G = Thp @ Psi.T
        scale = max(1.0, float(np.max(np.abs(H))), float(np.max(np.abs(G))), float(np.max(np.abs(U))))
        res = float(np.max(np.abs(U @ H - G)))
        c_u = cost(U, Psi, Thp, alpha)
        comp = [U + 1e-3 * rng.normal(size=U.shape) for _ in range(3)]
        try:
            comp.append(np.linalg.lstsq(H.T, G.T, rcond=None)[0].T)
        except Exception:  # noqa
            pass
        better = [V for V in comp if cost(V, Psi, Thp, alpha) < c_u - 1e-9 * max(1.0, abs(c_u))]
        if res > 1e-8 * scale * max(1.0, float(np.max(np.abs(U)))) or better:
            bad.append(dict(what='Edmd coef_ violates the normal equations / is not the regularised least-squares optimum',
                            alpha=alpha, n_states=ns, n_inputs=nu, shape=shape, X=X.tolist(), data_given_as=form,
                            normal_equation_residual=res, cost=c_u,
                            better_cost=(cost(better[0], Psi, Thp, alpha) if better else None)))
        tol = Fraction(1e-8 * scale * max(1.0, float(np.max(np.abs(U)))))
        expr = (f'normal_eq_ok ({tol.numerator} # {tol.denominator}) (zq {zmat(Psi)}) (zq {zmat(Thp)}) '
                f'{qlit(alpha)} {qmat(U)}')
        batch.add('', [('normal_equations', expr)],
                  dict(alpha=alpha, n_states=ns, n_inputs=nu, shape=shape, X=X.tolist(), coef=reg.coef_.tolist()))
        if len(samples) < 2:
            samples.append(dict(shape=shape, alpha=alpha, Psi_shape=[p, q], coef=reg.coef_.tolist()))
    failed, errors = batch.run(shard=15)
    return batch, failed, errors, bad, samples, dist


def recovery_cases(rng, n, ids=()):
    """noise-free linear data: Edmd(alpha=0), EdmdMeta, untruncated Dmdc (both mode types), Dmd (no input)
    return [A B]; a pipeline fit equals regressing on the pipeline's own lifted data."""
    bad = []
    evals = 0
    kn = {}
    for cid in range(n):
        ns = int(rng.integers(1, 7)); nu = int(rng.integers(0, 4))
        A = rng.normal(size=(ns, ns)) * rng.choice([0.4, 0.9, 1.3]) / np.sqrt(ns)
        B = rng.normal(size=(ns, nu))
        n_eps = int(rng.integers(1, 4))
        deficient = cid % 3 == 2 and ns >= 2
        if deficient:
            # [A B] of rank n_states - 1 (a redundant direction: singular A, B in the same range); the data matrix
            # stays well conditioned through the initial conditions of several short episodes
            AB0 = rng.normal(size=(ns, ns - 1)) @ rng.normal(size=(ns - 1, ns + nu))
            AB0 *= rng.choice([0.5, 0.9, 1.2]) / max(1e-9, float(np.max(np.abs(np.linalg.eigvals(AB0[:, :ns])))))
            A, B = AB0[:, :ns], AB0[:, ns:]
            n_eps = int(rng.integers(ns + 1, ns + 4))
        two = cid % 5 == 4 and not deficient
        if two:
            # a log of many episodes of exactly two samples (one training pair each)
            n_eps = ns + nu + int(rng.integers(3, 8))
        rows = []
        for l in range(n_eps):
            x = rng.normal(size=ns)
            for _ in range(2 if two else ((int(rng.integers(3, 6))) if deficient else ns + nu + int(rng.integers(3, 10)))):
                u = rng.normal(size=nu)
                rows.append([float(l)] + list(x) + list(u))
                x = A @ x + B @ u
        X = np.array(rows)
        # arrangement of the rows: contiguous blocks, blocks in another order, an episode logged in two chunks,
        # rows interleaved round-robin (within-episode order always kept), labels with gaps
        arr = ['contiguous', 'reordered', 'chunked', 'interleaved'][cid % 4]
        if n_eps > 1 and arr != 'contiguous':
            idx = {l: list(np.flatnonzero(X[:, 0] == l)) for l in range(n_eps)}
            if arr == 'reordered':
                order = sum((idx[l] for l in reversed(range(n_eps))), [])
            elif arr == 'chunked':
                h = len(idx[0]) // 2
                order = idx[0][:h] + sum((idx[l] for l in range(1, n_eps)), []) + idx[0][h:]
            else:
                order = []
                while any(idx.values()):
                    for l in range(n_eps):
                        if idx[l]:
                            order.append(idx[l].pop(0))
            X = X[order]
            X[:, 0] = 3 * X[:, 0] + 2            # labels 2, 5, 8
        AB = np.hstack((A, B))
        # the property quantifies over data with bounded condition number
        if np.linalg.cond(pairs(X, nu)[0]) > 1e3:
            continue
        regs = [('Edmd', lambda: pykoop.Edmd(alpha=0)), ('EdmdMeta', lambda: pykoop.EdmdMeta()),
                ('Dmdc/projected', lambda: pykoop.Dmdc(mode_type='projected')),
                ('Dmdc/exact', lambda: pykoop.Dmdc(mode_type='exact')),
                # untruncated, written with explicit full ranks for the two SVDs (different for the two)
                ('Dmdc/projected', lambda: pykoop.Dmdc(tsvd_unshifted=pykoop.Tsvd('rank', ns + nu), tsvd_shifted=pykoop.Tsvd('rank', ns)))]
        if nu == 0:
            regs += [('Dmd/projected', lambda: pykoop.Dmd(mode_type='projected')),
                     ('Dmd/exact', lambda: pykoop.Dmd(mode_type='exact'))]
        for name, mk in regs:
            evals += 1
            try:
                if evals % 3 == 2:
                    # the documented two-argument form: explicit (unshifted, shifted) matrices, both with the label column
                    Xu_, Xs_ = pykoop.shift_episodes(X, n_inputs=nu, episode_feature=True)
                    r = mk().fit(Xu_, Xs_, n_inputs=nu, episode_feature=True)
                    info = dict(call_form='fit(X_unshifted, X_shifted)')
                else:
                    r = mk().fit(X, n_inputs=nu, episode_feature=True)
                    info = {}
                err = float(np.max(np.abs(r.coef_.T - AB))) if r.coef_.T.shape == AB.shape else float('inf')
                if r.coef_.T.shape != AB.shape:
                    info['coef_shape'] = list(r.coef_.shape)
            except Exception as e:  # noqa
                err = float('inf'); info = dict(exception=f'{type(e).__name__}: {e}')
            if not err <= 1e-6 * max(1.0, float(np.max(np.abs(AB)))):
                if 'F16' in ids and known.F16(name, A):
                    kn['F16'] = kn.get('F16', 0) + 1
                    continue
                bad.append(dict(what='regressor does not recover [A B] from noise-free data of a linear system',
                                regressor=name, n_states=ns, n_inputs=nu, error=err, arrangement=arr, A=A.tolist(), B=B.tolist(),
                                X=X.tolist(), **info))
        # pipeline clause (episodes of two samples are too short for a delay stage: no training pair would be left)
        if two and ns + nu > 3:
            continue
        evals += 1
        chain = [('poly', 2, False)] if ns + nu <= 3 else [('delay', 1, 1)]
        kp = pykoop.KoopmanPipeline(lifting_functions=[('a', direct.build_real(chain[0]))],
                                    regressor=pykoop.Edmd(alpha=0.1))
        try:
            kp.fit(X, n_inputs=nu, episode_feature=True)
            bare = pykoop.Edmd(alpha=0.1).fit(kp.transform(X), n_inputs=kp.n_inputs_out_, episode_feature=True)
        except Exception as e:  # noqa  (an exception on valid, well-conditioned data is itself a failing case)
            bad.append(dict(what=f'pipeline fit on noise-free data of a linear system raised {type(e).__name__}: {e}',
                            chain=repr(chain), X=X.tolist()))
            continue
        if kp.regressor_.coef_.shape != bare.coef_.shape or \
                np.max(np.abs(kp.regressor_.coef_ - bare.coef_)) > 1e-9 * max(1.0, float(np.max(np.abs(bare.coef_)))):
            bad.append(dict(what='pipeline fit differs from regressing on the pipeline\'s own lifted data',
                            chain=repr(chain), X=X.tolist()))
    return evals, bad, kn


def run(res, tier):
    rng = np.random.default_rng(common.seed())
    proved = driver.proof_step(res, PID)
    ids = known.report_known(res, PID)
    n_cert, n_rec = (45, 25) if tier == 'quick' else (450, 300)
    batch, failed, errors, bad, samples, dist = certificate_cases(rng, n_cert)
    ev, bad2, kn = recovery_cases(rng, n_rec, ids)
    res.coverage.update(
        evaluations=len(batch.meta) + ev, distinct_nontrivial=len(batch.meta) + ev,
        rule=('Certificate: integer multi-episode data, tall / square / wide (fewer pairs than features), alpha in '
              '{0, 1/2, 1, 3}; each float of Edmd.coef_ is converted to its exact dyadic rational and Coq (vm_compute over Q) '
              'evaluates |U (Psi Psi^T + alpha I) - Theta_+ Psi^T| <= tol: the hypothesis of theorem C06_optimal on the '
              'implementation\'s output. Direct: cost against the closed-form and perturbed competitors; recovery of [A B] '
              'from noise-free data of random stable/unstable systems (1..6 states, 0..3 inputs, 1..3 episodes; every third system '
              'with [A B] of rank n_states - 1, i.e. singular A) by Edmd, '
              'EdmdMeta, Dmdc (projected and exact modes), Dmd; pipeline fit = bare fit on the lifted data.'),
        samples=samples, input_distribution=dist, model_vs_impl_disagreements=len(failed),
        coq_case_errors=len(errors), recovery_fits=ev, known_finding_hits=kn)
    res.assumptions += ['LAPACK (lstsq, svd, eig) is an oracle; the certificate is checked on its output with tolerance 1e-8 (relative)',
                        'floating-point rounding is outside the theorem: statements are over an exact real field']
    _dp.conclude(res, PID, proved, batch, failed, errors, bad + bad2,
                 'Props/C06.v / exact normal-equation certificate evaluated in Coq')


def replay(path):
    d = json.load(open(path)); print(json.dumps(d, indent=1)[:3000]); return 1
