"""C11 — dissipativity-constrained fits are dissipative and not vacuous."""
import json
import numpy as np
from .. import common, driver, known, lmi, altern, lmi_blocks
from . import _dp
import pykoop
import pykoop.lmi_regressors as L

LEVEL = 'translation_validation'
PID = 'C11'


def supply_rates(rng, ns, nu):
    out = [('default', None)]
    g = float(rng.uniform(1.2, 3.0))
    out.append((f'gain {g:.2f}', np.block([[np.eye(ns) / g, np.zeros((ns, nu))], [np.zeros((nu, ns)), -g * np.eye(nu)]])))
    g2 = float(rng.uniform(0.4, 0.95))
    out.append((f'gain {g2:.2f} (<1)', np.block([[np.eye(ns) / g2, np.zeros((ns, nu))], [np.zeros((nu, ns)), -g2 * np.eye(nu)]])))
    # a general cross term (any numbers of states and inputs, not a multiple of the identity)
    X12 = np.round(rng.uniform(-0.6, 0.6, size=(ns, nu)), 2)
    if not np.any(X12):
        X12[0, 0] = 0.5
    out.append(('cross term', np.block([[0.5 * np.eye(ns), X12], [X12.T, -2.0 * np.eye(nu)]])))
    if ns == nu:
        out.append(('passivity-like', np.block([[0.1 * np.eye(ns), -np.eye(ns)], [-np.eye(ns), -2.0 * np.eye(ns)]])))
        out.append(('passivity-like 2', np.block([[0.05 * np.eye(ns), -0.5 * np.eye(ns)], [-0.5 * np.eye(ns), -1.5 * np.eye(ns)]])))
    return out


def is_F9(xi_eff, ns, eps=1e-6):
    """first sub-problem infeasible by construction: with the initial storage P = I the (1,1)
    block P - Xi11 of the LMI is not positive definite"""
    return float(np.min(np.linalg.eigvalsh(np.eye(ns) - (xi_eff[:ns, :ns] + xi_eff[:ns, :ns].T) / 2))) <= eps


def run(res, tier):
    rng = np.random.default_rng(common.seed())
    proved = driver.proof_step(res, PID, allow_axioms=common.REALS_AXIOMS)
    ids = known.report_known(res, PID)
    n = 6 if tier == 'quick' else 70
    bad = []; samples = []; dist = {}; kn = {}
    for cid in range(n):
        ns = int(rng.integers(1, 3)); nu = ns if cid % 2 == 0 else int(rng.integers(1, 3))
        kind = ['stable', 'marginal', 'unstable'][int(rng.integers(0, 3))]
        X, A0, B0 = lmi.linear_data(rng, ns, nu, kind=kind)
        for name, Xi in supply_rates(rng, ns, nu):
            xi_eff = Xi if Xi is not None else np.block([[np.eye(ns), np.zeros((ns, nu))], [np.zeros((nu, ns)), -np.eye(nu)]])
            extra = {}
            v = int(rng.integers(0, 4))
            if v == 1 and ns + nu >= 2:
                extra = dict(inv_method='svd', tsvd=pykoop.Tsvd('rank', int(rng.integers(max(1, ns), ns + nu))))   # truncating SVD
            elif v == 2:
                extra = dict(inv_method=str(rng.choice(['eig', 'chol', 'sqrt', 'ldl'])))
            elif v == 3:
                extra = dict(inv_method='svd', tsvd=pykoop.Tsvd('cutoff', 1e-3))
            reg = L.LmiEdmdDissipativityConstr(alpha=float(rng.choice([0, 0.1])), supply_rate=Xi,
                                               max_iter=int(rng.choice([2, 3, 4])), solver_params=lmi.SOLVER, **extra)
            try:
                reg.fit(X, n_inputs=nu, episode_feature=True)
            except Exception as e:  # noqa
                dist['fit_error'] = dist.get('fit_error', 0) + 1
                continue
            if cid % 2 == 0:
                from .. import readonly
                readonly.exercise(reg, X)       # documented as reading only
            dist[name.split(' ')[0]] = dist.get(name.split(' ')[0], 0) + 1
            A, B = lmi.ab(reg, ns)
            P = np.asarray(reg.P_)
            desc = dict(supply_rate=name, Xi=xi_eff.tolist(), data=kind, n_states=ns, n_inputs=nu, estimator=repr(reg),
                        n_iter=int(reg.n_iter_), stop_reason=str(reg.stop_reason_))
            common.note_case('fit', desc['estimator'], X)
            info = None
            zero = not (np.any(A) or np.any(B))
            if zero:
                # vacuous fit: is a strictly feasible model known to exist?  U = 0 with P = c I is strictly
                # feasible iff [[cI - Xi11, -Xi12], [-Xi12^T, -Xi22]] > 0 for some c > 0
                feas = False
                for c in (1.0, 2.0, 5.0, 20.0, 100.0):
                    M = np.block([[c * np.eye(ns) - xi_eff[:ns, :ns], -xi_eff[:ns, ns:]], [-xi_eff[:ns, ns:].T, -xi_eff[ns:, ns:]]])
                    if np.min(np.linalg.eigvalsh((M + M.T) / 2)) > 1e-4:
                        feas = True
                if feas:
                    if 'F9' in ids and is_F9(xi_eff, ns):
                        kn['F9'] = kn.get('F9', 0) + 1
                    else:
                        info = dict(what='fit silently fell back to the all-zero Koopman matrix although a strictly '
                                         'feasible model exists')
            else:
                M = np.block([[P - xi_eff[:ns, :ns], -xi_eff[:ns, ns:], A.T @ P],
                              [-xi_eff[:ns, ns:].T, -xi_eff[ns:, ns:], B.T @ P],
                              [P @ A, P @ B, P]])
                lam = float(np.min(np.linalg.eigvalsh((M + M.T) / 2)))
                if lam < -1e-5 * max(1.0, float(np.max(np.abs(P)))):
                    info = dict(what='returned (U, P_) violates the dissipativity LMI (certificate of C11)', lambda_min=lam)
                else:
                    xs = (xi_eff + xi_eff.T) / 2
                    slack = lmi.simulate_dissipation(rng, A, B, (P + P.T) / 2, xs)
                    if slack < -1e-5 * max(1.0, float(np.max(np.abs(P)))):
                        info = dict(what='simulated trajectory violates the dissipation inequality with the returned '
                                         'storage matrix', slack=slack)
                k = lmi.log_defect(reg, X, nu)
                if info is None and k is not None:
                    info = dict(what='logged objective increases between iterations', at=k)
            if info:
                bad.append(dict(info, **desc, X=X.tolist()))
            if len(samples) < 3:
                samples.append(desc)
    # cross-term supply rates on data where the constraint is active, few iterations (the loop ends on max_iter, the
    # returned P_ is the last problem-B solution): the certificate must hold for the REQUESTED supply rate
    n_cross = 10 if tier == 'quick' else 60
    for h in range(n_cross + (4 if tier == 'quick' else 12)):
        ns = 1 + h % 2; nu = 1 + (h // 2) % 2
        if h >= n_cross:
            ns = nu = 2          # square cross block that is far from symmetric (its transpose is its negative)
        X, _, _ = lmi.linear_data(rng, ns, nu, kind=['unstable', 'marginal'][h % 2])
        X12 = np.round(rng.uniform(-1.0, 1.0, size=(ns, nu)), 2)
        if not np.any(X12):
            X12[0, 0] = 0.7
        if h >= n_cross:
            a_ = float(rng.choice([0.6, 0.9]))
            X12 = np.array([[0.0, a_], [-a_, 0.0]]) + (0.2 * np.eye(2) if h % 2 else 0)
        Xi = np.block([[0.5 * np.eye(ns), X12], [X12.T, -float(rng.choice([1.5, 2.0, 3.0])) * np.eye(nu)]])
        reg = L.LmiEdmdDissipativityConstr(alpha=0.0, supply_rate=Xi, max_iter=1 + h % 3, solver_params=lmi.SOLVER)
        try:
            reg.fit(X, n_inputs=nu, episode_feature=True)
        except Exception:  # noqa
            dist['fit_error'] = dist.get('fit_error', 0) + 1
            continue
        A, B = lmi.ab(reg, ns)
        if not (np.any(A) or np.any(B)):
            dist['cross_sweep_zero'] = dist.get('cross_sweep_zero', 0) + 1
            continue
        dist['cross_sweep'] = dist.get('cross_sweep', 0) + 1
        P = np.asarray(reg.P_)
        M = np.block([[P - Xi[:ns, :ns], -Xi[:ns, ns:], A.T @ P], [-Xi[:ns, ns:].T, -Xi[ns:, ns:], B.T @ P], [P @ A, P @ B, P]])
        lam = float(np.min(np.linalg.eigvalsh((M + M.T) / 2)))
        slack = lmi.simulate_dissipation(rng, A, B, (P + P.T) / 2, (Xi + Xi.T) / 2)
        tolp = 1e-5 * max(1.0, float(np.max(np.abs(P))))
        if lam < -tolp or slack < -tolp:
            bad.append(dict(what='returned (U, P_) violates the dissipativity LMI / the dissipation inequality for the requested '
                                 'supply rate (cross term, loop ended after %d iteration(s))' % int(reg.n_iter_), lambda_min=lam,
                            slack=slack, Xi=Xi.tolist(), n_states=ns, n_inputs=nu, estimator=repr(reg),
                            stop_reason=str(reg.stop_reason_), X=X.tolist()))
    # the default supply rate (L2 gain at most one) with picos_eps=0: with the default strictness margin the first problem is
    # infeasible for it (recorded finding); without the margin both problems run and the returned pair must certify the default
    for h in range(6 if tier == 'quick' else 24):
        ns = 1 + h % 2; nu = 1 + (h // 2) % 2
        X, _, _ = lmi.linear_data(rng, ns, nu, kind=['stable', 'unstable', 'marginal'][h % 3])
        Xi = np.block([[np.eye(ns), np.zeros((ns, nu))], [np.zeros((nu, ns)), -np.eye(nu)]])
        reg = L.LmiEdmdDissipativityConstr(alpha=0.0, supply_rate=None, max_iter=1 + h % 3, picos_eps=0, solver_params=lmi.SOLVER)
        try:
            reg.fit(X, n_inputs=nu, episode_feature=True)
        except Exception:  # noqa
            dist['fit_error'] = dist.get('fit_error', 0) + 1
            continue
        A, B = lmi.ab(reg, ns)
        if not (np.any(A) or np.any(B)):
            dist['default_rate_no_margin_zero'] = dist.get('default_rate_no_margin_zero', 0) + 1
            continue
        dist['default_rate_no_margin'] = dist.get('default_rate_no_margin', 0) + 1
        P = np.asarray(reg.P_)
        M = np.block([[P - Xi[:ns, :ns], -Xi[:ns, ns:], A.T @ P], [-Xi[:ns, ns:].T, -Xi[ns:, ns:], B.T @ P], [P @ A, P @ B, P]])
        lam = float(np.min(np.linalg.eigvalsh((M + M.T) / 2)))
        slack = lmi.simulate_dissipation(rng, A, B, (P + P.T) / 2, Xi)
        tolp = 1e-4 * max(1.0, float(np.max(np.abs(P))))
        if lam < -tolp or slack < -tolp:
            bad.append(dict(what='returned (U, P_) violates the dissipativity LMI / the dissipation inequality for the default supply '
                                 'rate (picos_eps=0, loop ended after %d iteration(s))' % int(reg.n_iter_), lambda_min=lam,
                            slack=slack, Xi=Xi.tolist(), n_states=ns, n_inputs=nu, estimator=repr(reg),
                            stop_reason=str(reg.stop_reason_), X=X.tolist()))
    # badly scaled data: the solver may fail numerically.  A fit that completes must still not silently return the
    # all-zero matrix when a strictly feasible model exists (a fit that raises is a refusal, not a result)
    for h in range(9 if tier == 'quick' else 36):
        ns = 2; nu = 1
        X, _, _ = lmi.linear_data(np.random.default_rng(h // 3), ns, nu, kind='stable')
        Xs = np.array(X, copy=True)
        Xs[:, 1:1 + ns] *= [50.0, 100.0, 300.0][h % 3]
        g = 2.0
        Xi = np.block([[np.eye(ns) / g, np.zeros((ns, nu))], [np.zeros((nu, ns)), -g * np.eye(nu)]])
        try:
            reg = L.LmiEdmdDissipativityConstr(supply_rate=Xi, max_iter=3, solver_params=lmi.SOLVER)
            reg.fit(Xs, n_inputs=nu, episode_feature=True)
        except Exception:  # noqa
            dist['scaled_data_fit_refused'] = dist.get('scaled_data_fit_refused', 0) + 1
            continue
        dist['scaled_data_fit_completed'] = dist.get('scaled_data_fit_completed', 0) + 1
        if not np.any(reg.coef_) and not is_F9(Xi, ns):
            bad.append(dict(what='fit completed with the all-zero Koopman matrix (only a log line) although a strictly feasible '
                                 'model exists for this supply rate', stop_reason=str(reg.stop_reason_), n_iter=int(reg.n_iter_),
                            estimator=repr(reg), X=Xs.tolist()))
    # one state recorded in much smaller units (an ill-conditioned but full-rank Gram matrix), every way of handling its inverse:
    # a fit that completes must not be the all-zero matrix
    for h, inv_ in enumerate(['pinv', 'inv', 'eig', 'svd', 'chol', 'sqrt', 'ldl'] if tier != 'quick' else ['pinv', 'svd', 'eig']):
        ns = 2; nu = 1
        X, _, _ = lmi.linear_data(np.random.default_rng(100 + h), ns, nu, kind='stable')
        Xs = np.array(X, copy=True)
        Xs[:, 1] *= 2e-4
        g = 2.0
        Xi = np.block([[np.eye(ns) / g, np.zeros((ns, nu))], [np.zeros((nu, ns)), -g * np.eye(nu)]])
        try:
            reg = L.LmiEdmdDissipativityConstr(supply_rate=Xi, alpha=1e-9, inv_method=inv_, max_iter=3, solver_params=lmi.SOLVER)
            reg.fit(Xs, n_inputs=nu, episode_feature=True)
        except Exception:  # noqa
            dist['small_units_fit_refused'] = dist.get('small_units_fit_refused', 0) + 1
            continue
        dist['small_units_fit_completed'] = dist.get('small_units_fit_completed', 0) + 1
        if not np.any(reg.coef_) and not is_F9(Xi, ns):
            bad.append(dict(what='fit completed with the all-zero Koopman matrix (only a log line) although a strictly feasible '
                                 'model exists for this supply rate (one state in units 2e-4)', inv_method=inv_,
                            stop_reason=str(reg.stop_reason_), n_iter=int(reg.n_iter_), estimator=repr(reg), X=Xs.tolist()))
    # history: the same estimator object refitted after set_params(supply_rate=...) must behave as a fresh one
    n_hist = 3 if tier == 'quick' else 20
    for h in range(n_hist):
        ns = 2; nu = int(rng.integers(1, 3))
        X, _, _ = lmi.linear_data(rng, ns, nu, kind='stable')
        g1 = float(rng.uniform(2.0, 3.0)); g2 = float(rng.uniform(1.15, 1.4))
        mk = lambda g: np.block([[np.eye(ns) / g, np.zeros((ns, nu))], [np.zeros((nu, ns)), -g * np.eye(nu)]])
        reg = L.LmiEdmdDissipativityConstr(supply_rate=mk(g1), max_iter=3, solver_params=lmi.SOLVER)
        try:
            reg.fit(X, n_inputs=nu, episode_feature=True)
            if h % 3 == 2:
                # back to the default supply rate (None): must behave like a fresh default estimator
                reg.set_params(supply_rate=None)
                reg.fit(X, n_inputs=nu, episode_feature=True)
                fresh0 = L.LmiEdmdDissipativityConstr(max_iter=3, solver_params=lmi.SOLVER).fit(X, n_inputs=nu, episode_feature=True)
                if float(np.max(np.abs(reg.coef_ - fresh0.coef_))) > 1e-3 * max(1.0, float(np.max(np.abs(fresh0.coef_)))):
                    bad.append(dict(what='estimator refitted after set_params(supply_rate=None) differs from a fresh default estimator '
                                         '(an earlier explicit supply rate is still enforced)', X=X.tolist(),
                                    coef_difference=float(np.max(np.abs(reg.coef_ - fresh0.coef_)))))
                dist['refit_history'] = dist.get('refit_history', 0) + 1
                continue
            reg.set_params(supply_rate=mk(g2))
            reg.fit(X, n_inputs=nu, episode_feature=True)
            fresh = L.LmiEdmdDissipativityConstr(supply_rate=mk(g2), max_iter=3, solver_params=lmi.SOLVER)
            fresh.fit(X, n_inputs=nu, episode_feature=True)
        except Exception:  # noqa
            dist['fit_error'] = dist.get('fit_error', 0) + 1
            continue
        dist['refit_history'] = dist.get('refit_history', 0) + 1
        A, B = lmi.ab(reg, ns)
        hn = lmi.hinf_norm(A, B) if np.max(np.abs(np.linalg.eigvals(A))) < 1 else float('inf')
        d = float(np.max(np.abs(reg.coef_ - fresh.coef_)))
        if d > 1e-3 * max(1.0, float(np.max(np.abs(fresh.coef_)))) or hn > g2 * (1 + 1e-3):
            bad.append(dict(what='estimator refitted after set_params(supply_rate=...) differs from a fresh one / violates '
                                 'the new supply rate (stale state)', gain_first=g1, gain_second=g2, l2_gain=hn,
                            coef_difference=d, X=X.tolist()))
    ev = sum(v for k, v in dist.items() if k != 'fit_error')
    res.coverage.update(
        programs=ev, disagreements_checked=ev, evaluations=ev, distinct_nontrivial=ev,
        rule=('CVXOPT fits of LmiEdmdDissipativityConstr with the default supply rate, gain bounds above and below one, and '
              'passivity-like rates with a non-zero cross block, on stable / marginal / unstable data; per non-zero fit: '
              'lambda_min of the 3x3 block LMI at the returned (U, P_), simulated dissipation inequality on random input '
              'sequences, objective log; per all-zero fit: is U = 0 strictly feasible for some storage cI (then the fallback '
              'is vacuous). One fit in two varies inv_method or uses a truncating Tsvd (rank below the number of lifted features, cutoff).'),
        samples=samples, input_distribution=dist, known_finding_hits=kn)
    res.assumptions += ['CVXOPT/PICOS feasibility when "optimal" is an oracle contract; theorem: LMI => dissipation inequality for '
                        'every input sequence and horizon (AlgR/Dissip.v, standard-library real-number axioms)']

    # M3(b): the alternation loop driven by a scripted solver oracle vs coq/Altern.v (compared inside Coq)
    classes = [(L.LmiEdmdDissipativityConstr, {}, 1)]
    batch, failed, errors, n_scr, s_scr, d_scr = altern.run_scripts(rng, classes, 40 if tier == 'quick' else 600, 'c11_altern')
    res.coverage['programs'] = res.coverage.get('programs', 0) + n_scr
    res.coverage['disagreements_checked'] = res.coverage.get('disagreements_checked', 0) + n_scr
    res.coverage['evaluations'] = res.coverage.get('evaluations', 0) + n_scr
    res.coverage['distinct_nontrivial'] = res.coverage.get('distinct_nontrivial', 0) + len(
        {json.dumps(batch.meta[i][0]['script'], sort_keys=True) + batch.meta[i][0]['estimator'] for i in batch.meta})
    res.coverage['scripted_solver_runs'] = dict(runs=n_scr, exit_reasons=d_scr, model_vs_impl_disagreements=len(failed),
                                                coq_case_errors=len(errors))
    res.coverage['samples'] = list(res.coverage.get('samples', [])) + s_scr[:1]
    res.coverage['rule'] += (' Scripted solver (M3b): random scripts of optimal / non-optimal answers to the sub-problems A_k, B_k with '
                             'tagged values, integer objectives, a polite-stop request at a random check, max_iter 1..5, atol in '
                             '{0,1,3}; the returned tags of U (and gamma_), P_, objective_log_, n_iter_, the class of stop_reason_ and '
                             'the arguments each sub-problem was built from are compared inside Coq with Altern.fit on the same script.')
    # M5-exact: the LMI block the builders hand to PICOS vs coq/LmiBlocks.v, at integer test points, compared inside Coq
    b2, f2, e2, n_blk, s_blk, d_blk = lmi_blocks.run_blocks(rng, 24 if tier == 'quick' else 300, 'c11_blocks', ['dis_b', 'dis_a'])
    res.coverage['programs'] += n_blk; res.coverage['disagreements_checked'] += n_blk; res.coverage['evaluations'] += n_blk
    res.coverage['distinct_nontrivial'] += n_blk
    res.coverage['lmi_builder_vs_model'] = dict(blocks=n_blk, builders=d_blk, model_vs_impl_disagreements=len(f2), coq_case_errors=len(e2))
    res.coverage['rule'] += (' LMI builders (M5-exact): _create_problem_a / _create_problem_b (and _create_ss with no / pre / post weight) are '
                             'called with integer and dyadic test values, the slack of the LMI constraint (the block itself) is read from '
                             'PICOS and compared entry by entry inside Coq with LmiBlocks.v.')
    merged = lmi_blocks.Merged([(batch, failed, errors), (b2, f2, e2)])
    batch, failed, errors = merged, merged.failed, merged.errors
    _dp.conclude(res, PID, proved, batch, failed, errors, bad, 'Props/C11.v (dissipation from the LMI) + per-fit certificate checks + alternation-loop correspondence (Altern.v)')


def replay(path):
    d = json.load(open(path)); print(json.dumps(d, indent=1)[:3000]); return 1
