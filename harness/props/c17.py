"""C17 — random feature maps approximate the kernel they are named after."""
import json

import numpy as np
import scipy.integrate
import scipy.stats

from .. import common, driver, known, datapath as dp
from . import _dp
import pykoop

LEVEL = 'other'
PID = 'C17'


def kernel(name, shape, x, y):
    d = np.asarray(x) - np.asarray(y)
    if name == 'gaussian':
        return float(np.exp(-shape * d @ d))
    if name == 'laplacian':
        return float(np.prod(np.exp(-np.sqrt(2 * shape) * np.abs(d))))
    if name == 'cauchy':
        return float(np.prod(1 / (1 + 2 * shape * d**2)))
    raise KeyError(name)


def seed_obj(kind, s):
    return int(s) if kind == 'int' else np.random.RandomState(int(s))


# ------------------------------------------------------------------ direct tests
def formula_case(p):
    """transform == sqrt(1/D) [cos, sin](sqrt(2 shape) X W) resp. sqrt(2/D) cos(. + b), from the fitted weights;
    unit norm for weight_only; declared width"""
    rng = np.random.default_rng(p['seed'])
    X = rng.uniform(-2, 2, size=(p['rows'], p['nf']))
    if p.get('history'):
        # the estimator object was used before with other parameters, then re-parameterised and refitted
        h = p['history']
        ka = pykoop.RandomFourierKernelApprox(h['kernel'], n_components=h['D'], shape=h['shape'], method=h['method'],
                                              random_state=h['rs']).fit(rng.uniform(-1, 1, size=(3, h['nf'])))
        ka.transform(rng.uniform(-1, 1, size=(2, h['nf'])))
        ka.set_params(kernel_or_ft=p['kernel'], n_components=p['D'], shape=p['shape'], method=p['method'],
                      random_state=seed_obj(p['seedtype'], p['rs']))
        ka.fit(X)
    else:
        ka = pykoop.RandomFourierKernelApprox(p['kernel'], n_components=p['D'], shape=p['shape'], method=p['method'],
                                              random_state=seed_obj(p['seedtype'], p['rs'])).fit(X)
    W = ka.random_weights_
    if W.shape != (p['nf'], p['D']):
        return dict(what='random_weights_ is not (n_features, n_components)', shape=list(W.shape))
    Z = ka.transform(X)
    prod = np.sqrt(2 * p['shape']) * X @ W
    if p['method'] == 'weight_only':
        want = np.sqrt(1 / p['D']) * np.hstack((np.cos(prod), np.sin(prod)))
    else:
        b = ka.random_offsets_
        if np.shape(b) != (p['D'],) or np.any(b < 0) or np.any(b > 2 * np.pi):
            return dict(what='random_offsets_ are not n_components phases in [0, 2 pi]')
        want = np.sqrt(2 / p['D']) * np.cos(prod + b)
    if Z.shape != want.shape or Z.shape[1] != ka.n_features_out_:
        return dict(what='feature width differs from the declared n_features_out_', got=list(Z.shape))
    if not np.allclose(Z, want, rtol=1e-10, atol=1e-13):
        return dict(what='random Fourier features differ from the documented formula', max_abs_err=float(np.max(np.abs(Z - want))))
    if p['method'] == 'weight_only' and not np.allclose(np.sum(Z**2, axis=1), 1.0, atol=1e-12):
        return dict(what='weight_only feature vector does not have unit norm', norms=np.sum(Z**2, axis=1)[:3].tolist())
    # whole-number points given as an integer-typed array: same features as the same numbers given as floats
    Xw = np.round(X)
    Zi = ka.transform(Xw.astype(np.int64)); Zf = ka.transform(Xw)
    if Zi.shape != Zf.shape or not np.allclose(Zi, Zf, rtol=1e-12, atol=1e-14):
        return dict(what='features depend on the dtype of the data (integer-typed points give other features than the same '
                         'numbers as floats)', max_abs_diff=float(np.max(np.abs(Zi - Zf))) if Zi.shape == Zf.shape else None)
    return None


def layout_case(p):
    """KernelApproxLiftingFn.transform == [x, u, features([x;u])]"""
    rng = np.random.default_rng(p['seed'])
    ns, nu = p['ns'], p['nu']
    X = rng.uniform(-1, 1, size=(p['rows'], ns + nu))
    ep = p['ep']
    Xd = np.hstack((np.repeat(np.arange(2), (p['rows'] + 1) // 2)[:p['rows'], None].astype(float), X)) if ep else X
    ka = pykoop.RandomFourierKernelApprox(p['kernel'], n_components=p['D'], method=p['method'], random_state=p['rs'])
    # (the flag as a python bool, a numpy bool or 0 / 1: truthy and falsy values like any other)
    ep_given = [ep, np.bool_(ep), int(ep)][p['seed'] % 3]
    lf = pykoop.KernelApproxLiftingFn(kernel_approx=ka).fit(Xd, n_inputs=nu, episode_feature=ep_given)
    Xt = lf.transform(Xd)
    feats = lf.kernel_approx_.transform(X)
    want = np.hstack((Xd, feats))
    if Xt.shape != want.shape or not np.array_equal(Xt, want):
        return dict(what='KernelApproxLiftingFn does not append exactly the kernel features after state and input',
                    got=list(Xt.shape), want=list(want.shape))
    nf = feats.shape[1]
    if lf.n_features_out_ != want.shape[1] or (nu == 0 and lf.n_states_out_ != ns + nf) \
            or (nu > 0 and (lf.n_states_out_ != ns or lf.n_inputs_out_ != nu + nf)):
        return dict(what='KernelApproxLiftingFn declared dimensions do not match the appended block')
    # the fitted approximation is a fitted clone with the constructor's parameters
    ka2 = pykoop.RandomFourierKernelApprox(p['kernel'], n_components=p['D'], method=p['method'], random_state=p['rs']).fit(X)
    if not np.allclose(ka2.transform(X), feats):
        return dict(what='features of the lifting function differ from those of the stand-alone kernel approximation')
    # history: a finished block with validation switched off; afterwards the same samples given as nested lists (a valid
    # array-like under the default configuration) give the same features
    if p['seed'] % 4 == 0:
        before = dict(pykoop.get_config())
        with pykoop.config_context(skip_validation=True):
            lf.transform(Xd)
        try:
            Tl = np.asarray(lf.transform(Xd.tolist()))
        except Exception as e:  # noqa
            pykoop.set_config(**before)
            return dict(what=f'after a finished config_context(skip_validation=True) block the lifting function refuses the same samples '
                             f'given as nested lists: {type(e).__name__}: {e}'[:300])
        if Tl.shape != Xt.shape or not np.array_equal(Tl, Xt):
            return dict(what='after a finished config_context block the same samples given as nested lists give other features')
    return None


def unbiased_case(p):
    """mean over seeds of z(x).z(y) vs the named kernel, for point pairs in a box (negative sums included);
    RMS error ~ 1/sqrt(D)"""
    rng = np.random.default_rng(p['seed'])
    nf, D, S = p['nf'], p['D'], p['n_seeds']
    pts = rng.uniform(-p['box'], p['box'], size=(6, nf))
    pts[0] = -np.abs(pts[0]); pts[1] = -np.abs(pts[1])          # a pair with negative sum
    pts[3] = pts[2] + 0.05 * rng.normal(size=nf)                # a nearby pair
    pairs = [(0, 1), (2, 3), (4, 5), (0, 4), (1, 5), (2, 2)]
    est = np.zeros((S, len(pairs)))
    for s in range(S):
        ka = pykoop.RandomFourierKernelApprox(p['kernel'], n_components=D, shape=p['shape'], method=p['method'],
                                              random_state=seed_obj(p['seedtype'], 5000 + 7 * s + p['rs']))
        if p.get('via_lifting_fn'):
            # the same approximation used as the sub-estimator of a KernelApproxLiftingFn: its features are the appended block
            lf = pykoop.KernelApproxLiftingFn(kernel_approx=ka).fit(pts, n_inputs=0, episode_feature=False)
            Z = lf.transform(pts)[:, nf:]
        else:
            Z = ka.fit(pts).transform(pts)
        for j, (a, b) in enumerate(pairs):
            est[s, j] = Z[a] @ Z[b]
    true = np.array([kernel(p['kernel'], p['shape'], pts[a], pts[b]) for a, b in pairs])
    mean = est.mean(axis=0)
    se = est.std(axis=0, ddof=1) / np.sqrt(S)
    z = np.abs(mean - true) / np.maximum(se, 1e-12)
    worst = int(np.argmax(np.where(np.abs(mean - true) > 1e-9, z, 0)))
    if z[worst] > 6.0 and abs(mean[worst] - true[worst]) > 1e-9:
        a, b = pairs[worst]
        return dict(what='kernel estimate is biased: mean over seeds of z(x).z(y) differs from the named kernel',
                    x=pts[a].tolist(), y=pts[b].tolist(), kernel_value=float(true[worst]), mean_estimate=float(mean[worst]),
                    standard_error=float(se[worst]), z_score=float(z[worst]), n_seeds=S)
    rms = float(np.sqrt(np.mean((est - true)**2)))
    if rms > 1.6 / np.sqrt(D):
        return dict(what='estimation error does not concentrate like 1/sqrt(D)', rms_error=rms, bound=1.6 / np.sqrt(D), D=D)
    return None


TESTS = {'formula': formula_case, 'layout': layout_case, 'unbiased': unbiased_case}


def gen_params(rng, tier):
    out = []
    n_f, n_l, S = (90, 60, 160) if tier == 'quick' else (900, 600, 500)
    kernels = ['gaussian', 'laplacian', 'cauchy']
    for i in range(n_f):
        out.append(dict(test='formula', kernel=kernels[i % 3], method=['weight_offset', 'weight_only'][(i // 3) % 2],
                        seedtype=['int', 'state'][(i // 6) % 2], rs=int(rng.integers(0, 10000)),
                        nf=int(rng.integers(1, 6)), D=int(rng.choice([1, 2, 7, 40])), rows=int(rng.integers(1, 6)),
                        shape=[0.2, 0.5, 1.0, 2.0, 3.0, 1, 2][i % 7], seed=int(rng.integers(1 << 30))))      # float and int shapes
        if i % 3 == 2:
            me = out[-1]
            out[-1]['history'] = dict(kernel=kernels[int(rng.integers(3))],
                                      method=['weight_offset', 'weight_only'][int(rng.integers(2))],
                                      D=int(rng.choice([me['D'], me['D'], 3])), nf=int(rng.choice([me['nf'], 2])),
                                      shape=1.5, rs=int(rng.integers(0, 100)))
    # large batches (many rows x many components): every row must be transformed
    for D, rows in ((4096, 1500), (2048, 2500), (4096, 4200)):
        out.append(dict(test='formula', kernel='gaussian', method='weight_only', seedtype='int', rs=3, nf=2, D=D, rows=rows,
                        shape=1.0, seed=int(rng.integers(1 << 30))))
    for i in range(n_l):
        out.append(dict(test='layout', kernel=kernels[i % 3], method=['weight_offset', 'weight_only'][(i // 3) % 2],
                        rs=int(rng.integers(0, 10000)), ns=int(rng.integers(1, 4)), nu=int(rng.integers(0, 3)),
                        D=int(rng.choice([1, 3, 10])), rows=int(rng.integers(2, 7)), ep=bool(rng.random() < 0.5),
                        seed=int(rng.integers(1 << 30))))
    for k in kernels:
        for m in ('weight_offset', 'weight_only'):
            for st in ('int', 'state'):
                for nf, D, shape, box in ((1, 50, 1.0, 2.0), (2, 200, 0.5, 1.5), (3, 100, 2.0, 1.0)) if tier == 'quick' else \
                        ((1, 50, 1.0, 2.0), (2, 200, 0.5, 1.5), (3, 100, 2.0, 1.0), (4, 800, 1.0, 1.0), (2, 50, 3.0, 2.0)):
                    out.append(dict(test='unbiased', kernel=k, method=m, seedtype=st, nf=nf, D=D, shape=shape, box=box,
                                    n_seeds=S, rs=int(rng.integers(0, 1000)), seed=int(rng.integers(1 << 30)),
                                    via_lifting_fn=bool(nf == 2)))
    return out


def known_filter(p, info):
    """F4: integer seed + weight_offset (offsets re-read the uniforms that produced the weights), any kernel."""
    ids = known.listed(PID)
    if 'F4' in ids and p.get('test') == 'unbiased' and p.get('seedtype') == 'int' and p.get('method') == 'weight_offset' \
            and 'biased' in (info or {}).get('what', ''):
        return 'F4'
    return None


# ------------------------------------------------------------------ Coq correspondence: seeding
def inv_cdf(kernel_name, W):
    """uniform draw behind each weight, for the inverse-CDF sampled distributions"""
    if kernel_name == 'laplacian':                    # weights ~ Cauchy
        return scipy.stats.cauchy.cdf(W)
    if kernel_name == 'cauchy':                       # weights ~ Laplace
        return scipy.stats.laplace.cdf(W)
    return None


def match_positions(vals, ref):
    out = []
    for v in np.ravel(vals):
        k = np.where(np.abs(ref - v) < 1e-9)[0]
        if len(k) != 1:
            return None
        out.append(int(k[0]))
    return out


def seed_coq_cases(rng, n, batch):
    made = 0
    samples = []
    for cid in range(n):
        kern = ['laplacian', 'cauchy'][cid % 2]
        kind = ['int', 'state'][(cid // 2) % 2]
        d = int(rng.integers(1, 4)); D = int(rng.integers(1, 6)); sd = int(rng.integers(0, 500))
        adv = int(rng.integers(0, 5)) if kind == 'state' else 0
        ref = np.random.RandomState(sd).uniform(size=adv + d * D + D + 8)
        if kind == 'int':
            arg = sd
        else:
            arg = np.random.RandomState(sd)
            if adv:
                arg.uniform(size=adv)
        ka = pykoop.RandomFourierKernelApprox(kern, n_components=D, method='weight_offset', random_state=arg)
        ka.fit(np.zeros((2, d)))
        payload = dict(test='seed_coq', kernel=kern, n_features=d, n_components=D, seed=sd, seed_type=kind, advanced_by=adv)
        if ka.random_weights_.shape != (d, D) or np.shape(ka.random_offsets_) != (D,):
            batch.add('', [('seed/shape', 'false')], payload)
            continue
        wpos = match_positions(inv_cdf(kern, ka.random_weights_), ref)        # C order: row by row
        opos = match_positions(ka.random_offsets_ / (2 * np.pi), ref)
        payload.update(weight_positions=wpos, offset_positions=opos)
        if wpos is None or opos is None:
            batch.add('', [('seed/positions-not-in-stream', 'false')], payload)
            continue
        lw = '[' + ';'.join(f'({sd}%nat,{q}%nat)' for q in wpos) + ']'
        lo = '[' + ';'.join(f'({sd}%nat,{q}%nat)' for q in opos) + ']'
        a = f'(SInt {sd}%nat)' if kind == 'int' else 'SState'
        st = f'({sd}%nat, {adv}%nat)'
        batch.add('', [(f'seed/{kind}/weights', f'list_eqb pos_eqb (rff_weight_pos {a} {st} {d}%nat {D}%nat) {lw}'),
                       (f'seed/{kind}/offsets', f'list_eqb pos_eqb (rff_offset_pos {a} {st} {d}%nat {D}%nat) {lo}')], payload)
        made += 1
        if len(samples) < 2:
            samples.append(payload)
    return made, samples


def fourier_pairs():
    """numerical validation of the ASSUMED Fourier pairs: E cos(w t) for the sampling distribution of each kernel"""
    out = []
    for name, dist, prof in (('gaussian', scipy.stats.norm, lambda t: np.exp(-t**2 / 2)),
                             ('laplacian', scipy.stats.cauchy, lambda t: np.exp(-abs(t))),
                             ('cauchy', scipy.stats.laplace, lambda t: 1 / (1 + t**2))):
        worst = 0.0
        for t in (0.0, 0.3, 1.0, 2.5):
            if name == 'laplacian':
                # heavy tails: use the Fourier-weighted quadrature of QUADPACK
                v = 2 * scipy.integrate.quad(lambda w: dist.pdf(w), 0, np.inf, weight='cos', wvar=t)[0] if t > 0 else 1.0
            else:
                v = scipy.integrate.quad(lambda w: np.cos(w * t) * dist.pdf(w), -np.inf, np.inf, limit=400)[0]
            worst = max(worst, abs(v - prof(t)))
        out.append(dict(kernel=name, distribution=dist.name, max_abs_error=float(worst)))
    return out


def run(res, tier):
    rng = np.random.default_rng(common.seed())
    proved = driver.proof_step(res, PID, allow_axioms=common.REALS_AXIOMS + ('Classical_Prop.classic',))
    known.report_known(res, PID)
    params = gen_params(rng, tier)
    bad, dist, kn, samples = [], {}, {}, []
    for p in params:
        key = f"{p['test']}/{p['kernel']}/{p['method']}/{p.get('seedtype', 'int')}"
        dist[key] = dist.get(key, 0) + 1
        try:
            info = TESTS[p['test']](p)
        except Exception as e:  # noqa
            info = dict(what=f'implementation raised {type(e).__name__}: {e}')
        if info:
            k = known_filter(p, info)
            if k:
                kn[k] = kn.get(k, 0) + 1
            else:
                bad.append(dict(info, params=p))
        if len(samples) < 3 and p['test'] == 'unbiased':
            samples.append(p)
    batch = dp.CoqBatch('c17', header_extra='From PK Require Import SeedModel CentersZ.\n')
    n1, s1 = seed_coq_cases(rng, 60 if tier == 'quick' else 600, batch)
    failed, errors = batch.run(shard=60)
    fp = fourier_pairs()
    for f in fp:
        if f['max_abs_error'] > 1e-6:
            bad.append(dict(what='assumed Fourier pair fails numerically (machinery assumption, not the implementation)', **f))
    res.coverage.update(
        evaluations=len(params) + n1, distinct_nontrivial=len({json.dumps(p, sort_keys=True) for p in params}) + n1,
        rule=('Translator tie: tools/gen_numeric.py regenerates Gen/Numeric.v (RandomFourierKernelApprox.transform for both '
              'methods, n_features_out_, the lifting-function stacking, the distribution table, rvs arguments and seed arguments of '
              'fit) from the source; BridgeC17.v / Props/C17.v are re-checked against it. Coq correspondence (compared inside Coq): '
              'stream positions of weights and offsets (int seed / advanced RandomState; laplacian and cauchy kernels) vs '
              'SeedModel.rff_weight_pos / rff_offset_pos. Direct tests: transform vs the documented formula from the fitted '
              'weights, unit norm, widths; KernelApproxLiftingFn layout with/without inputs and episode feature; statistical: mean over '
              'seeds of z(x).z(y) vs the named kernel for 6 point pairs in a box (negative sums, nearby pair, x = y) per '
              '(kernel, method, seed type, dimension, D, shape), z-score bound 6, RMS error <= 1.6/sqrt(D). The statistical part is a '
              'test, not a proof.'),
        samples=samples + s1[:1], input_distribution=dist, known_finding_hits=kn,
        model_vs_impl_disagreements=len(failed), coq_case_errors=len(errors), assumed_fourier_pairs_numeric=fp,
        explanation=('level "other": the deterministic identities, the layout and the seeding discipline are proved about code '
                     'regenerated from the source; unbiasedness is reduced to the named Fourier pairs (validated by quadrature '
                     'each run) and the law of large numbers; concentration is tested statistically.'))
    res.assumptions += ['Fourier pairs: E cos(w t) = exp(-t^2/2) (normal), exp(-|t|) (Cauchy), 1/(1+t^2) (Laplace) - assumed, '
                        'validated numerically each run',
                        'independence of offsets and weights follows from disjoint stream positions only for a RandomState / None seed '
                        '(SeedModel.rff_state_disjoint); numpy MT19937 is replayed as the reference stream',
                        'Coquelicot RInt (Classical_Prop.classic) for the mean of the offset term']
    _dp.conclude(res, PID, proved, batch, failed, errors, bad,
                 'Props/C17.v over Gen/Numeric.v (translator tie) / seed-position correspondence')


def replay(path):
    d = json.load(open(path))
    print(json.dumps(d, indent=1)[:3000])
    p = (d.get('case') or {}).get('params')
    if p and p.get('test') in TESTS:
        info = TESTS[p['test']](p)
        print('replayed:', info)
        return 1 if info else 0
    return 1
