"""C12 — LMI regressors minimise the regularised cost they document."""
import json
import numpy as np
import scipy.optimize
from .. import common, driver, known, lmi
from . import _dp
import pykoop
import pykoop.lmi_regressors as L

LEVEL = 'translation_validation'
PID = 'C12'
INV = ['inv', 'pinv', 'eig', 'ldl', 'chol', 'sqrt', 'svd']


def pairs(X, nu):
    labs = X[:, 0]; body = X[:, 1:]
    U, S = [], []
    for l in sorted(set(labs.tolist())):
        E = body[labs == l]
        for k in range(E.shape[0] - 1):
            U.append(E[k]); S.append(E[k + 1][:E.shape[1] - nu] if nu else E[k + 1])
    return np.array(U).T, np.array(S).T        # Psi (p x q), Theta_+ (r x q)


def doc_cost(U, Psi, Thp, a_tik, a_oth, reg, square):
    q = Psi.shape[1]
    c = np.sum((Thp - U @ Psi) ** 2) + a_tik * np.sum(U ** 2)
    if a_oth > 0 and reg != 'tikhonov':
        sv = np.linalg.svd(U, compute_uv=False)
        nrm = sv[0] if reg == 'twonorm' else np.sum(sv)
        c += a_oth * (nrm ** 2 if square else nrm)
    return float(c / q)


def coef_far(d, coef_ref, Psi, alpha, c_ref):
    """Is the coefficient difference d more than solver accuracy explains?  A solver that is accurate to eps in the
    cost pins the coefficients only to sqrt(2 eps / lambda_min(Hessian)); the Hessian of the documented cost is
    2 (Psi Psi^T + alpha I) / q.  eps: 1e-7 absolute or 1e-5 relative (the interior-point tolerances)."""
    q = Psi.shape[1]
    lam = float(np.min(np.linalg.eigvalsh(Psi @ Psi.T + alpha * np.eye(Psi.shape[0])))) / q
    eps = max(1e-7, 1e-5 * abs(c_ref))
    bound = np.sqrt(2 * eps / max(lam, 1e-300))
    return d > max(5e-3 * max(1.0, float(np.max(np.abs(coef_ref)))), 3 * bound)


def local_search(U0, f, rng):
    best = f(U0); bu = U0
    for scale in (1e-2, 1e-3):
        for _ in range(6):
            V = bu + scale * rng.normal(size=U0.shape) * max(1.0, float(np.max(np.abs(U0))))
            r = scipy.optimize.minimize(lambda v: f(v.reshape(U0.shape)), V.ravel(), method='Nelder-Mead',
                                        options=dict(maxiter=400, xatol=1e-7, fatol=1e-10))
            if r.fun < best:
                best = float(r.fun); bu = r.x.reshape(U0.shape)
    r = scipy.optimize.minimize(lambda v: f(v.reshape(U0.shape)), bu.ravel(), method='Powell',
                                options=dict(maxiter=3000, xtol=1e-8, ftol=1e-12))
    if r.fun < best:
        best = float(r.fun); bu = r.x.reshape(U0.shape)
    return best, bu


def run(res, tier):
    rng = np.random.default_rng(common.seed())
    proved = driver.proof_step(res, PID)
    known.report_known(res, PID)
    n = 30 if tier == 'quick' else 400
    bad = []; samples = []; dist = {}
    for cid in range(n):
        ns = int(rng.integers(1, 3)); nu = int(rng.integers(0, 2))
        kind = str(rng.choice(['stable', 'marginal']))
        X, _, _ = lmi.linear_data(rng, ns, nu, kind=kind, n_eps=2, length=int(rng.integers(8, 14)), noise=0.05)
        if cid % 3 == 1 and ns >= 2:
            # a small-variance state strongly correlated with a larger one: still well conditioned,
            # but pivoting factorizations of the Gram matrix permute rows
            X[:, 1] = 0.15 * X[:, 2] + 0.02 * X[:, 1]
        Psi, Thp = pairs(X, nu)
        if np.linalg.cond(Psi) > 200:
            dist['ill_conditioned_skipped'] = dist.get('ill_conditioned_skipped', 0) + 1
            continue
        fam = 'edmd' if cid % 4 != 3 else 'dmdc'
        reg_method = ['tikhonov', 'twonorm', 'nuclear'][cid % 3]
        alpha = float(rng.choice([0.0, 0.5, 2.0])) if reg_method == 'tikhonov' else float(rng.choice([0.5, 2.0]))
        ratio = 1.0 if reg_method == 'tikhonov' else float(rng.choice([1.0, 0.5]))
        square = bool(rng.random() < 0.5) if reg_method != 'tikhonov' else False
        # the flag as python bool, numpy bool or 0 / 1 (what a numpy-built parameter grid hands over)
        square_given = [square, np.bool_(square), int(square), np.int64(square)][cid % 4]
        inv = INV[int(rng.integers(0, 7))] if cid % 2 == 0 else INV[cid // 2 % 7]
        try:
            if fam == 'edmd':
                reg = L.LmiEdmd(alpha=alpha, ratio=ratio, reg_method=reg_method, inv_method=inv, square_norm=square_given,
                                solver_params=lmi.SOLVER)
            else:
                reg = L.LmiDmdc(alpha=alpha, ratio=ratio, reg_method=reg_method, square_norm=square_given, solver_params=lmi.SOLVER)
            reg.fit(X, n_inputs=nu, episode_feature=True)
        except Exception as e:  # noqa
            dist['fit_error'] = dist.get('fit_error', 0) + 1
            continue
        if getattr(reg, 'solution_status_', 'optimal') != 'optimal':
            dist['not_optimal_status'] = dist.get('not_optimal_status', 0) + 1
            continue
        key = f'{fam}/{reg_method}' + ('/sq' if square else '') + (f'/{inv}' if fam == 'edmd' else '')
        dist[key] = dist.get(key, 0) + 1
        U = reg.coef_.T
        a_tik = alpha if reg_method == 'tikhonov' else alpha * (1 - ratio)
        a_oth = 0.0 if reg_method == 'tikhonov' else alpha * ratio
        f = lambda V: doc_cost(V, Psi, Thp, a_tik, a_oth, reg_method, square)
        c_u = f(U)
        desc = dict(family=fam, estimator=repr(reg), n_states=ns, n_inputs=nu, cost=c_u)
        common.note_case('fit', desc['estimator'], X)
        info = None
        if reg_method == 'tikhonov':
            e = pykoop.Edmd(alpha=alpha).fit(X, n_inputs=nu, episode_feature=True)
            c_e = f(e.coef_.T)
            d = float(np.max(np.abs(e.coef_ - reg.coef_)))
            if c_u > c_e + 1e-3 * max(1e-3, abs(c_e)) or coef_far(d, e.coef_, Psi, alpha, c_e):
                info = dict(what='with pure Tikhonov regularisation the result does not coincide with Edmd',
                            cost_edmd=c_e, coef_difference=d)
        else:
            best, bu = local_search(U, f, rng)
            if best < c_u - 2e-4 * max(1.0, abs(c_u)):
                info = dict(what='an independent local search finds a matrix with lower documented cost',
                            cost_found=best, competitor=bu.tolist())
        if info:
            bad.append(dict(info, **desc, X=X.tolist()))
        if len(samples) < 3:
            samples.append(desc)
    # pure Tikhonov fits that must coincide with Edmd: LmiDmdc on autonomous systems (no input: the reduced matrix is square)
    for h in range(4 if tier == 'quick' else 24):
        ns = 2 + h % 2; nu = 0
        X, _, _ = lmi.linear_data(rng, ns, nu, kind='stable', n_eps=2, length=12, noise=0.05)
        mk = lambda: L.LmiDmdc(alpha=0.0, reg_method='tikhonov', solver_params=lmi.SOLVER)  # noqa
        label = 'LmiDmdc on an autonomous system'
        Psi, Thp = pairs(X, nu)
        if np.linalg.cond(Psi) > 200:
            continue
        try:
            reg = mk().fit(X, n_inputs=nu, episode_feature=True)
            e = pykoop.Edmd(alpha=0.0).fit(X, n_inputs=nu, episode_feature=True)
        except Exception:  # noqa
            dist['fit_error'] = dist.get('fit_error', 0) + 1
            continue
        if getattr(reg, 'solution_status_', 'optimal') != 'optimal':
            dist['not_optimal_status'] = dist.get('not_optimal_status', 0) + 1
            continue
        dist['tikhonov_vs_edmd_sweep'] = dist.get('tikhonov_vs_edmd_sweep', 0) + 1
        f = lambda V: doc_cost(V, Psi, Thp, 0.0, 0.0, 'tikhonov', False)  # noqa
        if reg.coef_.shape != e.coef_.shape:
            bad.append(dict(what='with pure Tikhonov regularisation the result does not have the shape of the Edmd result',
                            estimator=label, X=X.tolist()))
            continue
        c_u, c_e = f(reg.coef_.T), f(e.coef_.T)
        d = float(np.max(np.abs(e.coef_ - reg.coef_)))
        if c_u > c_e + 1e-3 * max(1e-3, abs(c_e)) or coef_far(d, e.coef_, Psi, 0.0, c_e):
            bad.append(dict(what='with pure Tikhonov regularisation the result does not coincide with Edmd', estimator=label,
                            cost=c_u, cost_edmd=c_e, coef_difference=d, X=X.tolist()))
    # every way of handling the Gram-matrix inverse, on data whose Gram matrix makes pivoting
    # factorizations permute rows: all seven must give the Edmd optimum
    n_sweep = 3 if tier == 'quick' else 25
    import scipy.linalg
    for h in range(n_sweep):
        ns = 2 + h % 2; nu = h % 2
        X, _, _ = lmi.linear_data(rng, ns, nu, kind='stable', n_eps=2, length=12, noise=0.05)
        X[:, 1] = float(rng.uniform(0.1, 0.2)) * X[:, 2] + 0.02 * X[:, 1]
        Psi, Thp = pairs(X, nu)
        if np.linalg.cond(Psi) > 300:
            continue
        perm = scipy.linalg.ldl(Psi @ Psi.T / Psi.shape[1])[2]
        dist['sweep_pivoting' if not np.array_equal(perm, np.arange(len(perm))) else 'sweep_no_pivot'] = \
            dist.get('sweep_pivoting' if not np.array_equal(perm, np.arange(len(perm))) else 'sweep_no_pivot', 0) + 1
        for alpha in (0.0, 2.0):
            e = pykoop.Edmd(alpha=alpha).fit(X, n_inputs=nu, episode_feature=True)
            c_e = doc_cost(e.coef_.T, Psi, Thp, alpha, 0.0, 'tikhonov', False)
            for inv in INV:
                try:
                    reg = L.LmiEdmd(alpha=alpha, reg_method='tikhonov', inv_method=inv, solver_params=lmi.SOLVER)
                    reg.fit(X, n_inputs=nu, episode_feature=True)
                except Exception:  # noqa
                    dist['fit_error'] = dist.get('fit_error', 0) + 1
                    continue
                dist[f'sweep/{inv}'] = dist.get(f'sweep/{inv}', 0) + 1
                c_u = doc_cost(reg.coef_.T, Psi, Thp, alpha, 0.0, 'tikhonov', False)
                d = float(np.max(np.abs(e.coef_ - reg.coef_)))
                if c_u > c_e + 1e-3 * max(1e-3, abs(c_e)) or coef_far(d, e.coef_, Psi, alpha, c_e):
                    bad.append(dict(what='LmiEdmd with this inv_method does not return the Edmd optimum under pure Tikhonov '
                                         'regularisation', inv_method=inv, alpha=alpha, cost=c_u, cost_edmd=c_e,
                                    coef_difference=d, X=X.tolist()))
    # LDL factorisations whose pivot order is a permutation that is not its own inverse (a cycle of three or more
    # features): found by sampling well-conditioned data sets with four or five features
    n_cyc = 2 if tier == 'quick' else 10
    found = 0
    for t in range(400):
        if found >= n_cyc:
            break
        ns, nu = (3, 1) if t % 2 == 0 else (3, 2)
        X, _, _ = lmi.linear_data(rng, ns, nu, kind='stable', n_eps=2, length=12, noise=0.05)
        X[:, 1:] *= rng.uniform(0.3, 3.0, size=ns + nu)
        Psi, Thp = pairs(X, nu)
        if np.linalg.cond(Psi) > 100:
            continue
        alpha = 0.0 if t % 4 < 2 else 2.0
        q = Psi.shape[1]
        perm = scipy.linalg.ldl(Psi @ Psi.T / q + alpha / q * np.eye(Psi.shape[0]))[2]
        if np.array_equal(perm[perm], np.arange(len(perm))):
            continue
        found += 1
        dist['sweep_ldl_pivot_cycle'] = dist.get('sweep_ldl_pivot_cycle', 0) + 1
        e = pykoop.Edmd(alpha=alpha).fit(X, n_inputs=nu, episode_feature=True)
        c_e = doc_cost(e.coef_.T, Psi, Thp, alpha, 0.0, 'tikhonov', False)
        for inv in ('ldl', 'chol'):
            try:
                reg = L.LmiEdmd(alpha=alpha, reg_method='tikhonov', inv_method=inv, solver_params=lmi.SOLVER)
                reg.fit(X, n_inputs=nu, episode_feature=True)
            except Exception:  # noqa
                dist['fit_error'] = dist.get('fit_error', 0) + 1
                continue
            c_u = doc_cost(reg.coef_.T, Psi, Thp, alpha, 0.0, 'tikhonov', False)
            d = float(np.max(np.abs(e.coef_ - reg.coef_)))
            if c_u > c_e + 1e-3 * max(1e-3, abs(c_e)) or coef_far(d, e.coef_, Psi, alpha, c_e):
                bad.append(dict(what='LmiEdmd with this inv_method does not return the Edmd optimum under pure Tikhonov '
                                     'regularisation', inv_method=inv, alpha=alpha, cost=c_u, cost_edmd=c_e, pivot_order=perm.tolist(),
                                coef_difference=d, X=X.tolist()))
    # a single state (the Koopman matrix is a row vector): nuclear / two-norm of a vector is its Euclidean norm
    vec = [(fam, nu, rm) for fam in ('edmd', 'dmdc') for nu in (1, 2) for rm in ('nuclear', 'twonorm')]
    for j, (fam, nu, rm) in enumerate(vec if tier != 'quick' else vec[::2] + vec[1::4]):
        X, _, _ = lmi.linear_data(rng, 1, nu, kind='stable', n_eps=2, length=12, noise=0.05)
        Psi, Thp = pairs(X, nu)
        alpha, ratio, square = 1.0, (1.0 if j % 2 == 0 else 0.5), bool(j % 3 == 0)
        square_given = [square, np.bool_(square), int(square)][j % 3]
        try:
            if fam == 'edmd':
                reg = L.LmiEdmd(alpha=alpha, ratio=ratio, reg_method=rm, inv_method='chol', square_norm=square_given, solver_params=lmi.SOLVER)
            else:
                reg = L.LmiDmdc(alpha=alpha, ratio=ratio, reg_method=rm, square_norm=square_given, solver_params=lmi.SOLVER)
            reg.fit(X, n_inputs=nu, episode_feature=True)
        except Exception:  # noqa
            dist['fit_error'] = dist.get('fit_error', 0) + 1
            continue
        if getattr(reg, 'solution_status_', 'optimal') != 'optimal':
            dist['not_optimal_status'] = dist.get('not_optimal_status', 0) + 1
            continue
        dist['single_state/' + rm] = dist.get('single_state/' + rm, 0) + 1
        f = lambda V: doc_cost(V, Psi, Thp, alpha * (1 - ratio), alpha * ratio, rm, square)
        c_u = f(reg.coef_.T)
        best, bu = local_search(reg.coef_.T, f, rng)
        if best < c_u - 2e-4 * max(1.0, abs(c_u)):
            bad.append(dict(what='an independent local search finds a matrix with lower documented cost', cost=c_u, cost_found=best,
                            competitor=bu.tolist(), family=fam, estimator=repr(reg), n_states=1, n_inputs=nu, X=X.tolist()))
    # history: a fit must not be served a factorisation memoised for OTHER parameters (truncated SVD first, then the
    # untruncated one on the same data and alpha); reference = the same fit with an emptied cache, and Edmd
    n_hist = 2 if tier == 'quick' else 12
    for h in range(n_hist):
        Xh, _, _ = lmi.linear_data(rng, 2, 1, kind='stable', n_eps=2, length=12, noise=0.05)
        Xh = np.hstack((Xh, rng.normal(size=(Xh.shape[0], 1))))        # 2 states + 2 inputs
        alpha = float(rng.choice([0.1, 0.5]))
        kw = dict(alpha=alpha, inv_method='svd', solver_params=lmi.SOLVER)
        if h % 2 == 1:
            kw.update(reg_method='nuclear', ratio=0.6, square_norm=True)
        try:
            L.LmiEdmd(tsvd=pykoop.Tsvd('rank', 3), **kw).fit(Xh, n_inputs=2, episode_feature=True)
            second = L.LmiEdmd(**kw).fit(Xh, n_inputs=2, episode_feature=True)
            L.memory.clear(warn=False)
            fresh = L.LmiEdmd(**kw).fit(Xh, n_inputs=2, episode_feature=True)
        except Exception:  # noqa
            dist['fit_error'] = dist.get('fit_error', 0) + 1
            continue
        dist['history/truncated_then_untruncated'] = dist.get('history/truncated_then_untruncated', 0) + 1
        d = float(np.max(np.abs(second.coef_ - fresh.coef_)))
        st2, st3 = getattr(second, 'solution_status_', 'optimal'), getattr(fresh, 'solution_status_', 'optimal')
        if st2 != st3 or d > 2e-3 * max(1.0, float(np.max(np.abs(fresh.coef_)))):
            bad.append(dict(what='an LmiEdmd(inv_method=svd) fit that follows a fit with another truncation on the same data differs '
                                 'from the same fit with an empty memo cache (stale memoised factorisation): the cost minimised is '
                                 'not the documented one', coef_difference=d, status_after_history=st2, status_fresh=st3,
                            estimator=repr(second), X=Xh.tolist()))
    # another LMI estimator fitted earlier with degrading solver settings must not change what a later estimator with
    # default settings is solved with
    for h in range(2 if tier == 'quick' else 8):
        cls = [L.LmiEdmd, L.LmiDmdc][h % 2]
        Xh, _, _ = lmi.linear_data(rng, 2, 1, kind='stable', n_eps=2, length=12, noise=0.05)
        try:
            ref = cls(alpha=0.5, solver_params=lmi.SOLVER).fit(Xh, n_inputs=1, episode_feature=True)
            cls(alpha=0.5, solver_params=dict(lmi.SOLVER, max_iterations=3)).fit(Xh, n_inputs=1, episode_feature=True)
            later = cls(alpha=0.5, solver_params=lmi.SOLVER).fit(Xh, n_inputs=1, episode_feature=True)
        except Exception:  # noqa
            dist['fit_error'] = dist.get('fit_error', 0) + 1
            continue
        dist['history/after_degraded_fit_of_another_object'] = dist.get('history/after_degraded_fit_of_another_object', 0) + 1
        want = dict(lmi.PRISTINE_SOLVER_DEFAULTS, **lmi.SOLVER)
        d = float(np.max(np.abs(later.coef_ - ref.coef_)))
        if later.solver_params_ != want or d > 1e-4 * max(1.0, float(np.max(np.abs(ref.coef_)))) \
                or getattr(later, 'solution_status_', 'optimal') != getattr(ref, 'solution_status_', 'optimal'):
            bad.append(dict(what='a fit with default solver settings is influenced by the solver settings of ANOTHER estimator object '
                                 'fitted earlier in the process: the returned matrix is not the minimiser of the documented cost',
                            solver_params_used={k: v for k, v in later.solver_params_.items() if want.get(k) != v},
                            coef_difference=d, status=getattr(later, 'solution_status_', None), estimator=repr(later), X=Xh.tolist()))
    ev = sum(v for k, v in dist.items() if k not in ('fit_error', 'ill_conditioned_skipped', 'not_optimal_status',
                                                     'sweep_pivoting', 'sweep_no_pivot'))
    res.coverage.update(
        programs=ev, disagreements_checked=ev, evaluations=ev, distinct_nontrivial=ev,
        rule=('CVXOPT fits of LmiEdmd (all 7 inv_method values) and untruncated LmiDmdc with reg_method in {tikhonov, twonorm, '
              'nuclear}, square_norm, ratio in {1, 0.5}, alpha in {0, 0.5, 2} on well-conditioned data (cond <= 200), one third '
              'with a small-variance correlated state so that pivoting factorizations permute. Pure Tikhonov: documented cost and '
              'coefficients vs Edmd (2e-3). Norm regularisers: Nelder-Mead + Powell local search from the returned matrix on '
              'the documented cost must not improve it by more than 2e-4 relative (testing, not proof).'),
        samples=samples, input_distribution=dist)
    res.assumptions += ['proved (Props/C12.v, mathcomp): the Schur-complement LMI with H = L L^T encodes Z >= U H U^T, and the '
                        'normal equations certify the Tikhonov optimum (C06_optimal); optimality for the norm regularisers is '
                        'checked by local search only; CVXOPT is an oracle (interior-point accuracy ~1e-5)']

    class B:
        meta = {}
    _dp.conclude(res, PID, proved, B(), [], [], bad, 'Props/C12.v (Schur complement, Tikhonov optimum) + per-fit cost comparison')


def replay(path):
    d = json.load(open(path)); print(json.dumps(d, indent=1)[:3000]); return 1
