"""C02 — lifted state block never depends on the exogenous input."""
import numpy as np
from .. import common, driver, direct, known
from . import _dp

LEVEL = 'proof'
PID = 'C02'


def run(res, tier):
    rng = np.random.default_rng(common.seed())
    proved = driver.proof_step(res, PID)
    known.report_known(res, PID)
    n_m2, n_dir = (110, 200) if tier == 'quick' else (1200, 3000)
    batch, failed, errors, dist, distinct, samples = _dp.run_m2(
        'c02', rng, n_m2, ('transform', 'dims'), gen_kw=dict(max_len=3, max_depth=2))
    ev, bad, kn, s2 = _dp.run_direct(
        rng, n_dir, [('noninterference', lambda c, r, kp: direct.c02_noninterference(c, r, kp))],
        gen_kw=dict(max_len=3, max_depth=2))
    n4, bad4 = direct.leaf_refit(rng)
    bad = bad + bad4
    ev += n4
    n_k, bad_k = direct.extra_kernel_checks(rng, 'noninterference')
    ev += n_k; bad = bad + [dict(b, test='noninterference_kernel_approximations') for b in bad_k]
    res.coverage.update(
        refit_histories=n4,
        evaluations=len(batch.meta) + ev, distinct_nontrivial=distinct + ev,
        rule=('M2: transform output and declared (n_states_out_, n_inputs_out_) compared with the Coq model on random '
              'pipelines x layouts (integer-exact). Direct: real sub-estimators; input columns replaced by fresh random '
              'values, lifted-state block must be bit-identical; width = ep + n_states_out_ + n_inputs_out_.'),
        samples=samples + s2, input_distribution=dist, model_vs_impl_disagreements=len(failed),
        coq_case_errors=len(errors))
    res.assumptions += ['wrapped scikit-learn transformers are column-wise (the property restricts to them)',
                        'PolynomialFeatures.powers_ well-formed (wf_powers)']
    _dp.conclude(res, PID, proved, batch, failed, errors, bad,
                 'Props/C02.v / M2 transform+dims correspondence')


def replay(path):
    return _dp.replay_direct(path)
