"""C04 — declared dimensions and sample counts match the arrays produced."""
import numpy as np
from .. import common, driver, direct, known
from . import _dp
import pykoop
import scipy.stats

LEVEL = 'proof'
PID = 'C04'


def centers_contract():
    """centers_.shape == (n_centers_, n_features) for every generator; RBF / kernel widths."""
    bad = []
    n = 0
    rng = np.random.default_rng(5)
    for nf in (1, 2, 3, 5):
        X = rng.normal(size=(12, nf))
        gens = []
        for k in (1, 2, 5):
            gens += [pykoop.UniformRandomCenters(n_centers=k, random_state=1),
                     pykoop.GaussianRandomCenters(n_centers=k, random_state=1),
                     pykoop.QmcCenters(n_centers=k, random_state=1),
                     pykoop.QmcCenters(n_centers=k, random_state=1, qmc=scipy.stats.qmc.Sobol),
                     pykoop.QmcCenters(n_centers=k, random_state=1, qmc=scipy.stats.qmc.Halton),
                     pykoop.GaussianMixtureRandomCenters(n_centers=k),
                     pykoop.DataCenters(centers=rng.normal(size=(k, nf)))]
        gens += [pykoop.GridCenters(n_points_per_feature=k) for k in (1, 2, 3)]
        gens += [pykoop.ClusterCenters(), pykoop.DataCenters()]
        for g in gens:
            n += 1
            try:
                g.fit(X)
                ok = (np.ndim(g.centers_) == 2 and g.centers_.shape == (g.n_centers_, nf))
                rbf = pykoop.RbfLiftingFn(centers=g).fit(X)
                Xt = rbf.transform(X)
                ok = ok and Xt.shape[1] == rbf.n_features_out_ == nf + g.n_centers_
                info = dict(shape=list(np.shape(g.centers_)), n_centers=int(g.n_centers_))
            except Exception as e:  # noqa
                ok, info = False, dict(error=f'{type(e).__name__}: {e}')
            if not ok:
                bad.append(dict(what='centers_ is not (n_centers_, n_features) / RBF width differs from declared',
                                generator=repr(g), n_features=nf, **info))
    for m in ('weight_offset', 'weight_only'):
        for nc in (1, 3, 10):
            for nf in (1, 3):
                n += 1
                X = rng.normal(size=(6, nf))
                lf = pykoop.KernelApproxLiftingFn(pykoop.RandomFourierKernelApprox(n_components=nc, method=m, random_state=0)).fit(X)
                if lf.transform(X).shape[1] != lf.n_features_out_:
                    bad.append(dict(what='kernel lifting width differs from declared', method=m, n_components=nc))
    # kernel approximations of scikit-learn are accepted too (documented fallback without n_features_out_)
    import sklearn.kernel_approximation as ska
    for mk in (lambda: ska.Nystroem(n_components=100, random_state=0), lambda: ska.Nystroem(n_components=3, random_state=0),
               lambda: ska.RBFSampler(n_components=5, random_state=0), lambda: ska.AdditiveChi2Sampler(sample_steps=2),
               lambda: ska.SkewedChi2Sampler(n_components=4, random_state=0),
               lambda: ska.PolynomialCountSketch(n_components=6, random_state=0)):
        for nu_k in (0, 1):
            n += 1
            X = np.abs(rng.normal(size=(7, 3))) + 0.1
            try:
                lf = pykoop.KernelApproxLiftingFn(mk()).fit(X, n_inputs=nu_k)
                Xt = lf.transform(X)
                names = lf.get_feature_names_out()
            except Exception as e:  # noqa
                bad.append(dict(what=f'kernel lifting with a scikit-learn approximation raised {type(e).__name__}: {e}',
                                estimator=repr(mk())))
                continue
            if Xt.shape[1] != lf.n_features_out_ or len(names) != Xt.shape[1] \
                    or lf.n_states_out_ + lf.n_inputs_out_ != Xt.shape[1]:
                bad.append(dict(what='kernel lifting width differs from declared (scikit-learn kernel approximation)',
                                estimator=repr(mk()), produced=int(Xt.shape[1]), declared=int(lf.n_features_out_),
                                n_names=int(len(names))))
    # random binning on many widely spread samples (more than a thousand occupied bins per component)
    n += 1
    Xw = rng.uniform(-300.0, 300.0, size=(1500, 2))
    try:
        lf = pykoop.KernelApproxLiftingFn(pykoop.RandomBinningKernelApprox(n_components=2, random_state=0)).fit(Xw)
        wt = lf.transform(Xw[:40]).shape[1]
        if wt != lf.n_features_out_:
            bad.append(dict(what='kernel lifting width differs from declared', method='binning, 1500 widely spread samples',
                            produced=int(wt), declared=int(lf.n_features_out_)))
    except Exception as e:  # noqa
        bad.append(dict(what=f'kernel lifting (binning, 1500 widely spread samples) raised {type(e).__name__}: {e}'[:300]))
    for nc in (1, 4):
        n += 1
        X = rng.normal(size=(8, 2))
        lf = pykoop.KernelApproxLiftingFn(pykoop.RandomBinningKernelApprox(n_components=nc, random_state=0)).fit(X)
        if lf.transform(X).shape[1] != lf.n_features_out_:
            bad.append(dict(what='kernel lifting width differs from declared', method='binning', n_components=nc))
    return n, bad


def run(res, tier):
    rng = np.random.default_rng(common.seed())
    proved = driver.proof_step(res, PID)
    known.report_known(res, PID)
    n_m2, n_dir = (200, 200) if tier == 'quick' else (2500, 3000)
    batch, failed, errors, dist, distinct, samples = _dp.run_m2(
        'c04', rng, n_m2, ('dims', 'transform'), gen_kw=dict(max_len=3, max_depth=2), shard=16)
    ev, bad, kn, s2 = _dp.run_direct(
        rng, n_dir, [('dims', lambda c, r, kp: direct.c04_dims(c, kp))], gen_kw=dict(max_len=3, max_depth=2))
    n3, bad3 = centers_contract()
    n4, bad4 = direct.leaf_refit(rng)
    n3 += n4
    bad3 = bad3 + bad4
    n_k, bad_k = direct.extra_kernel_checks(rng, 'dims')
    n3 += n_k; bad3 = bad3 + bad_k
    res.coverage.update(
        evaluations=len(batch.meta) + ev + n3, distinct_nontrivial=distinct + ev + n3,
        rule=('M2: (n_states_out_, n_inputs_out_, min_samples_, n_samples_in(4)) and transform output of the '
              'implementation vs sdims/min_samples/samples_in/transform of the Coq model. Direct: every fitted stage of '
              'random real pipelines: n_features_out_ = ep + states + inputs, chain consistency, min_samples_ = '
              'n_samples_in(1), additivity, produced widths and per-episode sample counts. Contract of the oracles: '
              'centers_.shape for the 7 generators x {1,2,3,5} features x counts {1,2,5}, kernel widths.'),
        samples=samples + s2, input_distribution=dist, model_vs_impl_disagreements=len(failed),
        coq_case_errors=len(errors), centre_generator_contracts=n3)
    _dp.conclude(res, PID, proved, batch, failed, errors, bad + bad3,
                 'Props/C04.v / M2 dims correspondence')


def replay(path):
    return _dp.replay_direct(path)
