"""C01 — lift then retract returns the original data for every pipeline."""
import numpy as np
from .. import common, driver, direct, known
from . import _dp

LEVEL = 'proof'
PID = 'C01'


def kfilter(ids):
    def f(case, name, info):
        if name == 'roundtrip_helpers' and case['ep']:
            return None      # the twin was fitted WITHOUT an episode feature: its inverse never sees two episodes at once
        if 'F11' in ids and known.F11(case):
            return 'F11'
        return None
    return f


def run(res, tier):
    rng = np.random.default_rng(common.seed())
    proved = driver.proof_step(res, PID)
    ids = known.report_known(res, PID)
    n_m2, n_dir = (110, 150) if tier == 'quick' else (1200, 2500)
    batch, failed, errors, dist, distinct, samples = _dp.run_m2(
        'c01', rng, n_m2, ('transform', 'inverse'), gen_kw=dict(max_len=3, max_depth=2))
    ev, bad, kn, s2 = _dp.run_direct(
        rng, n_dir, [('roundtrip', lambda c, r, kp: direct.c01_roundtrip(c, kp)),
                     ('roundtrip_helpers', lambda c, r, kp: direct.c01_roundtrip_helpers(c, kp))],
        known_filter=kfilter(ids), gen_kw=dict(max_len=3, max_depth=2))
    # kernel approximations whose width is decided at fit time (scikit-learn's, random binning): round trip, bare and in a pipeline
    n_k, bad_k = direct.extra_kernel_checks(rng, 'roundtrip')
    ev += n_k; bad = bad + [dict(b, test='roundtrip_kernel_approximations') for b in bad_k]
    res.coverage.update(
        evaluations=len(batch.meta) + ev, distinct_nontrivial=distinct + ev,
        rule=('M2: random pipelines (8 leaf kinds, nested Split/KoopmanPipeline, depth<=2) x episode layouts, integer-exact '
              'sub-estimators; transform and inverse_transform outputs compared cell by cell inside Coq (vm_compute). '
              'Direct: real sub-estimators (named RBFs, RFF, sklearn scalers, cos/sin), data in (-pi,pi), '
              'inverse_transform(transform(X)) vs trailing samples per episode and state-prefix clause, tol 1e-9. '
              'distinct = distinct (pipeline, data); non-trivial = at least one stage.'),
        samples=samples + s2, input_distribution=dist, model_vs_impl_disagreements=len(failed),
        coq_case_errors=len(errors), known_finding_hits=kn)
    res.assumptions += ['atan2(sin x, cos x) = x on (-pi, pi] and wrapped scalers invertible (hypotheses of the theorems; '
                        'checked numerically to 1e-9)', 'sklearn PolynomialFeatures.powers_ is data (wf_powers evaluated per case)']
    _dp.conclude(res, PID, proved, batch, failed, errors, bad,
                 'Props/C01.v / M2 transform+inverse correspondence')


def replay(path):
    return _dp.replay_direct(path)
