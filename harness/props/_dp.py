"""Shared runner for the data-path properties (C01-C04, C07, C16, C19): proof step,
M2 correspondence on selected observables, direct property tests, verdicts."""
import json
import sys

import numpy as np

from .. import common, datapath as dp, stagegen as sg, intest, driver, direct
import pykoop


def fnum(b):
    return 'true' if b else 'false'


def m2_checks(case, kp, p, Xt, observables, rng):
    """Coq boolean checks for one fitted integer case."""
    checks = []
    ep = case['ep']; ns = case['ns']; nu = case['nu']
    F = sg.render_fitted(p)
    nso, nuo = kp.n_states_out_, kp.n_inputs_out_
    if 'transform' in observables:
        checks.append(('transform', f'dmat_eqb (ztransform {p}_s {p}_ep {p}_d {p}_X) {sg.render_dmat(Xt, ep)}'))
    if 'dims' in observables:
        checks.append(('wf', f'wf {p}_s {p}_d'))
        checks.append(('dims', f'(Nat.eqb (fst (sdims {p}_s {p}_d)) {nso} && Nat.eqb (snd (sdims {p}_s {p}_d)) {nuo} '
                               f'&& Nat.eqb (min_samples {p}_s) {kp.min_samples_} '
                               f'&& Nat.eqb (samples_in {p}_s 4) {kp.n_samples_in(4)})%bool'))
    if 'inverse' in observables:
        Xi, err = dp.safe(lambda: kp.inverse_transform(Xt))
        if Xi is not None and sg.is_integral(Xi):
            checks.append(('inverse', f'dmat_eqb (zinverse {p}_s {p}_ep {p}_d {sg.render_dmat(Xt, ep)}) '
                                      f'{sg.render_dmat(Xi, ep)}'))
    if 'helpers' in observables:
        for call in (None, True, False):
            c = ep if call is None else call
            if call is None or call == ep:
                Xc = case['X']
            elif call:
                order, _ = sg.gen_layout(rng, case['w'], max_eps=3)
                Xc = sg.gen_data(rng, order, ns, nu, True)
            else:
                Xc = case['X'][:, 1:]
            cs = sg.opt_bool(call)
            L, _ = dp.safe(lambda: kp.lift(Xc, episode_feature=call))
            if L is None or not sg.is_integral(L):
                continue
            checks.append((f'lift/{call}', f'rows_eqb (zlift {F} {cs} {sg.render_raw(Xc)}) {sg.render_raw(L)}'))
            r2, _ = dp.safe(lambda: kp.retract(L, episode_feature=call))
            if r2 is not None and sg.is_integral(r2):
                checks.append((f'retract/{call}', f'rows_eqb (zretract {F} {cs} {sg.render_raw(L)}) {sg.render_raw(r2)}'))
            off = 1 if c else 0
            Xs = Xc[:, :off + ns]
            r3, _ = dp.safe(lambda: kp.lift_state(Xs, episode_feature=call))
            if r3 is not None and sg.is_integral(r3):
                checks.append((f'lift_state/{call}', f'rows_eqb (zlift_state {F} {cs} {sg.render_raw(Xs)}) {sg.render_raw(r3)}'))
                r4, _ = dp.safe(lambda: kp.retract_state(r3, episode_feature=call))
                if r4 is not None and sg.is_integral(r4):
                    checks.append((f'retract_state/{call}', f'rows_eqb (zretract_state {F} {cs} {sg.render_raw(r3)}) {sg.render_raw(r4)}'))
            r5, _ = dp.safe(lambda: kp.lift_input(Xc, episode_feature=call))
            if r5 is not None and sg.is_integral(r5):
                checks.append((f'lift_input/{call}', f'rows_eqb (zlift_input {F} {cs} {sg.render_raw(Xc)}) {sg.render_raw(r5)}'))
                r6, _ = dp.safe(lambda: kp.retract_input(r5, episode_feature=call))
                if r6 is not None and sg.is_integral(r6):
                    checks.append((f'retract_input/{call}', f'rows_eqb (zretract_input {F} {cs} {sg.render_raw(r5)}) {sg.render_raw(r6)}'))
    if 'names' in observables:
        for fmt in (None, 'latex'):
            for call in (None, True, False):
                try:
                    r = kp.get_feature_names_out(format=fmt, episode_feature=call)
                except Exception as e:  # a valid fitted estimator must always be able to name its columns
                    checks.append((f'names/{fmt}/{call}/raised {type(e).__name__}: {e}', 'false'))
                    continue
                checks.append((f'names/{fmt}/{call}',
                               f'strs_eqb (znames_out {p}_s {p}_ep {p}_d None {sg.opt_bool(call)} {fnum(fmt == "latex")}) {sg.render_strs(r)}'))
            r = kp.get_feature_names_out(format=fmt, symbols_only=True)
            checks.append((f'symbols/{fmt}', f'strs_eqb (zsymbol_names {p}_s {p}_ep {p}_d None {fnum(fmt == "latex")}) {sg.render_strs(r)}'))
    return checks


def m2_predict_checks(case, p, rng, observables):
    """predict / predict_trajectory with an integer DataRegressor."""
    checks = []
    ep = case['ep']; ns = case['ns']; nu = case['nu']
    F = sg.render_fitted(p)
    d = case['dims']
    nso, nuo = d
    coef = rng.integers(-1, 2, size=(nso + nuo, nso)).astype(float)
    kp2 = sg.build_top(case['chain'], regressor=pykoop.DataRegressor(coef=coef))
    try:
        kp2.fit(case.get('Xfit', case['X']), n_inputs=nu, episode_feature=ep)
    except Exception:  # noqa
        return checks, None
    C = '[' + ';'.join(sg.zrow(r) for r in coef) + ']'
    X = case['X']
    # exact comparison needs every intermediate of the float computation to be an exactly represented integer: the
    # lifted values (all of them appear in the lifted output) must stay far below 2^53 (their signed sums too)
    EXACT = 2.0 ** 45
    if 'predict' in observables:
        r, _ = dp.safe(lambda: kp2.predict(X))
        lt, _ = dp.safe(lambda: kp2.transform(X))
        if r is not None and sg.is_integral(r) and lt is not None and sg.is_integral(lt, EXACT):
            checks.append(('predict', f'rows_eqb (zpredict {F} {C} {sg.render_raw(X)}) {sg.render_raw(r)}'))
    if 'ptraj' in observables:
        w = kp2.min_samples_
        x0 = pykoop.extract_initial_conditions(X, min_samples=w, n_inputs=nu, episode_feature=ep)
        u = pykoop.extract_input(X, n_inputs=nu, episode_feature=ep)
        for relift in (True, False):
            lt, _ = dp.safe(lambda: kp2.predict_trajectory(X, relift_state=relift, return_lifted=True, return_input=True))
            if lt is None or not sg.is_integral(lt, EXACT):
                continue
            for rl in (False, True):
                for ri in (False, True):
                    for form in ('single', 'pair'):
                        if form == 'pair' and (rl or ri) and rng.random() < 0.5:
                            continue
                        if form == 'single':
                            r, _ = dp.safe(lambda: kp2.predict_trajectory(
                                X, relift_state=relift, return_lifted=rl, return_input=ri))
                            args = f'{sg.render_raw(X)} None'
                        else:
                            r, _ = dp.safe(lambda: kp2.predict_trajectory(
                                x0, u, relift_state=relift, return_lifted=rl, return_input=ri))
                            args = f'{sg.render_raw(x0)} (Some {sg.render_raw(u)})'
                        if r is None or not sg.is_integral(r):
                            continue
                        checks.append((f'ptraj/{form}/{relift}/{rl}/{ri}',
                                       f'rows_eqb (zpredict_trajectory {F} {C} {w}%nat {fnum(relift)} {fnum(rl)} '
                                       f'{fnum(ri)} None {args}) {sg.render_raw(r)}'))
    return checks, kp2


def run_m2(name, rng, n, observables, gen_kw=None, header_extra='', shard=12):
    gen_kw = gen_kw or {}
    batch = dp.CoqBatch(name, header_extra=header_extra)
    dist = {'kinds': {}, 'depth': {}, 'layout': {}, 'episodes': {}, 'skipped_nonintegral': 0,
            'impl_errors': 0, 'short_episode_cases': 0}
    seen = set()
    samples = []
    with intest.integer_trig():
        for cid in range(n):
            case = dp.gen_case(rng, cid, **gen_kw)
            try:
                kp = dp.fit_case(case)
                Xt = kp.transform(case['X'])
            except Exception:  # noqa
                dist['impl_errors'] += 1
                continue
            if not sg.is_integral(Xt):
                dist['skipped_nonintegral'] += 1
                continue
            p = f'c{cid}'
            checks = m2_checks(case, kp, p, Xt, observables, rng)
            if 'predict' in observables or 'ptraj' in observables:
                more, _ = m2_predict_checks(case, p, rng, observables)
                checks += more
            if not checks:
                continue
            payload = dp.describe(case)
            payload['X'] = case['X'].tolist()
            batch.add(dp.coq_case_defs(case, kp, p), checks, payload)
            for k in set(sg.kinds_of(('pipe', case['chain']))):
                dist['kinds'][k] = dist['kinds'].get(k, 0) + 1
            dd = str(sg.depth(('pipe', case['chain'])))
            dist['depth'][dd] = dist['depth'].get(dd, 0) + 1
            dist['layout'][case['mode']] = dist['layout'].get(case['mode'], 0) + 1
            ne = str(len(set(case['X'][:, 0].tolist())) if case['ep'] else 1)
            dist['episodes'][ne] = dist['episodes'].get(ne, 0) + 1
            seen.add(json.dumps([payload['chain'], payload['X']]))
            if len(samples) < 2:
                samples.append({k: v for k, v in payload.items() if k != 'X'} | {'X_head': payload['X'][:3]})
    failed, errors = batch.run(shard=shard)
    return batch, failed, errors, dist, len(seen), samples


def conclude(res, pid, proved, batch, failed, errors, direct_bad, theorem_desc):
    """Verdict policy of DESIGN.md section 2.3."""
    for b in direct_bad[:3]:
        res.violation(dict(property=pid, what=b.get('what', 'property violated on the implementation'), case=b))
    if (failed or errors or not proved) and not direct_bad:
        what = []
        if not proved:
            what.append(f'proof obligations of Props/{pid}.v (or their dependencies) no longer check: '
                        + (res.build_log or '')[-1500:])
        if failed:
            ex = []
            for i in failed[:3]:
                payload, tag = batch.meta[i]
                ex.append(dict(check=tag, case=payload))
            what.append('model/implementation correspondence broken: ' + json.dumps(ex, default=str)[:6000])
        if errors:
            what.append('coqc failed on generated case files: ' + errors[0][1][-1500:])
        res.violation(dict(property=pid, broken=what, theorem_or_correspondence=theorem_desc),
                      found_input=False)


CASE_SECONDS = 30


class CaseTooSlow(BaseException):
    pass


class time_limit:
    """wall-clock limit for the set-up of one generated case (main thread only)"""

    def __init__(self, seconds):
        self.seconds = seconds

    def __enter__(self):
        import signal
        self.old = signal.signal(signal.SIGALRM, self._raise)
        signal.alarm(self.seconds)

    def __exit__(self, *a):
        import signal
        signal.alarm(0)
        signal.signal(signal.SIGALRM, self.old)
        return False

    @staticmethod
    def _raise(*a):
        raise CaseTooSlow()


def run_direct(rng, n, fns, known_filter=None, gen_kw=None, res=None):
    """fns: list of (name, fn(case, rng) -> (ok, info)).  Returns (evaluations, bad, known_hits, samples)."""
    gen_kw = gen_kw or {}
    bad, samples = [], []
    evals = 0
    known = {}
    skipped = 0
    for cid in range(n):
        case = direct.gen_real_case(rng, cid, **gen_kw)
        # every other case runs with validation switched off (the property does not depend on the flag)
        case['skip_validation'] = bool(cid % 2 == 1)
        if cid < len(direct.CHAIN_POOL) and case['chain'] is direct.CHAIN_POOL[cid] and (cid // 4) % 2 == 0:
            case['skip_validation'] = False      # most of the fixed pool runs the default way, with validation
        # a chain of one stage is, every other time, that stage used directly instead of inside a KoopmanPipeline
        case['bare'] = bool(len(case['chain']) == 1 and case['chain'][0][0] != 'pipe' and (cid // 2) % 2 == 0)
        # the number of inputs as given by a caller who got it from numpy
        case['n_inputs_form'] = ['int', 'int', 'np.int64', '0-d array'][cid % 4]
        # ... and the episode flag as a numpy bool or an integer (the result of an `.any()`, a 0 / 1 from a config file)
        case['episode_flag_form'] = ['bool', 'np.bool_', 'bool', 'int', 'bool'][cid % 5]
        common.note_case('direct', repr(case['chain']), np.ascontiguousarray(case['X'], dtype=float), case['nu'], case['ep'])
        # inputs the estimators themselves reject at fit / plain transform time are not
        # in the property's domain: skipped and counted
        try:
            with time_limit(CASE_SECONDS):
                kp = direct.build_case_estimator(case)
                case['prefit'] = dp.prefit_history(kp, case)
                direct.fit_case_estimator(kp, case, case.get('Xfit', case['X']))
                if direct.min_ep_len(case) >= case['w']:
                    kp.transform(case['X'])
                else:
                    # an episode shorter than the window: a pipeline refuses such data at fit; a stage used on its own
                    # refuses it at transform (ValueError).  A refusal is outside every property; counted
                    try:
                        kp.transform(case['X'])
                    except ValueError:
                        known['_skipped_short_episode_refused_at_transform'] = known.get('_skipped_short_episode_refused_at_transform', 0) + 1
                        continue
        except CaseTooSlow:
            # a generated pipeline whose fit alone takes this long on the UNCHANGED code (polynomial of a wide lifted
            # state) is dropped, and counted; it says nothing about the property
            known['_skipped_fit_slower_than_%ds' % CASE_SECONDS] = known.get('_skipped_fit_slower_than_%ds' % CASE_SECONDS, 0) + 1
            print('slow generated case dropped:', case['chain'], case['ns'], case['nu'], file=sys.stderr)
            continue
        except Exception as e:  # noqa
            if cid < len(direct.CHAIN_POOL) and case['chain'] is direct.CHAIN_POOL[cid]:
                # the fixed pool is valid input by construction (usable episodes, non-degenerate data): a refusal is a failure
                bad.append(direct.desc(case, test=fns[0][0], what=f'a pipeline of the fixed pool was refused at fit / transform: '
                                                                            f'{type(e).__name__}: {e}'[:400]))
                continue
            skipped += 1
            continue
        for name, fn in fns:
            direct.ANGLE_MAX[0] = 0.0
            try:
                with pykoop.config_context(skip_validation=case['skip_validation']):
                    ok, info = fn(case, rng, kp)
            except Exception as e:  # an exception on a valid input is itself a failing case
                ok, info = False, dict(what=f'{name}: implementation raised {type(e).__name__}: {e}')
            evals += 1
            if ok:
                continue
            if direct.angle_out_of_domain():
                known['_outside_domain_angle_beyond_pi'] = known.get('_outside_domain_angle_beyond_pi', 0) + 1
                continue
            k = known_filter(case, name, info) if known_filter else None
            if k:
                known[k] = known.get(k, 0) + 1
                continue
            bad.append(direct.desc(case, test=name, **(info or {})))
        if len(samples) < 2:
            samples.append({k: v for k, v in direct.desc(case).items() if k != 'X'})
    known['_skipped_rejected_at_fit'] = skipped
    return evals, bad, known, samples


DIRECT_TESTS = {
    'roundtrip': lambda c, r, kp: direct.c01_roundtrip(c, kp),
    'roundtrip_helpers': lambda c, r, kp: direct.c01_roundtrip_helpers(c, kp),
    'noninterference': lambda c, r, kp: direct.c02_noninterference(c, r, kp),
    'episodes': lambda c, r, kp: direct.c03_episodes(c, r, kp),
    'dims': lambda c, r, kp: direct.c04_dims(c, kp),
    'prediction': lambda c, r, kp: direct.c07_prediction(c, r, kp),
    'helpers': lambda c, r, kp: direct.c16_helpers(c, r, kp),
}


def replay_direct(path, extra_tests=None):
    """Re-runs the direct property test named in a replay file on its stored case (pipeline
    description + data) against the implementation.  Returns 1 when the property still fails
    (or the file only names a broken proof / correspondence), 0 when it holds."""
    import ast
    d = json.load(open(path))
    print(json.dumps(d, indent=1)[:3000])
    c = d.get('case') or {}
    tests = dict(DIRECT_TESTS)
    tests.update(extra_tests or {})
    if 'chain' not in c or c.get('test') not in tests:
        print('replay: no re-runnable direct case in this file (broken proof obligation / correspondence, or a '
              'scripted case): see "broken" / "what"')
        return 1
    chain = ast.literal_eval(c['chain'])
    X = dp.present(np.array(c['X'], dtype=float), c.get('array_presentation', 'float'))
    case = dict(bare=bool(c.get('used_directly', False)), n_inputs_form=c.get('n_inputs_given_as', 'int'),
                episode_flag_form=c.get('episode_feature_given_as', 'bool'),
                cid=int(c.get('cid', 0)) if c.get('refitted_after_other_layout') else 0, chain=chain, ns=c['n_states'], nu=c['n_inputs'], ep=c['episode_feature'], X=X, Xfit=X,
                mode=c.get('layout'), w=c.get('min_samples'), dims=None)
    if c.get('fit_on_zero_inputs'):
        Xf = np.array(X, copy=True)
        Xf[:, (1 if case['ep'] else 0) + case['ns']:] = 0
        case['Xfit'] = Xf
    rng = np.random.default_rng(common.seed())
    direct.ANGLE_MAX[0] = 0.0
    try:
        kp = direct.build_case_estimator(case)
        dp.prefit_history(kp, case)
        direct.fit_case_estimator(kp, case, case['Xfit'])
        direct.ANGLE_MAX[0] = 0.0
        with pykoop.config_context(skip_validation=bool(c.get('skip_validation', False))):
            ok, info = tests[c['test']](case, rng, kp)
    except Exception as e:  # noqa
        ok, info = False, dict(what=f'implementation raised {type(e).__name__}: {e}')
    if not ok and direct.angle_out_of_domain():
        print('replayed', c['test'], '-> outside the domain of the property: an angle feature beyond (-pi, pi] reached an '
              'AnglePreprocessor (|angle| max', direct.ANGLE_MAX[0], ')')
        return 0
    print('replayed', c['test'], '->', 'holds' if ok else ('FAILS: ' + json.dumps(info, default=str)[:1500]))
    return 0 if ok else 1
