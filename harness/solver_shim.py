"""M3(b): a scripted solver oracle for the alternation loop of the iterative LMI regressors.

Installed by the harness only (nothing in /repo is touched): `picos.Problem.solve`,
`picos.Problem.value` and the `_create_problem_a/_b` methods of the regressor class are
wrapped.  The oracle answers the k-th problem A / B from a script (optimal with a tagged
answer and an objective value, or not optimal), sets the module flag `polite_stop` at a
scripted check, and records with which tagged argument each sub-problem was built.

Tags: the answer of A_k is the matrix filled with the tag (and gamma = tag), the answer of
B_k is tag * identity, so that the observable result of `fit` (coef_, P_, gamma_) and the
arguments passed to the sub-problems can be decoded back to tags."""
import re
import warnings

import numpy as np
import picos

import pykoop.lmi_regressors as L


class _Sol:
    def __init__(self, status):
        self.claimedStatus = status


def tag_of(M):
    """decode a tagged array: identity -> 0 (initial guess), zeros -> 0, c*ones / c*I -> c"""
    M = np.atleast_2d(np.asarray(M, dtype=float))
    if not np.any(M):
        return 0
    if M.shape[0] == M.shape[1] and np.allclose(M, np.diag(np.diag(M))):
        d = np.diag(M)
        if np.allclose(d, d[0]):
            return int(round(d[0])) if abs(d[0] - 1.0) > 1e-12 else 0     # identity = initial P
    v = M.flat[0]
    if np.allclose(M, v):
        return int(round(v))
    return None


class Scripted:
    """ans_a[k] = (tag, objective) or None; ans_b[k] = tag or None; stop_at = index of the flag check
    (2k before A_k, 2k+1 before B_k) at which polite_stop becomes True, or None."""

    def __init__(self, cls, ans_a, ans_b, stop_at):
        self.cls, self.ans_a, self.ans_b, self.stop_at = cls, ans_a, ans_b, stop_at
        self.calls = []          # ('A', tag of P) / ('B', tag of U)
        self.ka = self.kb = 0
        self.built_a = self.built_b = 0

    def __enter__(self):
        me = self
        self._solve = picos.Problem.solve
        self._create_a = self.cls._create_problem_a
        self._create_b = self.cls._create_problem_b
        self._flag = L.polite_stop

        def create_a(obj, *args, **kw):
            prob = me._create_a(obj, *args, **kw)
            prob._verif_arg = tag_of(args[-1])
            if me.stop_at is not None and me.stop_at == 2 * me.built_a:
                L.polite_stop = True
            me.built_a += 1
            return prob

        def create_b(obj, *args, **kw):
            prob = me._create_b(obj, *args, **kw)
            prob._verif_arg = tag_of(args[0])
            if me.stop_at is not None and me.stop_at == 2 * me.built_b + 1:
                L.polite_stop = True
            me.built_b += 1
            return prob

        def solve(prob, **kw):
            names = set(prob.variables.keys())
            is_b = 'P' in names
            if is_b:
                me.calls.append(('B', getattr(prob, '_verif_arg', None)))
                ans = me.ans_b[me.kb] if me.kb < len(me.ans_b) else None
                me.kb += 1
                if ans is None:
                    # a failed solve: sometimes the solver leaves its last (meaningless) iterate in the variables
                    if me.kb % 2 == 0:
                        Pv = prob.variables['P']
                        Pv.value = float(80 + me.kb) * np.eye(Pv.shape[0])
                        prob._last_solution = _Sol('unknown')
                    else:
                        prob._last_solution = _Sol('infeasible')
                    return prob._last_solution
                Pv = prob.variables['P']
                Pv.value = float(ans) * np.eye(Pv.shape[0])
                prob._last_solution = _Sol('optimal')
                return prob._last_solution
            me.calls.append(('A', getattr(prob, '_verif_arg', None)))
            ans = me.ans_a[me.ka] if me.ka < len(me.ans_a) else None
            me.ka += 1
            if ans is None:
                if me.ka % 2 == 1:
                    for name, var in prob.variables.items():
                        var.value = (float(90 + me.ka) * np.ones(var.shape)) if name != 'gamma' else float(90 + me.ka)
                    prob._verif_value = -1000.0
                    prob._last_solution = _Sol('unknown')
                else:
                    prob._last_solution = _Sol('primal infeasible')
                return prob._last_solution
            tag, obj = ans
            for name, var in prob.variables.items():
                if name in ('U', 'U_hat'):
                    var.value = float(tag) * np.ones(var.shape)
                elif name == 'gamma':
                    var.value = float(tag)
                else:
                    var.value = np.zeros(var.shape)
            prob._verif_value = float(obj)
            prob._last_solution = _Sol('optimal')
            return prob._last_solution

        picos.Problem.solve = solve
        picos.Problem.value = property(lambda p: p._verif_value)
        self.cls._create_problem_a = create_a
        self.cls._create_problem_b = create_b
        return self

    def __exit__(self, *a):
        picos.Problem.solve = self._solve
        del picos.Problem.value
        self.cls._create_problem_a = self._create_a
        self.cls._create_problem_b = self._create_b
        L.polite_stop = self._flag


REASONS = [(r'User requested stop', 'stop'), (r'Unable to solve `problem_a`', 'notopt_a'),
           (r'Reached tolerance', 'tol'), (r'Unable to solve `problem_b`', 'notopt_b'),
           (r'Reached maximum iterations', 'max_iter')]


def reason_class(s):
    for pat, name in REASONS:
        if re.search(pat, str(s)):
            return name
    return 'unknown'


def observe(reg):
    """decode the result of a scripted fit into tags"""
    U = getattr(reg, 'U_hat_', None)
    if U is None:
        U = reg.coef_.T
    return dict(x=tag_of(U), p=tag_of(reg.P_), log=[float(v) for v in reg.objective_log_],
                n_iter=int(reg.n_iter_), reason=reason_class(reg.stop_reason_),
                gamma=(None if not hasattr(reg, 'gamma_') else float(np.ravel(reg.gamma_)[0])))
