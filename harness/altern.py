"""M3(b) correspondence: the alternation loop of the iterative LMI regressors, driven by a
scripted solver oracle, against coq/Altern.v evaluated inside Coq on the same script."""
import numpy as np

from . import common, datapath as dp, lmi, solver_shim as ss
import pykoop.lmi_regressors as L

REASON_CODE = {'stop': 0, 'notopt_a': 1, 'tol': 2, 'notopt_b': 3, 'max_iter': 4}


def gen_script(rng):
    max_iter = int(rng.integers(1, 6))
    n = max_iter + 1
    ans_a, ans_b = [], []
    obj = int(rng.integers(20, 60))
    tag = 2
    for k in range(n):
        if rng.random() < 0.12:
            ans_a.append(None)
        else:
            step = int(rng.choice([0, 1, 2, 5, 9]))
            obj = obj - step if rng.random() < 0.9 else obj + step      # the loop itself never looks at monotonicity
            ans_a.append((tag, obj)); tag += 1
        if rng.random() < 0.12:
            ans_b.append(None)
        else:
            ans_b.append(tag); tag += 1
    stop_at = int(rng.integers(0, 2 * max_iter)) if rng.random() < 0.2 else None
    atol = int(rng.choice([0, 1, 3]))
    return dict(max_iter=max_iter, ans_a=ans_a, ans_b=ans_b, stop_at=stop_at, atol=atol)


def coq_script(s):
    a = '[' + ';'.join('None' if v is None else f'Some ({v[0]}%nat, {v[1]}%Z)' for v in s['ans_a']) + ']'
    b = '[' + ';'.join('None' if v is None else f'Some {v}%nat' for v in s['ans_b']) + ']'
    st = 'None' if s['stop_at'] is None else f'(Some {s["stop_at"]}%nat)'
    return f'(zfit {a} {b} {st} {s["atol"]}%Z {s["max_iter"]}%nat)'


def run_scripts(rng, classes, n, name):
    """classes: list of (class, constructor kwargs, n_inputs).  Returns (batch, failed, errors, count, samples, dist)."""
    batch = dp.CoqBatch(name, header_extra='From PK Require Import Altern AlternZ.\n')
    X1, _, _ = lmi.linear_data(np.random.default_rng(3), 2, 1, length=8)
    samples, dist = [], {}
    made = 0
    for cid in range(n):
        cls, kw, nu = classes[cid % len(classes)]
        s = gen_script(rng)
        reg = cls(max_iter=s['max_iter'], iter_atol=float(s['atol']), iter_rtol=0.0, solver_params=lmi.SOLVER, **kw)
        payload = dict(test='altern_script', estimator=cls.__name__, script=s)
        try:
            if cid % 3 == 2:
                # history: the same estimator object was fitted before under another script
                s0 = gen_script(rng)
                payload['earlier_script_on_same_object'] = s0
                reg.set_params(max_iter=s0['max_iter'], iter_atol=float(s0['atol']))
                with ss.Scripted(cls, s0['ans_a'], s0['ans_b'], s0['stop_at']):
                    reg.fit(X1, n_inputs=nu, episode_feature=True)
                reg.set_params(max_iter=s['max_iter'], iter_atol=float(s['atol']))
            with ss.Scripted(cls, s['ans_a'], s['ans_b'], s['stop_at']) as sc:
                reg.fit(X1, n_inputs=nu, episode_feature=True)
                obs = ss.observe(reg)
                calls = list(sc.calls)
        except Exception as e:  # noqa
            batch.add('', [(f'script raised {type(e).__name__}: {e}', 'false')], payload)
            continue
        payload['observed'] = dict(obs, calls=calls)
        ok_decode = obs['x'] is not None and obs['p'] is not None and all(c[1] is not None for c in calls) \
            and all(float(v).is_integer() for v in obs['log']) and obs['reason'] in REASON_CODE
        if not ok_decode:
            batch.add('', [('result of the scripted fit cannot be decoded into tags', 'false')], payload)
            continue
        if obs['gamma'] is not None and int(round(obs['gamma'])) != obs['x']:
            batch.add('', [('gamma_ does not come from the same solve as the returned U', 'false')], payload)
            continue
        log = '[' + ';'.join(f'{int(v)}%Z' for v in obs['log']) + ']'
        cl = '[' + ';'.join((f'inl {t}%nat' if k == 'A' else f'inr {t}%nat') for k, t in calls) + ']'
        expr = (f'outcome_matches {coq_script(s)} {obs["x"]}%nat {obs["p"]}%nat {log} {obs["n_iter"]}%nat '
                f'{REASON_CODE[obs["reason"]]}%nat {cl}')
        batch.add('', [(f'altern/{cls.__name__}', expr)], payload)
        made += 1
        dist[obs['reason']] = dist.get(obs['reason'], 0) + 1
        if len(samples) < 2:
            samples.append(payload)
    failed, errors = batch.run(shard=100)
    return batch, failed, errors, made, samples, dist
