"""Shared helpers for the LMI-regressor properties (C09-C12): data sets, solver settings,
independent computations (spectral radius, H-infinity norm on a refined grid, simulated
dissipation), objective-log monotonicity."""
import warnings

import numpy as np
import scipy.signal

from . import common  # noqa
import pykoop
import pykoop.lmi_regressors as L

SOLVER = {'solver': 'cvxopt'}

# cvxopt can fail to terminate on some data (observed once in ~1500 fits: conelp never leaves its line search).  A solve that
# takes longer than SOLVE_SECONDS is abandoned like any other numerical failure of the solver (the fit raises, nothing is
# claimed about it); counted in SOLVER_TIME_LIMIT_HITS.
SOLVE_SECONDS = 120
SOLVER_TIME_LIMIT_HITS = [0]


class SolverTimeLimit(ZeroDivisionError):
    pass


def _install_solver_time_limit():
    import signal
    import threading
    import picos
    if getattr(picos.Problem.solve, '_verif_time_limit', False):
        return
    orig = picos.Problem.solve

    def solve(self, *a, **k):
        if threading.current_thread() is not threading.main_thread():
            return orig(self, *a, **k)

        def _raise(*_):
            SOLVER_TIME_LIMIT_HITS[0] += 1
            raise SolverTimeLimit(f'the solver did not return within {SOLVE_SECONDS} s')
        old = signal.signal(signal.SIGALRM, _raise)
        signal.alarm(SOLVE_SECONDS)
        try:
            return orig(self, *a, **k)
        finally:
            signal.alarm(0)
            signal.signal(signal.SIGALRM, old)
    solve._verif_time_limit = True
    picos.Problem.solve = solve


_install_solver_time_limit()
# the class-level solver defaults as they are when the library is imported (before any fit of this process)
PRISTINE_SOLVER_DEFAULTS = dict(L.LmiRegressor._default_solver_params)
warnings.filterwarnings('ignore')


def linear_data(rng, ns, nu, kind='stable', n_eps=2, length=14, noise=0.02):
    """multi-episode data of x+ = A x + B u + noise; kind in stable / marginal / unstable"""
    A = rng.normal(size=(ns, ns))
    rad = {'stable': 0.7, 'marginal': 1.0, 'unstable': 1.25}[kind]
    A = A * rad / max(1e-9, np.max(np.abs(np.linalg.eigvals(A))))
    B = rng.normal(size=(ns, nu))
    rows = []
    for l in range(n_eps):
        x = rng.normal(size=ns)
        for _ in range(length):
            u = rng.normal(size=nu)
            rows.append([float(l)] + list(x) + list(u))
            x = A @ x + (B @ u if nu else 0) + noise * rng.normal(size=ns)
            if np.max(np.abs(x)) > 1e3:
                x = x / np.max(np.abs(x))
    return np.array(rows), A, B


def ab(reg, ns):
    U = reg.coef_.T
    return U[:, :ns], U[:, ns:]


def log_monotone(log, tol_rel=2e-4, tol_abs=1e-6):
    """first index where the logged objective increases by more than solver tolerance"""
    for k in range(1, len(log)):
        if log[k] > log[k - 1] + tol_abs + tol_rel * abs(log[k - 1]):
            return k
    return None


MARGIN_HITS = [0]


def log_defect(reg, X, n_inputs, cap=5e-3):
    """index of the first increase of the logged objective that the method's own tolerances do not explain, else None.
    The LMI regressors replace strict inequalities by a margin `picos_eps` (default 1e-6): the storage / Lyapunov matrix
    found by problem B then shrinks the feasible set of the next problem A a little, and the optimum can go up by a
    multiple of that margin (observed: up to 1.1e-3 relative on the unchanged code, zero with picos_eps=0).  An increase
    below `cap` that disappears when the same estimator is refitted on the same data with picos_eps=0 is attributed to
    the margin and counted in MARGIN_HITS; anything else is reported."""
    k = log_monotone(reg.objective_log_)
    if k is None:
        return None
    lg = list(map(float, reg.objective_log_))
    inc = (lg[k] - lg[k - 1]) / max(abs(lg[k - 1]), 1e-12)
    if inc < cap and getattr(reg, 'picos_eps', 0):
        try:
            import sklearn.base
            r0 = sklearn.base.clone(reg).set_params(picos_eps=0).fit(X, n_inputs=n_inputs, episode_feature=True)
            if log_monotone(r0.objective_log_) is None:
                MARGIN_HITS[0] += 1
                return None
        except Exception:  # noqa
            pass
    return k


def hinf_norm(A, B, C=None, D=None, wfun=None, n=2500):
    """max over the unit circle of |w(e^{j theta})| * sigma_max(C (zI - A)^-1 B + D): a grid gives a LOWER
    bound of the H-infinity norm (refined around the peak), enough to expose a violated upper bound"""
    ns = A.shape[0]
    C = np.eye(ns) if C is None else C
    D = np.zeros((C.shape[0], B.shape[1])) if D is None else D

    def g(th):
        z = np.exp(1j * th)
        G = C @ np.linalg.solve(z * np.eye(ns) - A, B) + D
        s = np.linalg.svd(G, compute_uv=False)[0]
        return s * (abs(wfun(z)) if wfun else 1.0)
    ths = np.linspace(0, np.pi, n)
    vals = np.array([g(t) for t in ths])
    k = int(np.argmax(vals))
    lo = ths[max(0, k - 1)]; hi = ths[min(n - 1, k + 1)]
    fine = np.linspace(lo, hi, 400)
    return float(max(np.max(vals), max(g(t) for t in fine)))


def ss_freq(Aw, Bw, Cw, Dw):
    Aw = np.atleast_2d(Aw); Bw = np.atleast_2d(Bw); Cw = np.atleast_2d(Cw); Dw = np.atleast_2d(Dw)

    def w(z):
        n = Aw.shape[0]
        if n == 0:
            return complex(Dw[0, 0])
        return complex((Cw @ np.linalg.solve(z * np.eye(n) - Aw, Bw) + Dw)[0, 0])
    return w


def zpk_filter(zeros, poles, gain, t_step, discretization, units):
    """Independent reading of the documented meaning of LmiHinfZpkMeta's filter parameters:
    zeros/poles in rad/s, Hz (x 2 pi) or normalised (1 = Nyquist = pi / t_step rad/s)."""
    z = np.atleast_1d(zeros if zeros is not None else []).astype(complex)
    p = np.atleast_1d(poles if poles is not None else []).astype(complex)
    if units == 'hz':
        z = 2 * np.pi * z; p = 2 * np.pi * p
    elif units == 'normalized':
        z = (np.pi / t_step) * z; p = (np.pi / t_step) * p
    num = np.real(gain * np.poly(z)) if z.size else np.array([gain], dtype=float)
    den = np.real(np.poly(p)) if p.size else np.array([1.0])
    numd, dend, _ = scipy.signal.cont2discrete((num, den), t_step, method=discretization)
    numd = np.ravel(numd)

    def w(zz):
        return np.polyval(numd, zz) / np.polyval(dend, zz)
    return w


def simulate_dissipation(rng, A, B, P, Xi, steps=40, trials=6):
    """min over random input sequences of  sum_k supply(x_k, u_k) - (V(x_N) - V(x_0)), V = x^T P x,
    supply = -[y; u]^T Xi [y; u], y = x (C = I).  Must be >= -tol for a dissipative system."""
    ns, nu = B.shape
    worst = np.inf
    for _ in range(trials):
        x = rng.normal(size=ns); x0 = x.copy()
        acc = 0.0
        for _ in range(steps):
            u = rng.normal(size=nu)
            v = np.concatenate((x, u))
            acc += -float(v @ Xi @ v)
            x = A @ x + B @ u
        worst = min(worst, acc - (float(x @ P @ x) - float(x0 @ P @ x0)))
    return worst
