#!/bin/sh
# Build the Coq development from the files on disk (offline, full .vo build).
set -e
cd "$(dirname "$0")/coq"
mkdir -p Gen
for t in ../tools/gen_*.py; do /venv/bin/python "$t" "$(pwd)/Gen" > /dev/null; done
rm -f Makefile Makefile.conf .Makefile.d
coq_makefile -f _CoqProject -o Makefile
timeout 3000 make -j"$(nproc)"
