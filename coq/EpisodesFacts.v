(* Theorems about the episode utilities (L1).  Everything is for arbitrary cell
   type, any number / length / labelling / arrangement of episodes. *)
From Coq Require Import List ZArith NArith Bool Arith Lia Permutation.
From PK Require Import PyList Episodes.
Import ListNotations.

Set Implicit Arguments.

(* ------------------------------------------------------------------ uniq *)
Fixpoint ssorted (l : list N) : Prop :=
  match l with
  | [] => True
  | a :: t => (forall x, In x t -> (a < x)%N) /\ ssorted t
  end.

Lemma insert_u_In i l x : In x (insert_u i l) <-> x = i \/ In x l.
Proof.
  induction l as [|j t IH]; cbn [insert_u].
  - cbn. intuition.
  - destruct (N.ltb_spec i j) as [Hlt|Hge].
    + cbn. intuition.
    + destruct (N.eqb_spec i j) as [->|Hne].
      * cbn. intuition.
      * cbn [In]. rewrite IH. intuition.
Qed.

Lemma insert_u_sorted i l : ssorted l -> ssorted (insert_u i l).
Proof.
  induction l as [|j t IH]; cbn [insert_u ssorted]; intros H.
  - split; [intros x []|exact I].
  - destruct H as [Hj Ht].
    destruct (N.ltb_spec i j) as [Hlt|Hge].
    + cbn [ssorted]. split; [|split; assumption].
      intros x [<-|Hx]; [assumption|]. specialize (Hj x Hx). lia.
    + destruct (N.eqb_spec i j) as [->|Hne].
      * cbn [ssorted]. split; assumption.
      * cbn [ssorted]. split; [|apply IH; assumption].
        intros x Hx. apply insert_u_In in Hx. destruct Hx as [->|Hx]; [lia|auto].
Qed.

Lemma uniq_In l x : In x (uniq l) <-> In x l.
Proof.
  induction l as [|a t IH]; cbn [uniq fold_right]; [reflexivity|].
  fold (uniq t). rewrite insert_u_In, IH. cbn. intuition.
Qed.

Lemma uniq_sorted l : ssorted (uniq l).
Proof.
  induction l as [|a t IH]; cbn [uniq fold_right]; [exact I|].
  apply insert_u_sorted. exact IH.
Qed.

Lemma ssorted_NoDup l : ssorted l -> NoDup l.
Proof.
  induction l as [|a t IH]; intros H; constructor.
  - destruct H as [Ha _]. intros Hin. specialize (Ha a Hin). lia.
  - apply IH. apply H.
Qed.

Lemma ssorted_ext l1 : forall l2, ssorted l1 -> ssorted l2 ->
  (forall x, In x l1 <-> In x l2) -> l1 = l2.
Proof.
  induction l1 as [|a t IH]; intros [|b u] H1 H2 Hx.
  - reflexivity.
  - exfalso. apply (proj2 (Hx b)). left; reflexivity.
  - exfalso. apply (proj1 (Hx a)). left; reflexivity.
  - destruct H1 as [Ha Ht], H2 as [Hb Hu].
    assert (a = b) as ->.
    { destruct (proj1 (Hx a) (or_introl eq_refl)) as [->|Hin]; [reflexivity|].
      destruct (proj2 (Hx b) (or_introl eq_refl)) as [->|Hin']; [reflexivity|].
      specialize (Ha _ Hin'). specialize (Hb _ Hin). lia. }
    f_equal. apply IH; try assumption.
    intros x; split; intros Hin.
    + destruct (proj1 (Hx x) (or_intror Hin)) as [<-|]; [|assumption].
      specialize (Ha _ Hin). lia.
    + destruct (proj2 (Hx x) (or_intror Hin)) as [<-|]; [|assumption].
      specialize (Hb _ Hin). lia.
Qed.

(* uniq depends only on the SET of labels: arrangement of rows is irrelevant *)
Lemma uniq_ext l1 l2 : (forall x, In x l1 <-> In x l2) -> uniq l1 = uniq l2.
Proof.
  intros H. apply ssorted_ext; try apply uniq_sorted.
  intros x. rewrite !uniq_In. apply H.
Qed.

(* ------------------------------------------------------------------ rows_of *)
Section Facts.
Variable A : Type.
Notation dmat := (dmat A).
Notation row := (list A).

Lemma rows_of_app i (X Y : dmat) : rows_of i (X ++ Y) = rows_of i X ++ rows_of i Y.
Proof. unfold rows_of. rewrite filter_app, map_app. reflexivity. Qed.

Lemma rows_of_tagged i j (E : list row) :
  rows_of i (map (fun r => (j, r)) E) = if (j =? i)%N then E else [].
Proof.
  unfold rows_of. induction E as [|r E IH]; cbn [map filter fst].
  - destruct (j =? i)%N; reflexivity.
  - destruct (j =? i)%N eqn:Hji; cbn [map snd]; rewrite IH; reflexivity.
Qed.

Lemma rows_of_nil_iff i (X : dmat) : rows_of i X = [] <-> ~ In i (labels X).
Proof.
  unfold rows_of, labels. induction X as [|[j r] X IH]; cbn [map filter fst In].
  - intuition.
  - destruct (N.eqb_spec j i) as [->|Hne]; cbn [map].
    + split; [discriminate|]. intros H; exfalso; apply H; left; reflexivity.
    + rewrite IH. intuition.
Qed.

Lemma labels_combine_true (eps : episodes A) i :
  In i (labels (combine true eps)) <-> exists E, In (i, E) eps /\ E <> [].
Proof.
  unfold labels, combine. induction eps as [|[j E] eps IH]; cbn [flat_map].
  - cbn. split; [intros []|intros [E [[] _]]].
  - rewrite map_app, in_app_iff, IH. cbn [fst snd]. split.
    + intros [H|[E' [H1 H2]]].
      * rewrite map_map in H. cbn [fst] in H. apply in_map_iff in H.
        destruct H as [r [<- Hr]]. exists E. split; [left; reflexivity|].
        intros ->; destruct Hr.
      * exists E'. split; [right; assumption|assumption].
    + intros [E' [[Heq|Hin] Hne]].
      * inversion Heq; subst. left. rewrite map_map. cbn [fst].
        destruct E' as [|r E']; [congruence|]. left; reflexivity.
      * right. exists E'. split; assumption.
Qed.

(* the rows carrying label i after recombining a list of episodes with distinct
   labels are exactly that episode's rows, in their order *)
Lemma rows_of_combine (eps : episodes A) i E :
  NoDup (map fst eps) -> In (i, E) eps -> rows_of i (combine true eps) = E.
Proof.
  unfold combine. induction eps as [|[j F] eps IH]; intros Hnd Hin; [destruct Hin|].
  cbn [flat_map map fst snd] in *. rewrite rows_of_app, rows_of_tagged.
  inversion Hnd as [|? ? Hnotin Hnd']; subst.
  destruct Hin as [Heq|Hin].
  - inversion Heq; subst. rewrite N.eqb_refl.
    assert (rows_of i (flat_map (fun e => map (fun r => (fst e, r)) (snd e)) eps) = []) as ->.
    { apply rows_of_nil_iff. intros Hl.
      apply (labels_combine_true eps i) in Hl. destruct Hl as [E' [HE' _]].
      apply Hnotin. apply in_map_iff. exists (i, E'). split; [reflexivity|assumption]. }
    apply app_nil_r.
  - destruct (N.eqb_spec j i) as [->|Hne].
    + exfalso. apply Hnotin. apply in_map_iff. exists (i, E). split; [reflexivity|assumption].
    + cbn [app]. apply IH; assumption.
Qed.

Lemma rows_of_combine_absent (eps : episodes A) i :
  ~ In i (map fst eps) -> rows_of i (combine true eps) = [].
Proof.
  intros H. apply rows_of_nil_iff. intros Hl. apply labels_combine_true in Hl.
  destruct Hl as [E [HE _]]. apply H. apply in_map_iff. exists (i, E). split; [reflexivity|assumption].
Qed.

Lemma split_true_labels (X : dmat) : map fst (split true X) = uniq (labels X).
Proof. unfold split. rewrite map_map. cbn [fst]. apply map_id. Qed.

(* ------------------------------------------------------------------ C03 core *)
(* Per episode, "split / apply g / combine" is g applied to that episode alone:
   the label is unchanged, the row order inside the episode is g's, and nothing
   from any other episode enters. *)
Theorem episode_map_episodes_true (g : list row -> list row) (X : dmat) i :
  In i (labels X) ->
  episode true i (map_episodes true g X) = g (episode true i X).
Proof.
  intros Hi. unfold episode, map_episodes.
  apply rows_of_combine.
  - rewrite map_map. cbn [fst]. change (fun x => fst x) with (@fst N (list row)).
    rewrite split_true_labels. apply ssorted_NoDup, uniq_sorted.
  - unfold split. rewrite map_map. cbn [fst snd].
    apply in_map_iff. exists i. split; [reflexivity|]. apply uniq_In. exact Hi.
Qed.

Theorem episode_map_episodes_absent (g : list row -> list row) (X : dmat) i :
  ~ In i (labels X) -> episode true i (map_episodes true g X) = [].
Proof.
  intros Hi. unfold episode, map_episodes. apply rows_of_combine_absent.
  rewrite map_map. cbn [fst]. change (fun x => fst x) with (@fst N (list row)).
  rewrite split_true_labels, uniq_In. exact Hi.
Qed.

Theorem episode_map_episodes_false (g : list row -> list row) (X : dmat) i :
  episode false i (map_episodes false g X) = g (rows X).
Proof.
  unfold episode, map_episodes, split, combine, rows. cbn [map flat_map fst snd].
  rewrite app_nil_r, map_map. cbn [snd]. apply map_id.
Qed.

Lemma labels_map_episodes_true (g : list row -> list row) (X : dmat) i :
  In i (labels (map_episodes true g X)) <-> In i (labels X) /\ g (rows_of i X) <> [].
Proof.
  unfold map_episodes. rewrite labels_combine_true. unfold split. rewrite map_map. cbn [fst snd].
  split.
  - intros [E [Hin Hne]]. apply in_map_iff in Hin. destruct Hin as [j [Heq Hj]].
    inversion Heq; subst. split; [apply uniq_In; assumption|assumption].
  - intros [Hi Hne]. exists (g (rows_of i X)). split; [|assumption].
    apply in_map_iff. exists i. split; [reflexivity|apply uniq_In; assumption].
Qed.

(* labels never appear out of nowhere *)
Corollary labels_map_episodes_subset (g : list row -> list row) (X : dmat) i :
  In i (labels (map_episodes true g X)) -> In i (labels X).
Proof. intros H. apply labels_map_episodes_true in H. apply H. Qed.

(* ------------------------------------------------------------------ arrangement *)
(* Two matrices are arrangements of one another when every label selects the
   same rows in the same order (interleaving / block order are free). *)
Definition Arranged (X X' : dmat) : Prop := forall i, rows_of i X = rows_of i X'.

Lemma Arranged_labels (X X' : dmat) : Arranged X X' -> forall i, In i (labels X) <-> In i (labels X').
Proof.
  intros H i. split; intros Hi.
  - destruct (in_dec N.eq_dec i (labels X')) as [|Hn]; [assumption|].
    apply rows_of_nil_iff in Hn. rewrite <- H in Hn. apply rows_of_nil_iff in Hn. contradiction.
  - destruct (in_dec N.eq_dec i (labels X)) as [|Hn]; [assumption|].
    apply rows_of_nil_iff in Hn. rewrite H in Hn. apply rows_of_nil_iff in Hn. contradiction.
Qed.

Theorem split_arranged (X X' : dmat) : Arranged X X' -> split true X = split true X'.
Proof.
  intros H. unfold split. rewrite (uniq_ext (labels X) (labels X') (Arranged_labels H)).
  apply map_ext. intros i. rewrite H. reflexivity.
Qed.

Theorem map_episodes_arranged (g : list row -> list row) (X X' : dmat) :
  Arranged X X' -> map_episodes true g X = map_episodes true g X'.
Proof. intros H. unfold map_episodes. rewrite (split_arranged H). reflexivity. Qed.

(* ------------------------------------------------------------------ split / combine *)
Theorem combine_split_episode (X : dmat) i :
  rows_of i (combine true (split true X)) = rows_of i X.
Proof.
  destruct (in_dec N.eq_dec i (labels X)) as [Hi|Hn].
  - pose proof (@episode_map_episodes_true (fun E => E) X i Hi) as H.
    unfold episode, map_episodes in H.
    replace (map (fun e => (fst e, snd e)) (split true X)) with (split true X) in H; [exact H|].
    rewrite <- (map_id (split true X)) at 1. apply map_ext. intros [a b]; reflexivity.
  - rewrite (proj2 (rows_of_nil_iff i X) Hn).
    apply rows_of_combine_absent. rewrite split_true_labels, uniq_In. exact Hn.
Qed.

Corollary combine_split_arranged (X : dmat) : Arranged (combine true (split true X)) X.
Proof. intros i. apply combine_split_episode. Qed.

(* split after combine: episodes with strictly ascending labels and at least one
   row each come back unchanged *)
Theorem split_combine (eps : episodes A) :
  ssorted (map fst eps) -> (forall e, In e eps -> snd e <> []) ->
  split true (combine true eps) = eps.
Proof.
  intros Hs Hne. unfold split.
  assert (Hl : uniq (labels (combine true eps)) = map fst eps).
  { apply ssorted_ext; [apply uniq_sorted|assumption|].
    intros x. rewrite uniq_In, labels_combine_true. split.
    - intros [E [HE _]]. apply in_map_iff. exists (x, E). split; [reflexivity|assumption].
    - intros Hx. apply in_map_iff in Hx. destruct Hx as [[j E] [<- HE]].
      exists E. split; [assumption|]. apply (Hne _ HE). }
  rewrite Hl. rewrite map_map.
  rewrite <- (map_id eps) at 2. apply map_ext_in. intros [j E] HE. cbn [fst].
  f_equal. apply rows_of_combine; [apply ssorted_NoDup; assumption|assumption].
Qed.

End Facts.
