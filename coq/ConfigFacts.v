(* C20 — theorems about the configuration model for the shape of the pinned source.
   Structure: [step_char] shows that, for the good shape, a step of thread t is the
   per-thread machine [lstep] on t's own view and touches nothing else; isolation and
   restoration are then proved on the per-thread machine. *)
From Coq Require Import List Bool Arith Lia.
From PK Require Import ConfigModel.
Import ListNotations.

Notation G := good_shape.

Definition view := (option bool * list saved)%type.

Definition cur (d : bool) (l : option bool) : bool := match l with Some b => b | None => d end.

(* the per-thread machine (d = the constant module default) *)
Definition lstep (d : bool) (v : view) (o : op) : view * option bool :=
  let (l, k) := v in
  match o with
  | OGet => ((Some (cur d l), k), Some (cur d l))
  | OMutRet _ => ((l, k), None)
  | OSet None => ((Some (cur d l), k), None)
  | OSet (Some b) => ((Some b, k), None)
  | OEnter None => ((Some (cur d l), Snap (cur d l) :: k), None)
  | OEnter (Some b) => ((Some b, Snap (cur d l) :: k), None)
  | OExit | OExitExc =>
      match k with
      | [] => ((l, k), None)
      | Snap b :: r => ((Some b, r), None)
      | Live :: r => ((Some (cur d l), r), None)
      end
  end.

Definition vw (s : st) (t : nat) : view := (loc s t, stk s t).

Lemma upd_same {A} (f : nat -> A) t a : upd f t a t = a.
Proof. unfold upd. rewrite Nat.eqb_refl. reflexivity. Qed.
Lemma upd_other {A} (f : nat -> A) t a u : u <> t -> upd f t a u = f u.
Proof. intros H. unfold upd. destruct (Nat.eqb_spec u t); [contradiction|reflexivity]. Qed.

Ltac crush_step t Hu :=
  repeat match goal with
         | |- context [upd _ t _ t] => rewrite upd_same
         | |- context [upd _ t _ ?u] => rewrite (upd_other _ _ Hu)
         end; try reflexivity.

Lemma step_char s t o :
  glob (fst (step G s (t, o))) = glob s
  /\ (vw (fst (step G s (t, o))) t, snd (step G s (t, o))) = lstep (glob s) (vw s t) o
  /\ forall u, u <> t -> vw (fst (step G s (t, o))) u = vw s u.
Proof.
  unfold vw.
  destruct o as [|v|[b|]|[b|]| |];
    cbv [step set_cfg touch write read restore shares G init_copies get_copies restore_in_finally
         import_aliases_default negb orb andb lstep cur fst snd];
    destruct (loc s t) as [b0|] eqn:Hl; cbn [fst snd glob loc stk]; rewrite ?Hl;
    try (destruct (stk s t) as [|[bs|] r] eqn:Hk);
    repeat first [ rewrite upd_same | rewrite Hl | match goal with H : stk s t = _ |- _ => rewrite H end
                 | progress cbn [fst snd glob loc stk] ];
    (split; [reflexivity|split; [reflexivity|
      intros u Hu; repeat first [ rewrite upd_other by exact Hu | rewrite Hl | progress cbn [fst snd glob loc stk] ];
      reflexivity]]).
Qed.

Lemma run_cons sh s top rest :
  run sh s (top :: rest) =
  (fst (run sh (fst (step sh s top)) rest),
   match snd (step sh s top) with
   | Some b => (fst top, b) :: snd (run sh (fst (step sh s top)) rest)
   | None => snd (run sh (fst (step sh s top)) rest)
   end).
Proof. cbn [run]. destruct (step sh s top) as [s' ob]. cbn [fst snd]. destruct (run sh s' rest). reflexivity. Qed.

(* ---------------------------------------------------------------- isolation *)
Lemma isolation_gen t ops : forall s s',
  glob s = glob s' -> vw s t = vw s' t ->
  obs_of t (snd (run G s ops)) = obs_of t (snd (run G s' (only t ops))).
Proof.
  induction ops as [|[u o] ops IH]; intros s s' Hg Hv; [reflexivity|].
  unfold only. cbn [filter fst]. fold (only t ops).
  destruct (Nat.eqb_spec u t) as [->|Hne].
  - rewrite !run_cons. cbn [fst].
    destruct (step_char s t o) as [Hg1 [Hc1 _]]. destruct (step_char s' t o) as [Hg2 [Hc2 _]].
    assert (Heq : (vw (fst (step G s (t, o))) t, snd (step G s (t, o)))
                  = (vw (fst (step G s' (t, o))) t, snd (step G s' (t, o))))
      by (rewrite Hc1, Hc2, Hg, Hv; reflexivity).
    pose proof (f_equal (@fst _ _) Heq) as Hv'. pose proof (f_equal (@snd _ _) Heq) as Hob.
    change (vw (fst (step G s (t, o))) t = vw (fst (step G s' (t, o))) t) in Hv'.
    change (snd (step G s (t, o)) = snd (step G s' (t, o))) in Hob.
    assert (Hg' : glob (fst (step G s (t, o))) = glob (fst (step G s' (t, o)))) by congruence.
    specialize (IH _ _ Hg' Hv'). rewrite Hob.
    destruct (snd (step G s' (t, o))) as [b|]; unfold obs_of in *; cbn [filter fst map snd];
      rewrite ?Nat.eqb_refl; cbn [map snd]; rewrite IH; reflexivity.
  - rewrite run_cons. cbn [fst snd].
    destruct (step_char s u o) as [Hg1 [_ Ho]].
    assert (Hv' : vw (fst (step G s (u, o))) t = vw s' t)
      by (rewrite Ho by (intros Heq; apply Hne; symmetry; exact Heq); exact Hv).
    assert (Hg' : glob (fst (step G s (u, o))) = glob s') by congruence.
    specialize (IH _ _ Hg' Hv').
    destruct (snd (step G s (u, o))) as [b|]; unfold obs_of in *; cbn [filter fst];
      [destruct (Nat.eqb_spec u t); [contradiction|]|]; exact IH.
Qed.

(* what thread t observes in ANY interleaving with any number of other threads is what
   it observes running alone *)
Theorem isolation t ops : obs_of t (observe G ops) = obs_of t (observe G (only t ops)).
Proof. unfold observe. apply isolation_gen; reflexivity. Qed.

(* ---------------------------------------------------------------- restore *)
Fixpoint lrun (d : bool) (v : view) (l : list op) : view :=
  match l with [] => v | o :: r => lrun d (fst (lstep d v o)) r end.

Lemma lrun_app d v l1 l2 : lrun d v (l1 ++ l2) = lrun d (lrun d v l1) l2.
Proof. revert v. induction l1 as [|o l1 IH]; intros v; [reflexivity|]. cbn [app lrun]. apply IH. Qed.

(* a balanced program leaves the pending frames as it found them and leaves the
   thread's dict created *)
Lemma balanced_frames d l : balanced l -> forall b k, exists b', lrun d (Some b, k) l = (Some b', k).
Proof.
  induction 1 as [|l Hl IH|v l Hl IH|v l Hl IH|v body l exc Hb IHb Hl IHl]; intros b k.
  - exists b. reflexivity.
  - cbn [lrun lstep fst cur]. apply IH.
  - cbn [lrun lstep fst]. apply IH.
  - destruct v as [b0|]; cbn [lrun lstep fst cur]; apply IH.
  - cbn [lrun]. rewrite lrun_app.
    assert (H1 : exists b1, fst (lstep d (Some b, k) (OEnter v)) = (Some b1, Snap b :: k))
      by (destruct v as [b0|]; cbn [lstep fst cur]; eexists; reflexivity).
    destruct H1 as [b1 ->]. destruct (IHb b1 (Snap b :: k)) as [b2 ->].
    cbn [lrun]. assert (H3 : fst (lstep d (Some b2, Snap b :: k) (if exc then OExitExc else OExit)) = (Some b, k))
      by (destruct exc; reflexivity).
    rewrite H3. apply IHl.
Qed.

(* a complete with-block restores the value it found: any nesting inside, any
   set_config inside, exit by return or by exception *)
Theorem block_restores d v body (exc : bool) b k :
  balanced body ->
  lrun d (Some b, k) (OEnter v :: body ++ [if exc then OExitExc else OExit]) = (Some b, k).
Proof.
  intros Hb. cbn [lrun]. rewrite lrun_app.
  assert (H1 : exists b1, fst (lstep d (Some b, k) (OEnter v)) = (Some b1, Snap b :: k))
    by (destruct v as [b0|]; cbn [lstep fst cur]; eexists; reflexivity).
  destruct H1 as [b1 ->]. destruct (balanced_frames d body Hb b1 (Snap b :: k)) as [b2 ->].
  destruct exc; reflexivity.
Qed.

(* transfer to the shared-state machine: a run of one thread's program is lrun on its view *)
Definition tag (t : nat) (l : list op) : list (nat * op) := map (fun o => (t, o)) l.

Lemma run_tag t l : forall s, vw (fst (run G s (tag t l))) t = lrun (glob s) (vw s t) l.
Proof.
  induction l as [|o l IH]; intros s; [reflexivity|].
  cbn [tag map]. rewrite run_cons. cbn [fst]. fold (tag t l). rewrite IH.
  destruct (step_char s t o) as [Hg [Hc _]]. rewrite Hg. cbn [lrun]. rewrite <- Hc. reflexivity.
Qed.

Theorem restore_after_block t v body (exc : bool) s b :
  balanced body -> loc s t = Some b ->
  vw (fst (run G s (tag t (OEnter v :: body ++ [if exc then OExitExc else OExit])))) t = (Some b, stk s t).
Proof.
  intros Hb Hloc. rewrite run_tag. unfold vw. rewrite Hloc. apply block_restores. exact Hb.
Qed.

Lemma read_of_view s t b k : vw s t = (Some b, k) -> read G t s = b.
Proof.
  unfold vw. intros H. pose proof (f_equal (@fst _ _) H) as Hl. cbn [fst] in Hl.
  unfold read. cbn [shares G init_copies import_aliases_default negb orb andb]. rewrite Hl. reflexivity.
Qed.

(* ---------------------------------------------------------------- no alias *)
Theorem mutating_returned_dict_is_harmless s t v : step G s (t, OMutRet v) = (s, None).
Proof. reflexivity. Qed.

(* ---------------------------------------------------------------- skipping validation *)
Theorem guarded_equiv (I R : Type) (validate : I -> bool) (coerce : I -> I) (body : I -> R) :
  (forall x, validate x = true -> coerce x = x) ->
  forall x, validate x = true ->
  guarded I R validate coerce body true x = guarded I R validate coerce body false x.
Proof. intros Hc x Hv. unfold guarded. rewrite Hv, (Hc x Hv). reflexivity. Qed.

(* ---------------------------------------------------------------- refutations for other shapes *)
(* each single deviation from the good shape breaks a clause; witnesses by computation *)
Definition sh_noinitcopy := {| init_copies := false; get_copies := true; restore_in_finally := true; import_aliases_default := false; default_skip := false |}.
Definition sh_nogetcopy := {| init_copies := true; get_copies := false; restore_in_finally := true; import_aliases_default := false; default_skip := false |}.
Definition sh_nofinally := {| init_copies := true; get_copies := true; restore_in_finally := false; import_aliases_default := false; default_skip := false |}.
Definition sh_importalias := {| init_copies := true; get_copies := true; restore_in_finally := true; import_aliases_default := true; default_skip := false |}.

Example refuted_noinitcopy :
  let ops := [(1, OSet (Some true)); (2, OGet)] in
  obs_of 2 (observe sh_noinitcopy ops) <> obs_of 2 (observe sh_noinitcopy (only 2 ops)).
Proof. vm_compute. discriminate. Qed.
Example refuted_importalias :
  let ops := [(0, OEnter (Some true)); (1, OGet); (0, OExit)] in
  obs_of 1 (observe sh_importalias ops) <> obs_of 1 (observe sh_importalias (only 1 ops)).
Proof. vm_compute. discriminate. Qed.
Example refuted_nogetcopy :
  observe sh_nogetcopy [(0, OGet); (0, OEnter (Some true)); (0, OExit); (0, OGet)] = [(0, false); (0, true)].
Proof. vm_compute. reflexivity. Qed.
Example refuted_nofinally :
  observe sh_nofinally [(0, OGet); (0, OEnter (Some true)); (0, OExitExc); (0, OGet)] = [(0, false); (0, true)].
Proof. vm_compute. reflexivity. Qed.
