(* C08 — theorems about the model of score_trajectory / _weights_from_data_matrix
   (Score.v).  Everything over exact rationals Q; Q equalities are Qeq (==) unless
   Leibniz equality genuinely holds. *)
From Coq Require Import List QArith Qabs ZArith NArith Bool Arith Lia Lqa.
From PK Require Import PyList ListFacts Episodes EpisodesFacts Score.
Import ListNotations.
Open Scope Q_scope.

(* ================================================================== list toolkit *)
Lemma list_sum_cons a l : list_sum (a :: l) = (a + list_sum l)%nat.
Proof. reflexivity. Qed.

Lemma flat_map_length_sum {A B} (f : A -> list B) (l : list A) :
  length (flat_map f l) = list_sum (map (fun a => length (f a)) l).
Proof.
  induction l as [|a l IH]; cbn [flat_map map]; [reflexivity|].
  rewrite list_sum_cons, app_length, IH. reflexivity.
Qed.

Lemma list_sum_map_add {A} (f g : A -> nat) (l : list A) :
  list_sum (map (fun a => (f a + g a)%nat) l) = (list_sum (map f l) + list_sum (map g l))%nat.
Proof.
  induction l as [|a l IH]; cbn [map]; [reflexivity|]. rewrite !list_sum_cons, IH. lia.
Qed.

Lemma list_sum_indicator_absent (j : N) (L : list N) :
  ~ In j L -> list_sum (map (fun i => if (j =? i)%N then 1%nat else 0%nat) L) = 0%nat.
Proof.
  induction L as [|a L IH]; intros H; cbn [map]; [reflexivity|]. rewrite list_sum_cons.
  destruct (N.eqb_spec j a) as [->|Hne].
  - exfalso. apply H. left; reflexivity.
  - rewrite IH; [reflexivity|]. intros Hin. apply H. right; exact Hin.
Qed.

Lemma list_sum_indicator (j : N) (L : list N) :
  NoDup L -> In j L -> list_sum (map (fun i => if (j =? i)%N then 1%nat else 0%nat) L) = 1%nat.
Proof.
  induction L as [|a L IH]; intros Hnd Hin; [destruct Hin|].
  inversion Hnd as [|? ? Hna Hnd']; subst. cbn [map]. rewrite list_sum_cons.
  destruct (N.eqb_spec j a) as [->|Hne].
  - rewrite list_sum_indicator_absent by assumption. reflexivity.
  - destruct Hin as [Heq|Hin]; [congruence|]. rewrite IH by assumption. reflexivity.
Qed.

Lemma flat_map_filter_nil {A B} (p : A -> bool) (f : A -> list B) (l : list A) :
  (forall a, In a l -> p a = false -> f a = []) ->
  flat_map f (filter p l) = flat_map f l.
Proof.
  induction l as [|a l IH]; intros H; cbn [filter flat_map]; [reflexivity|].
  destruct (p a) eqn:Hp; cbn [flat_map].
  - rewrite IH; [reflexivity|]. intros b Hb. apply H. right; exact Hb.
  - rewrite (H a (or_introl eq_refl) Hp). cbn [app].
    apply IH. intros b Hb. apply H. right; exact Hb.
Qed.

(* ================================================================== qsum / qpow *)
Lemma qsum_app l1 l2 : qsum (l1 ++ l2) == qsum l1 + qsum l2.
Proof.
  unfold qsum. induction l1 as [|a l1 IH]; cbn [app fold_right]; [ring|].
  rewrite IH. ring.
Qed.

Lemma qsum_zero l : (forall x, In x l -> x == 0) -> qsum l == 0.
Proof.
  unfold qsum. induction l as [|a l IH]; intros H; cbn [fold_right]; [reflexivity|].
  rewrite (H a (or_introl eq_refl)), IH; [ring|]. intros x Hx. apply H. right; exact Hx.
Qed.

Lemma qsum_nonneg l : (forall x, In x l -> 0 <= x) -> 0 <= qsum l.
Proof.
  unfold qsum. induction l as [|a l IH]; intros H; cbn [fold_right]; [lra|].
  pose proof (H a (or_introl eq_refl)).
  assert (0 <= fold_right Qplus 0 l) by (apply IH; intros x Hx; apply H; right; exact Hx).
  lra.
Qed.

Lemma qpow_nonneg d k : 0 <= d -> 0 <= qpow d k.
Proof.
  intros Hd. induction k as [|k IH]; cbn [qpow]; [lra|].
  apply Qmult_le_0_compat; assumption.
Qed.

Lemma Qdiv_nonneg a b : 0 <= a -> 0 <= b -> 0 <= a / b.
Proof.
  intros Ha Hb. unfold Qdiv. apply Qmult_le_0_compat; [exact Ha|].
  apply Qinv_le_0_compat. exact Hb.
Qed.

Lemma Qdiv_zero_l a b : a == 0 -> a / b == 0.
Proof. intros H. unfold Qdiv. rewrite H. ring. Qed.

Lemma inject_nat_nonneg n : 0 <= inject_Z (Z.of_nat n).
Proof.
  change 0 with (inject_Z 0). rewrite <- Zle_Qle. apply Nat2Z.is_nonneg.
Qed.

(* ================================================================== (1) weight_of_step *)
Definition n_weighted (n_steps : option nat) (m : nat) : nat :=
  match n_steps with None => m | Some s => Nat.min s m end.

Lemma n_weighted_le n_steps m : (n_weighted n_steps m <= m)%nat.
Proof. destruct n_steps as [s|]; cbn [n_weighted]; lia. Qed.

Lemma qweights_ep_unfold d n_steps m :
  qweights_ep d n_steps m
  = map (qpow d) (seq 0 (n_weighted n_steps m)) ++ repeat 0 (m - n_weighted n_steps m).
Proof. reflexivity. Qed.

Theorem qweights_ep_length d n_steps m : length (qweights_ep d n_steps m) = m.
Proof.
  rewrite qweights_ep_unfold, app_length, map_length, seq_length, repeat_length.
  pose proof (n_weighted_le n_steps m). lia.
Qed.

Theorem qweights_ep_nth d n_steps m k : (k < m)%nat ->
  nth k (qweights_ep d n_steps m) 0
  = if (k <? (match n_steps with None => m | Some s => Nat.min s m end))%nat
    then qpow d k else 0.
Proof.
  intros Hk. rewrite qweights_ep_unfold. change (match n_steps with None => m | Some s => Nat.min s m end)
    with (n_weighted n_steps m).
  destruct (Nat.ltb_spec k (n_weighted n_steps m)) as [Hlt|Hge].
  - rewrite app_nth1 by (rewrite map_length, seq_length; exact Hlt).
    rewrite (nth_indep _ 0 (qpow d 0)) by (rewrite map_length, seq_length; exact Hlt).
    rewrite map_nth, seq_nth by exact Hlt. reflexivity.
  - rewrite app_nth2 by (rewrite map_length, seq_length; exact Hge).
    apply nth_repeat.
Qed.

Theorem weight_of_step d n_steps m :
  length (qweights_ep d n_steps m) = m /\
  forall k, (k < m)%nat ->
    nth k (qweights_ep d n_steps m) 0
    = if (k <? (match n_steps with None => m | Some s => Nat.min s m end))%nat
      then qpow d k else 0.
Proof. split; [apply qweights_ep_length|intros k; apply qweights_ep_nth]. Qed.

(* ================================================================== (5) weights_nonneg *)
Theorem qweights_ep_nonneg d n_steps m x :
  0 <= d -> In x (qweights_ep d n_steps m) -> 0 <= x.
Proof.
  intros Hd Hx. rewrite qweights_ep_unfold in Hx. apply in_app_or in Hx. destruct Hx as [Hx|Hx].
  - apply in_map_iff in Hx. destruct Hx as [k [<- _]]. apply qpow_nonneg. exact Hd.
  - apply repeat_spec in Hx. subst x. lra.
Qed.

Definition steps_pos (n_steps : option nat) : Prop :=
  match n_steps with None => True | Some s => (0 < s)%nat end.

Theorem qweights_ep_first d n_steps m :
  (0 < m)%nat -> steps_pos n_steps ->
  exists t, qweights_ep d n_steps m = 1 :: t.
Proof.
  intros Hm Hs. rewrite qweights_ep_unfold.
  assert (Hn : (0 < n_weighted n_steps m)%nat).
  { destruct n_steps as [s|]; cbn [n_weighted steps_pos] in *; lia. }
  destruct (n_weighted n_steps m) as [|n]; [lia|].
  cbn [seq map app qpow]. eexists. reflexivity.
Qed.

Theorem qweights_ep_sum_pos d n_steps m :
  0 <= d -> (0 < m)%nat -> steps_pos n_steps ->
  nth 0 (qweights_ep d n_steps m) 0 = 1 /\ 1 <= qsum (qweights_ep d n_steps m).
Proof.
  intros Hd Hm Hs. destruct (qweights_ep_first d n_steps m Hm Hs) as [t Ht].
  pose proof (qweights_ep_nonneg d n_steps m) as Hnn. rewrite Ht in *.
  split; [reflexivity|]. unfold qsum. cbn [fold_right].
  assert (0 <= qsum t) by (apply qsum_nonneg; intros x Hx; apply Hnn; [exact Hd|right; exact Hx]).
  unfold qsum in *. lra.
Qed.

(* ================================================================== (3) perfect_prediction *)
Lemma err_self m p : err m p p == 0.
Proof.
  destruct m; cbn [err]; [ring|].
  assert (H : p - p == 0) by ring. rewrite H. reflexivity.
Qed.

Lemma err_nonneg m p x : 0 <= err m p x.
Proof.
  destruct m; cbn [err]; [|apply Qabs_nonneg].
  set (y := p - x). destruct (Qlt_le_dec y 0) as [Hy|Hy].
  - assert (H : y * y == (- y) * (- y)) by ring. rewrite H.
    apply Qmult_le_0_compat; lra.
  - apply Qmult_le_0_compat; exact Hy.
Qed.

Lemma row_err_self m p : row_err m p p == 0.
Proof.
  unfold row_err. apply Qdiv_zero_l. apply qsum_zero.
  induction p as [|a p IH]; cbn [map2]; intros x Hx; [destruct Hx|].
  destruct Hx as [<-|Hx]; [apply err_self|apply IH; exact Hx].
Qed.

Lemma row_err_nonneg m p x : 0 <= row_err m p x.
Proof.
  unfold row_err. apply Qdiv_nonneg; [|apply inject_nat_nonneg].
  apply qsum_nonneg. intros e He. apply In_map2 in He.
  destruct He as [a [b [_ [_ ->]]]]. apply err_nonneg.
Qed.

Theorem weighted_error_self m w P : weighted_error m w P P == 0.
Proof.
  unfold weighted_error. apply Qdiv_zero_l. apply qsum_zero.
  intros x Hx. apply In_map2 in Hx. destruct Hx as [a [b [_ [Hb ->]]]].
  assert (Hb0 : b == 0).
  { clear - Hb. induction P as [|p P IH]; cbn [map2] in Hb; [destruct Hb|].
    destruct Hb as [<-|Hb]; [apply row_err_self|apply IH; exact Hb]. }
  rewrite Hb0. ring.
Qed.

(* ================================================================== (4) scores_nonpositive *)
(* NOTE: neither "sum of the weights > 0" nor "rows non-empty" is needed: in Coq's Q,
   [/ 0 == 0], so a zero denominator gives the value 0, and a non-negative
   denominator gives a non-negative quotient. *)
Theorem weighted_error_nonneg m w P X :
  (forall x, In x w -> 0 <= x) -> 0 <= weighted_error m w P X.
Proof.
  intros Hw. unfold weighted_error. apply Qdiv_nonneg; [|apply qsum_nonneg; exact Hw].
  apply qsum_nonneg. intros x Hx. apply In_map2 in Hx. destruct Hx as [a [b [Ha [Hb ->]]]].
  apply Qmult_le_0_compat; [apply Hw; exact Ha|].
  apply In_map2 in Hb. destruct Hb as [p [r [_ [_ ->]]]]. apply row_err_nonneg.
Qed.

(* the form requested in the task statement (hypothesis on the sum is superfluous) *)
Corollary weighted_error_nonneg' m w P X :
  (forall x, In x w -> 0 <= x) -> 0 < qsum w -> 0 <= weighted_error m w P X.
Proof. intros Hw _. apply weighted_error_nonneg. exact Hw. Qed.

Theorem qweights_nonneg {A} d ep n_steps (X : dmat A) x :
  0 <= d -> In x (weights (qpow d) 0 ep n_steps X) -> 0 <= x.
Proof.
  intros Hd Hx. unfold weights in Hx. apply in_flat_map in Hx.
  destruct Hx as [e [_ Hx]]. exact (qweights_ep_nonneg d n_steps _ x Hd Hx).
Qed.

Theorem scores_nonpositive m n_steps d es min_samples ep fin Xp Xe s :
  0 <= d ->
  score_trajectory m n_steps d es min_samples ep fin Xp Xe = Score s -> s <= 0.
Proof.
  intros Hd H. unfold score_trajectory in H.
  destruct (negb fin); [destruct es; discriminate|].
  set (w := qweights d ep n_steps (strip_ic ep min_samples Xe)) in *.
  set (P := rows (strip_ic ep min_samples Xp)) in *.
  set (R := rows (strip_ic ep min_samples Xe)) in *.
  assert (Hn : 0 <= weighted_error m w P R).
  { apply weighted_error_nonneg. intros x Hx. exact (qweights_nonneg d ep n_steps _ x Hd Hx). }
  destruct es as [[e|]|].
  - destruct (Qlt_le_dec (- weighted_error m w P R) e); [discriminate|].
    inversion H; subst. lra.
  - inversion H; subst. lra.
  - inversion H; subst. lra.
Qed.

(* ================================================================== (3b) perfect prediction, score *)
Theorem score_perfect m n_steps d es min_samples ep X :
  exists s, s == 0 /\
    score_trajectory m n_steps d es min_samples ep true X X
    = match es with
      | Some (Some e) => if Qlt_le_dec 0 e then ErrorScore else Score s
      | _ => Score s
      end.
Proof.
  unfold score_trajectory. cbn [negb].
  set (w := qweights d ep n_steps (strip_ic ep min_samples X)).
  set (P := rows (strip_ic ep min_samples X)).
  pose proof (weighted_error_self m w P) as H0.
  exists (- weighted_error m w P P). split; [lra|].
  destruct es as [[e|]|]; try reflexivity.
  destruct (Qlt_le_dec (- weighted_error m w P P) e), (Qlt_le_dec 0 e); try reflexivity; exfalso; lra.
Qed.

Corollary score_perfect_no_floor m n_steps d es min_samples ep X :
  es = None \/ es = Some None ->
  exists s, s == 0 /\ score_trajectory m n_steps d es min_samples ep true X X = Score s.
Proof.
  intros H. destruct (score_perfect m n_steps d es min_samples ep X) as [s [Hs He]].
  exists s. split; [exact Hs|]. rewrite He. destruct H; subst; reflexivity.
Qed.

Corollary score_perfect_floor_le m n_steps d e min_samples ep X :
  e <= 0 ->
  exists s, s == 0 /\
    score_trajectory m n_steps d (Some (Some e)) min_samples ep true X X = Score s.
Proof.
  intros H. destruct (score_perfect m n_steps d (Some (Some e)) min_samples ep X) as [s [Hs He]].
  exists s. split; [exact Hs|]. rewrite He. destruct (Qlt_le_dec 0 e); [exfalso; lra|reflexivity].
Qed.

Corollary score_perfect_floor_gt m n_steps d e min_samples ep X :
  0 < e ->
  score_trajectory m n_steps d (Some (Some e)) min_samples ep true X X = ErrorScore.
Proof.
  intros H. destruct (score_perfect m n_steps d (Some (Some e)) min_samples ep X) as [s [Hs He]].
  rewrite He. destruct (Qlt_le_dec 0 e); [reflexivity|exfalso; lra].
Qed.

(* ================================================================== (6) floor / nonfinite *)
Theorem score_floor m n_steps d e min_samples ep Xp Xe :
  score_trajectory m n_steps d (Some (Some e)) min_samples ep true Xp Xe = ErrorScore \/
  exists s, score_trajectory m n_steps d (Some (Some e)) min_samples ep true Xp Xe = Score s /\ e <= s.
Proof.
  unfold score_trajectory. cbn [negb].
  match goal with |- context [Qlt_le_dec ?a ?b] => destruct (Qlt_le_dec a b) as [Hlt|Hle] end.
  - left; reflexivity.
  - right. eexists. split; [reflexivity|exact Hle].
Qed.

Theorem score_nonfinite m n_steps d es min_samples ep Xp Xe :
  (score_trajectory m n_steps d es min_samples ep false Xp Xe = Raised <-> es = None) /\
  (es <> None -> score_trajectory m n_steps d es min_samples ep false Xp Xe = ErrorScore).
Proof.
  unfold score_trajectory. cbn [negb]. destruct es as [o|]; split.
  - split; discriminate.
  - reflexivity.
  - split; reflexivity.
  - intros H; congruence.
Qed.

(* with finite inputs the model never raises *)
Theorem score_finite_not_raised m n_steps d es min_samples ep Xp Xe :
  score_trajectory m n_steps d es min_samples ep true Xp Xe <> Raised.
Proof.
  unfold score_trajectory. cbn [negb]. destruct es as [[e|]|]; try discriminate.
  match goal with |- context [Qlt_le_dec ?a ?b] => destruct (Qlt_le_dec a b) end; discriminate.
Qed.

(* ================================================================== (2) weights_concat *)
Theorem qweights_concat d ep n_steps (X : dmat Q) :
  qweights d ep n_steps X
  = flat_map (fun e => qweights_ep d n_steps (length (snd e))) (split ep X).
Proof. reflexivity. Qed.

(* with an episode feature: one block per distinct label, ascending label order *)
Theorem qweights_concat_true d n_steps (X : dmat Q) :
  qweights d true n_steps X
  = flat_map (fun i => qweights_ep d n_steps (length (rows_of i X))) (uniq (labels X)).
Proof.
  rewrite qweights_concat. unfold split. rewrite flat_map_concat_map, map_map.
  cbn [snd]. rewrite <- flat_map_concat_map. reflexivity.
Qed.

Theorem qweights_concat_false d n_steps (X : dmat Q) :
  qweights d false n_steps X = qweights_ep d n_steps (length X).
Proof.
  rewrite qweights_concat. unfold split. cbn [flat_map snd]. rewrite app_nil_r.
  unfold rows. rewrite map_length. reflexivity.
Qed.

Section Count.
Variable A : Type.

Lemma rows_of_cons_length i j (r : list A) (X : dmat A) :
  length (rows_of i ((j, r) :: X))
  = ((if (j =? i)%N then 1 else 0) + length (rows_of i X))%nat.
Proof.
  unfold rows_of. cbn [filter fst]. destruct (j =? i)%N; reflexivity.
Qed.

Lemma list_sum_map_zero {B} (L : list B) : list_sum (map (fun _ => 0%nat) L) = 0%nat.
Proof. induction L as [|a L IH]; cbn [map]; [reflexivity|]. rewrite list_sum_cons, IH. reflexivity. Qed.

(* every row belongs to exactly one episode: the episode sizes add up to the
   number of rows *)
Lemma rows_of_length_sum (X : dmat A) (L : list N) :
  NoDup L -> (forall i, In i (labels X) -> In i L) ->
  list_sum (map (fun i => length (rows_of i X)) L) = length X.
Proof.
  intros Hnd. induction X as [|[j r] X IH]; intros Hin.
  - cbn [rows_of filter map length]. apply list_sum_map_zero.
  - rewrite (map_ext _ _ (fun i => rows_of_cons_length i j r X)).
    rewrite (list_sum_map_add (fun i => if (j =? i)%N then 1%nat else 0%nat)
                              (fun i => length (rows_of i X))).
    rewrite list_sum_indicator; [|exact Hnd|apply Hin; left; reflexivity].
    rewrite IH; [reflexivity|]. intros i Hi. apply Hin. right. exact Hi.
Qed.

Lemma split_rows_total ep (X : dmat A) :
  list_sum (map (fun e => length (snd e)) (split ep X)) = length X.
Proof.
  destruct ep; unfold split.
  - rewrite map_map. cbn [snd]. apply rows_of_length_sum.
    + apply ssorted_NoDup, uniq_sorted.
    + intros i Hi. apply uniq_In. exact Hi.
  - cbn [map snd]. rewrite list_sum_cons. unfold rows. rewrite map_length. cbn. lia.
Qed.

Lemma combine_length ep (eps : episodes A) :
  length (combine ep eps) = list_sum (map (fun e => length (snd e)) eps).
Proof.
  unfold combine. rewrite flat_map_length_sum. f_equal. apply map_ext. intros e.
  apply map_length.
Qed.

(* combine (split X) has exactly as many rows as X *)
Theorem combine_split_length ep (X : dmat A) : length (combine ep (split ep X)) = length X.
Proof. rewrite combine_length. apply split_rows_total. Qed.
End Count.

(* one weight per row, with or without episode feature *)
Theorem qweights_length d ep n_steps (X : dmat Q) : length (qweights d ep n_steps X) = length X.
Proof.
  rewrite qweights_concat, flat_map_length_sum.
  rewrite (map_ext _ (fun e => length (snd e))) by (intros e; apply qweights_ep_length).
  apply split_rows_total.
Qed.

Corollary qweights_length_combine d ep n_steps (X : dmat Q) :
  length (qweights d ep n_steps X) = length (combine ep (split ep X)).
Proof. rewrite combine_split_length. apply qweights_length. Qed.

(* in score_trajectory the weight vector and the two row lists that enter the metric
   have the same length *)
Corollary score_weights_aligned d ep n_steps min_samples (Xe : dmat Q) :
  length (qweights d ep n_steps (strip_ic ep min_samples Xe))
  = length (rows (strip_ic ep min_samples Xe)).
Proof. rewrite qweights_length. unfold rows. rewrite map_length. reflexivity. Qed.

(* ================================================================== (7) strip_then_weights *)
Section Strip.
Variable A : Type.

Theorem strip_rows_of w (X : dmat A) i :
  In i (labels X) -> rows_of i (strip_ic true w X) = skipn w (rows_of i X).
Proof. intros Hi. exact (episode_map_episodes_true (skipn w) X i Hi). Qed.

(* the premise is not needed: an absent label has no rows before or after *)
Theorem strip_rows_of_all w (X : dmat A) i :
  rows_of i (strip_ic true w X) = skipn w (rows_of i X).
Proof.
  destruct (in_dec N.eq_dec i (labels X)) as [Hi|Hn]; [apply strip_rows_of; exact Hi|].
  rewrite (proj2 (rows_of_nil_iff i X) Hn), skipn_nil.
  exact (episode_map_episodes_absent (skipn w) X i Hn).
Qed.

Theorem strip_rows_false w (X : dmat A) : rows (strip_ic false w X) = skipn w (rows X).
Proof. exact (episode_map_episodes_false (skipn w) X 0%N). Qed.

Lemma rows_combine ep (eps : episodes A) : rows (combine ep eps) = flat_map (@snd _ _) eps.
Proof.
  unfold rows, combine. induction eps as [|e eps IH]; cbn [flat_map map]; [reflexivity|].
  rewrite map_app, IH, map_map. cbn [snd]. rewrite map_id. reflexivity.
Qed.

(* the rows entering the error, in order: per episode (ascending label), the rows
   after the first w *)
Theorem strip_rows_true w (X : dmat A) :
  rows (strip_ic true w X) = flat_map (fun i => skipn w (rows_of i X)) (uniq (labels X)).
Proof.
  unfold strip_ic, map_episodes. rewrite rows_combine. unfold split.
  rewrite map_map. cbn [fst snd]. rewrite !flat_map_concat_map, map_map. reflexivity.
Qed.

(* ---- split after combine when some episodes may be empty *)
Definition nonempty_ep (e : N * list (list A)) : bool :=
  match snd e with [] => false | _ => true end.

Lemma combine_filter_nonempty (eps : episodes A) :
  combine true (filter nonempty_ep eps) = combine true eps.
Proof.
  unfold combine. induction eps as [|[j E] eps IH]; cbn [filter flat_map]; [reflexivity|].
  destruct E as [|r E]; cbn [nonempty_ep snd flat_map map app]; [exact IH|].
  rewrite IH. reflexivity.
Qed.

Lemma ssorted_filter_fst (p : N * list (list A) -> bool) (eps : episodes A) :
  ssorted (map fst eps) -> ssorted (map fst (filter p eps)).
Proof.
  induction eps as [|e eps IH]; cbn [map filter ssorted]; [auto|].
  intros [He Hs]. destruct (p e); cbn [map ssorted]; [|apply IH; exact Hs].
  split; [|apply IH; exact Hs].
  intros x Hx. apply He. apply in_map_iff in Hx. destruct Hx as [e' [<- He']].
  apply filter_In in He'. apply in_map. apply He'.
Qed.

Theorem split_combine_filter (eps : episodes A) :
  ssorted (map fst eps) ->
  split true (combine true eps) = filter nonempty_ep eps.
Proof.
  intros Hs. rewrite <- combine_filter_nonempty. apply split_combine.
  - apply ssorted_filter_fst. exact Hs.
  - intros e He. apply filter_In in He. destruct He as [_ He].
    destruct e as [j E]. unfold nonempty_ep in He. cbn [snd] in *. destruct E; [discriminate He|discriminate].
Qed.

Theorem split_strip_true w (X : dmat A) :
  split true (strip_ic true w X)
  = filter nonempty_ep (map (fun i => (i, skipn w (rows_of i X))) (uniq (labels X))).
Proof.
  unfold strip_ic, map_episodes. unfold split at 2. rewrite map_map. cbn [fst snd].
  apply split_combine_filter. rewrite map_map. cbn [fst]. rewrite map_id. apply uniq_sorted.
Qed.
End Strip.

(* the weight vector of score_trajectory: per episode of the ORIGINAL matrix
   (ascending label), the weights of an episode with [length - min_samples] rows —
   block by block aligned with [strip_rows_true] *)
Theorem strip_then_weights_true d n_steps w (X : dmat Q) :
  qweights d true n_steps (strip_ic true w X)
  = flat_map (fun i => qweights_ep d n_steps (length (skipn w (rows_of i X)))) (uniq (labels X)).
Proof.
  rewrite qweights_concat, split_strip_true.
  rewrite flat_map_filter_nil.
  - rewrite !flat_map_concat_map, map_map. reflexivity.
  - intros [j E] _ He. unfold nonempty_ep in He. cbn [snd] in *. destruct E; [|discriminate He].
    apply length_zero_iff_nil. apply qweights_ep_length.
Qed.

Theorem strip_then_weights_false d n_steps w (X : dmat Q) :
  qweights d false n_steps (strip_ic false w X)
  = qweights_ep d n_steps (length (skipn w (rows X))).
Proof.
  rewrite qweights_concat_false. rewrite <- strip_rows_false. unfold rows. rewrite map_length.
  reflexivity.
Qed.

(* ================================================================== positivity of the weight sum *)
Lemma qsum_flat_map_nonneg {B} (f : B -> list Q) (l : list B) :
  (forall b, In b l -> 0 <= qsum (f b)) -> 0 <= qsum (flat_map f l).
Proof.
  induction l as [|b l IH]; intros H; cbn [flat_map]; [unfold qsum; cbn; lra|].
  rewrite qsum_app. pose proof (H b (or_introl eq_refl)).
  assert (0 <= qsum (flat_map f l)) by (apply IH; intros c Hc; apply H; right; exact Hc). lra.
Qed.

Lemma qsum_flat_map_ge {B} (f : B -> list Q) (l : list B) b0 c :
  (forall b, In b l -> 0 <= qsum (f b)) -> In b0 l -> c <= qsum (f b0) ->
  c <= qsum (flat_map f l).
Proof.
  induction l as [|b l IH]; intros H Hin Hc; [destruct Hin|]. cbn [flat_map]. rewrite qsum_app.
  destruct Hin as [->|Hin].
  - assert (0 <= qsum (flat_map f l)) by (apply qsum_flat_map_nonneg; intros x Hx; apply H; right; exact Hx).
    lra.
  - pose proof (H b (or_introl eq_refl)).
    assert (c <= qsum (flat_map f l)) by (apply IH; [intros x Hx; apply H; right; exact Hx|exact Hin|exact Hc]).
    lra.
Qed.

(* as soon as one row survives, discount >= 0 and n_steps is None or positive, the
   denominator of the weighted error is >= 1 > 0 *)
Theorem qweights_sum_pos d ep n_steps (X : dmat Q) :
  0 <= d -> steps_pos n_steps -> X <> [] -> 1 <= qsum (qweights d ep n_steps X).
Proof.
  intros Hd Hs HX. rewrite qweights_concat.
  assert (Hnn : forall e : N * list (row Q), 0 <= qsum (qweights_ep d n_steps (length (snd e)))).
  { intros e. apply qsum_nonneg. intros x. apply qweights_ep_nonneg. exact Hd. }
  assert (Hex : exists e, In e (split ep X) /\ (0 < length (snd e))%nat).
  { destruct X as [|[j r] X]; [congruence|]. destruct ep; unfold split.
    - exists (j, rows_of j ((j, r) :: X)). split.
      + apply in_map_iff. exists j. split; [reflexivity|]. apply uniq_In. left; reflexivity.
      + cbn [snd]. rewrite rows_of_cons_length, N.eqb_refl. lia.
    - eexists. split; [left; reflexivity|]. cbn [snd rows map length]. lia. }
  destruct Hex as [e [He Hl]].
  apply (qsum_flat_map_ge _ _ e); [intros b _; apply Hnn|exact He|].
  apply qweights_ep_sum_pos; assumption.
Qed.

(* ================================================================== combine (split X) is a rearrangement of X *)
From Coq Require Import Permutation.

Section Rearrange.
Variable A : Type.

Definition sel (i : N) (X : dmat A) : dmat A := filter (fun r => (fst r =? i)%N) X.

Lemma retag_sel i (X : dmat A) : map (fun r => (i, r)) (rows_of i X) = sel i X.
Proof.
  unfold rows_of, sel. induction X as [|[j r] X IH]; cbn [filter fst]; [reflexivity|].
  destruct (N.eqb_spec j i) as [->|Hne]; cbn [map snd]; [rewrite IH; reflexivity|exact IH].
Qed.

Lemma combine_split_sel (X : dmat A) :
  combine true (split true X) = flat_map (fun i => sel i X) (uniq (labels X)).
Proof.
  unfold combine, split. rewrite !flat_map_concat_map, map_map. cbn [fst snd].
  f_equal. apply map_ext. intros i. apply retag_sel.
Qed.

Lemma flat_map_sel_skip j r (X : dmat A) (L : list N) :
  ~ In j L -> flat_map (fun i => sel i ((j, r) :: X)) L = flat_map (fun i => sel i X) L.
Proof.
  intros Hn. induction L as [|a L IH]; cbn [flat_map]; [reflexivity|].
  rewrite IH by (intros H; apply Hn; right; exact H).
  unfold sel at 1. cbn [filter fst]. destruct (N.eqb_spec j a) as [->|Hne]; [|reflexivity].
  exfalso. apply Hn. left; reflexivity.
Qed.

Lemma flat_map_sel_perm (X : dmat A) (L : list N) :
  NoDup L -> (forall i, In i (labels X) -> In i L) ->
  Permutation (flat_map (fun i => sel i X) L) X.
Proof.
  intros Hnd. induction X as [|[j r] X IH]; intros Hin.
  - cbn [sel filter]. induction L as [|a L IHL]; cbn [flat_map app]; [constructor|].
    inversion Hnd; subst. apply IHL; [assumption|intros i []].
  - assert (Hj : In j L) by (apply Hin; left; reflexivity).
    destruct (in_split j L Hj) as [L1 [L2 ->]].
    apply NoDup_remove in Hnd. destruct Hnd as [Hnd Hnj].
    assert (Hn1 : ~ In j L1) by (intros H; apply Hnj; apply in_or_app; left; exact H).
    assert (Hn2 : ~ In j L2) by (intros H; apply Hnj; apply in_or_app; right; exact H).
    rewrite flat_map_app. cbn [flat_map]. rewrite !flat_map_sel_skip by assumption.
    unfold sel at 2. cbn [filter fst]. rewrite N.eqb_refl. fold (sel j X).
    cbn [app]. apply Permutation_sym, Permutation_cons_app, Permutation_sym.
    specialize (IH (fun i Hi => Hin i (or_intror Hi))).
    rewrite flat_map_app in IH. cbn [flat_map] in IH. exact IH.
Qed.

(* split then combine only regroups the rows by episode *)
Theorem combine_split_perm (X : dmat A) : Permutation (combine true (split true X)) X.
Proof.
  rewrite combine_split_sel. apply flat_map_sel_perm.
  - apply ssorted_NoDup, uniq_sorted.
  - intros i Hi. apply uniq_In. exact Hi.
Qed.

Theorem combine_split_false (X : dmat A) :
  combine false (split false X) = map (fun r => (0%N, snd r)) X.
Proof.
  unfold combine, split, rows. cbn [flat_map snd]. rewrite app_nil_r, map_map. reflexivity.
Qed.
End Rearrange.
