(* C17 / C18 — the seeding discipline of scipy.stats `rvs(..., random_state=arg)`
   (scipy._lib._util.check_random_state) as used by UniformRandomCenters.fit
   (centers.py:200-208) and RandomFourierKernelApprox.fit (kernel_approximation.py:231-247):

     * an int seed builds a FRESH generator seeded with it at every rvs call, so every
       call starts at position 0 of the same stream;
     * a RandomState object is shared and mutable: a call consumes the next draws and
       advances it.

   [gen s k] is the k-th uniform draw of a generator seeded with s (numpy's MT19937
   stream: an oracle; the harness replays it).  The model covers distributions sampled
   with one uniform draw per variate (uniform, laplace, cauchy by inverse CDF).
   Parametric, stdlib only, closed under the global context. *)
From Coq Require Import List Arith Lia.
Import ListNotations.

Section Seed.
Variable U : Type.
Variable gen : nat -> nat -> U.

Inductive seed_arg := SInt (s : nat) | SState.
Definition rstate := (nat * nat)%type.                   (* seed of the object, position *)

(* positions of the stream read by one rvs call of n variates *)
Definition rvs_pos (arg : seed_arg) (st : rstate) (n : nat) : list (nat * nat) * rstate :=
  match arg with
  | SInt s => (map (fun k => (s, k)) (seq 0 n), st)
  | SState => (map (fun k => (fst st, k)) (seq (snd st) n), (fst st, snd st + n))
  end.
Definition draw (p : nat * nat) : U := gen (fst p) (snd p).
Definition rvs (arg : seed_arg) (st : rstate) (n : nat) : list U * rstate :=
  (map draw (fst (rvs_pos arg st n)), snd (rvs_pos arg st n)).

(* ---------- UniformRandomCenters.fit: one rvs call per feature, same argument *)
Fixpoint uniform_pos (arg : seed_arg) (st : rstate) (nfeat k : nat) : list (list (nat * nat)) :=
  match nfeat with
  | 0 => []
  | S n' => fst (rvs_pos arg st k) :: uniform_pos arg (snd (rvs_pos arg st k)) n' k
  end.

Lemma uniform_pos_length : forall arg nfeat st k, length (uniform_pos arg st nfeat k) = nfeat.
Proof. intros arg nfeat; induction nfeat as [|n IH]; intros st k; cbn; auto. Qed.

(* int seed: every feature reads the same positions -> identical normalised centres *)
Theorem uniform_int_seed_coupled : forall s st nfeat k i j,
  i < nfeat -> j < nfeat ->
  nth i (uniform_pos (SInt s) st nfeat k) [] = nth j (uniform_pos (SInt s) st nfeat k) [].
Proof.
  intros s st nfeat k.
  assert (H : forall i, i < nfeat ->
            nth i (uniform_pos (SInt s) st nfeat k) [] = map (fun q => (s, q)) (seq 0 k)).
  { induction nfeat as [|n IH]; intros i Hi; [lia|].
    destruct i as [|i]; cbn [uniform_pos rvs_pos fst snd nth]; [reflexivity|]. apply IH. lia. }
  intros i j Hi Hj. now rewrite (H i Hi), (H j Hj).
Qed.

(* RandomState: feature i reads positions p + i*k .. p + (i+1)*k - 1 *)
Lemma uniform_state_positions : forall nfeat sd p k i, i < nfeat ->
  nth i (uniform_pos SState (sd, p) nfeat k) [] = map (fun q => (sd, q)) (seq (p + i * k) k).
Proof.
  induction nfeat as [|n IH]; intros sd p k i Hi; [lia|].
  destruct i as [|i]; cbn [uniform_pos rvs_pos fst snd nth].
  - now rewrite Nat.add_0_r.
  - rewrite IH by lia. f_equal. f_equal. cbn [Nat.mul]. lia.
Qed.

Theorem uniform_state_disjoint : forall nfeat sd p k i j q,
  i < nfeat -> j < nfeat -> i <> j ->
  In q (nth i (uniform_pos SState (sd, p) nfeat k) []) ->
  ~ In q (nth j (uniform_pos SState (sd, p) nfeat k) []).
Proof.
  intros nfeat sd p k i j q Hi Hj Hne H1 H2.
  rewrite uniform_state_positions in H1, H2 by assumption.
  apply in_map_iff in H1. apply in_map_iff in H2.
  destruct H1 as [a [Ha Hia]]. destruct H2 as [b [Hb Hib]]. subst q. inversion Hb; subst b.
  apply in_seq in Hia. apply in_seq in Hib. nia.
Qed.

(* ---------- RandomFourierKernelApprox.fit: weights (d rows x D columns, filled in C order)
   then offsets (D), both with the same argument *)
Definition rff_weight_pos (arg : seed_arg) (st : rstate) (d D : nat) : list (nat * nat) :=
  fst (rvs_pos arg st (d * D)).
Definition rff_offset_pos (arg : seed_arg) (st : rstate) (d D : nat) : list (nat * nat) :=
  fst (rvs_pos arg (snd (rvs_pos arg st (d * D))) D).
(* row i of the weight matrix = variates i*D .. (i+1)*D - 1 of the call *)
Definition rff_weight_row (arg : seed_arg) (st : rstate) (d D i : nat) : list (nat * nat) :=
  firstn D (skipn (i * D) (rff_weight_pos arg st d D)).

Lemma firstn_map_seq : forall (A : Type) (f : nat -> A) a n m, m <= n ->
  firstn m (map f (seq a n)) = map f (seq a m).
Proof.
  intros A f a n m. revert a n. induction m as [|m IH]; intros a n H; [reflexivity|].
  destruct n as [|n]; [lia|]. cbn [seq map firstn]. f_equal. apply IH. lia.
Qed.

(* int seed: the offsets are drawn from exactly the uniforms that produced the FIRST
   ROW of the weights (feature 0): offset_j and w_0j are functions of the same draw *)
Theorem rff_int_seed_offsets_reuse_weights : forall s st d D, 0 < d ->
  rff_offset_pos (SInt s) st d D = rff_weight_row (SInt s) st d D 0.
Proof.
  intros s st d D Hd. unfold rff_offset_pos, rff_weight_row, rff_weight_pos.
  cbn [rvs_pos fst snd Nat.mul skipn]. symmetry. apply firstn_map_seq. nia.
Qed.

(* RandomState: offsets read positions after all the weights' positions *)
Theorem rff_state_disjoint : forall sd p d D q,
  In q (rff_weight_pos SState (sd, p) d D) -> ~ In q (rff_offset_pos SState (sd, p) d D).
Proof.
  intros sd p d D q H1 H2. unfold rff_weight_pos, rff_offset_pos in *.
  cbn [rvs_pos fst snd] in *.
  apply in_map_iff in H1. apply in_map_iff in H2.
  destruct H1 as [a [Ha Hia]]. destruct H2 as [b [Hb Hib]]. subst q. inversion Hb; subst b.
  apply in_seq in Hia. apply in_seq in Hib. lia.
Qed.

Theorem rff_state_positions : forall sd p d D,
  rff_weight_pos SState (sd, p) d D = map (fun q => (sd, q)) (seq p (d * D)) /\
  rff_offset_pos SState (sd, p) d D = map (fun q => (sd, q)) (seq (p + d * D) D).
Proof. intros; split; reflexivity. Qed.

End Seed.

Arguments SInt s.
Arguments SState.
