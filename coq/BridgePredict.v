(* Bridge for KoopmanPipeline.predict_trajectory (C07): the function REGENERATED from the source by tools/gen_predict.py
   (Gen/PredictGen.v: both loops with their in-place array updates as folds over `range`, the four return modes,
   _split_state_input_episodes with its per-episode checks, the call-time episode flag) is `predict_trajectory` of the
   model (Helpers.v) for every fitted pipeline, Koopman matrix, flag combination and data that passes the checks the
   source itself makes (`gen_episode_checks`: min_samples_ initial samples, at least min_samples_ input samples). *)
From Coq Require Import List ZArith NArith Arith Bool Lia.
From PK Require Import PyList SliceLib Episodes Stage StageFacts Helpers PredictFacts BridgeEpisodes BridgeStages BridgeHelpers.
From PK.Gen Require Import EpisodesGen PredictGen.
Import ListNotations.

Section FoldLemmas.

Lemma fold_left_sim : forall (A B X : Type) (R : A -> B -> Prop) (f : A -> X -> A) (g : B -> X -> B) (l : list X) a b,
  R a b -> (forall x a b, In x l -> R a b -> R (f a x) (g b x)) -> R (fold_left f l a) (fold_left g l b).
Proof.
  intros A B X R f g l. induction l as [|x l IH]; intros a b Hab H; cbn [fold_left]; [exact Hab|].
  apply IH; [apply H; [now left|exact Hab] | intros y a' b' Hy; apply H; now right].
Qed.

Lemma fold_left_map : forall (A X Y : Type) (f : A -> Y -> A) (g : X -> Y) l a,
  fold_left f (map g l) a = fold_left (fun a x => f a (g x)) l a.
Proof. intros A X Y f g l. induction l as [|x l IH]; intro a; cbn [map fold_left]; [reflexivity|apply IH]. Qed.

Lemma map_shift_seq : forall a s n, map (fun i => (Z.of_nat a + Z.of_nat i)%Z) (seq s n) = map Z.of_nat (seq (a + s) n).
Proof.
  intros a s n. revert s. induction n as [|n IH]; intro s; cbn [seq map]; [reflexivity|].
  f_equal; [lia|]. rewrite IH. now rewrite Nat.add_succ_r.
Qed.

Lemma zrange2_nat : forall a b, zrange2 (Z.of_nat a) (Z.of_nat b) = map Z.of_nat (seq a (b - a)).
Proof.
  intros a b. unfold zrange2. replace (Z.to_nat (Z.of_nat b - Z.of_nat a)) with (b - a) by lia.
  rewrite map_shift_seq. now rewrite Nat.add_0_r.
Qed.

End FoldLemmas.

Section Rows.
Variable T : Type.
Notation raw := (list (list T)).

Lemma set_row_at_model : forall k (x : list T) (R : raw), set_row_at k x R = set_row k x R.
Proof. induction k as [|k IH]; intros x [|a R]; cbn [set_row_at set_row]; try reflexivity. now rewrite IH. Qed.

Lemma set_row_out : forall k (x : list T) (R : raw), length R <= k -> set_row k x R = R.
Proof.
  induction k as [|k IH]; intros x [|a R] H; cbn [set_row]; try reflexivity; cbn [length] in H; [lia|].
  rewrite IH by lia. reflexivity.
Qed.

Lemma set_row_length : forall k (x : list T) (R : raw), length (set_row k x R) = length R.
Proof. induction k as [|k IH]; intros x [|a R]; cbn [set_row length]; try reflexivity. now rewrite IH. Qed.

Lemma nth_set_row : forall k (x : list T) (R : raw), k < length R -> nth k (set_row k x R) [] = x.
Proof.
  induction k as [|k IH]; intros x [|a R] H; cbn [length] in H; try lia; cbn [set_row nth]; [reflexivity|].
  apply IH. lia.
Qed.

Lemma zidx_nat : forall len k, zidx len (Z.of_nat k) = if k <? len then Some k else None.
Proof.
  intros len k. unfold zidx. replace (Z.of_nat k <? 0)%Z with false by (symmetry; apply Z.ltb_ge; lia).
  replace (0 <=? Z.of_nat k)%Z with true by (symmetry; apply Z.leb_le; lia). cbn [andb].
  destruct (Nat.ltb_spec k len) as [H|H].
  - replace (Z.of_nat k <? Z.of_nat len)%Z with true by (symmetry; apply Z.ltb_lt; lia). now rewrite Nat2Z.id.
  - replace (Z.of_nat k <? Z.of_nat len)%Z with false by (symmetry; apply Z.ltb_ge; lia). reflexivity.
Qed.

Lemma assign_row_nat : forall k (X V : raw), assign_row (Z.of_nat k) X V = set_row k (last V []) X.
Proof.
  intros k X V. unfold assign_row. rewrite zidx_nat. destruct (Nat.ltb_spec k (length X)) as [H|H].
  - apply set_row_at_model.
  - symmetry. now apply set_row_out.
Qed.

Lemma pick_row_nat : forall k (M : raw), k < length M -> pick_row (Z.of_nat k) M = [nth k M []].
Proof.
  intros k M H. unfold pick_row. rewrite zidx_nat. apply Nat.ltb_lt in H. now rewrite H.
Qed.

Lemma last_row_last : forall (R : raw), last (row_last R) [] = last_row R.
Proof. intros [|a R]; reflexivity. Qed.

Lemma slice_window : forall w a (X : raw),
  slice_rows (Some (Z.of_nat a)) (Some (Z.of_nat a + Z.of_nat w)%Z) X = window w a X.
Proof. intros w a X. unfold slice_rows, window. apply oslice_between. Qed.

Lemma slice_window_back : forall w k (X : raw), w <= k ->
  slice_rows (Some (Z.of_nat k - Z.of_nat w)%Z) (Some (Z.of_nat k)) X = window w (k - w) X.
Proof.
  intros w k X H. replace (Z.of_nat k - Z.of_nat w)%Z with (Z.of_nat (k - w)) by lia.
  replace (Z.of_nat k) with (Z.of_nat (k - w) + Z.of_nat w)%Z by lia. apply slice_window.
Qed.

Lemma slice_window_fwd : forall w k (X : raw), 1 <= k ->
  slice_rows (Some (Z.of_nat k - 1)%Z) (Some (Z.of_nat k + Z.of_nat w - 1)%Z) X = window w (k - 1) X.
Proof.
  intros w k X H. replace (Z.of_nat k - 1)%Z with (Z.of_nat (k - 1)) by lia.
  replace (Z.of_nat k + Z.of_nat w - 1)%Z with (Z.of_nat (k - 1) + Z.of_nat w)%Z by lia. apply slice_window.
Qed.

Lemma skipn_repeat : forall (A : Type) (x : A) k n, skipn k (repeat x n) = repeat x (n - k).
Proof.
  intros A x k. induction k as [|k IH]; intros [|n]; cbn [skipn repeat Nat.sub]; try reflexivity. apply IH.
Qed.

Lemma init_rows : forall (z : list T) w n (X0 : raw), length X0 = w ->
  assign_rows_upto (Z.of_nat w) (repeat z n) X0 = X0 ++ repeat z (n - w).
Proof.
  intros z w n X0 H. unfold assign_rows_upto. rewrite Nat2Z.id, skipn_repeat. f_equal. apply firstn_all2. lia.
Qed.

End Rows.

Section Bridge.
Variable T : Type.
Variable O : ops T.
Notation t0 := (op_t0 O).
Notation raw := (list (list T)).
Variable f : fitted T.
Variable coef : list (list T).

Notation ns := (fst (f_dims f)).
Notation LS := (lift_state O f (Some false)).
Notation LI := (lift_input O f (Some false)).
Notation RS := (retract_state O f (Some false)).
(* Theta @ A.T + Upsilon @ B.T, row by row: [theta, upsilon] @ coef_ (Gen/PredictAlg.v, BridgePredictAlg.v) *)
Definition affine_model (Th Up : raw) : raw := map2 (kstep O f coef) Th Up.

(* ------------------------------------------------------------------ _split_state_input_episodes *)
Lemma gen_split_state_input_model : forall (w : nat) (c : bool) (X : dmat T) (U : option (dmat T)),
  gen_split_state_input_episodes T ns w c X U =
  match U with
  | None => map (fun e => (fst e, (map (firstn ns) (firstn w (snd e)), map (skipn ns) (snd e)))) (split c X)
  | Some Ur => map (fun xu => (fst (fst xu), (snd (fst xu), snd (snd xu)))) (zip (split c X) (split c Ur))
  end.
Proof.
  intros w c X [Ur|]; unfold gen_split_state_input_episodes; cbn zeta; rewrite !gen_split_episodes_model.
  - reflexivity.
  - apply map_ext. intro e. rewrite cols_to, cols_from. unfold slice_rows. now rewrite oslice_to.
Qed.

Lemma gen_episode_checks_spec : forall (w : nat) (X0 U : raw),
  gen_episode_checks T w X0 U = true <-> length X0 = w /\ w <= length U.
Proof.
  intros w X0 U. unfold gen_episode_checks. rewrite andb_true_iff, !negb_true_iff, negb_false_iff, Z.eqb_eq, Z.ltb_ge. lia.
Qed.

(* ------------------------------------------------------------------ relift_state=True *)
Lemma relift_fold_model : forall (w : nat) (X0 U : raw), length X0 = w -> w <= length U ->
  fold_left (fun st k =>
      let X_i := st in
      let Theta_ikm1 := LS (slice_rows (Some (k - Z.of_nat w)%Z) (Some k) X_i) in
      let Upsilon_ikm1 := LI (hstack_list [slice_rows (Some (k - Z.of_nat w)%Z) (Some k) X_i;
                                           slice_rows (Some (k - Z.of_nat w)%Z) (Some k) U]) in
      let Theta_ik := affine_model Theta_ikm1 Upsilon_ikm1 in
      let X_i := assign_row k X_i (row_last (RS Theta_ik)) in
      X_i)
    (zrange2 (Z.of_nat w) (Z.of_nat (length U)))
    (assign_rows_upto (Z.of_nat w) (zeros_mat t0 (Z.of_nat (length U)) (Z.of_nat ns)) X0)
  = relift_loop O f coef w U X0.
Proof.
  intros w X0 U H0 HU. unfold relift_loop, zeros_mat. cbn zeta. rewrite !Nat2Z.id, init_rows by exact H0.
  rewrite zrange2_nat, fold_left_map.
  apply (@fold_left_sim _ _ _ (fun a b : raw => a = b)); [reflexivity|].
  intros k X X' Hk ->. apply in_seq in Hk.
  rewrite !slice_window_back by lia. rewrite assign_row_nat, last_row_last. reflexivity.
Qed.

(* ------------------------------------------------------------------ relift_state=False *)
Definition to_nr (st : raw * raw * raw) : nr_state T :=
  {| nr_X := snd st; nr_Theta := snd (fst st); nr_Ups := fst (fst st) |}.

Lemma norelift_fold_model : forall (w : nat) (X0 U : raw), length X0 = w -> w <= length U -> length (LS X0) = 1 ->
  let n_steps_i := (Z.of_nat (length U) - Z.of_nat w + 1)%Z in
  to_nr (fold_left (fun st k =>
      let '(Upsilon_i, Theta_i, X_i) := st in
      let Upsilon_i := assign_row (k - 1)%Z Upsilon_i
        (LI (hstack_list [slice_rows (Some (k - 1)%Z) (Some (k + Z.of_nat w - 1)%Z) X_i;
                          slice_rows (Some (k - 1)%Z) (Some (k + Z.of_nat w - 1)%Z) U])) in
      let '(Theta_i, X_i) :=
        if (k <? n_steps_i)%Z then
          let Theta_i := assign_row k Theta_i (affine_model (pick_row (k - 1)%Z Theta_i) (pick_row (k - 1)%Z Upsilon_i)) in
          let X_ik := RS (pick_row k Theta_i) in
          let X_i := assign_row (k + Z.of_nat w - 1)%Z X_i (row_last X_ik) in
          (Theta_i, X_i)
        else (Theta_i, X_i) in
      (Upsilon_i, Theta_i, X_i))
    (zrange2 1%Z (n_steps_i + 1)%Z)
    (zeros_mat t0 n_steps_i (Z.of_nat (snd (f_out f))),
     assign_row 0%Z (zeros_mat t0 n_steps_i (Z.of_nat (fst (f_out f)))) (LS X0),
     assign_rows_upto (Z.of_nat w) (zeros_mat t0 (Z.of_nat (length U)) (Z.of_nat ns)) X0))
  = norelift_loop O f coef w U X0.
Proof.
  intros w X0 U H0 HU HL n_steps_i. unfold norelift_loop. cbn zeta.
  set (m := length U - w + 1).
  assert (Hm : n_steps_i = Z.of_nat m) by (unfold n_steps_i, m; lia).
  clearbody n_steps_i. subst n_steps_i. replace (zrange2 1 (Z.of_nat m + 1)) with (zrange2 (Z.of_nat 1) (Z.of_nat (m + 1))) by (f_equal; lia).
  rewrite zrange2_nat, fold_left_map. replace (m + 1 - 1) with m by lia.
  unfold zeros_mat. rewrite !Nat2Z.id, init_rows by exact H0.
  change 0%Z with (Z.of_nat 0). rewrite assign_row_nat.
  set (R := fun (a : raw * raw * raw) (b : nr_state T) =>
              b = to_nr a /\ length (snd (fst a)) = m /\ length (fst (fst a)) = m).
  match goal with |- to_nr (fold_left ?F ?l ?a) = fold_left ?G ?l ?b =>
    assert (HR : R (fold_left F l a) (fold_left G l b)) end.
  2: { destruct HR as [HR _]. now rewrite HR. }
  apply (@fold_left_sim _ _ _ R).
  - unfold R, to_nr. cbn [fst snd]. rewrite set_row_length, !repeat_length. split; [|split; reflexivity].
    f_equal. destruct (LS X0) as [|v [|v' L]]; cbn [length] in HL; try discriminate.
    unfold m. replace (length U - w + 1) with (S (length U - w)) by lia.
    replace (S (length U - w) - 1) with (length U - w) by lia. reflexivity.
  - intros k [[Ups Theta] X] b Hk [-> [HT HUp]]. cbn [fst snd] in HT, HUp. apply in_seq in Hk.
    unfold R, to_nr. cbn [nr_X nr_Theta nr_Ups fst snd].
    rewrite !slice_window_fwd by lia.
    replace (Z.of_nat k - 1)%Z with (Z.of_nat (k - 1)) by lia.
    replace (Z.of_nat k + Z.of_nat w - 1)%Z with (Z.of_nat (k + w - 1)) by lia. rewrite !assign_row_nat.
    replace (Z.of_nat k <? Z.of_nat m)%Z with (k <? m).
    2: { destruct (Nat.ltb_spec k m); symmetry; [apply Z.ltb_lt|apply Z.ltb_ge]; lia. }
    change (hstack_list [window w (k - 1) X; window w (k - 1) U]) with (hstack (window w (k - 1) X) (window w (k - 1) U)).
    set (ups := last (LI (hstack (window w (k - 1) X) (window w (k - 1) U))) []).
    change (last_row (LI (hstack (window w (k - 1) X) (window w (k - 1) U)))) with ups.
    destruct (Nat.ltb_spec k m) as [Hlt|Hge].
    + rewrite (@pick_row_nat T (k - 1) Theta) by lia.
      rewrite (@pick_row_nat T (k - 1) (set_row (k - 1) ups Ups)) by (rewrite set_row_length; lia).
      rewrite nth_set_row by lia. unfold affine_model. cbn [map2].
      cbn [last].
      rewrite pick_row_nat by (rewrite set_row_length; lia). rewrite nth_set_row by lia.
      rewrite last_row_last. cbn [fst snd]. rewrite !set_row_length. repeat split; assumption.
    + cbn [fst snd]. rewrite set_row_length. repeat split; assumption.
Qed.

(* ------------------------------------------------------------------ the whole function *)
Theorem gen_predict_trajectory_model :
  forall (w : nat) (relift ret_lifted ret_input : bool) (call : option bool) (X0_or_X : raw) (U : option raw),
  let c := eff f call in
  let eps := gen_split_state_input_episodes T ns w c (of_raw O c X0_or_X) (option_map (of_raw O c) U) in
  (* the checks _split_state_input_episodes makes on every episode pass *)
  forallb (fun e => gen_episode_checks T w (fst (snd e)) (snd (snd e))) eps = true ->
  (* relift_state=False writes lift_state(X0_i) into the one row Theta_i[[0], :] *)
  (relift = false -> forall e, In e eps -> length (LS (fst (snd e))) = 1) ->
  to_raw O c (gen_predict_trajectory T t0 LS LI RS affine_model ns (fst (f_out f)) (snd (f_out f)) w
                relift ret_lifted ret_input (f_ep f) call (of_raw O c X0_or_X) (option_map (of_raw O c) U))
  = predict_trajectory O f coef w relift ret_lifted ret_input call X0_or_X U.
Proof.
  intros w relift rl ri call X0_or_X U c eps Hchk Hone.
  unfold gen_predict_trajectory, predict_trajectory. cbn zeta.
  change (match call with Some b => b | None => f_ep f end) with c.
  fold eps. rewrite gen_combine_episodes_model. cbn [app].
  apply f_equal. apply f_equal.
  assert (Heps : eps = match U with
      | None => map (fun e => (fst e, (map (firstn ns) (firstn w (snd e)), map (skipn ns) (snd e)))) (split c (of_raw O c X0_or_X))
      | Some Ur => map (fun xu => (fst (fst xu), (snd (fst xu), snd (snd xu))))
                       (zip (split c (of_raw O c X0_or_X)) (split c (of_raw O c Ur)))
      end).
  { unfold eps. rewrite gen_split_state_input_model. destruct U; reflexivity. }
  match goal with |- map ?F eps = map ?G ?E => replace E with eps by exact Heps end.
  apply map_ext_in. intros [i [X0 Ui]] He. cbn [fst snd].
  rewrite forallb_forall in Hchk. pose proof (Hchk _ He) as Hc. cbn [fst snd] in Hc.
  apply gen_episode_checks_spec in Hc. destruct Hc as [H0 HU].
  f_equal. unfold predict_ep. destruct relift.
  - rewrite relift_fold_model by assumption. change (hstack_list [?a; ?b]) with (hstack a b).
    destruct rl, ri; reflexivity.
  - pose proof (@norelift_fold_model w X0 Ui H0 HU (Hone eq_refl _ He)) as HN. cbn zeta in HN.
    match type of HN with to_nr ?e = _ => destruct e as [[Ups Theta] X] eqn:E end.
    rewrite <- HN. unfold to_nr. cbn [nr_X nr_Theta nr_Ups fst snd].
    change (hstack_list [?a; ?b]) with (hstack a b).
    destruct rl, ri; reflexivity.
Qed.

(* with the window of the pipeline itself (min_samples_, which is what the source passes) the one-row premise holds *)
Lemma lift_state_one_row : forall (X0 : raw), length X0 = min_samples (f_stage f) -> length (LS X0) = 1.
Proof.
  intros X0 H. unfold lift_state. cbn [eff]. rewrite map_length.
  set (Rpad := map (fun r => r ++ repeat t0 (snd (f_dims f))) X0).
  assert (HL : length Rpad = length X0) by apply map_length.
  rewrite (@lift_false_length T O f Rpad) by (rewrite HL; lia).
  pose proof (samples_in_ge (f_stage f) 1) as Hge. unfold min_samples in *. lia.
Qed.

Theorem gen_predict_trajectory_model_min_samples :
  forall (relift ret_lifted ret_input : bool) (call : option bool) (X0_or_X : raw) (U : option raw),
  let w := min_samples (f_stage f) in
  let c := eff f call in
  let eps := gen_split_state_input_episodes T ns w c (of_raw O c X0_or_X) (option_map (of_raw O c) U) in
  forallb (fun e => gen_episode_checks T w (fst (snd e)) (snd (snd e))) eps = true ->
  to_raw O c (gen_predict_trajectory T t0 LS LI RS affine_model ns (fst (f_out f)) (snd (f_out f)) w
                relift ret_lifted ret_input (f_ep f) call (of_raw O c X0_or_X) (option_map (of_raw O c) U))
  = predict_trajectory O f coef w relift ret_lifted ret_input call X0_or_X U.
Proof.
  intros relift rl ri call X0_or_X U w c eps Hchk.
  apply gen_predict_trajectory_model; [exact Hchk|].
  intros _ e He. apply lift_state_one_row.
  rewrite forallb_forall in Hchk. pose proof (Hchk _ He) as Hc. apply gen_episode_checks_spec in Hc. exact (proj1 Hc).
Qed.

End Bridge.
