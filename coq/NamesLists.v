(* List toolkit for NamesFacts.v (C19): pointwise (nth) characterisations of the
   slicing / stacking primitives of PyList.v and commutation of [map] with the
   list combinators used by the name transformers.  Proofs only; no model
   definition is touched. *)
From Coq Require Import List ZArith Bool Arith Lia.
From PK Require Import PyList ListFacts.
Import ListNotations.
Open Scope list_scope.

Set Implicit Arguments.

(* ------------------------------------------------------------ nth *)
Lemma nth_map_lt {A B} (f : A -> B) (l : list A) t d d' :
  t < length l -> nth t (map f l) d' = f (nth t l d).
Proof.
  intros H. rewrite (nth_indep _ d' (f d)) by (rewrite map_length; exact H). apply map_nth.
Qed.

Lemma nth_firstn_lt' {A} (l : list A) n k d : k < n -> nth k (firstn n l) d = nth k l d.
Proof.
  revert l k. induction n as [|n IH]; intros l k H; [lia|].
  destruct l as [|a l]; [destruct k; reflexivity|]. destruct k as [|k]; [reflexivity|].
  cbn [firstn nth]. apply IH. lia.
Qed.

Lemma nth_last_rows {A} (n t : nat) (l : list A) d :
  n <> 0 -> nth t (last_rows n l) d = nth (length l - n + t) l d.
Proof.
  intros Hn. unfold last_rows. destruct (Nat.eqb_spec n 0) as [|_]; [contradiction|].
  apply nth_skipn.
Qed.

Lemma nth_pyslice {A} (lo hi : nat) (l : list A) t d :
  lo <= hi -> hi <= length l -> t < hi - lo ->
  nth t (pyslice (Z.of_nat lo) (Z.of_nat hi) l) d = nth (lo + t) l d.
Proof.
  intros H1 H2 H3. unfold pyslice, norm_idx.
  destruct (Z.ltb_spec (Z.of_nat lo) 0); [lia|]. destruct (Z.ltb_spec (Z.of_nat hi) 0); [lia|].
  rewrite !Z.min_l by lia. rewrite !Nat2Z.id.
  rewrite nth_firstn_lt' by exact H3. apply nth_skipn.
Qed.

Lemma nth_map2_app {A} (M1 M2 : list (list A)) t :
  t < length M1 -> t < length M2 ->
  nth t (map2 (@app A) M1 M2) [] = nth t M1 [] ++ nth t M2 [].
Proof.
  revert M2 t. induction M1 as [|a M1 IH]; intros [|b M2] t H1 H2; cbn [length] in *; try lia.
  destruct t as [|t]; cbn [map2 nth]; [reflexivity|]. apply IH; lia.
Qed.

Lemma nth_hstack {A} (M1 M2 : list (list A)) t :
  t < length M1 -> t < length M2 ->
  nth t (hstack M1 M2) [] = nth t M1 [] ++ nth t M2 [].
Proof. apply nth_map2_app. Qed.

(* ------------------------------------------------------------ map commutes *)
Lemma map_flat_map {A B C} (f : B -> C) (g : A -> list B) (l : list A) :
  map f (flat_map g l) = flat_map (fun x => map f (g x)) l.
Proof.
  induction l as [|a l IH]; cbn [flat_map map]; [reflexivity|]. rewrite map_app, IH. reflexivity.
Qed.

Lemma flat_map_ext_in {A B} (f g : A -> list B) (l : list A) :
  (forall a, In a l -> f a = g a) -> flat_map f l = flat_map g l.
Proof.
  induction l as [|a l IH]; intros H; cbn [flat_map]; [reflexivity|].
  rewrite (H a) by (left; reflexivity). rewrite IH by (intros x Hx; apply H; right; exact Hx).
  reflexivity.
Qed.

Lemma flat_map_map {A B C} (f : A -> B) (g : B -> list C) (l : list A) :
  flat_map g (map f l) = flat_map (fun x => g (f x)) l.
Proof. induction l as [|a l IH]; cbn [flat_map map]; [reflexivity|]. rewrite IH. reflexivity. Qed.

Lemma map_mapi_from {A B C} (f : B -> C) (g : nat -> A -> B) k (l : list A) :
  map f (mapi_from g k l) = mapi_from (fun i a => f (g i a)) k l.
Proof. revert k. induction l as [|a l IH]; intros k; cbn [mapi_from map]; [reflexivity|]. rewrite IH. reflexivity. Qed.

Lemma mapi_from_map {A B C} (f : A -> B) (g : nat -> B -> C) k (l : list A) :
  mapi_from g k (map f l) = mapi_from (fun i a => g i (f a)) k l.
Proof. revert k. induction l as [|a l IH]; intros k; cbn [mapi_from map]; [reflexivity|]. rewrite IH. reflexivity. Qed.

Lemma mapi_from_as_map {A B} (g : A -> B) k (l : list A) :
  mapi_from (fun _ a => g a) k l = map g l.
Proof. revert k. induction l as [|a l IH]; intros k; cbn [mapi_from map]; [reflexivity|]. rewrite IH. reflexivity. Qed.

(* ------------------------------------------------------------ seq *)
Lemma rev_seq_S n : rev (seq 0 (S n)) = map (fun dl => n - dl) (seq 0 (S n)).
Proof.
  induction n as [|n IH]; [reflexivity|].
  rewrite seq_S at 1. rewrite rev_app_distr. cbn [rev app Nat.add].
  rewrite IH. change (seq 0 (S (S n))) with (0 :: seq 1 (S n)). cbn [map]. rewrite Nat.sub_0_r.
  f_equal. rewrite <- seq_shift, map_map. reflexivity.
Qed.

Lemma firstn_exact_all {A} (l : list A) n : length l = n -> firstn n l = l.
Proof. intros <-. apply firstn_all. Qed.

Lemma firstn_skipn_exact {A} (l : list A) a b : length l = a + b -> firstn b (skipn a l) = skipn a l.
Proof. intros H. apply firstn_all2. rewrite skipn_length. lia. Qed.
