(* Bridge for Tsvd.fit (C14): the rank selection and the slicing of the three factors as REGENERATED from the source by
   tools/gen_tsvd.py (Gen/TsvdGen.v) are `rank_rule` / `truncate` of the model (TsvdModel.v), for every list of singular
   values over any ordered type, every method and parameter. *)
From Coq Require Import List Bool Arith Lia.
From PK Require Import PyList TsvdModel.
From PK.Gen Require Import TsvdGen.
Import ListNotations.

Section BridgeTsvd.
Variable Sv : Type.
Variable ltb : Sv -> Sv -> bool.

(* the method string and its parameter as the truncation of the model *)
Definition truncation_of (method : gen_method) (rank_param : nat) (cutoff_param : Sv) (oracle : nat) : truncation Sv :=
  match method with
  | M_economy => Economy Sv
  | M_unknown_noise => Oracle Sv oracle
  | M_known_noise => Oracle Sv oracle
  | M_cutoff => Cutoff cutoff_param
  | M_rank => Rank Sv rank_param
  end.

Theorem gen_tsvd_rank_model : forall method rank_param cutoff_param oracle (sig : list Sv),
  gen_tsvd_rank Sv ltb method rank_param cutoff_param oracle sig
  = rank_rule ltb (truncation_of method rank_param cutoff_param oracle) sig.
Proof.
  intros [] rank_param cutoff_param oracle sig; cbn [gen_tsvd_rank truncation_of rank_rule]; try reflexivity.
  unfold cutoff_rank, list_max. destruct (find_all _ sig) as [|i rest]; reflexivity.
Qed.

Theorem gen_tsvd_factors_model : forall (A B : Type) method rank_param cutoff_param oracle
    (Qcols : list A) (sig : list Sv) (Zcols : list B),
  let tr := truncation_of method rank_param cutoff_param oracle in
  gen_tsvd_factors Sv ltb A B method rank_param cutoff_param oracle Qcols sig Zcols
  = (truncate ltb tr sig Qcols, retained ltb tr sig, truncate ltb tr sig Zcols).
Proof.
  intros. unfold gen_tsvd_factors, truncate, retained, truncate. cbn zeta. now rewrite gen_tsvd_rank_model.
Qed.

End BridgeTsvd.
