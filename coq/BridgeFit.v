(* Bridge for the fit-time bookkeeping (C04, C05): the dimensions that KoopmanPipeline.fit_transformers and SplitPipeline.fit
   hand to their stages and declare for themselves, as REGENERATED from the source by tools/gen_fit.py (Gen/FitGen.v), are
   `cdims` / the `Split` case of `sdims` of the model (Stage.v) for every chain, every dims and either episode flag; the
   regressor of KoopmanPipeline.fit is fitted with n_inputs = the lifted inputs of the model.
   A stage fitted on data of `width` columns of which `n_inputs` are inputs declares the dims of the model; that its
   transform then returns n_features_out_ columns is property C04 (checked on every generated case). *)
From Coq Require Import List Arith Bool Lia.
From PK Require Import PyList Stage.
From PK.Gen Require Import FitGen.
Import ListNotations.

Section BridgeFit.
Variable T : Type.
Notation stage := (stage T).
Notation chain := (chain T).

Definition b2n (b : bool) : nat := if b then 1 else 0.

(* what a fitted stage declares *)
Definition stage_fit (s : stage) : gen_stage_fit :=
  fun width n_inputs ep =>
    let d := sdims s (width - n_inputs - b2n ep, n_inputs) in
    (fst d + snd d + b2n ep, fst d, snd d).

Fixpoint chain_fit (c : chain) : list gen_stage_fit :=
  match c with
  | CNil _ => []
  | CCons s c' => stage_fit s :: chain_fit c'
  end.

Lemma cdims_cons : forall (s : stage) (c : chain) d, cdims (CCons s c) d = cdims c (sdims s d).
Proof. reflexivity. Qed.
Lemma cdims_nil : forall d, cdims (CNil T) d = d.
Proof. reflexivity. Qed.

Definition pipe_step (ep : bool) (acc : nat * nat * option (nat * nat * nat)) (lf : gen_stage_fit) :=
  let X_out_width := fst (fst acc) in let n_inputs_out := snd (fst acc) in
  let d := lf X_out_width n_inputs_out ep in
  (fst (fst d), snd d, Some d).

Lemma pipe_step_stage : forall (s : stage) ep ns nu last,
  pipe_step ep (ns + nu + b2n ep, nu, last) (stage_fit s)
  = (fst (sdims s (ns, nu)) + snd (sdims s (ns, nu)) + b2n ep, snd (sdims s (ns, nu)),
     Some (fst (sdims s (ns, nu)) + snd (sdims s (ns, nu)) + b2n ep, fst (sdims s (ns, nu)), snd (sdims s (ns, nu)))).
Proof.
  intros. unfold pipe_step, stage_fit. cbn [fst snd].
  replace (ns + nu + b2n ep - nu - b2n ep) with ns by lia. reflexivity.
Qed.

Lemma pipeline_loop : forall (c : chain) (ep : bool) ns nu (last : option (nat * nat * nat)),
  fold_left (pipe_step ep) (chain_fit c) (ns + nu + b2n ep, nu, last)
  = (fst (cdims c (ns, nu)) + snd (cdims c (ns, nu)) + b2n ep, snd (cdims c (ns, nu)),
     match c with
     | CNil _ => last
     | _ => Some (fst (cdims c (ns, nu)) + snd (cdims c (ns, nu)) + b2n ep, fst (cdims c (ns, nu)), snd (cdims c (ns, nu)))
     end).
Proof.
  induction c as [|s c IH]; intros ep ns nu last.
  - rewrite cdims_nil. reflexivity.
  - rewrite cdims_cons. change (chain_fit (CCons s c)) with (stage_fit s :: chain_fit c).
    cbn [fold_left]. rewrite pipe_step_stage.
    destruct (sdims s (ns, nu)) as [ns' nu']. cbn [fst snd]. rewrite IH.
    destruct c as [|s2 c2]; [rewrite cdims_nil; reflexivity | reflexivity].
Qed.

Theorem gen_pipeline_fit_dims_model : forall (c : chain) (ep : bool) ns nu,
  gen_pipeline_fit_dims (chain_fit c) (ns + nu + b2n ep) nu ep
  = let d := cdims c (ns, nu) in
    ((ns + nu + b2n ep, ns, nu), (fst d + snd d + b2n ep, fst d, snd d)).
Proof.
  intros c ep ns nu. unfold gen_pipeline_fit_dims. cbn zeta.
  change (if ep then 1 else 0) with (b2n ep).
  replace (ns + nu + b2n ep - nu - b2n ep) with ns by lia.
  change (fold_left _ (chain_fit c) ?a) with (fold_left (pipe_step ep) (chain_fit c) a).
  rewrite pipeline_loop. cbn [snd]. destruct c as [|s c]; [rewrite cdims_nil; reflexivity | reflexivity].
Qed.

Theorem gen_pipeline_fit_regressor_args_model : forall (A : Type) (transform : A -> A) (c : chain) (ep : bool) ns nu (X : A),
  gen_pipeline_fit_regressor_args A transform (chain_fit c) (ns + nu + b2n ep) nu ep X
  = (transform X, snd (cdims c (ns, nu)), ep).
Proof.
  intros. unfold gen_pipeline_fit_regressor_args. cbn zeta. now rewrite gen_pipeline_fit_dims_model.
Qed.

(* ---------------- SplitPipeline.fit.  The state branch is fitted with n_inputs = 0 and the input branch with every column
   an input; the source only checks the LAST stage of each branch for a stray lifted input / state.  The model threads the
   declared dims; the two agree when no stage of the state branch declares lifted inputs and no stage of the input branch
   declares lifted states (true of every lifting function fitted that way; PolynomialLiftingFn's depend on its fitted
   powers_, hence the hypothesis) *)
Fixpoint no_inputs_chain (c : chain) (n : nat) : Prop :=
  match c with
  | CNil _ => True
  | CCons s c' => snd (sdims s (n, 0)) = 0 /\ no_inputs_chain c' (fst (sdims s (n, 0)))
  end.
Fixpoint no_states_chain (c : chain) (n : nat) : Prop :=
  match c with
  | CNil _ => True
  | CCons s c' => fst (sdims s (0, n)) = 0 /\ no_states_chain c' (snd (sdims s (0, n)))
  end.

Definition state_step (ep : bool) (acc : nat * option (nat * nat * nat)) (lf : gen_stage_fit) :=
  let d := lf (fst acc) 0 ep in (fst (fst d), Some d).
Definition input_step (ep : bool) (acc : nat * option (nat * nat * nat)) (lf : gen_stage_fit) :=
  let d := lf (fst acc) (fst acc - b2n ep) ep in (fst (fst d), Some d).

Lemma state_loop : forall (c : chain) (ep : bool) n w last, w - 0 - b2n ep = n -> no_inputs_chain c n ->
  exists w', fold_left (state_step ep) (chain_fit c) (w, last)
             = (w', match c with CNil _ => last | _ => Some (w', fst (cdims c (n, 0)), 0) end)
             /\ w' - 0 - b2n ep = fst (cdims c (n, 0)) /\ snd (cdims c (n, 0)) = 0.
Proof.
  induction c as [|s c IH]; intros ep n w last Hw Hc.
  - exists w. rewrite cdims_nil. cbn [chain_fit fold_left fst snd]. split; [reflexivity|split; [exact Hw|reflexivity]].
  - destruct Hc as [H0 Hc]. rewrite cdims_cons. change (chain_fit (CCons s c)) with (stage_fit s :: chain_fit c).
    cbn [fold_left]. unfold state_step at 2. cbn [fst snd]. unfold stage_fit at 1 2. cbn zeta. cbn [fst snd].
    rewrite Hw. destruct (sdims s (n, 0)) as [ns' nu'] eqn:E. cbn [fst snd] in *. subst nu'.
    destruct (IH ep ns' (ns' + 0 + b2n ep) (Some (ns' + 0 + b2n ep, ns', 0)) ltac:(lia) Hc) as [w' [Hf [Hw' Hz]]].
    exists w'. rewrite Hf. split; [|split; assumption].
    f_equal. destruct c as [|s2 c2]; [|reflexivity].
    rewrite cdims_nil in *. cbn [chain_fit fold_left] in Hf. cbn [fst snd].
    assert (Hw1 : ns' + 0 + b2n ep = w') by (now injection Hf). now rewrite <- Hw1.
Qed.

Lemma input_loop : forall (c : chain) (ep : bool) n w last, w - b2n ep = n -> b2n ep <= w -> no_states_chain c n ->
  exists w', fold_left (input_step ep) (chain_fit c) (w, last)
             = (w', match c with CNil _ => last | _ => Some (w', 0, snd (cdims c (0, n))) end)
             /\ w' - b2n ep = snd (cdims c (0, n)) /\ b2n ep <= w' /\ fst (cdims c (0, n)) = 0.
Proof.
  induction c as [|s c IH]; intros ep n w last Hw Hle Hc.
  - exists w. rewrite cdims_nil. cbn [chain_fit fold_left fst snd]. split; [reflexivity|split; [exact Hw|split; [exact Hle|reflexivity]]].
  - destruct Hc as [H0 Hc]. rewrite cdims_cons. change (chain_fit (CCons s c)) with (stage_fit s :: chain_fit c).
    cbn [fold_left]. unfold input_step at 2. cbn [fst snd]. unfold stage_fit at 1 2. cbn zeta. cbn [fst snd].
    replace (w - (w - b2n ep) - b2n ep) with 0 by lia. rewrite Hw.
    destruct (sdims s (0, n)) as [ns' nu'] eqn:E. cbn [fst snd] in *. subst ns'.
    destruct (IH ep nu' (0 + nu' + b2n ep) (Some (0 + nu' + b2n ep, 0, nu')) ltac:(lia) ltac:(lia) Hc) as [w' [Hf [Hw' [Hle' Hz]]]].
    exists w'. rewrite Hf. split; [|split; [assumption|split; assumption]].
    f_equal. destruct c as [|s2 c2]; [|reflexivity].
    rewrite cdims_nil in *. cbn [chain_fit fold_left] in Hf. cbn [fst snd].
    assert (Hw1 : 0 + nu' + b2n ep = w') by (now injection Hf). now rewrite <- Hw1.
Qed.

Theorem gen_split_fit_dims_model : forall (xs us : chain) (ep : bool) ns nu,
  no_inputs_chain xs ns -> no_states_chain us nu ->
  gen_split_fit_dims (chain_fit xs) (chain_fit us) (ns + nu + b2n ep) nu ep
  = let d := sdims (Split xs us) (ns, nu) in
    ((ns + nu + b2n ep, ns, nu), (fst d + snd d + b2n ep, fst d, snd d)).
Proof.
  intros xs us ep ns nu Hx Hu. unfold gen_split_fit_dims. cbn zeta.
  change (if ep then 1 else 0) with (b2n ep).
  replace (ns + nu + b2n ep - nu - b2n ep) with ns by lia.
  replace (ns + nu + b2n ep - b2n ep - ns) with nu by lia.
  change (fold_left _ (chain_fit xs) ?a) with (fold_left (state_step ep) (chain_fit xs) a).
  change (fold_left _ (chain_fit us) ?a) with (fold_left (input_step ep) (chain_fit us) a).
  destruct (@state_loop xs ep ns (b2n ep + ns) None ltac:(lia) Hx) as [w1 [H1 [_ Z1]]].
  destruct (@input_loop us ep nu (b2n ep + nu) None ltac:(lia) ltac:(lia) Hu) as [w2 [H2 [_ [_ Z2]]]].
  rewrite H1, H2. cbn [snd fst].
  change (sdims (Split xs us) (ns, nu)) with (fst (cdims xs (ns, 0)), snd (cdims us (0, nu))). cbn [fst snd].
  destruct xs as [|sx xs']; destruct us as [|su us']; rewrite ?cdims_nil; cbn [fst snd]; reflexivity.
Qed.

End BridgeFit.
