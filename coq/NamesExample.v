(* C19 — non-vacuity of NamesFacts.names_denote at T := Z (ZInst.v), and
   necessity of its algebraic premise. *)
From Coq Require Import List ZArith NArith Bool Arith Lia.
From Coq Require String.
From PK Require Import PyList ListFacts Episodes Stage StageSpec Names ZInst NamesFacts.
Import ListNotations.
Open Scope nat_scope.
Open Scope list_scope.

(* the premise of names_denote holds for the Z instance *)
Lemma zops_mul1l : forall x : Z, op_mul zops (op_t1 zops) x = x.
Proof. intros x. cbn. destruct x; reflexivity. Qed.

(* a pipeline with a split (polynomial then delay on the state branch, delay on
   the input branch), then a constant, then a delay of the whole lifted state *)
Definition ex_powers : list (list nat) := [[1;0]; [0;1]; [2;0]; [1;1]].
Definition ex_stage : zstage :=
  Pipe (CCons (Split (CCons (Leaf (LPoly Z ex_powers)) (CCons (Leaf (LDelay Z 1 0)) (CNil Z)))
                     (CCons (Leaf (LDelay Z 0 2)) (CNil Z)))
       (CCons (Leaf (LConst Z))
       (CCons (Leaf (LDelay Z 1 1)) (CNil Z)))).
Definition ex_dims : dims := (2, 1).
Definition ex_E : list (list Z) :=
  [[2; 3; 5]; [7; 11; 13]; [17; 19; 23]; [29; 31; 37]; [41; 43; 47]; [53; 59; 61]; [67; 71; 73]]%Z.
Definition ex_cm : String.string -> nat := fun _ => 0.
Definition ex_ins : list (nm Z) := map (@NCol Z) (seq 0 3).
Definition ex_names : list (nm Z) := snames ex_stage ex_dims ex_ins.
Definition ex_out : list (list Z) := tf_ep zops ex_stage ex_dims ex_E.
Definition ex_off : nat := samples_in ex_stage 1 - 1.

(* MAIN's equation, cell by cell, over every output sample and every column *)
Definition ex_check : bool :=
  forallb (fun t =>
    forallb (fun j =>
      Z.eqb (Names.ev zops zskn ex_E ex_cm (nth j ex_names (NOne Z)) (t + ex_off))
            (nth j (nth t ex_out []) (op_t0 zops)))
      (seq 0 (length ex_names)))
    (seq 0 (length ex_out)).

Example names_denote_example :
  (wf ex_stage ex_dims, samples_in ex_stage 1, length ex_E, length ex_out, length ex_names,
   sdims ex_stage ex_dims, ex_check)
  = (true, 4, 7, 4, 24, (18, 6), true).
Proof. vm_compute. reflexivity. Qed.

(* the names of the 24 lifted columns, rendered with the code's own formatting *)
Section Render.
Import String.
Open Scope string_scope.
Example names_denote_example_render :
  map (render zskn false) ex_names
  = ["col0"; "col1"; "col0^2"; "col0*col1"; "D1(col0)"; "D1(col1)";
     "D1(col0^2)"; "D1(col0*col1)"; "1"; "D1(col0)"; "D1(col1)"; "D1(col0^2)";
     "D1(col0*col1)"; "D1(D1(col0))"; "D1(D1(col1))"; "D1(D1(col0^2))";
     "D1(D1(col0*col1))"; "D1(1)"; "col2"; "D1(col2)"; "D2(col2)"; "D1(col2)";
     "D1(D1(col2))"; "D1(D2(col2))"].
Proof. vm_compute. reflexivity. Qed.
End Render.

(* the same instance through the theorem (the theorem applies: all premises hold) *)
Example names_denote_example_thm :
  forall t j, t < length ex_out -> j < length ex_names ->
    Names.ev zops zskn ex_E ex_cm (nth j ex_names (NOne Z)) (t + ex_off)
    = nth j (nth t ex_out []) (op_t0 zops).
Proof.
  assert (Hwf : wf ex_stage (2, 1) = true) by (vm_compute; reflexivity).
  assert (Hw : wid (2 + 1) ex_E).
  { intros r Hr. cbn in Hr. repeat (destruct Hr as [<-|Hr]; [reflexivity|]). contradiction. }
  assert (HL : samples_in ex_stage 1 <= length ex_E) by (vm_compute; lia).
  destruct (@names_denote Z zops zskn ex_E ex_cm zops_mul1l ex_stage 2 1 Hwf Hw HL) as [H _].
  exact H.
Qed.

(* ---------- the premise [op_mul t1 x = x] cannot be dropped: with a product for
   which t1 is not a left unit the polynomial name (which skips the zero
   exponents) and the data path (which multiplies by x^0 = t1) disagree *)
Definition badops : ops Z := {|
  op_t0 := 0%Z; op_t1 := 1%Z; op_add := Z.add; op_mul := Z.add;
  op_cos := zcos; op_sin := zsin; op_atan2 := zatan2;
  op_sk_fwd := zsk_fwd; op_sk_inv := zsk_inv;
  op_radial := zradial; op_kern := zkern; op_unwrap := zunwrap;
  op_inj := zinj; op_lab := zlab |}.

Example mul1l_needed :
  let s := Leaf (LPoly Z [[1;0]; [0;1]]) in
  let E := [[5; 7]]%Z in
  let ins := map (@NCol Z) (seq 0 2) in
  (wf s (2, 0), samples_in s 1,
   Names.ev badops zskn E ex_cm (nth 0 (snames s (2, 0) ins) (NOne Z)) 0,
   nth 0 (nth 0 (tf_ep badops s (2, 0) E) []) 0%Z)
  = (true, 1, 7%Z, 8%Z).
Proof. vm_compute. reflexivity. Qed.
