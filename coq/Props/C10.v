(* C10 — H-infinity regularised fits report a valid bound on the true gain.
   Machine-checked part (closed by [exact]; AlgR/Dissip.v, AlgR/Lyapunov.v): the time-domain
   bounded-real inequality — a storage function with V(x+) - V(x) <= gamma^2 |u|^2 - |y|^2 at
   every step gives sum |y|^2 <= gamma^2 sum |u|^2 + V(x0) for EVERY input sequence and
   horizon — and stability from the Lyapunov part; and (AlgR/BoundedReal.v) the code's own 4x4
   block, read as a quadratic form (C10_alg), yields that one-step inequality for the DUAL system
   x+ = A^T x + C^T w, z = B^T x + D^T w without inverting P, hence its l2 gain is at most gamma_.
   NOT machine-checked (named in DESIGN.md): the two frequency-domain facts that the H-infinity
   norm of a system equals that of its dual and equals the l2-induced gain (Parseval).  The run
   checks the reported gamma_ against an independent frequency-grid evaluation of the norm. *)
From Coq Require Import Reals List.
From PK.AlgR Require Import Dissip Lyapunov BoundedReal.
Local Open Scope R_scope.

Theorem C10_l2_gain : forall (X W : Type) (step : X -> W -> X) (Vf : X -> R) (s : X -> W -> R)
  (gamma : R) (nu : W -> R) (ny : X -> R),
  (forall x, 0 <= Vf x) -> (forall x u, s x u = gamma ^ 2 * nu u - ny x) ->
  (forall x u, Vf (step x u) - Vf x <= s x u) ->
  forall (us : list W) (x0 : X),
  traj_sum X W step (fun x _ => ny x) us x0 <= gamma ^ 2 * traj_sum X W step (fun _ u => nu u) us x0 + Vf x0.
Proof. exact l2_gain_sum. Qed.
Print Assumptions C10_l2_gain.

Theorem C10_dissipation_general : forall (X W : Type) (step : X -> W -> X) (Vf : X -> R) (s : X -> W -> R),
  (forall x u, Vf (step x u) - Vf x <= s x u) ->
  forall (us : list W) (x0 : X), Vf (fold_left step us x0) - Vf x0 <= traj_sum X W step s us x0.
Proof. exact dissipation_sum. Qed.
Print Assumptions C10_dissipation_general.

(* asymptotic stability certificate (rho = 1 in the Lyapunov lemma, strict form) *)
Theorem C10_stability : forall (V : Type) (vscale : R -> V -> V) (Q : V -> V -> R) (A : V -> V),
  (forall u v, Q u v = Q v u) -> (forall c u v, Q (vscale c u) v = c * Q u v) ->
  (forall v w, 0 <= 1 * Q v v + 2 * Q w (A v) + 1 * Q w w) ->
  forall v lam, 0 < Q v v -> A v = vscale lam v -> Rabs lam <= 1.
Proof. intros V vscale Q A Hs Hc H. exact (lyap_real_eig V vscale Q A Hs Hc 1 Rlt_0_1 H). Qed.
Print Assumptions C10_stability.

(* the code's block LMI (as a quadratic form) => one-step dissipation of the dual system, no inverse of P *)
Theorem C10_block_one_step : forall (X W Z : Type) (xadd : X -> X -> X) (xscale : R -> X -> X)
  (zadd : Z -> Z -> Z) (zscale : R -> Z -> Z) (Q : X -> X -> R) (ipZ : Z -> Z -> R) (ipW : W -> W -> R)
  (At : X -> X) (Ct : W -> X) (Bt : X -> Z) (Dt : W -> Z),
  (forall u v, Q u v = Q v u) -> (forall u v w, Q (xadd u v) w = Q u w + Q v w) ->
  (forall c u v, Q (xscale c u) v = c * Q u v) ->
  (forall u v, ipZ u v = ipZ v u) -> (forall u v w, ipZ (zadd u v) w = ipZ u w + ipZ v w) ->
  (forall c u v, ipZ (zscale c u) v = c * ipZ u v) ->
  forall g, 0 < g ->
  (forall a b c d, 0 <= hinf_form X W Z Q ipZ ipW At Ct Bt Dt g a b c d) ->
  forall x w,
  Q (dual_step X W xadd At Ct x w) (dual_step X W xadd At Ct x w) - Q x x
  <= g * ipW w w - / g * ipZ (dual_out X W Z zadd Bt Dt x w) (dual_out X W Z zadd Bt Dt x w).
Proof. exact hinf_block_one_step. Qed.
Print Assumptions C10_block_one_step.

(* ... hence, for every input sequence and horizon, the l2 gain of the dual system is at most g *)
Theorem C10_block_l2_gain : forall (X W Z : Type) (xadd : X -> X -> X) (xscale : R -> X -> X)
  (zadd : Z -> Z -> Z) (zscale : R -> Z -> Z) (Q : X -> X -> R) (ipZ : Z -> Z -> R) (ipW : W -> W -> R)
  (At : X -> X) (Ct : W -> X) (Bt : X -> Z) (Dt : W -> Z),
  (forall u v, Q u v = Q v u) -> (forall u v w, Q (xadd u v) w = Q u w + Q v w) ->
  (forall c u v, Q (xscale c u) v = c * Q u v) ->
  (forall u v, ipZ u v = ipZ v u) -> (forall u v w, ipZ (zadd u v) w = ipZ u w + ipZ v w) ->
  (forall c u v, ipZ (zscale c u) v = c * ipZ u v) ->
  forall g, 0 < g -> (forall x, 0 <= Q x x) ->
  (forall a b c d, 0 <= hinf_form X W Z Q ipZ ipW At Ct Bt Dt g a b c d) ->
  forall (ws : list W) (x0 : X),
  traj_sum X W (dual_step X W xadd At Ct)
    (fun x w => ipZ (dual_out X W Z zadd Bt Dt x w) (dual_out X W Z zadd Bt Dt x w)) ws x0
  <= g ^ 2 * traj_sum X W (dual_step X W xadd At Ct) (fun _ w => ipW w w) ws x0 + g * Q x0 x0.
Proof. exact hinf_block_l2_gain. Qed.
Print Assumptions C10_block_l2_gain.

(* ---------- the alternation loop (Altern.v): for every solver oracle, stop-flag history and
   max_iter, at every exit the returned pair satisfies what the solver certified ---------- *)
From Coq Require Import List.
From PK Require Import Altern AlternFacts.
Import ListNotations.

Theorem C10_loop_invariant : forall (XA XB O : Type) (solveA : nat -> XB -> resA XA O) (solveB : nat -> XA -> resB XB)
  (stop : nat -> bool) (close : O -> O -> bool) (Inv : XA -> XB -> Prop),
  (forall k p x obj, solveA k p = OptA x obj -> Inv x p) ->
  (forall k x p, solveB k x = OptB p -> Inv x p) ->
  forall max_iter x0 p0,
  let r := fit solveA solveB stop close max_iter x0 p0 in
  (o_x r = x0 /\ o_p r = p0 /\ o_log r = []) \/ Inv (o_x r) (o_p r).
Proof. exact fit_invariant. Qed.
Print Assumptions C10_loop_invariant.

Theorem C10_log_nonincreasing : forall (XA XB O : Type) (solveA : nat -> XB -> resA XA O) (solveB : nat -> XA -> resB XB)
  (stop : nat -> bool) (close : O -> O -> bool) (Inv : XA -> XB -> Prop),
  (forall k x p, solveB k x = OptB p -> Inv x p) ->
  forall (J : XA -> O) (le : O -> O -> Prop),
  (forall k p x obj, solveA k p = OptA x obj -> obj = J x /\ forall y, Inv y p -> le (J x) (J y)) ->
  forall max_iter x0 p0,
  nonincreasing O le (o_log (fit solveA solveB stop close max_iter x0 p0)).
Proof. exact fit_log_nonincreasing. Qed.
Print Assumptions C10_log_nonincreasing.

Theorem C10_n_iter : forall (XA XB O : Type) (solveA : nat -> XB -> resA XA O) (solveB : nat -> XA -> resB XB)
  (stop : nat -> bool) (close : O -> O -> bool) max_iter x0 p0, (0 < max_iter)%nat ->
  (1 <= o_niter (fit solveA solveB stop close max_iter x0 p0) <= max_iter)%nat /\
  (o_reason (fit solveA solveB stop close max_iter x0 p0) = RMaxIter ->
   o_niter (fit solveA solveB stop close max_iter x0 p0) = max_iter).
Proof. exact fit_niter. Qed.
Print Assumptions C10_n_iter.
