(* C20 — Skipping validation never changes results; config is per-thread.
   Only statements, closed by [exact]; proofs live in ConfigFacts.v; the tie to the
   source is BridgeC20.v over the regenerated Gen/Config.v and Gen/Guards.v. *)
From Coq Require Import List Bool Arith.
From PK Require Import ConfigModel ConfigFacts BridgeC20.
From PK.Gen Require Import Config Guards.
Import ListNotations.

(* a change made in one thread is never observed by another: for ALL interleavings of
   any number of threads running any operations, each thread observes what it would
   observe running alone *)
Theorem C20_isolation : forall (t : nat) (ops : list (nat * op)),
  obs_of t (observe cfg_flags ops) = obs_of t (observe cfg_flags (only t ops)).
Proof. rewrite config_source_has_good_shape. exact isolation. Qed.
Print Assumptions C20_isolation.

(* config_context restores the previous setting on exit: any nesting, any set_config
   inside, exit by return or by exception *)
Theorem C20_restore : forall (t : nat) (v : option bool) (body : list op) (exc : bool) (s : st) (b : bool),
  balanced body -> loc s t = Some b ->
  vw (fst (run cfg_flags s (tag t (OEnter v :: body ++ [if exc then OExitExc else OExit])))) t = (Some b, stk s t).
Proof. rewrite config_source_has_good_shape. exact restore_after_block. Qed.
Print Assumptions C20_restore.

(* the dict returned by get_config is a copy: mutating it changes nothing *)
Theorem C20_no_alias : forall (s : st) (t : nat) (v : bool), step cfg_flags s (t, OMutRet v) = (s, None).
Proof. rewrite config_source_has_good_shape. exact mutating_returned_dict_is_harmless. Qed.
Print Assumptions C20_no_alias.

(* every use of the flag in the package is a validation-only guard (generated facts),
   and a validation-only guard never changes a result on an input that validates,
   provided check_array is the identity on it (oracle contract for float64 2-D arrays) *)
Theorem C20_skip_equiv : all_guards_ok = true /\
  forall (I R : Type) (validate : I -> bool) (coerce : I -> I) (body : I -> R),
  (forall x, validate x = true -> coerce x = x) ->
  forall x, validate x = true ->
  guarded I R validate coerce body true x = guarded I R validate coerce body false x.
Proof. split; [exact every_guard_is_validation_only|exact guarded_equiv]. Qed.
Print Assumptions C20_skip_equiv.

Example C20_example :
  balanced [OSet (Some true); OEnter None; OGet; OExitExc; OGet]
  /\ observe cfg_flags [(0, OGet); (0, OEnter (Some true)); (1, OGet); (0, OEnter (Some false)); (0, OSet (Some true));
                        (0, OExitExc); (0, OGet); (0, OExit); (0, OGet); (1, OGet)]
     = [(0, false); (1, false); (0, true); (0, false); (1, false)]
  /\ 0 < n_guard_sites.
Proof.
  split; [|split; [vm_compute; reflexivity|vm_compute; repeat constructor]].
  apply bal_set. apply (bal_block None [OGet] [OGet] true); apply bal_get; apply bal_nil.
Qed.
