(* C11 (algebraic companion, mathcomp): the 3x3 block that the dissipativity builders hand to the
   solver (LmiBlocks.dissip_block, compared with the code on every run) on a stacked vector
   [x; u; z] is the form dissip_form of AlgR/Dissip.v, from which C11_one_step derives
   V(Ax + Bu) - V(x) <= s(u, y) by instantiating z := -(Ax + Bu). *)
From mathcomp Require Import all_ssreflect all_algebra.
From PK.Alg Require Import LmiQuad.
Set Implicit Arguments.
Unset Strict Implicit.
Import GRing.Theory.
Local Open Scope ring_scope.

Theorem C11_block_is_quadratic_form (R : comRingType) n m (P A : 'M[R]_n) (B : 'M[R]_(n, m)) (C : 'M[R]_n)
  (Xi11 : 'M[R]_n) (Xi12 : 'M[R]_(n, m)) (Xi22 : 'M[R]_m) (x z : 'cV[R]_n) (u : 'cV[R]_m) :
  (col_mx (col_mx x u) z)^T *m dissip_block_mx P A B C Xi11 Xi12 Xi22 *m col_mx (col_mx x u) z
  = x^T *m P *m x - (C *m x)^T *m Xi11 *m (C *m x) - u^T *m Xi12^T *m (C *m x)
    + (- ((C *m x)^T *m Xi12 *m u) - u^T *m Xi22 *m u)
    + (z^T *m P *m (A *m x) + z^T *m P *m (B *m u))
    + ((A *m x)^T *m P *m z + (B *m u)^T *m P *m z + z^T *m P *m z).
Proof. exact: dissip_block_quad. Qed.
Print Assumptions C11_block_is_quadratic_form.

(* ---------- about the code itself: the blocks that LmiEdmdDissipativityConstr hands to the solver in both sub-problems, as
   REGENERATED from the source on this run (tools/gen_lmi_dis.py -> Gen/LmiDisGen.v; A, B, C come from _create_ss(U, None), also
   checked; the supply rate is the constructor argument or, for None, diag(1, -1); its blocks are the upper-left,
   upper-right and lower-right ones; the constraint is `>> picos_eps`, problem B also constrains P >> picos_eps), ARE the
   block above with A, B the blocks of the Koopman matrix and C = 1 *)
From PK Require Import BridgeLmiDis.
From PK.Gen Require Import LmiDisGen.

Theorem C11_generated_blocks (F : fieldType) p q (P : 'M[F]_p) (U : 'M[F]_(p, p + q)) (supply_rate : option 'M[F]_(p + q)) :
  let Xi := gen_supply_rate supply_rate in
  let blk := dissip_block_mx P (lsubmx U) (rsubmx U) 1%:M (ulsubmx Xi) (ursubmx Xi) (drsubmx Xi) in
  gen_dis_a P U supply_rate = blk /\ gen_dis_b P U supply_rate = blk.
Proof. split; [exact: gen_dis_a_model|exact: gen_dis_b_model]. Qed.
Print Assumptions C11_generated_blocks.

Theorem C11_generated_default_supply_rate (F : fieldType) p q :
  let Xi := gen_supply_rate (None : option 'M[F]_(p + q)) in
  ulsubmx Xi = 1%:M /\ ursubmx Xi = 0 /\ drsubmx Xi = - 1%:M.
Proof. exact: gen_default_supply_rate_blocks. Qed.
Print Assumptions C11_generated_default_supply_rate.

Theorem C11_generated_quadratic_form (F : fieldType) p q (P : 'M[F]_p) (U : 'M[F]_(p, p + q)) (Xi : 'M[F]_(p + q))
    (x z : 'cV[F]_p) (u : 'cV[F]_q) :
  let A := lsubmx U in let B := rsubmx U in
  (col_mx (col_mx x u) z)^T *m gen_dis_b P U (Some Xi) *m col_mx (col_mx x u) z
  = x^T *m P *m x - x^T *m ulsubmx Xi *m x - u^T *m (ursubmx Xi)^T *m x
    + (- (x^T *m ursubmx Xi *m u) - u^T *m drsubmx Xi *m u)
    + (z^T *m P *m (A *m x) + z^T *m P *m (B *m u))
    + ((A *m x)^T *m P *m z + (B *m u)^T *m P *m z + z^T *m P *m z).
Proof.
  move=> A B. rewrite gen_dis_b_model /dissip_model dissip_block_quad !mul1mx. by [].
Qed.
Print Assumptions C11_generated_quadratic_form.
