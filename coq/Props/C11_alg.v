(* C11 (algebraic companion, mathcomp): the 3x3 block that the dissipativity builders hand to the
   solver (LmiBlocks.dissip_block, compared with the code on every run) on a stacked vector
   [x; u; z] is the form dissip_form of AlgR/Dissip.v, from which C11_one_step derives
   V(Ax + Bu) - V(x) <= s(u, y) by instantiating z := -(Ax + Bu). *)
From mathcomp Require Import all_ssreflect all_algebra.
From PK.Alg Require Import LmiQuad.
Set Implicit Arguments.
Unset Strict Implicit.
Import GRing.Theory.
Local Open Scope ring_scope.

Theorem C11_block_is_quadratic_form (R : comRingType) n m (P A : 'M[R]_n) (B : 'M[R]_(n, m)) (C : 'M[R]_n)
  (Xi11 : 'M[R]_n) (Xi12 : 'M[R]_(n, m)) (Xi22 : 'M[R]_m) (x z : 'cV[R]_n) (u : 'cV[R]_m) :
  (col_mx (col_mx x u) z)^T *m dissip_block_mx P A B C Xi11 Xi12 Xi22 *m col_mx (col_mx x u) z
  = x^T *m P *m x - (C *m x)^T *m Xi11 *m (C *m x) - u^T *m Xi12^T *m (C *m x)
    + (- ((C *m x)^T *m Xi12 *m u) - u^T *m Xi22 *m u)
    + (z^T *m P *m (A *m x) + z^T *m P *m (B *m u))
    + ((A *m x)^T *m P *m z + (B *m u)^T *m P *m z + z^T *m P *m z).
Proof. exact: dissip_block_quad. Qed.
Print Assumptions C11_block_is_quadratic_form.
