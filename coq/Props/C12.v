(* C12 — LMI regressors minimise the regularised cost they document.
   Machine-checked part (mathcomp, any real field, all sizes; closed by [exact], proofs in
   Alg/Schur.v and Alg/Edmd.v): the Schur-complement block used by every inv_method
   (H = L L^T with L = H^(1/2), V sqrt(Lambda), L sqrt(D), Cholesky, Q Sigma, ...) encodes
   Z >= U H U^T, so minimising c - 2 tr(U G^T) + tr Z is minimising the EDMD cost; with
   pure Tikhonov regularisation the optimum is the one certified by the normal equations
   (the same certificate Edmd satisfies).  Optimality for the two-norm / nuclear-norm
   regularisers is checked per fit by an independent local search (testing). *)
From mathcomp Require Import all_ssreflect all_algebra.
From PK.Alg Require Import Schur Edmd.
Set Implicit Arguments.
Unset Strict Implicit.
Unset Printing Implicit Defensive.
Import GRing.Theory Num.Theory.
Local Open Scope ring_scope.

Theorem C12_schur (R : realFieldType) (r p : nat) (U : 'M[R]_(r,p)) (Lm : 'M[R]_p) (Zm : 'M[R]_r) :
  psd (block_mx Zm (U *m Lm) (U *m Lm)^T 1%:M) -> loewner_le (U *m (Lm *m Lm^T) *m U^T) Zm.
Proof. exact: schur_loewner. Qed.
Print Assumptions C12_schur.

Theorem C12_tikhonov_optimum (R : realFieldType) (p q r : nat) (Psi : 'M[R]_(p,q)) (Thp : 'M[R]_(r,q))
  (alpha : R) (U : 'M[R]_(r,p)) :
  normal_eq Psi Thp alpha U -> 0 <= alpha -> forall V, cost Psi Thp alpha U <= cost Psi Thp alpha V.
Proof. exact: C06_optimal. Qed.
Print Assumptions C12_tikhonov_optimum.
