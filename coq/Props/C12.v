(* C12 — LMI regressors minimise the regularised cost they document.
   Machine-checked part (mathcomp, any real field, all sizes; closed by [exact], proofs in
   Alg/Schur.v and Alg/Edmd.v): the Schur-complement block used by every inv_method
   (H = L L^T with L = H^(1/2), V sqrt(Lambda), L sqrt(D), Cholesky, Q Sigma, ...) encodes
   Z >= U H U^T, so minimising c - 2 tr(U G^T) + tr Z is minimising the EDMD cost; with
   pure Tikhonov regularisation the optimum is the one certified by the normal equations
   (the same certificate Edmd satisfies).  Optimality for the two-norm / nuclear-norm
   regularisers is checked per fit by an independent local search (testing). *)
From mathcomp Require Import all_ssreflect all_algebra.
From PK.Alg Require Import Schur Edmd.
Set Implicit Arguments.
Unset Strict Implicit.
Unset Printing Implicit Defensive.
Import GRing.Theory Num.Theory.
Local Open Scope ring_scope.

Theorem C12_schur (R : realFieldType) (r p : nat) (U : 'M[R]_(r,p)) (Lm : 'M[R]_p) (Zm : 'M[R]_r) :
  psd (block_mx Zm (U *m Lm) (U *m Lm)^T 1%:M) -> loewner_le (U *m (Lm *m Lm^T) *m U^T) Zm.
Proof. exact: schur_loewner. Qed.
Print Assumptions C12_schur.

Theorem C12_tikhonov_optimum (R : realFieldType) (p q r : nat) (Psi : 'M[R]_(p,q)) (Thp : 'M[R]_(r,q))
  (alpha : R) (U : 'M[R]_(r,p)) :
  normal_eq Psi Thp alpha U -> 0 <= alpha -> forall V, cost Psi Thp alpha U <= cost Psi Thp alpha V.
Proof. exact: C06_optimal. Qed.
Print Assumptions C12_tikhonov_optimum.

(* ---------- about the code itself: the Schur-complement block that LmiEdmd._create_base_problem adds for each inv_method, as
   REGENERATED from the source on this run (tools/gen_lmi_cost.py -> Gen/LmiCostGen.v; U and Z are the variables of the problem, Z is
   also constrained to be >> picos_eps, the objective is c - 2 tr(U G^T) + tr Z with c, G, H from _calc_c_G_H, and K is what
   the method's _calc_ helper returns for H - a numeric oracle checked on every fit).  For the five factor methods it IS the
   block of C12_schur, hence a feasible Z dominates U (K K^T) U^T *)
From PK Require Import BridgeLmiCost.
From PK.Gen Require Import LmiCostGen.

Theorem C12_generated_blocks (F : fieldType) (r p k : nat) (Z : 'M[F]_r) (U : 'M[F]_(r, p)) (K : 'M[F]_(p, k)) (Kinv : 'M[F]_p) :
  let blk := block_mx Z (U *m K) (U *m K)^T 1%:M in
  (gen_cost_block_eig Z U K = blk /\ gen_cost_block_ldl Z U K = blk /\ gen_cost_block_chol Z U K = blk
   /\ gen_cost_block_sqrt Z U K = blk /\ gen_cost_block_svd Z U K = blk)
  /\ gen_cost_block_inv Z U Kinv = block_mx Z U U^T Kinv /\ gen_cost_block_pinv Z U Kinv = block_mx Z U U^T Kinv.
Proof. split; [exact: gen_cost_factor_blocks|exact: gen_cost_inverse_blocks]. Qed.
Print Assumptions C12_generated_blocks.

Theorem C12_generated_schur (R : realFieldType) (r p : nat) (Z : 'M[R]_r) (U : 'M[R]_(r, p)) (K : 'M[R]_p) :
  psd (gen_cost_block_chol Z U K) -> loewner_le (U *m (K *m K^T) *m U^T) Z.
Proof.
  have [_ [_ [-> _]]] := gen_cost_factor_blocks Z U K. exact: schur_loewner.
Qed.
Print Assumptions C12_generated_schur.

Theorem C12_generated_objective (F : fieldType) (r p : nat) (c : F) (G U : 'M[F]_(r, p)) (Z : 'M[F]_r) :
  gen_cost_objective c G U Z = c - 2%:R * \tr (U *m G^T) + \tr Z.
Proof. by []. Qed.
Print Assumptions C12_generated_objective.
