(* C15 — Fit depends only on parameters and data, never on history.
   Only statements, closed by [exact]; proofs live in Lifecycle.v; the frame conditions are
   the facts regenerated from the source (Gen/Effects.v, BridgeC15.v) and cross-checked by
   history runs on every estimator class. *)
From Coq Require Import List Bool Arith.
From PK Require Import Lifecycle BridgeC15.
From PK.Gen Require Import Effects.
Import ListNotations.

(* under the frame conditions: after ANY history of fits on other data, uses and parameter
   changes, fit gives the fitted state of a fresh estimator with the current parameters;
   parameters and shared state are untouched *)
Theorem C15_history_independent : forall (P D F S R : Type)
  (fit_impl : P -> option F -> S -> D -> P * F * S) (use_impl : P -> option F -> S -> D -> R * option F * S)
  (fit_pure : P -> D -> F) (use_pure : P -> option F -> D -> R),
  (forall p f s d, fit_impl p f s d = (p, fit_pure p d, s)) ->
  (forall p f s d, use_impl p f s d = (use_pure p f d, f, s)) ->
  forall (e : est P F S) (h : list (call P D)) (d : D) (s0 : S),
  let e' := fst (step fit_impl use_impl (run fit_impl use_impl e h) (CFit P d)) in
  let fresh := fst (step fit_impl use_impl {| params := last_set (params e) h; fitted := None; shared := s0 |} (CFit P d)) in
  fitted e' = fitted fresh /\ params e' = params fresh /\ shared e' = shared e.
Proof. intros P D F S R fi ui fp up Hf Hu. exact (fit_history_independent fi ui fp up Hf Hu). Qed.
Print Assumptions C15_history_independent.

(* transform / predict / score / get_params leave the estimator untouched, so any
   interleaving of such calls from any number of threads returns the sequential answers *)
Theorem C15_threads : forall (P D F S R : Type)
  (fit_impl : P -> option F -> S -> D -> P * F * S) (use_impl : P -> option F -> S -> D -> R * option F * S)
  (use_pure : P -> option F -> D -> R),
  (forall p f s d, use_impl p f s d = (use_pure p f d, f, s)) ->
  forall (e : est P F S) (ds : list D),
  snd (fold_left (fun acc d => let '(e', rs) := acc in
                   (fst (step fit_impl use_impl e' (CUse P d)), rs ++ [snd (step fit_impl use_impl e' (CUse P d))]))
                 ds (e, []))
  = map (fun d => snd (step fit_impl use_impl e (CUse P d))) ds.
Proof. intros P D F S R fi ui up Hu. exact (concurrent_uses_sequential fi ui up Hu). Qed.
Print Assumptions C15_threads.

(* get_params / set_params round trip on a named parameter map: identity, names and order kept *)
Theorem C15_params_roundtrip : forall (V : Type) (m : pmap V),
  NoDup (map fst m) -> set_many m m = m.
Proof. exact set_get_roundtrip. Qed.
Print Assumptions C15_params_roundtrip.

Theorem C15_set_keeps_names : forall (V : Type) (k : nat) (v : V) (m : pmap V), map fst (set1 k v m) = map fst m.
Proof. exact set1_keys. Qed.
Print Assumptions C15_set_keeps_names.

(* the frame conditions hold for the source as it is now (regenerated facts) *)
Theorem C15_frames : frames_ok = true.
Proof. exact no_frame_violation. Qed.
Print Assumptions C15_frames.
