(* C09 — Spectral-radius-constrained fits respect the requested bound.
   Only statements, closed by [exact]; proofs live in AlgR/Lyapunov.v (Coq Reals; abstract
   vector space with a symmetric bilinear form Q = the matrix P and a map A).  The LMI
   [[rho P, A^T P], [P A, rho P]] >= 0 is read as the quadratic form
   rho Q(v,v) + 2 Q(w, A v) + rho Q(w,w) >= 0; the run evaluates it numerically at the
   (U, P_) the solver actually returned (solver = oracle). *)
From Coq Require Import Reals.
From PK.AlgR Require Import Lyapunov.
Local Open Scope R_scope.

(* the LMI makes A a contraction by rho in the P-norm *)
Theorem C09_contraction : forall (V : Type) (vscale : R -> V -> V) (Q : V -> V -> R) (A : V -> V),
  (forall u v, Q u v = Q v u) -> (forall c u v, Q (vscale c u) v = c * Q u v) ->
  forall rho, 0 < rho ->
  (forall v w, 0 <= rho * Q v v + 2 * Q w (A v) + rho * Q w w) ->
  forall v, Q (A v) (A v) <= rho ^ 2 * Q v v.
Proof. exact lyap_contraction. Qed.
Print Assumptions C09_contraction.

(* hence every real eigenvalue ... *)
Theorem C09_real_eigenvalue : forall (V : Type) (vscale : R -> V -> V) (Q : V -> V -> R) (A : V -> V),
  (forall u v, Q u v = Q v u) -> (forall c u v, Q (vscale c u) v = c * Q u v) ->
  forall rho, 0 < rho ->
  (forall v w, 0 <= rho * Q v v + 2 * Q w (A v) + rho * Q w w) ->
  forall v lam, 0 < Q v v -> A v = vscale lam v -> Rabs lam <= rho.
Proof. exact lyap_real_eig. Qed.
Print Assumptions C09_real_eigenvalue.

(* ... and every complex pair a +- ib lies in the disc of radius rho *)
Theorem C09_complex_eigenvalue : forall (V : Type) (vadd : V -> V -> V) (vscale : R -> V -> V)
  (Q : V -> V -> R) (A : V -> V),
  (forall u v, Q u v = Q v u) -> (forall u v w, Q (vadd u v) w = Q u w + Q v w) ->
  (forall c u v, Q (vscale c u) v = c * Q u v) ->
  forall rho, 0 < rho ->
  (forall v w, 0 <= rho * Q v v + 2 * Q w (A v) + rho * Q w w) ->
  forall x y a b, 0 < Q x x + Q y y ->
  A x = vadd (vscale a x) (vscale (- b) y) -> A y = vadd (vscale b x) (vscale a y) ->
  a ^ 2 + b ^ 2 <= rho ^ 2.
Proof. exact lyap_complex_eig. Qed.
Print Assumptions C09_complex_eigenvalue.

(* "up to solver tolerance": with slack eps on the LMI the bound degrades explicitly *)
Theorem C09_slack : forall (V : Type) (vscale : R -> V -> V) (Q : V -> V -> R) (A : V -> V),
  (forall u v, Q u v = Q v u) -> (forall c u v, Q (vscale c u) v = c * Q u v) ->
  forall rho eps, 0 < rho ->
  (forall v w, - eps <= rho * Q v v + 2 * Q w (A v) + rho * Q w w) ->
  forall v, Q (A v) (A v) <= rho ^ 2 * Q v v + rho * eps.
Proof. exact lyap_contraction_slack_abs. Qed.
Print Assumptions C09_slack.

(* ---------- the alternation loop (Altern.v): for every solver oracle, stop-flag history and
   max_iter, at every exit the returned pair satisfies what the solver certified ---------- *)
From Coq Require Import List.
From PK Require Import Altern AlternFacts.
Import ListNotations.

Theorem C09_loop_invariant : forall (XA XB O : Type) (solveA : nat -> XB -> resA XA O) (solveB : nat -> XA -> resB XB)
  (stop : nat -> bool) (close : O -> O -> bool) (Inv : XA -> XB -> Prop),
  (forall k p x obj, solveA k p = OptA x obj -> Inv x p) ->
  (forall k x p, solveB k x = OptB p -> Inv x p) ->
  forall max_iter x0 p0,
  let r := fit solveA solveB stop close max_iter x0 p0 in
  (o_x r = x0 /\ o_p r = p0 /\ o_log r = []) \/ Inv (o_x r) (o_p r).
Proof. exact fit_invariant. Qed.
Print Assumptions C09_loop_invariant.

Theorem C09_log_nonincreasing : forall (XA XB O : Type) (solveA : nat -> XB -> resA XA O) (solveB : nat -> XA -> resB XB)
  (stop : nat -> bool) (close : O -> O -> bool) (Inv : XA -> XB -> Prop),
  (forall k x p, solveB k x = OptB p -> Inv x p) ->
  forall (J : XA -> O) (le : O -> O -> Prop),
  (forall k p x obj, solveA k p = OptA x obj -> obj = J x /\ forall y, Inv y p -> le (J x) (J y)) ->
  forall max_iter x0 p0,
  nonincreasing O le (o_log (fit solveA solveB stop close max_iter x0 p0)).
Proof. exact fit_log_nonincreasing. Qed.
Print Assumptions C09_log_nonincreasing.

Theorem C09_n_iter : forall (XA XB O : Type) (solveA : nat -> XB -> resA XA O) (solveB : nat -> XA -> resB XB)
  (stop : nat -> bool) (close : O -> O -> bool) max_iter x0 p0, (0 < max_iter)%nat ->
  (1 <= o_niter (fit solveA solveB stop close max_iter x0 p0) <= max_iter)%nat /\
  (o_reason (fit solveA solveB stop close max_iter x0 p0) = RMaxIter ->
   o_niter (fit solveA solveB stop close max_iter x0 p0) = max_iter).
Proof. exact fit_niter. Qed.
Print Assumptions C09_n_iter.
