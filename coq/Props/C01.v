(* C01 — round trip.  Only statements, closed by [exact]/[apply]; the proofs live in
   RoundtripList.v / RoundtripDelay.v / RoundtripLeaf.v / Roundtrip.v / RoundtripModel.v,
   the specification (itf_ep, lag, no_unwrap, no_preproc, balanced, angles_ok) in
   RoundtripSpec.v.

   Hypotheses on the abstract cell operations, explicit premises of every theorem:
     H_atan  : atan2 (sin x) (cos x) = x   for every x in the abstract range [inrange]
     H_sk    : the wrapped scikit-learn transformer's inverse undoes its transform, cell-wise
     H_mul1l / H_mul1r : 1 is a two-sided unit of the multiplication (x ** 1 = x, x ** 0 = 1)
   Hypotheses on the pipeline: wf (PolynomialFeatures.powers_ well-formed, split branches
   pure), no AnglePreprocessor with unwrap_inverse=True, declared input width, every angle
   feature in range where its pre-processor sits, the episode at least min_samples long. *)
From Coq Require Import List ZArith NArith Bool Arith Lia.
From PK Require Import PyList ListFacts Episodes EpisodesFacts Stage StageEqns StageSpec StageFacts
  EpisodeSem NonInterf ZInst RoundtripSpec RoundtripList RoundtripDelay RoundtripLeaf Roundtrip RoundtripModel.
Import ListNotations.
Close Scope Z_scope.
Open Scope nat_scope.

(* ---------- key lemmas on the delay lifting function *)
Theorem C01_undelay_delay : forall (T : Type) (w n : nat) (M : list (list T)),
  wid w M -> n + 1 <= length M -> undelay n (delay n M) = M.
Proof. intros T w n M. exact (@undelay_delay T w n M). Qed.
Print Assumptions C01_undelay_delay.

Theorem C01_undelay_ep_delay_ep : forall (T : Type) (d : dims) (dx du : nat) (E : list (list T)),
  wid (fst d + snd d) E -> Nat.max dx du + 1 <= length E ->
  undelay_ep d dx du (delay_ep d dx du E) = skipn (Nat.max dx du - Nat.min dx du) E.
Proof. intros T d dx du E. exact (@undelay_ep_delay_ep T d dx du E). Qed.
Print Assumptions C01_undelay_ep_delay_ep.

(* transform commutes with dropping leading samples *)
Theorem C01_tf_ep_skipn : forall (T : Type) (O : ops T) (s : stage T) (d : dims) (k : nat) (E : list (list T)),
  samples_in s 1 + k <= length E -> tf_ep O s d (skipn k E) = skipn k (tf_ep O s d E).
Proof. intros T O s. exact (tf_ep_skipn O s). Qed.
Print Assumptions C01_tf_ep_skipn.

(* ---------- MAIN, on the per-episode specifications, for EVERY stage tree *)
Theorem C01_roundtrip_spec :
  forall (T : Type) (O : ops T) (inrange : T -> Prop),
  (forall x, inrange x -> op_atan2 O (op_sin O x) (op_cos O x) = x) ->
  (forall id c x, op_sk_inv O id c (op_sk_fwd O id c x) = x) ->
  (forall x, op_mul O (op_t1 O) x = x) ->
  (forall x, op_mul O x (op_t1 O) = x) ->
  forall (s : stage T) (d : dims) (E : list (list T)),
  wf s d = true -> no_unwrap s = true -> wid (fst d + snd d) E ->
  angles_ok O inrange s d E -> samples_in s 1 <= length E ->
  itf_ep O s d (tf_ep O s d E) = skipn (lag s) E.
Proof. intros T O inrange Ha Hs Hl Hr s. exact (@roundtrip_spec T O inrange Ha Hs Hl Hr s). Qed.
Print Assumptions C01_roundtrip_spec.

Theorem C01_roundtrip_spec_chain :
  forall (T : Type) (O : ops T) (inrange : T -> Prop),
  (forall x, inrange x -> op_atan2 O (op_sin O x) (op_cos O x) = x) ->
  (forall id c x, op_sk_inv O id c (op_sk_fwd O id c x) = x) ->
  (forall x, op_mul O (op_t1 O) x = x) ->
  (forall x, op_mul O x (op_t1 O) = x) ->
  forall (c : chain T) (d : dims) (E : list (list T)),
  cwf c d = true -> cno_unwrap c = true -> wid (fst d + snd d) E ->
  cangles_ok O inrange c d E -> csamples_in c 1 <= length E ->
  citf_ep O c d (ctf_ep O c d E) = skipn (clag c) E.
Proof. intros T O inrange Ha Hs Hl Hr c. exact (@roundtrip_spec_chain T O inrange Ha Hs Hl Hr c). Qed.
Print Assumptions C01_roundtrip_spec_chain.

(* the lag is strictly below min_samples: at least one sample always comes back *)
Theorem C01_lag_lt_min_samples : forall (T : Type) (s : stage T), lag s + 1 <= min_samples s.
Proof. intros T s. exact (lag_lt_samples s). Qed.
Print Assumptions C01_lag_lt_min_samples.

(* nothing is lost when every delay has dx = du and the branches of every split need the
   same number of samples *)
Theorem C01_lag_balanced : forall (T : Type) (s : stage T), balanced s = true -> lag s = 0.
Proof. intros T s. exact (lag_balanced s). Qed.
Print Assumptions C01_lag_balanced.

(* ---------- ALSO: the leading lifted-state columns are the original state *)
Theorem C01_state_prefix_spec :
  forall (T : Type) (O : ops T),
  (forall x, op_mul O (op_t1 O) x = x) ->
  (forall x, op_mul O x (op_t1 O) = x) ->
  forall (s : stage T) (d : dims) (E : list (list T)),
  wf s d = true -> no_preproc s = true -> wid (fst d + snd d) E -> samples_in s 1 <= length E ->
  map (firstn (fst d)) (tf_ep O s d E) = map (firstn (fst d)) (skipn (samples_in s 1 - 1) E).
Proof. intros T O Hl Hr s. exact (@state_prefix_spec T O Hl Hr s). Qed.
Print Assumptions C01_state_prefix_spec.

(* ---------- the model's inverse per episode is the specification *)
Theorem C01_inverse_false : forall (T : Type) (O : ops T) (s : stage T) (d : dims) (X : dmat T),
  no_unwrap s = true -> rows (inverse O s false d X) = itf_ep O s d (rows X).
Proof. intros T O s. exact (inverse_false O s). Qed.
Print Assumptions C01_inverse_false.

Theorem C01_inverse_true : forall (T : Type) (O : ops T) (s : stage T) (d : dims) (X : dmat T),
  no_unwrap s = true -> forall i, rows_of i (inverse O s true d X) = itf_ep O s d (rows_of i X).
Proof. intros T O s. exact (inverse_true O s). Qed.
Print Assumptions C01_inverse_true.

(* ---------- MAIN lifted to the model's transform / inverse *)
Theorem C01_roundtrip_false :
  forall (T : Type) (O : ops T) (inrange : T -> Prop),
  (forall x, inrange x -> op_atan2 O (op_sin O x) (op_cos O x) = x) ->
  (forall id c x, op_sk_inv O id c (op_sk_fwd O id c x) = x) ->
  (forall x, op_mul O (op_t1 O) x = x) ->
  (forall x, op_mul O x (op_t1 O) = x) ->
  forall (s : stage T) (d : dims) (X : dmat T),
  wf s d = true -> no_unwrap s = true -> dwid (fst d + snd d) X ->
  angles_ok O inrange s d (rows X) -> min_samples s <= length X ->
  rows (inverse O s false d (transform O s false d X)) = skipn (lag s) (rows X).
Proof. intros T O inrange Ha Hs Hl Hr s d X. exact (@roundtrip_false T O inrange Ha Hs Hl Hr s d X). Qed.
Print Assumptions C01_roundtrip_false.

Theorem C01_roundtrip_true :
  forall (T : Type) (O : ops T) (inrange : T -> Prop),
  (forall x, inrange x -> op_atan2 O (op_sin O x) (op_cos O x) = x) ->
  (forall id c x, op_sk_inv O id c (op_sk_fwd O id c x) = x) ->
  (forall x, op_mul O (op_t1 O) x = x) ->
  (forall x, op_mul O x (op_t1 O) = x) ->
  forall (s : stage T) (d : dims) (X : dmat T),
  wf s d = true -> no_unwrap s = true -> dwid (fst d + snd d) X ->
  (forall i, In i (labels X) -> angles_ok O inrange s d (rows_of i X)) ->
  valid (min_samples s) X ->
  forall i, rows_of i (inverse O s true d (transform O s true d X)) = skipn (lag s) (rows_of i X).
Proof. intros T O inrange Ha Hs Hl Hr s d X. exact (@roundtrip_true T O inrange Ha Hs Hl Hr s d X). Qed.
Print Assumptions C01_roundtrip_true.

Theorem C01_roundtrip_labels : forall (T : Type) (O : ops T) (s : stage T) (d : dims) (X : dmat T),
  no_unwrap s = true -> valid (min_samples s) X ->
  forall i, In i (labels (inverse O s true d (transform O s true d X))) <-> In i (labels X).
Proof. intros T O s d X. exact (@roundtrip_labels T O s d X). Qed.
Print Assumptions C01_roundtrip_labels.

Theorem C01_state_prefix_true :
  forall (T : Type) (O : ops T),
  (forall x, op_mul O (op_t1 O) x = x) ->
  (forall x, op_mul O x (op_t1 O) = x) ->
  forall (s : stage T) (d : dims) (X : dmat T),
  wf s d = true -> no_preproc s = true -> dwid (fst d + snd d) X -> valid (min_samples s) X ->
  forall i, In i (labels X) ->
  map (firstn (fst d)) (rows_of i (transform O s true d X))
  = map (firstn (fst d)) (skipn (min_samples s - 1) (rows_of i X)).
Proof. intros T O Hl Hr s d X. exact (@state_prefix_true T O Hl Hr s d X). Qed.
Print Assumptions C01_state_prefix_true.

Theorem C01_state_prefix_false :
  forall (T : Type) (O : ops T),
  (forall x, op_mul O (op_t1 O) x = x) ->
  (forall x, op_mul O x (op_t1 O) = x) ->
  forall (s : stage T) (d : dims) (X : dmat T),
  wf s d = true -> no_preproc s = true -> dwid (fst d + snd d) X -> min_samples s <= length X ->
  map (firstn (fst d)) (rows (transform O s false d X))
  = map (firstn (fst d)) (skipn (min_samples s - 1) (rows X)).
Proof. intros T O Hl Hr s d X. exact (@state_prefix_false T O Hl Hr s d X). Qed.
Print Assumptions C01_state_prefix_false.

(* ---------- non-vacuity 1: the hypotheses on the cell operations are satisfiable.
   The integer stand-ins of ZInst.v satisfy all four, with EVERY integer in range. *)
Lemma zops_atan : forall x : Z, True -> op_atan2 zops (op_sin zops x) (op_cos zops x) = x.
Proof.
  intros x _. cbn [op_atan2 op_sin op_cos zops]. unfold zatan2, zcos.
  replace (2 * x + 1 - 1)%Z with (x * 2)%Z by lia. apply Z.div_mul. lia.
Qed.
Lemma zops_sk : forall id c (x : Z), op_sk_inv zops id c (op_sk_fwd zops id c x) = x.
Proof.
  intros id c x. cbn [op_sk_inv op_sk_fwd zops]. unfold zsk_inv, zsk_fwd, zsk_sign.
  destruct (Nat.even (id + c)); lia.
Qed.
Lemma zops_mul1l : forall x : Z, op_mul zops (op_t1 zops) x = x.
Proof. intros x. cbn [op_mul op_t1 zops]. lia. Qed.
Lemma zops_mul1r : forall x : Z, op_mul zops x (op_t1 zops) = x.
Proof. intros x. cbn [op_mul op_t1 zops]. lia. Qed.

Lemma angles_ok_trivial : forall (T : Type) (O : ops T) (s : stage T) d E, angles_ok O (fun _ => True) s d E.
Proof.
  intros T O. apply (stage_mut (fun s => forall d E, angles_ok O (fun _ => True) s d E)
                               (fun c => forall d E, cangles_ok O (fun _ => True) c d E)).
  - intros l d E. rewrite angles_ok_leaf. destruct l; cbn [leaf_angles_ok]; auto.
  - intros xs IHx us IHu d E. rewrite angles_ok_split. split; [apply IHx|apply IHu].
  - intros c IHc d E. rewrite angles_ok_pipe. apply IHc.
  - intros d E. exact I.
  - intros s IHs c IHc d E. rewrite cangles_ok_cons. split; [apply IHs|apply IHc].
Qed.

Theorem C01_roundtrip_Z : forall (s : zstage) (d : dims) (X : dmat Z),
  wf s d = true -> no_unwrap s = true -> dwid (fst d + snd d) X -> min_samples s <= length X ->
  rows (zinverse s false d (ztransform s false d X)) = skipn (lag s) (rows X).
Proof.
  intros s d X Hwf Hnu Hw Hl. unfold zinverse, ztransform.
  apply (@roundtrip_false Z zops (fun _ => True) zops_atan zops_sk zops_mul1l zops_mul1r); try assumption.
  apply angles_ok_trivial.
Qed.
Print Assumptions C01_roundtrip_Z.

(* ---------- non-vacuity 2: evaluated.  polynomial(2) (3 inputs, 7 monomials), then a delay
   with dx = 1 <> du = 2, then a SplitPipeline whose branches hold delays (2,5) and (3,1),
   then the integer scaler and the angle pre-processor (unwrap_inverse = False) on two
   columns.  min_samples = 8; the round trip loses the first lag = 5 samples. *)
Definition c01_powers : list (list nat) := [[0;1;0];[2;0;0];[1;0;0];[1;1;0];[0;0;1];[1;0;1];[0;0;2]].
Definition c01_stage : zstage :=
  Pipe (CCons (Leaf (LPoly Z c01_powers))
       (CCons (Leaf (LDelay Z 1 2))
       (CCons (Split (CCons (Leaf (LDelay Z 2 5)) (CNil Z)) (CCons (Leaf (LDelay Z 3 1)) (CNil Z)))
       (CCons (Leaf (LSk Z 4))
       (CCons (Leaf (LAngle Z [0; 3] false)) (CNil Z)))))).
Definition c01_X (lab : nat -> N) : dmat Z :=
  map (fun k => (lab k, [Z.of_nat (k + 1); (Z.of_nat k * Z.of_nat k - 7)%Z; (5 - 3 * Z.of_nat k)%Z])) (seq 0 12).
Definition c01_Xf : dmat Z := c01_X (fun _ => 0%N).

Example C01_example :
  wf c01_stage (2, 1) = true /\ no_unwrap c01_stage = true /\ min_samples c01_stage = 8
  /\ lag c01_stage = 5 /\ sdims c01_stage (2, 1) = (26, 18)
  /\ rows (zinverse c01_stage false (2, 1) (ztransform c01_stage false (2, 1) c01_Xf))
     = [[6;18;-10]; [7;29;-13]; [8;42;-16]; [9;57;-19]; [10;74;-22]; [11;93;-25]; [12;114;-28]]%Z
  /\ rows (zinverse c01_stage false (2, 1) (ztransform c01_stage false (2, 1) c01_Xf))
     = skipn (lag c01_stage) (rows c01_Xf)
  /\ itf_ep zops c01_stage (2, 1) (tf_ep zops c01_stage (2, 1) (rows c01_Xf))
     = skipn (lag c01_stage) (rows c01_Xf).
Proof. vm_compute. repeat split; reflexivity. Qed.

(* two interleaved episodes (labels 3 and 8, 12 samples each): each comes back on its own *)
Definition c01_Xt : dmat Z :=
  flat_map (fun k => [(3%N, [Z.of_nat (k + 1); (Z.of_nat k * Z.of_nat k - 7)%Z; (5 - 3 * Z.of_nat k)%Z]);
                      (8%N, [(2 - Z.of_nat k)%Z; Z.of_nat (3 * k); (Z.of_nat k * Z.of_nat k)%Z])]) (seq 0 12).
Example C01_example_episodes :
  rows_of 3%N (zinverse c01_stage true (2, 1) (ztransform c01_stage true (2, 1) c01_Xt))
  = skipn (lag c01_stage) (rows_of 3%N c01_Xt)
  /\ rows_of 8%N (zinverse c01_stage true (2, 1) (ztransform c01_stage true (2, 1) c01_Xt))
  = skipn (lag c01_stage) (rows_of 8%N c01_Xt)
  /\ length (rows_of 8%N (zinverse c01_stage true (2, 1) (ztransform c01_stage true (2, 1) c01_Xt))) = 7.
Proof. vm_compute. repeat split; reflexivity. Qed.

(* state prefix, evaluated (no pre-processors): delay(1,2), a split with one delay per
   branch, constant, bilinear *)
Definition c01_stage2 : zstage :=
  Pipe (CCons (Leaf (LDelay Z 1 2))
       (CCons (Split (CCons (Leaf (LDelay Z 1 1)) (CNil Z)) (CCons (Leaf (LDelay Z 0 1)) (CNil Z)))
       (CCons (Leaf (LConst Z))
       (CCons (Leaf (LBilinear Z)) (CNil Z))))).
Example C01_example_prefix :
  wf c01_stage2 (2, 1) = true /\ no_preproc c01_stage2 = true /\ min_samples c01_stage2 = 4
  /\ map (firstn 2) (rows (ztransform c01_stage2 false (2, 1) c01_Xf))
     = map (firstn 2) (skipn 3 (rows c01_Xf)).
Proof. vm_compute. repeat split; reflexivity. Qed.

(* the lag of a split is NOT zero merely because every delay has dx = du: the branch with
   the shorter history loses what the longer one needs (hence [balanced]) *)
Example C01_example_unbalanced :
  let s : zstage := Split (CCons (Leaf (LDelay Z 1 1)) (CNil Z)) (CNil Z) in
  lag s = 1 /\ rows (zinverse s false (2, 1) (ztransform s false (2, 1) c01_Xf)) = skipn 1 (rows c01_Xf).
Proof. vm_compute. split; reflexivity. Qed.
