(* C07 — trajectory prediction: the statements, consolidated.  Closed by the lemmas of
   PredictFacts.v (specifications in PredictSpec.v).  For every cell type and operations,
   every fitted estimator f (any stage tree, either fit-time episode flag), Koopman
   matrix coef, window length w, input sequence U and initial condition X0. *)
From Coq Require Import List ZArith NArith Bool Arith Lia.
From PK Require Import PyList ListFacts Episodes EpisodesFacts Stage StageFacts Helpers
                       PredictSpec PredictList PredictFacts.
Import ListNotations.
Close Scope Z_scope.
Open Scope nat_scope.

(* (a) relift_state = True.  The in-place loop equals the row-by-row specification; the
   result has one row per input sample, starts with the initial conditions verbatim, and
   every later row is the one-step prediction from the w previously PREDICTED states and
   the w TRUE inputs. *)
Theorem C07_relift : forall (T : Type) (O : ops T) (f : fitted T) (coef : list (list T))
    (w : nat) (U X0 : list (list T)),
  length X0 = w -> w <= length U ->
  let X := relift_loop O f coef w U X0 in
  X = relift_spec O f coef w U X0
  /\ length X = length U
  /\ firstn w X = X0
  /\ forall k, w <= k < length U ->
       nth k X [] = relift_next O f coef (window w (k - w) X) (window w (k - w) U).
Proof.
  intros T O f coef w U X0 H Hle. cbn zeta. repeat split.
  - apply relift_loop_spec; assumption.
  - apply relift_loop_length; assumption.
  - apply relift_loop_ic; assumption.
  - intros k Hk. apply relift_loop_step; assumption.
Qed.
Print Assumptions C07_relift.

(* (b) relift_state = False.  Unconditional part: array sizes, initial conditions, and
   every lifted input.  Part under the ADDED hypothesis that lift_state returns at least
   one row for X0 (false otherwise: PredictFacts.C07_counterexample_theta): equality
   with the specification, Theta size, Theta[0], the exact linear recurrence
   theta[k+1] = [theta[k], upsilon[k]] @ coef, and x[k+w] = retract(theta[k+1])[-1]. *)
Theorem C07_norelift_partial : forall (T : Type) (O : ops T) (f : fitted T) (coef : list (list T))
    (w : nat) (U X0 : list (list T)),
  length X0 = w -> w <= length U ->
  let st := norelift_loop O f coef w U X0 in
  let m := length U - w + 1 in
  length (nr_Ups st) = m
  /\ length (nr_X st) = length U
  /\ firstn w (nr_X st) = X0
  /\ (forall k, k < m ->
        nth k (nr_Ups st) [] =
        last_row (lift_input O f (Some false) (hstack (window w k (nr_X st)) (window w k U))))
  /\ (lift_state O f (Some false) X0 <> [] ->
        st = nr_spec O f coef w U X0
        /\ length (nr_Theta st) = m
        /\ nth 0 (nr_Theta st) [] = hd [] (lift_state O f (Some false) X0)
        /\ forall k, k + 1 < m ->
             nth (k + 1) (nr_Theta st) [] =
               kstep O f coef (nth k (nr_Theta st) []) (nth k (nr_Ups st) [])
             /\ nth (k + w) (nr_X st) [] =
                  last_row (retract_state O f (Some false) [nth (k + 1) (nr_Theta st) []])).
Proof.
  intros T O f coef w U X0 H Hle. cbn zeta.
  destruct (@norelift_loop_sizes T O f coef w U X0 H Hle) as [H1 [H2 H3]].
  split; [exact H2|]. split; [exact H1|]. split; [exact H3|]. split.
  - intros k Hk. apply norelift_loop_ups; assumption.
  - intros Hl. split; [apply norelift_loop_spec; assumption|].
    split; [apply norelift_loop_theta_length_partial; assumption|].
    split; [apply norelift_loop_theta0_partial; assumption|].
    intros k Hk. apply norelift_loop_step_partial; assumption.
Qed.
Print Assumptions C07_norelift_partial.

(* the added hypothesis follows from the natural one: the window is at least
   min_samples long (in pykoop w IS min_samples_) *)
Theorem C07_norelift_hyp : forall (T : Type) (O : ops T) (f : fitted T) (X0 : list (list T)),
  min_samples (f_stage f) <= length X0 -> lift_state O f (Some false) X0 <> [].
Proof. intros T O f X0. apply lift_state_nonempty. Qed.
Print Assumptions C07_norelift_hyp.

(* (c) what predict_ep returns in each mode; sizes; the input block is the input *)
Theorem C07_modes : forall (T : Type) (O : ops T) (f : fitted T) (coef : list (list T))
    (w : nat) (X0 U : list (list T)),
  let X := relift_loop O f coef w U X0 in
  let st := norelift_loop O f coef w U X0 in
  predict_ep O f coef w true false false X0 U = X
  /\ predict_ep O f coef w true false true X0 U = hstack X U
  /\ predict_ep O f coef w true true false X0 U = lift_state O f (Some false) X
  /\ predict_ep O f coef w true true true X0 U =
       hstack (lift_state O f (Some false) X) (lift_input O f (Some false) (hstack X U))
  /\ predict_ep O f coef w false false false X0 U = nr_X st
  /\ predict_ep O f coef w false false true X0 U = hstack (nr_X st) U
  /\ predict_ep O f coef w false true false X0 U = nr_Theta st
  /\ predict_ep O f coef w false true true X0 U = hstack (nr_Theta st) (nr_Ups st).
Proof. intros T O f coef w X0 U. apply predict_ep_modes. Qed.
Print Assumptions C07_modes.

Theorem C07_modes_shape : forall (T : Type) (O : ops T) (f : fitted T) (coef : list (list T))
    (w : nat) (relift : bool) (X0 U : list (list T)),
  length X0 = w -> w <= length U ->
  (* one row per input sample, with or without the input block *)
  (forall ret_input, length (predict_ep O f coef w relift false ret_input X0 U) = length U)
  (* row k = predicted state k ++ input k, the input unchanged *)
  /\ (forall k, k < length U ->
        nth k (predict_ep O f coef w relift false true X0 U) [] =
        nth k (predict_ep O f coef w relift false false X0 U) [] ++ nth k U [])
  (* if the predicted states have width n_states_in, the blocks are recovered by slicing *)
  /\ (wid (fst (f_dims f)) (predict_ep O f coef w relift false false X0 U) ->
        map (skipn (fst (f_dims f))) (predict_ep O f coef w relift false true X0 U) = U
        /\ map (firstn (fst (f_dims f))) (predict_ep O f coef w relift false true X0 U)
           = predict_ep O f coef w relift false false X0 U)
  (* lifted output without re-lifting: n - w + 1 rows *)
  /\ (lift_state O f (Some false) X0 <> [] ->
        length (predict_ep O f coef w false true false X0 U) = length U - w + 1
        /\ length (predict_ep O f coef w false true true X0 U) = length U - w + 1).
Proof.
  intros T O f coef w relift X0 U H Hle.
  split; [intros ri; apply predict_ep_length; assumption|].
  split; [intros k Hk; apply predict_ep_input_rows; assumption|].
  split; [intros Hw; apply predict_ep_input_passthrough; assumption|].
  intros Hl. destruct (@predict_ep_lifted_norelift T O f coef w X0 U H Hle Hl) as [H1 [H2 _]].
  split; assumption.
Qed.
Print Assumptions C07_modes_shape.

(* (d) one-argument call form = two-argument call form on the projections of the same
   matrix.  Conditions: w >= 1; when the call has an episode column, converting a label
   to a cell and back is the identity on the labels occurring in X. *)
Theorem C07_one_arg : forall (T : Type) (O : ops T) (f : fitted T) (coef : list (list T))
    (w : nat) (relift ret_lifted ret_input : bool) (call : option bool) (X : list (list T)),
  1 <= w ->
  (eff f call = true ->
     forall n, In n (labels (of_raw O true X)) -> op_lab O (op_inj O n) = n) ->
  let c := eff f call in
  let ns := fst (f_dims f) in
  let X0 := to_raw O c (map_episodes c (fun E => map (firstn ns) (firstn w E)) (of_raw O c X)) in
  let Uraw := to_raw O c (map_episodes c (map (skipn ns)) (of_raw O c X)) in
  predict_trajectory O f coef w relift ret_lifted ret_input call X None
  = predict_trajectory O f coef w relift ret_lifted ret_input call X0 (Some Uraw).
Proof.
  intros T O f coef w r l i call X Hw Hlab. cbn zeta.
  apply predict_trajectory_one_arg; assumption.
Qed.
Print Assumptions C07_one_arg.

(* ... and these projections are extract_initial_conditions / extract_input when every
   row of X has the fit-time width *)
Theorem C07_one_arg_extract : forall (T : Type) (O : ops T) (f : fitted T) (coef : list (list T))
    (w : nat) (relift ret_lifted ret_input : bool) (call : option bool) (X : list (list T)),
  1 <= w ->
  (eff f call = true ->
     forall n, In n (labels (of_raw O true X)) -> op_lab O (op_inj O n) = n) ->
  dwid (fst (f_dims f) + snd (f_dims f)) (of_raw O (eff f call) X) ->
  let c := eff f call in
  predict_trajectory O f coef w relift ret_lifted ret_input call X None
  = predict_trajectory O f coef w relift ret_lifted ret_input call
      (to_raw O c (extract_ic c w (snd (f_dims f)) (of_raw O c X)))
      (Some (to_raw O c (extract_input c (snd (f_dims f)) (of_raw O c X)))).
Proof.
  intros T O f coef w r l i call X Hw Hlab Hwid. cbn zeta.
  apply predict_trajectory_extract; assumption.
Qed.
Print Assumptions C07_one_arg_extract.
