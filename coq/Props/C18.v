(* C18 — RBF features and generated centres follow their definitions.
   Only statements, closed by [exact]; proofs live in BridgeC18.v (about the definitions
   REGENERATED from pykoop/lifting_functions.py and pykoop/centers.py by
   tools/gen_numeric.py), AlgR/Range.v, GridModel.v, SeedModel.v, Stage.v.
   Samplers (scipy uniform / multivariate normal / QMC engines, scikit-learn clustering
   and mixtures) are oracles; their shape / containment contracts are checked per run. *)
From Coq Require Import Reals List Permutation.
From PK.AlgR Require Import Rff Range NumLib.
From PK Require Import Stage GridModel SeedModel BridgeC18.
From PK.Gen Require Import Numeric.
Import ListNotations.
Local Open Scope R_scope.

(* the RBF lifting function appends, for each centre c in order, R(shape ||[x;u] - c|| + offset) *)
Theorem C18_rbf_layout : forall ns shape offset centers rbf X,
  gen_rbf_lift_row ns shape offset centers rbf X
  = X ++ map (fun c => rbf (shape * vnorm (vsub X c) + offset)) centers.
Proof. exact gen_rbf_lift_layout. Qed.
Print Assumptions C18_rbf_layout.

(* ... and this is the LRbf leaf of the stage model used by C01-C04, C19 *)
Theorem C18_stage_model_is_generated : forall id ns nu shape offset centers rbf kern X,
  leaf_row (rops (fun _ x c => rbf (rbf_radius shape offset x c)) kern) (LRbf id centers) (ns, nu) X
  = gen_rbf_lift_row ns shape offset centers rbf X.
Proof. exact stage_rbf_row_is_generated. Qed.
Print Assumptions C18_stage_model_is_generated.

(* the seven named radial functions are the documented ones *)
Theorem C18_named_rbfs : forall r,
  gen_rbf_exponential r = exp (- r) /\
  gen_rbf_gaussian r = exp (- r ^ 2) /\
  gen_rbf_multiquadric r = sqrt (1 + r ^ 2) /\
  gen_rbf_inverse_quadratic r = / (1 + r ^ 2) /\
  gen_rbf_inverse_multiquadric r = / sqrt (1 + r ^ 2) /\
  gen_rbf_thin_plate r = r ^ 2 * ln r /\
  gen_rbf_bump_function r = (if Rlt_dec r 1 then exp (- / (1 - r ^ 2)) else 0).
Proof.
  intros r.
  exact (conj (gen_rbf_exponential_spec r) (conj (gen_rbf_gaussian_spec r)
        (conj (gen_rbf_multiquadric_spec r) (conj (gen_rbf_inverse_quadratic_spec r)
        (conj (gen_rbf_inverse_multiquadric_spec r) (conj (gen_rbf_thin_plate_spec r)
        (gen_rbf_bump_spec r))))))).
Qed.
Print Assumptions C18_named_rbfs.

Theorem C18_default_offsets :
  gen_rbf_offset_exponential = 0 /\ gen_rbf_offset_gaussian = 0 /\ gen_rbf_offset_multiquadric = 0 /\
  gen_rbf_offset_inverse_quadratic = 0 /\ gen_rbf_offset_inverse_multiquadric = 0 /\
  gen_rbf_offset_bump_function = 0 /\ 0 < gen_rbf_offset_thin_plate.
Proof. exact gen_rbf_offsets. Qed.
Print Assumptions C18_default_offsets.

(* offset = None means the default above for a named function and 0 for a callable; any explicit
   offset, 0 included, is used as given *)
Theorem C18_offset_resolution : forall (o l : R) (b : bool) (f g : R -> R),
  gen_rbf_resolve_offset (Some o) b l = o /\
  gen_rbf_resolve_offset None true l = l /\
  gen_rbf_resolve_offset None false l = 0 /\
  gen_rbf_resolve_rbf true f g = f /\ gen_rbf_resolve_rbf false f g = g.
Proof. exact gen_rbf_resolution. Qed.
Print Assumptions C18_offset_resolution.

(* radius: offset at the centre, never below the offset, symmetric *)
Theorem C18_radius : forall shape offset x c, 0 <= shape ->
  rbf_radius shape offset x x = offset /\ offset <= rbf_radius shape offset x c /\
  rbf_radius shape offset x c = rbf_radius shape offset c x.
Proof.
  intros; repeat split; [apply rbf_radius_at_center | now apply rbf_radius_ge_offset | apply rbf_radius_sym].
Qed.
Print Assumptions C18_radius.

(* range-based generators: the (optionally symmetric) range contains the data, and every
   uniform / QMC-scaled / grid centre lies inside it *)
Theorem C18_range_covers_data : forall (sym : bool) x0 l x, In x (x0 :: l) ->
  fst (if sym then gen_feature_range_sym x0 l else gen_feature_range_plain x0 l) <= x
  <= snd (if sym then gen_feature_range_sym x0 l else gen_feature_range_plain x0 l).
Proof. exact gen_range_covers_data. Qed.
Print Assumptions C18_range_covers_data.

Theorem C18_uniform_center_in_range : forall (sym : bool) x0 l u, 0 <= u <= 1 ->
  let lo := fst (if sym then gen_feature_range_sym x0 l else gen_feature_range_plain x0 l) in
  let hi := snd (if sym then gen_feature_range_sym x0 l else gen_feature_range_plain x0 l) in
  lo <= gen_uniform_rvs_loc lo hi + u * gen_uniform_rvs_scale lo hi <= hi.
Proof. exact gen_uniform_center_in_range. Qed.
Print Assumptions C18_uniform_center_in_range.

Theorem C18_grid_point_in_range : forall (sym : bool) x0 l n k, (1 <= n)%nat -> (k <= n - 1)%nat ->
  let lo := fst (if sym then gen_feature_range_sym x0 l else gen_feature_range_plain x0 l) in
  let hi := snd (if sym then gen_feature_range_sym x0 l else gen_feature_range_plain x0 l) in
  lo <= linspace_pt lo hi n k <= hi.
Proof. exact gen_grid_point_in_range. Qed.
Print Assumptions C18_grid_point_in_range.

(* grid centres: exactly the Cartesian product of the per-feature linspaces, each point once,
   m^n of them, every centre with one coordinate per feature (any cell type) *)
Theorem C18_grid_is_cartesian_product : forall (T : Type) (ls : list (list T)) (c : list T),
  In c (grid_centers ls) <-> Forall2 (fun x l => In x l) c ls.
Proof. exact grid_centers_spec. Qed.
Print Assumptions C18_grid_is_cartesian_product.

Theorem C18_grid_count_shape_nodup : forall (T : Type) (ls : list (list T)) m,
  Forall (fun l => length l = m) ls ->
  length (grid_centers ls) = (m ^ length ls)%nat /\
  (forall c, In c (grid_centers ls) -> length c = length ls) /\
  (Forall (@NoDup T) ls -> NoDup (grid_centers ls)).
Proof.
  intros T ls m H. repeat split.
  - rewrite grid_centers_length. now apply prod_len_pow.
  - apply grid_centers_shape.
  - apply grid_centers_NoDup.
Qed.
Print Assumptions C18_grid_count_shape_nodup.

(* random generators and the shared seed: with a RandomState the features read disjoint
   stream positions; with an integer seed every feature re-reads the same positions, so the
   normalised centres of all features coincide (recorded finding F3) *)
Theorem C18_uniform_randomstate_features_disjoint : forall nfeat sd p k i j q,
  (i < nfeat)%nat -> (j < nfeat)%nat -> i <> j ->
  In q (nth i (uniform_pos SState (sd, p) nfeat k) []) ->
  ~ In q (nth j (uniform_pos SState (sd, p) nfeat k) []).
Proof. exact uniform_state_disjoint. Qed.
Print Assumptions C18_uniform_randomstate_features_disjoint.

Theorem C18_uniform_int_seed_coupled_refuted : forall s st nfeat k i j,
  (i < nfeat)%nat -> (j < nfeat)%nat ->
  nth i (uniform_pos (SInt s) st nfeat k) [] = nth j (uniform_pos (SInt s) st nfeat k) [].
Proof. exact uniform_int_seed_coupled. Qed.
Print Assumptions C18_uniform_int_seed_coupled_refuted.

(* non-vacuity *)
Local Close Scope R_scope.
Example C18_example :
  grid_centers [[1; 2]; [10; 20]; [7]]%nat = [[1; 10; 7]; [2; 10; 7]; [1; 20; 7]; [2; 20; 7]]%nat /\
  uniform_pos SState (5, 0)%nat 2 2 = [[(5, 0); (5, 1)]; [(5, 2); (5, 3)]]%nat /\
  uniform_pos (SInt 5) (0, 0)%nat 2 2 = [[(5, 0); (5, 1)]; [(5, 0); (5, 1)]]%nat.
Proof. repeat split; reflexivity. Qed.
