(* C05 — Regressors train on exactly the within-episode consecutive pairs.
   Only statements, closed by [exact]; proofs live in ShiftFacts.v. *)
From Coq Require Import List ZArith NArith Bool Arith Permutation.
From PK Require Import PyList Episodes EpisodesFacts ShiftFacts.
Import ListNotations.

(* The pairs handed to the concrete solver by the model of
   KoopmanRegressor.fit(X, y=None) are, for every data matrix (any number, length,
   labelling and arrangement of episodes, any n_inputs, with or without episode
   feature), exactly the consecutive (sample k, state part of sample k+1) pairs
   taken inside each episode, episodes in ascending label order. *)
Theorem C05_pairs : forall (A : Type) (ep : bool) (nu : nat) (X : dmat A),
  training_pairs ep nu X = spec_pairs ep nu X.
Proof. exact training_pairs_spec. Qed.
Print Assumptions C05_pairs.

(* none dropped, none duplicated: an episode of n rows contributes n-1 pairs, pair
   k being (row k, row k+1 without inputs) of that same episode *)
Theorem C05_count : forall (A : Type) (nu : nat) (E : list (list A)),
  length (consec nu E) = length E - 1.
Proof. exact consec_length. Qed.
Print Assumptions C05_count.

Theorem C05_pair_k : forall (A : Type) (nu : nat) (E : list (list A)) (k : nat) (d : list A),
  k + 1 < length E ->
  nth k (consec nu E) (d, cols_but_last nu d) = (nth k E d, cols_but_last nu (nth (k + 1) E d)).
Proof. exact consec_nth. Qed.
Print Assumptions C05_pair_k.

(* the shifted side never contains inputs *)
Theorem C05_no_inputs : forall (A : Type) (ep : bool) (nu w : nat) (X : dmat A),
  (forall r, In r (rows X) -> length r = w) -> nu <= w ->
  forall p, In p (spec_pairs ep nu X) -> length (fst p) = w /\ length (snd p) = w - nu.
Proof. exact spec_pairs_widths. Qed.
Print Assumptions C05_no_inputs.

(* listing the episodes in another order / interleaving rows changes nothing *)
Theorem C05_arrangement : forall (A : Type) (nu : nat) (X X' : dmat A),
  Arranged X X' -> training_pairs true nu X = training_pairs true nu X'.
Proof. exact training_pairs_arranged. Qed.
Print Assumptions C05_arrangement.

(* relabelling the episodes injectively only permutes the pairs (Gram matrices,
   and hence every regressor built on them, are invariant under that: Alg/Perm.v) *)
Theorem C05_relabel : forall (A : Type) (nu : nat) (rho : N -> N) (X : dmat A),
  (forall a b, rho a = rho b -> a = b) ->
  Permutation (training_pairs true nu (relabel rho X)) (training_pairs true nu X).
Proof. exact training_pairs_relabel. Qed.
Print Assumptions C05_relabel.

(* non-vacuity: two interleaved episodes (labels 7 and 2), one input *)
Example C05_example :
  training_pairs true 1
    [(7%N,[1;10]); (2%N,[2;20]); (7%N,[3;30]); (2%N,[4;40]); (7%N,[5;50])]%Z
  = [([2;20],[4]); ([1;10],[3]); ([3;30],[5])]%Z.
Proof. vm_compute. reflexivity. Qed.

(* ---- the fitted matrix: Gram matrices are invariant under any simultaneous permutation of
   the training pairs, so every regressor that is a function of G = Theta_+ Psi^T and
   H = Psi Psi^T (EDMD and the LMI family) returns the same matrix after relabelling /
   reordering (which, by C05_relabel, only permutes the pairs).  mathcomp, any commutative
   ring, all sizes. *)
From mathcomp Require Import all_ssreflect all_algebra fingroup perm.
From PK.Alg Require Import Perm.
Local Open Scope ring_scope.
Theorem C05_gram_perm (R : comRingType) (m n q : nat) (s : 'S_q) (A : 'M[R]_(m,q)) (B : 'M[R]_(n,q)) :
  (A *m perm_mx s) *m (B *m perm_mx s)^T = A *m B^T.
Proof. exact: Perm.gram_perm. Qed.
Print Assumptions C05_gram_perm.

(* ---------- about the code itself: shift_episodes as REGENERATED from the source on this run
   (tools/gen_episodes.py -> Gen/EpisodesGen.v: the per-episode slices X_i[:-1, :],
   X_i[1:, :] / X_i[1:, :-n_inputs] under the split / apply / combine frame) is the model's
   shift_episodes, about which the theorems above are proved *)
From PK Require Import SliceLib BridgeEpisodes.
From PK.Gen Require Import EpisodesGen.

Theorem C05_generated_shift : forall (T : Type) (ep : bool) nu (X : dmat T),
  shift_episodes ep nu X
  = (map_episodes ep (gen_shift_unshifted_ep T nu) X, map_episodes ep (gen_shift_shifted_ep T nu) X).
Proof. exact gen_shift_episodes_model. Qed.
Print Assumptions C05_generated_shift.

(* KoopmanRegressor.fit as REGENERATED from the source on this run (tools/gen_frames.py): without `y` the arrays
   handed to the concrete solver are the two results of shift_episodes called with the given n_inputs and episode flag,
   label column removed; their rows, paired by position, are exactly the training pairs about which the theorems
   above speak; with `y` they are (X, y) *)
From PK Require Import ShiftFacts BridgeFrames.
From PK.Gen Require Import FramesGen.
Theorem C05_generated_fit_arguments : forall (T : Type) (ep : bool) (nu : nat) (X Y : dmat T)
    (sh : dmat T -> dmat T * dmat T),
  (let args := gen_regressor_fit_arguments T (shift_episodes ep nu) None X in
   PyList.zip (fst args) (snd args) = training_pairs ep nu X)
  /\ gen_regressor_fit_arguments T sh (Some Y) X = (rows X, rows Y).
Proof. intros. split; [apply gen_regressor_fit_arguments_model | apply gen_regressor_fit_arguments_explicit]. Qed.
Print Assumptions C05_generated_fit_arguments.
