(* C07 - the Koopman step of predict_trajectory.  The source slices `koop_mat = self.regressor_.coef_.T` into
   `A = koop_mat[:, :koop_mat.shape[0]]` and `B = koop_mat[:, koop_mat.shape[0]:]` and advances both of its loops by
   `Theta @ A.T + Upsilon @ B.T`.  With those three definitions REGENERATED from the source (tools/gen_predict.py ->
   Gen/PredictAlg.v) this is `[Theta Upsilon] @ coef_`, i.e. one application of the matrix that the regressor's own
   `predict` applies, over every ring and for all sizes; and [A B] is the transposed coefficient matrix.
   Statements only; proofs in BridgePredictAlg.v. *)
From mathcomp Require Import all_ssreflect all_algebra.
From PK Require Import BridgePredictAlg.
From PK.Gen Require Import PredictAlg.
Set Implicit Arguments.
Unset Strict Implicit.
Import GRing.Theory.
Local Open Scope ring_scope.

Theorem C07_generated_koopman_step : forall (F : ringType) (p q m : nat) (coef : 'M[F]_(p + q, p))
    (Theta : 'M[F]_(m, p)) (Upsilon : 'M[F]_(m, q)),
  gen_koopman_step coef Theta Upsilon = row_mx Theta Upsilon *m coef.
Proof. exact gen_koopman_step_model. Qed.
Print Assumptions C07_generated_koopman_step.

Theorem C07_generated_blocks : forall (F : ringType) (p q : nat) (coef : 'M[F]_(p + q, p)),
  row_mx (gen_A coef) (gen_B coef) = coef^T.
Proof. exact gen_AB_blocks. Qed.
Print Assumptions C07_generated_blocks.

(* non-vacuity: over the integers, the system x+ = x (A = 1, B = 0) leaves the lifted state as it is *)
Example C07_alg_example : forall (Theta Upsilon : 'M[int]_(3, 1)),
  gen_koopman_step (col_mx 1%:M 0 : 'M[int]_(1 + 1, 1)) Theta Upsilon = Theta.
Proof. by move=> Theta Upsilon; rewrite gen_koopman_step_model mul_row_col mulmx1 mulmx0 addr0. Qed.
