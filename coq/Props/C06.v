(* C06 — EDMD returns the regularised least-squares optimum; exact recovery.
   Only statements, closed by [exact]; proofs live in Alg/Edmd.v (mathcomp, any
   realFieldType, all matrix sizes).  The certificate (normal equations) is evaluated on
   the coefficients the implementation actually returns on every run. *)
From mathcomp Require Import all_ssreflect all_algebra.
From PK.Alg Require Import Edmd.
Set Implicit Arguments.
Unset Strict Implicit.
Unset Printing Implicit Defensive.
Import GRing.Theory Num.Theory.
Local Open Scope ring_scope.

(* the normal equations certify global optimality of the regularised cost
   ||Thp - U Psi||_F^2 + alpha ||U||_F^2, for every competitor V *)
Theorem C06_optimal (R : realFieldType) (p q r : nat) (Psi : 'M[R]_(p,q)) (Thp : 'M[R]_(r,q))
  (alpha : R) (U : 'M[R]_(r,p)) :
  normal_eq Psi Thp alpha U -> 0 <= alpha -> forall V, cost Psi Thp alpha U <= cost Psi Thp alpha V.
Proof. exact: Edmd.C06_optimal. Qed.
Print Assumptions C06_optimal.

(* conversely every minimiser satisfies the normal equations *)
Theorem C06_optimal_iff (R : realFieldType) (p q r : nat) (Psi : 'M[R]_(p,q)) (Thp : 'M[R]_(r,q))
  (alpha : R) (U : 'M[R]_(r,p)) :
  0 <= alpha -> ((forall V, cost Psi Thp alpha U <= cost Psi Thp alpha V) <-> normal_eq Psi Thp alpha U).
Proof. exact: Edmd.C06_optimal_iff. Qed.
Print Assumptions C06_optimal_iff.

Theorem C06_unique (R : fieldType) (p q r : nat) (Psi : 'M[R]_(p,q)) (Thp : 'M[R]_(r,q))
  (alpha : R) (U V : 'M[R]_(r,p)) :
  (Psi *m Psi^T + alpha%:M) \in unitmx -> normal_eq Psi Thp alpha U -> normal_eq Psi Thp alpha V -> U = V.
Proof. exact: Edmd.C06_unique. Qed.
Print Assumptions C06_unique.

(* noise-free data of a linear system with exciting inputs: the solution IS [A B] *)
Theorem C06_recovery (R : fieldType) (p q r : nat) (Psi : 'M[R]_(p,q)) (Thp : 'M[R]_(r,q))
  (alpha : R) (U AB : 'M[R]_(r,p)) :
  Thp = AB *m Psi -> alpha = 0 -> Psi *m Psi^T \in unitmx -> normal_eq Psi Thp alpha U -> U = AB.
Proof. exact: Edmd.C06_recovery. Qed.
Print Assumptions C06_recovery.

(* the code scales H, G and the Tikhonov term by 1/q: same equations *)
Theorem C06_scaling (R : fieldType) (p q r : nat) (Psi : 'M[R]_(p,q)) (Thp : 'M[R]_(r,q))
  (alpha c : R) (U : 'M[R]_(r,p)) :
  c != 0 ->
  (U *m (c^-1 *: (Psi *m Psi^T) + c^-1 *: alpha%:M) = c^-1 *: (Thp *m Psi^T))
  <-> U *m (Psi *m Psi^T + alpha%:M) = Thp *m Psi^T.
Proof. exact: Edmd.C06_scaling. Qed.
Print Assumptions C06_scaling.

(* untruncated DMDc: Thp Z S^-1 Q^T solves the normal equations with alpha = 0 *)
Theorem C06_dmdc (R : fieldType) (p q r k : nat) (Psi : 'M[R]_(p,q)) (Thp : 'M[R]_(r,q))
  (Q : 'M[R]_(p,k)) (S : 'M[R]_k) (Z : 'M[R]_(q,k)) :
  Psi = Q *m S *m Z^T -> S \in unitmx -> Q^T *m Q = 1%:M -> Z^T *m Z = 1%:M ->
  normal_eq Psi Thp 0 (Thp *m Z *m invmx S *m Q^T).
Proof. exact: Edmd.C06_dmdc. Qed.
Print Assumptions C06_dmdc.

(* ---------- about the code itself: the linear system Edmd._fit_regressor hands to lstsq, as
   REGENERATED from the source on this run (tools/gen_regressors.py -> Gen/Regressors.v),
   is the normal equations; an exact solution of it is the global minimiser *)
From PK Require Import BridgeC06.
From PK.Gen Require Import Regressors.

Theorem C06_generated_system (R : fieldType) (p q r : nat) (X_unshifted : 'M[R]_(q,p)) (X_shifted : 'M[R]_(q,r))
  (alpha : R) (coef : 'M[R]_(p,r)) : (q%:R : R) != 0 ->
  (gen_edmd_lstsq_lhs X_unshifted alpha *m coef = gen_edmd_lstsq_rhs X_unshifted X_shifted)
  <-> normal_eq X_unshifted^T X_shifted^T alpha coef^T.
Proof. exact: gen_edmd_system_is_normal_eq. Qed.
Print Assumptions C06_generated_system.

Theorem C06_generated_optimal (R : realFieldType) (p q r : nat) (X_unshifted : 'M[R]_(q,p)) (X_shifted : 'M[R]_(q,r))
  (alpha : R) (coef : 'M[R]_(p,r)) : (0 < q)%N -> 0 <= alpha ->
  gen_edmd_lstsq_lhs X_unshifted alpha *m coef = gen_edmd_lstsq_rhs X_unshifted X_shifted ->
  forall V, cost X_unshifted^T X_shifted^T alpha coef^T <= cost X_unshifted^T X_shifted^T alpha V.
Proof. exact: gen_edmd_optimal. Qed.
Print Assumptions C06_generated_optimal.
