(* C09 (algebraic companion, mathcomp): the block matrix that the spectral-radius builders hand
   to the solver (LmiBlocks.lyap_block_*, compared with the code on every run) read on a stacked
   vector [v; w] IS the quadratic form assumed by C09_contraction:
   rho Q(v,v) + 2 Q(w, A v) + rho Q(w,w) with Q(u,v) = u^T P v.  Statements only. *)
From mathcomp Require Import all_ssreflect all_algebra.
From PK.Alg Require Import LmiQuad.
Set Implicit Arguments.
Unset Strict Implicit.
Import GRing.Theory.
Local Open Scope ring_scope.

Theorem C09_block_is_quadratic_form (R : comRingType) n (P A : 'M[R]_n) (rho : R) (v w : 'cV[R]_n) :
  P^T = P ->
  (col_mx v w)^T *m block_mx (rho *: P) (A^T *m P) (P^T *m A) (rho *: P) *m col_mx v w
  = rho *: bil P v v + bil P w (A *m v) *+ 2 + rho *: bil P w w.
Proof. exact: lyap_block_quad_sym. Qed.
Print Assumptions C09_block_is_quadratic_form.

(* DMDc variants return A = Q M Q^T with Q^T Q = 1: every eigenpair of A with a non-zero eigenvalue
   is the lift of an eigenpair of the constrained reduced operator M with the same eigenvalue *)
Theorem C09_dmdc_lift (F : fieldType) p r (Q : 'M[F]_(p, r)) (M : 'M[F]_r) (v : 'cV[F]_p) (lam : F) :
  Q^T *m Q = 1%:M -> lam != 0 -> v != 0 ->
  (Q *m M *m Q^T) *m v = lam *: v ->
  M *m (Q^T *m v) = lam *: (Q^T *m v) /\ Q^T *m v != 0.
Proof. exact: dmdc_lift_eigen. Qed.
Print Assumptions C09_dmdc_lift.

(* ---------- about the code itself: the blocks that the four spectral-radius problem builders hand to the solver, as
   REGENERATED from the source on this run (tools/gen_lmi_sr.py -> Gen/LmiSrGen.v; rho_bar is the spectral_radius parameter,
   the constraint is `>> picos_eps`, problem B also constrains P >> picos_eps), ARE the block above with A the state
   block of the Koopman matrix; hence their quadratic form is the one C09_contraction assumes *)
From PK Require Import BridgeLmiSr.
From PK.Gen Require Import LmiSrGen.

Theorem C09_generated_blocks (F : fieldType) p q (rho : F) (P : 'M[F]_p) (U : 'M[F]_(p, p + q)) :
  let A := lsubmx U in
  let blk := block_mx (rho *: P) (A^T *m P) (P^T *m A) (rho *: P) in
  gen_sr_edmd_b rho P U = blk /\ gen_sr_dmdc_b rho P U = blk
  /\ (2%:R != 0 :> F -> P^T = P -> gen_sr_edmd_a rho P U = blk /\ gen_sr_dmdc_a rho P U = blk).
Proof.
  split; [exact: gen_sr_edmd_b_model|split; [exact: gen_sr_dmdc_b_model|]].
  by move=> n2 sP; split; [exact: gen_sr_edmd_a_model|exact: gen_sr_dmdc_a_model].
Qed.
Print Assumptions C09_generated_blocks.

Theorem C09_generated_quadratic_form (F : fieldType) p q (rho : F) (P : 'M[F]_p) (U : 'M[F]_(p, p + q)) (v w : 'cV[F]_p) :
  2%:R != 0 :> F -> P^T = P ->
  (col_mx v w)^T *m gen_sr_edmd_a rho P U *m col_mx v w
  = rho *: bil P v v + bil P w (lsubmx U *m v) *+ 2 + rho *: bil P w w.
Proof.
  move=> n2 sP. rewrite gen_sr_edmd_a_model //. exact: lyap_block_quad_sym.
Qed.
Print Assumptions C09_generated_quadratic_form.

(* non-vacuity: a concrete instance over any field in which 2 is invertible: rho = 1, P = 1, U = 0 *)
Example C09_generated_example (F : fieldType) : 2%:R != 0 :> F ->
  gen_sr_edmd_a (1 : F) (1%:M : 'M[F]_2) (0 : 'M[F]_(2, 2 + 1)) = block_mx 1%:M 0 0 1%:M.
Proof.
  move=> n2. rewrite gen_sr_edmd_a_model ?trmx1 // /lyap_block scale1r.
  by rewrite (_ : lsubmx 0 = 0) ?trmx0 ?mul0mx ?mulmx0 //; apply/matrixP=> i j; rewrite !mxE.
Qed.
