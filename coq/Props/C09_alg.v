(* C09 (algebraic companion, mathcomp): the block matrix that the spectral-radius builders hand
   to the solver (LmiBlocks.lyap_block_*, compared with the code on every run) read on a stacked
   vector [v; w] IS the quadratic form assumed by C09_contraction:
   rho Q(v,v) + 2 Q(w, A v) + rho Q(w,w) with Q(u,v) = u^T P v.  Statements only. *)
From mathcomp Require Import all_ssreflect all_algebra.
From PK.Alg Require Import LmiQuad.
Set Implicit Arguments.
Unset Strict Implicit.
Import GRing.Theory.
Local Open Scope ring_scope.

Theorem C09_block_is_quadratic_form (R : comRingType) n (P A : 'M[R]_n) (rho : R) (v w : 'cV[R]_n) :
  P^T = P ->
  (col_mx v w)^T *m block_mx (rho *: P) (A^T *m P) (P^T *m A) (rho *: P) *m col_mx v w
  = rho *: bil P v v + bil P w (A *m v) *+ 2 + rho *: bil P w w.
Proof. exact: lyap_block_quad_sym. Qed.
Print Assumptions C09_block_is_quadratic_form.

(* DMDc variants return A = Q M Q^T with Q^T Q = 1: every eigenpair of A with a non-zero eigenvalue
   is the lift of an eigenpair of the constrained reduced operator M with the same eigenvalue *)
Theorem C09_dmdc_lift (F : fieldType) p r (Q : 'M[F]_(p, r)) (M : 'M[F]_r) (v : 'cV[F]_p) (lam : F) :
  Q^T *m Q = 1%:M -> lam != 0 -> v != 0 ->
  (Q *m M *m Q^T) *m v = lam *: v ->
  M *m (Q^T *m v) = lam *: (Q^T *m v) /\ Q^T *m v != 0.
Proof. exact: dmdc_lift_eigen. Qed.
Print Assumptions C09_dmdc_lift.
