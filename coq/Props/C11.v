(* C11 — Dissipativity-constrained fits are dissipative.
   Only statements, closed by [exact]; proofs live in AlgR/Dissip.v (Coq Reals).  The 3x3
   block LMI of LmiEdmdDissipativityConstr is read as the quadratic form [dissip_form]; the
   one-step dissipation inequality follows by instantiating the third block at -(A x + B u),
   and the inequality over any horizon and any input sequence by induction on time. *)
From Coq Require Import Reals List.
From PK.AlgR Require Import Dissip.
Local Open Scope R_scope.

Theorem C11_one_step : forall (V W Y : Type) (vadd : V -> V -> V) (vscale : R -> V -> V) (Q : V -> V -> R)
  (A : V -> V) (B : W -> V) (C : V -> Y) (Xi11 : Y -> Y -> R) (Xi12 : Y -> W -> R) (Xi22 : W -> W -> R),
  (forall u v, Q u v = Q v u) -> (forall u v w, Q (vadd u v) w = Q u w + Q v w) ->
  (forall c u v, Q (vscale c u) v = c * Q u v) ->
  (forall x u z, 0 <= dissip_form V W Y Q A B C Xi11 Xi12 Xi22 x u z) ->
  forall x u, storage V Q (dstep V W vadd A B x u) - storage V Q x <= supply V W Y C Xi11 Xi12 Xi22 x u.
Proof. exact lmi_one_step_dissipation. Qed.
Print Assumptions C11_one_step.

(* for every input sequence and every horizon *)
Theorem C11_dissipation : forall (V W Y : Type) (vadd : V -> V -> V) (vscale : R -> V -> V) (Q : V -> V -> R)
  (A : V -> V) (B : W -> V) (C : V -> Y) (Xi11 : Y -> Y -> R) (Xi12 : Y -> W -> R) (Xi22 : W -> W -> R),
  (forall u v, Q u v = Q v u) -> (forall u v w, Q (vadd u v) w = Q u w + Q v w) ->
  (forall c u v, Q (vscale c u) v = c * Q u v) ->
  (forall x u z, 0 <= dissip_form V W Y Q A B C Xi11 Xi12 Xi22 x u z) ->
  forall (us : list W) (x0 : V),
  storage V Q (fold_left (dstep V W vadd A B) us x0) - storage V Q x0
  <= traj_sum V W (dstep V W vadd A B) (supply V W Y C Xi11 Xi12 Xi22) us x0.
Proof. exact lmi_dissipation_sum. Qed.
Print Assumptions C11_dissipation.

(* default supply rate (no cross term): sum |y|^2 <= sum |u|^2 + V(x0), i.e. L2 gain at most one *)
Theorem C11_default_gain : forall (V W Y : Type) (vadd : V -> V -> V) (vscale : R -> V -> V) (Q : V -> V -> R)
  (A : V -> V) (B : W -> V) (C : V -> Y) (Xi11 : Y -> Y -> R) (Xi12 : Y -> W -> R) (Xi22 : W -> W -> R),
  (forall u v, Q u v = Q v u) -> (forall u v w, Q (vadd u v) w = Q u w + Q v w) ->
  (forall c u v, Q (vscale c u) v = c * Q u v) ->
  (forall y u, Xi12 y u = 0) -> (forall x, 0 <= Q x x) ->
  (forall x u z, 0 <= dissip_form V W Y Q A B C Xi11 Xi12 Xi22 x u z) ->
  forall (us : list W) (x0 : V),
  traj_sum V W (dstep V W vadd A B) (fun x _ => Xi11 (C x) (C x)) us x0
  <= traj_sum V W (dstep V W vadd A B) (fun _ u => - Xi22 u u) us x0 + Q x0 x0.
Proof. exact lmi_l2_gain_default. Qed.
Print Assumptions C11_default_gain.

(* ---------- the alternation loop (Altern.v): for every solver oracle, stop-flag history and
   max_iter, at every exit the returned pair satisfies what the solver certified ---------- *)
From Coq Require Import List.
From PK Require Import Altern AlternFacts.
Import ListNotations.

Theorem C11_loop_invariant : forall (XA XB O : Type) (solveA : nat -> XB -> resA XA O) (solveB : nat -> XA -> resB XB)
  (stop : nat -> bool) (close : O -> O -> bool) (Inv : XA -> XB -> Prop),
  (forall k p x obj, solveA k p = OptA x obj -> Inv x p) ->
  (forall k x p, solveB k x = OptB p -> Inv x p) ->
  forall max_iter x0 p0,
  let r := fit solveA solveB stop close max_iter x0 p0 in
  (o_x r = x0 /\ o_p r = p0 /\ o_log r = []) \/ Inv (o_x r) (o_p r).
Proof. exact fit_invariant. Qed.
Print Assumptions C11_loop_invariant.

Theorem C11_log_nonincreasing : forall (XA XB O : Type) (solveA : nat -> XB -> resA XA O) (solveB : nat -> XA -> resB XB)
  (stop : nat -> bool) (close : O -> O -> bool) (Inv : XA -> XB -> Prop),
  (forall k x p, solveB k x = OptB p -> Inv x p) ->
  forall (J : XA -> O) (le : O -> O -> Prop),
  (forall k p x obj, solveA k p = OptA x obj -> obj = J x /\ forall y, Inv y p -> le (J x) (J y)) ->
  forall max_iter x0 p0,
  nonincreasing O le (o_log (fit solveA solveB stop close max_iter x0 p0)).
Proof. exact fit_log_nonincreasing. Qed.
Print Assumptions C11_log_nonincreasing.

Theorem C11_n_iter : forall (XA XB O : Type) (solveA : nat -> XB -> resA XA O) (solveB : nat -> XA -> resB XB)
  (stop : nat -> bool) (close : O -> O -> bool) max_iter x0 p0, (0 < max_iter)%nat ->
  (1 <= o_niter (fit solveA solveB stop close max_iter x0 p0) <= max_iter)%nat /\
  (o_reason (fit solveA solveB stop close max_iter x0 p0) = RMaxIter ->
   o_niter (fit solveA solveB stop close max_iter x0 p0) = max_iter).
Proof. exact fit_niter. Qed.
Print Assumptions C11_n_iter.
