(* C02 — Lifted state block never depends on the exogenous input.
   Only statements, closed by [exact]; proofs live in StageFacts.v / NonInterf.v. *)
From Coq Require Import List ZArith NArith Bool Arith Lia.
From PK Require Import PyList ListFacts Episodes EpisodesFacts Stage StageEqns StageSpec StageFacts EpisodeSem NonInterf ZInst.
Import ListNotations.
Close Scope Z_scope.
Open Scope nat_scope.

(* the lifted features are partitioned exactly as declared: n_states_out + n_inputs_out
   columns and nothing else (the episode label is carried separately by the model) *)
Theorem C02_partition : forall (T : Type) (O : ops T) (s : stage T) (ep : bool) (d : dims) (X : dmat T),
  wf s d = true -> dwid (fst d + snd d) X ->
  forall r, In r (rows (transform O s ep d X)) -> length r = fst (sdims s d) + snd (sdims s d).
Proof. intros T O s ep d X Hwf HX. exact (transform_width O s ep d Hwf HX). Qed.
Print Assumptions C02_partition.

(* For EVERY stage tree (all kinds, any nesting), dims and pair of data matrices that
   have the same labels and the same state columns row by row — the input columns being
   arbitrary — every episode of the two lifted matrices has the same lifted-state block.
   Hypotheses: wf (PolynomialFeatures.powers_ well-formed, split branches pure), the
   declared input width, every episode at least min_samples long. *)
Theorem C02_noninterference : forall (T : Type) (O : ops T) (s : stage T) (d : dims) (X X' : dmat T),
  wf s d = true -> dwid (fst d + snd d) X -> dwid (fst d + snd d) X' ->
  same_state (fst d) X X' -> valid (min_samples s) X ->
  forall i, scols (fst (sdims s d)) (rows_of i (transform O s true d X))
          = scols (fst (sdims s d)) (rows_of i (transform O s true d X')).
Proof. intros T O s d X X'. exact (@transform_noninterference T O s d X X'). Qed.
Print Assumptions C02_noninterference.

Theorem C02_noninterference_single : forall (T : Type) (O : ops T) (s : stage T) (d : dims) (X X' : dmat T),
  wf s d = true -> dwid (fst d + snd d) X -> dwid (fst d + snd d) X' ->
  length X = length X' -> scols (fst d) (rows X) = scols (fst d) (rows X') ->
  scols (fst (sdims s d)) (rows (transform O s false d X))
  = scols (fst (sdims s d)) (rows (transform O s false d X')).
Proof. intros T O s d X X'. exact (@transform_noninterference_single T O s d X X'). Qed.
Print Assumptions C02_noninterference_single.

(* per-episode form on the specification, no validity premise at all *)
Theorem C02_spec : forall (T : Type) (O : ops T) (s : stage T) (d : dims) (E E' : list (list T)),
  wf s d = true -> wid (fst d + snd d) E -> wid (fst d + snd d) E' ->
  length E = length E' -> scols (fst d) E = scols (fst d) E' ->
  scols (fst (sdims s d)) (tf_ep O s d E) = scols (fst (sdims s d)) (tf_ep O s d E').
Proof. intros T O s. exact (tf_ep_noninterference O s). Qed.
Print Assumptions C02_spec.

(* non-vacuity: polynomial(2) after a delay with different state/input delays, inside a
   KoopmanPipeline; the two matrices differ in every input cell *)
Definition c02_stage : zstage :=
  Pipe (CCons (Leaf (LDelay Z 1 2))
       (CCons (Leaf (LPoly Z [[1;0;0;0;0];[0;1;0;0;0];[0;0;1;0;0];[0;0;0;1;0];[0;0;0;0;1];
                              [2;0;0;0;0];[1;1;0;0;0];[1;0;1;0;0];[1;0;0;1;0];[1;0;0;0;1];
                              [0;2;0;0;0];[0;1;1;0;0];[0;1;0;1;0];[0;1;0;0;1];[0;0;2;0;0];
                              [0;0;1;1;0];[0;0;1;0;1];[0;0;0;2;0];[0;0;0;1;1];[0;0;0;0;2]])) (CNil Z))).
Definition c02_X : dmat Z := [(3%N,[1;7]); (3%N,[2;8]); (3%N,[3;9]); (3%N,[4;6])]%Z.
Definition c02_X' : dmat Z := [(3%N,[1;-5]); (3%N,[2;0]); (3%N,[3;11]); (3%N,[4;2])]%Z.
Example C02_example :
  wf c02_stage (1, 1) = true /\ same_state 1 c02_X c02_X' /\ valid (min_samples c02_stage) c02_X
  /\ sdims c02_stage (1, 1) = (5, 15)
  /\ scols 5 (rows_of 3%N (ztransform c02_stage true (1, 1) c02_X)) = [[3;2;9;6;4]; [4;3;16;12;9]]%Z
  /\ rows_of 3%N (ztransform c02_stage true (1, 1) c02_X) <> rows_of 3%N (ztransform c02_stage true (1, 1) c02_X').
Proof.
  split; [vm_compute; reflexivity|]. split; [vm_compute; reflexivity|]. split.
  - intros i Hi. cbn in Hi. repeat (destruct Hi as [<-|Hi]; [vm_compute; lia|]). destruct Hi.
  - split; [vm_compute; reflexivity|]. split; [vm_compute; reflexivity|]. vm_compute. discriminate.
Qed.
