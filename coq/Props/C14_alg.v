(* C14 - "their product is the best approximation of that rank": Eckart-Young-Mirsky for the Frobenius norm, for
   matrices of every size over every real field (Alg/EckartYoung.v).  X = Q diag(s) Z^T with orthonormal Q, Z and
   s >= 0 non-increasing (what Tsvd returns for the economy rule; the harness checks these contracts on the
   implementation's factors for every generated matrix); X_r keeps the first r triplets.  Competitors are given with
   an orthonormal basis W of their column space (every matrix of rank <= r has one by Gram-Schmidt over the reals;
   a realFieldType has no square roots, so the basis is part of the statement).  Statements only. *)
From mathcomp Require Import all_ssreflect all_algebra.
From PK.Alg Require Import Edmd EckartYoung.
Set Implicit Arguments.
Unset Strict Implicit.
Unset Printing Implicit Defensive.
Import Order.Theory GRing.Theory Num.Theory.
Local Open Scope ring_scope.

(* the error of the truncation is the sum of the discarded squared singular values *)
Theorem C14_truncation_error (R : realFieldType) (m n k : nat) (Q : 'M[R]_(m,k)) (Z : 'M[R]_(n,k)) (s : 'rV[R]_k) (r : nat) :
  Q^T *m Q = 1%:M -> Z^T *m Z = 1%:M ->
  frob2 (svd_mx Q Z s - svd_mx Q Z (trunc s r)) = \sum_(i < k | ~~ (i < r)%N) s 0 i ^+ 2.
Proof. move=> QQ ZZ. exact: trunc_error. Qed.
Print Assumptions C14_truncation_error.

(* no matrix whose column space is spanned by r orthonormal vectors is closer to X than the rank-r truncation *)
Theorem C14_best_approximation (R : realFieldType) (m n k : nat) (Q : 'M[R]_(m,k)) (Z : 'M[R]_(n,k)) (s : 'rV[R]_k)
    (r : nat) (W : 'M[R]_(m,r)) (M : 'M[R]_(r,n)) :
  Q^T *m Q = 1%:M -> Z^T *m Z = 1%:M -> (forall i, 0 <= s 0 i) ->
  (forall i j : 'I_k, (i <= j)%N -> s 0 j <= s 0 i) -> W^T *m W = 1%:M ->
  frob2 (svd_mx Q Z s - svd_mx Q Z (trunc s r)) <= frob2 (svd_mx Q Z s - W *m M).
Proof. move=> QQ ZZ s0 sm WW. exact: eckart_young. Qed.
Print Assumptions C14_best_approximation.
