(* C16 — lift/retract helpers agree with transform for every episode flag.
   Only statements, closed by [exact]; proofs live in HelpersFacts.v. *)
From Coq Require Import List ZArith NArith Bool Arith Lia.
From PK Require Import PyList ListFacts Episodes EpisodesFacts Stage Helpers HelpersFacts ZInst.
Import ListNotations.
Close Scope Z_scope.
Open Scope nat_scope.

(* Passing None behaves identically to passing the fit-time value — all six helpers,
   every fitted estimator, every data matrix (after the fix: commit recorded in
   known_findings.json; before it, the four state/input helpers sliced with the
   unresolved flag). *)
Theorem C16_none : forall (T : Type) (O : ops T) (f : fitted T) (R : list (list T)),
  lift O f None R = lift O f (Some (f_ep f)) R
  /\ retract O f None R = retract O f (Some (f_ep f)) R
  /\ lift_state O f None R = lift_state O f (Some (f_ep f)) R
  /\ lift_input O f None R = lift_input O f (Some (f_ep f)) R
  /\ retract_state O f None R = retract_state O f (Some (f_ep f)) R
  /\ retract_input O f None R = retract_input O f (Some (f_ep f)) R.
Proof.
  intros. repeat split.
  - exact (lift_none O f R).
  - exact (retract_none O f R).
Qed.
Print Assumptions C16_none.

(* lift and retract equal transform and inverse_transform on the correspondingly padded
   (fake zero episode column, stripped afterwards) or split (per episode, recombined) data *)
Theorem C16_lift : forall (T : Type) (O : ops T) (f : fitted T) (R : list (list T)),
  lift O f (Some (f_ep f)) R = transform_raw O f R
  /\ (f_ep f = true -> lift O f (Some false) R = map (@tl T) (transform_raw O f (map (fun r => op_t0 O :: r) R)))
  /\ (f_ep f = false -> lift O f (Some true) R = to_raw O true (map_episodes true (transform_raw O f) (of_raw O true R))).
Proof. intros. repeat split; [exact (lift_same O f R)|exact (@lift_strip T O f R)|exact (@lift_split T O f R)]. Qed.
Print Assumptions C16_lift.

Theorem C16_retract : forall (T : Type) (O : ops T) (f : fitted T) (R : list (list T)),
  retract O f (Some (f_ep f)) R = inverse_raw O f R
  /\ (f_ep f = true -> retract O f (Some false) R = map (@tl T) (inverse_raw O f (map (fun r => op_t0 O :: r) R)))
  /\ (f_ep f = false -> retract O f (Some true) R = to_raw O true (map_episodes true (inverse_raw O f) (of_raw O true R))).
Proof. intros. repeat split; [exact (retract_same O f R)|exact (@retract_strip T O f R)|exact (@retract_split T O f R)]. Qed.
Print Assumptions C16_retract.

(* non-vacuity + the repaired defect as a computation: fitted WITH an episode feature,
   called with None: lift_state keeps the episode column and all lifted states *)
Definition c16_f : zfitted :=
  Build_fitted (Pipe (CCons (Leaf (LPoly Z [[1;0];[0;1];[2;0];[1;1];[0;2]])) (CNil Z))) true (1, 1).
Example C16_example :
  zlift_state c16_f None [[4;3]; [4;5]]%Z = [[4;3;9]; [4;5;25]]%Z
  /\ zlift_input c16_f None [[4;3;2]; [4;5;1]]%Z = [[4;2;6;4]; [4;1;5;1]]%Z.
Proof. vm_compute. split; reflexivity. Qed.
