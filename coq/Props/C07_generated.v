(* C07 - KoopmanPipeline.predict_trajectory as REGENERATED from the source on every run (tools/gen_predict.py ->
   Gen/PredictGen.v: both loops with their in-place array updates as folds over `range`, the four return modes,
   _split_state_input_episodes, the call-time episode flag that overrides the fit-time one) IS `predict_trajectory` of
   the model (Helpers.v), about which Props/C07.v speaks.  Statements only; the proofs are in BridgePredict.v.
   The lifting helpers called with `episode_feature=False` are those of the model (tied to the source by
   Props/C16_generated.v); `affine_model` is one application of coef_ to [theta, upsilon] (Props/C07_alg.v ties the
   slicing of `self.regressor_.coef_.T` into A and B to it).  Premises: exactly the checks the source makes on every
   episode (`gen_episode_checks`, regenerated: min_samples_ initial samples, at least min_samples_ inputs), and for
   relift_state=False that lift_state of the initial samples is the one row that `Theta_i[[0], :] = ..` needs.
   The exception handlers (a lifting function raising on non-finite values: the prediction has diverged, the rest of
   the episode is set to NaN) are outside the model. *)
From Coq Require Import List ZArith NArith Bool Arith.
From PK Require Import PyList SliceLib Episodes Stage Helpers BridgePredict.
From PK.Gen Require Import EpisodesGen PredictGen.
Import ListNotations.

Theorem C07_generated_predict_trajectory :
  forall (T : Type) (O : ops T) (f : fitted T) (coef : list (list T))
         (w : nat) (relift ret_lifted ret_input : bool) (call : option bool) (X0_or_X : list (list T)) (U : option (list (list T))),
  let c := eff f call in
  let eps := gen_split_state_input_episodes T (fst (f_dims f)) w c (of_raw O c X0_or_X) (option_map (of_raw O c) U) in
  forallb (fun e => gen_episode_checks T w (fst (snd e)) (snd (snd e))) eps = true ->
  (relift = false -> forall e, In e eps -> length (lift_state O f (Some false) (fst (snd e))) = 1) ->
  to_raw O c (gen_predict_trajectory T (op_t0 O) (lift_state O f (Some false)) (lift_input O f (Some false))
                (retract_state O f (Some false)) (affine_model T O f coef)
                (fst (f_dims f)) (fst (f_out f)) (snd (f_out f)) w
                relift ret_lifted ret_input (f_ep f) call (of_raw O c X0_or_X) (option_map (of_raw O c) U))
  = predict_trajectory O f coef w relift ret_lifted ret_input call X0_or_X U.
Proof. exact gen_predict_trajectory_model. Qed.
Print Assumptions C07_generated_predict_trajectory.

(* with the window the source itself uses (min_samples_ of the fitted pipeline) the only premise left is that the data pass
   the checks the source makes *)
Theorem C07_generated_predict_trajectory_min_samples :
  forall (T : Type) (O : ops T) (f : fitted T) (coef : list (list T))
         (relift ret_lifted ret_input : bool) (call : option bool) (X0_or_X : list (list T)) (U : option (list (list T))),
  let w := min_samples (f_stage f) in
  let c := eff f call in
  let eps := gen_split_state_input_episodes T (fst (f_dims f)) w c (of_raw O c X0_or_X) (option_map (of_raw O c) U) in
  forallb (fun e => gen_episode_checks T w (fst (snd e)) (snd (snd e))) eps = true ->
  to_raw O c (gen_predict_trajectory T (op_t0 O) (lift_state O f (Some false)) (lift_input O f (Some false))
                (retract_state O f (Some false)) (affine_model T O f coef)
                (fst (f_dims f)) (fst (f_out f)) (snd (f_out f)) w
                relift ret_lifted ret_input (f_ep f) call (of_raw O c X0_or_X) (option_map (of_raw O c) U))
  = predict_trajectory O f coef w relift ret_lifted ret_input call X0_or_X U.
Proof. exact gen_predict_trajectory_model_min_samples. Qed.
Print Assumptions C07_generated_predict_trajectory_min_samples.

(* the per-episode checks of the source are: min_samples_ initial samples and at least min_samples_ input samples *)
Theorem C07_generated_checks : forall (T : Type) (w : nat) (X0 U : list (list T)),
  gen_episode_checks T w X0 U = true <-> length X0 = w /\ w <= length U.
Proof. exact gen_episode_checks_spec. Qed.
Print Assumptions C07_generated_checks.

(* _split_state_input_episodes: with U=None the initial samples are the first min_samples_ rows of the state columns and
   the input is the input columns of the whole episode; with U the episodes of the two arrays are paired by position *)
Theorem C07_generated_split : forall (T : Type) (O : ops T) (f : fitted T) (w : nat) (c : bool) (X : dmat T) (U : option (dmat T)),
  gen_split_state_input_episodes T (fst (f_dims f)) w c X U =
  match U with
  | None => map (fun e => (fst e, (map (firstn (fst (f_dims f))) (firstn w (snd e)), map (skipn (fst (f_dims f))) (snd e)))) (split c X)
  | Some Ur => map (fun xu => (fst (fst xu), (snd (fst xu), snd (snd xu)))) (zip (split c X) (split c Ur))
  end.
Proof. intros T O f. exact (@gen_split_state_input_model T f). Qed.
Print Assumptions C07_generated_split.

(* non-vacuity: a delay pipeline (two samples per window) fitted with an episode feature, two episodes, called with the
   flag of the fit: the premises hold and the generated function returns the trajectory *)
From PK Require Import ZInst.
Definition ex_f : fitted Z := Build_fitted (Pipe (CCons (Leaf (LDelay Z 1 1)) (CNil Z))) true (1%nat, 1%nat).
Definition ex_coef : list (list Z) := [[1; 0]; [1; 1]; [0; 1]; [1; 0]]%Z.
Definition ex_X : list (list Z) := [[0; 1; 1]; [0; 2; 0]; [0; 0; 1]; [0; 0; 2]; [1; 3; 1]; [1; 1; 0]; [1; 0; 1]]%Z.
Example C07_generated_example :
  let c := eff ex_f None in
  let eps := gen_split_state_input_episodes Z 1%nat 2%nat c (of_raw zops c ex_X) None in
  forallb (fun e => gen_episode_checks Z 2%nat (fst (snd e)) (snd (snd e))) eps = true
  /\ forallb (fun e => Nat.eqb (length (lift_state zops ex_f (Some false) (fst (snd e))))  1%nat) eps = true
  /\ length eps = 2%nat
  /\ to_raw zops c (gen_predict_trajectory Z 0%Z (lift_state zops ex_f (Some false)) (lift_input zops ex_f (Some false))
                (retract_state zops ex_f (Some false)) (affine_model Z zops ex_f ex_coef) 1%nat 2%nat 2%nat 2%nat
                false false false true None (of_raw zops c ex_X) None)
     = predict_trajectory zops ex_f ex_coef 2%nat false false false None ex_X None
  /\ predict_trajectory zops ex_f ex_coef 2%nat true false false None ex_X None
     = to_raw zops c (gen_predict_trajectory Z 0%Z (lift_state zops ex_f (Some false)) (lift_input zops ex_f (Some false))
                (retract_state zops ex_f (Some false)) (affine_model Z zops ex_f ex_coef) 1%nat 2%nat 2%nat 2%nat
                true false false true None (of_raw zops c ex_X) None)
  /\ length (predict_trajectory zops ex_f ex_coef 2%nat true false false None ex_X None) = 7%nat.
Proof. vm_compute. repeat split; reflexivity. Qed.
