(* C04 — Declared dimensions and sample counts match the arrays produced.
   Only statements, closed by [exact]; proofs live in StageFacts.v / EpisodeSem.v. *)
From Coq Require Import List ZArith NArith Bool Arith Lia.
From PK Require Import PyList ListFacts Episodes EpisodesFacts Stage StageEqns StageSpec StageFacts EpisodeSem ZInst.
Import ListNotations.
Close Scope Z_scope.
Open Scope nat_scope.

(* every row produced by transform has width n_states_out + n_inputs_out, for every
   stage tree, episode flag, and data matrix of the declared input width *)
Theorem C04_widths : forall (T : Type) (O : ops T) (s : stage T) (ep : bool) (d : dims) (X : dmat T),
  wf s d = true -> dwid (fst d + snd d) X ->
  dwid (fst (sdims s d) + snd (sdims s d)) (transform O s ep d X).
Proof. intros T O s. exact (transform_width O s). Qed.
Print Assumptions C04_widths.

(* in a chain each stage's input dims are the previous stage's output dims, and the
   pipeline reports its last stage's *)
Theorem C04_chain : forall (T : Type) (s : stage T) (c : chain T) (d : dims),
  cdims (CCons s c) d = cdims c (sdims s d) /\ sdims (Pipe (CCons s c)) d = cdims c (sdims s d)
  /\ cdims (CNil T) d = d.
Proof. intros. repeat split; reflexivity. Qed.
Print Assumptions C04_chain.

(* each episode of length n >= min_samples yields n - min_samples + 1 lifted samples *)
Theorem C04_samples : forall (T : Type) (O : ops T) (s : stage T) (d : dims) (X : dmat T) (i : N),
  valid (min_samples s) X -> In i (labels X) ->
  length (rows_of i (transform O s true d X)) = length (rows_of i X) + 1 - min_samples s.
Proof. intros T O s d X i. exact (@transform_sample_count T O s d X i). Qed.
Print Assumptions C04_samples.

Theorem C04_samples_single : forall (T : Type) (O : ops T) (s : stage T) (d : dims) (X : dmat T),
  min_samples s <= length X ->
  length (transform O s false d X) = length X + 1 - min_samples s.
Proof.
  intros T O s d X H.
  assert (Hr : forall Y : dmat T, length (rows Y) = length Y) by (intros; apply map_length).
  rewrite <- (Hr (transform O s false d X)), (transform_false O s d X).
  rewrite <- (Hr X) in *. exact (tf_ep_count O s d (rows X) H).
Qed.
Print Assumptions C04_samples_single.

(* min_samples_ = n_samples_in(1); n_samples_in is additive over stages *)
Theorem C04_min_samples : forall (T : Type) (s : stage T), min_samples s = samples_in s 1.
Proof. reflexivity. Qed.
Print Assumptions C04_min_samples.

Theorem C04_additive : forall (T : Type) (s : stage T) (n : nat),
  samples_in s n = n + (min_samples s - 1).
Proof. intros T s n. exact (samples_in_additive s n). Qed.
Print Assumptions C04_additive.

Theorem C04_compose : forall (T : Type) (s : stage T) (c xs us : chain T) (n : nat),
  csamples_in (CCons s c) n = samples_in s (csamples_in c n)
  /\ samples_in (Split xs us) n = Nat.max (csamples_in xs n) (csamples_in us n)
  /\ samples_in (Pipe c) n = csamples_in c n.
Proof. intros. repeat split; reflexivity. Qed.
Print Assumptions C04_compose.

(* non-vacuity: a nested pipeline with delays, a split and a polynomial *)
Definition c04_stage : zstage :=
  Pipe (CCons (Leaf (LDelay Z 1 2))
       (CCons (Split (CCons (Leaf (LPoly Z [[1;0];[0;1];[2;0];[1;1];[0;2]]%nat)) (CNil Z))
                     (CCons (Leaf (LDelay Z 0 1)) (CNil Z))) (CNil Z))).
Example C04_example :
  wf c04_stage (1, 1) = true /\ sdims c04_stage (1, 1) = (5, 6) /\ min_samples c04_stage = 4.
Proof. vm_compute. repeat split; reflexivity. Qed.
