(* C04 — Declared dimensions and sample counts match the arrays produced.
   Only statements, closed by [exact]; proofs live in StageFacts.v / EpisodeSem.v. *)
From Coq Require Import List ZArith NArith Bool Arith Lia.
From PK Require Import PyList ListFacts Episodes EpisodesFacts Stage StageEqns StageSpec StageFacts EpisodeSem ZInst.
Import ListNotations.
Close Scope Z_scope.
Open Scope nat_scope.

(* every row produced by transform has width n_states_out + n_inputs_out, for every
   stage tree, episode flag, and data matrix of the declared input width *)
Theorem C04_widths : forall (T : Type) (O : ops T) (s : stage T) (ep : bool) (d : dims) (X : dmat T),
  wf s d = true -> dwid (fst d + snd d) X ->
  dwid (fst (sdims s d) + snd (sdims s d)) (transform O s ep d X).
Proof. intros T O s. exact (transform_width O s). Qed.
Print Assumptions C04_widths.

(* in a chain each stage's input dims are the previous stage's output dims, and the
   pipeline reports its last stage's *)
Theorem C04_chain : forall (T : Type) (s : stage T) (c : chain T) (d : dims),
  cdims (CCons s c) d = cdims c (sdims s d) /\ sdims (Pipe (CCons s c)) d = cdims c (sdims s d)
  /\ cdims (CNil T) d = d.
Proof. intros. repeat split; reflexivity. Qed.
Print Assumptions C04_chain.

(* each episode of length n >= min_samples yields n - min_samples + 1 lifted samples *)
Theorem C04_samples : forall (T : Type) (O : ops T) (s : stage T) (d : dims) (X : dmat T) (i : N),
  valid (min_samples s) X -> In i (labels X) ->
  length (rows_of i (transform O s true d X)) = length (rows_of i X) + 1 - min_samples s.
Proof. intros T O s d X i. exact (@transform_sample_count T O s d X i). Qed.
Print Assumptions C04_samples.

Theorem C04_samples_single : forall (T : Type) (O : ops T) (s : stage T) (d : dims) (X : dmat T),
  min_samples s <= length X ->
  length (transform O s false d X) = length X + 1 - min_samples s.
Proof.
  intros T O s d X H.
  assert (Hr : forall Y : dmat T, length (rows Y) = length Y) by (intros; apply map_length).
  rewrite <- (Hr (transform O s false d X)), (transform_false O s d X).
  rewrite <- (Hr X) in *. exact (tf_ep_count O s d (rows X) H).
Qed.
Print Assumptions C04_samples_single.

(* min_samples_ = n_samples_in(1); n_samples_in is additive over stages *)
Theorem C04_min_samples : forall (T : Type) (s : stage T), min_samples s = samples_in s 1.
Proof. reflexivity. Qed.
Print Assumptions C04_min_samples.

Theorem C04_additive : forall (T : Type) (s : stage T) (n : nat),
  samples_in s n = n + (min_samples s - 1).
Proof. intros T s n. exact (samples_in_additive s n). Qed.
Print Assumptions C04_additive.

Theorem C04_compose : forall (T : Type) (s : stage T) (c xs us : chain T) (n : nat),
  csamples_in (CCons s c) n = samples_in s (csamples_in c n)
  /\ samples_in (Split xs us) n = Nat.max (csamples_in xs n) (csamples_in us n)
  /\ samples_in (Pipe c) n = csamples_in c n.
Proof. intros. repeat split; reflexivity. Qed.
Print Assumptions C04_compose.

(* non-vacuity: a nested pipeline with delays, a split and a polynomial *)
Definition c04_stage : zstage :=
  Pipe (CCons (Leaf (LDelay Z 1 2))
       (CCons (Split (CCons (Leaf (LPoly Z [[1;0];[0;1];[2;0];[1;1];[0;2]]%nat)) (CNil Z))
                     (CCons (Leaf (LDelay Z 0 1)) (CNil Z))) (CNil Z))).
Example C04_example :
  wf c04_stage (1, 1) = true /\ sdims c04_stage (1, 1) = (5, 6) /\ min_samples c04_stage = 4.
Proof. vm_compute. repeat split; reflexivity. Qed.

(* ---------- the bookkeeping formulas obtained by SYMBOLIC EXECUTION of the working tree
   (tools/gen_dims.py -> Gen/Dims.v) are those of the model the theorems above are about *)
From PK Require Import BridgeC04.
From PK.Gen Require Import Dims.

Theorem C04_generated_delay : forall (T : Type) dx du ns nu n,
  let g := gen_delay_fit ns nu dx du in
  leaf_dims (@LDelay T dx du) (ns, nu) = (fst (fst g), snd (fst g)) /\
  leaf_samples_in (@LDelay T dx du) 1 = snd g /\
  leaf_samples_in (@LDelay T dx du) n = gen_delay_samples_in dx du n.
Proof.
  intros T dx du ns nu n. split; [apply gen_delay_model | split; [apply gen_delay_model | apply gen_delay_samples_in_model]].
Qed.
Print Assumptions C04_generated_delay.

Theorem C04_generated_leaves : forall (T : Type) id (centers : list (list T)) nf ns nu,
  leaf_dims (@LBilinear T) (ns, nu) = gen_bilinear_fit ns nu /\
  leaf_dims (@LConst T) (ns, nu) = gen_const_fit ns nu /\
  leaf_dims (LRbf id centers) (ns, nu) = gen_rbf_fit ns nu (length centers) /\
  leaf_dims (@LKernel T id nf) (ns, nu) = gen_kernel_fit ns nu nf /\
  leaf_dims (@LSk T id) (ns, nu) = gen_sk_fit ns nu.
Proof.
  intros. exact (conj (gen_bilinear_model T ns nu) (conj (gen_const_model T ns nu)
    (conj (gen_rbf_model T id centers ns nu) (conj (gen_kernel_model T id nf ns nu) (gen_sk_model T id ns nu))))).
Qed.
Print Assumptions C04_generated_leaves.

Theorem C04_generated_fit_attrs : forall nx nu nk (ep : bool),
  gen_indep_fit_attrs nx nu ep = (nx, nu, (if ep then 1 else 0) + nx + nu, 1) /\
  gen_dep_fit_attrs nx nu nk ep = (nx, nu, (if ep then 1 else 0) + nx + nu, nk).
Proof. exact gen_fit_attrs. Qed.
Print Assumptions C04_generated_fit_attrs.
