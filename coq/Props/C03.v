(* C03 — Episodes are never mixed and samples keep their temporal order.
   Only statements, closed by [exact]; proofs live in EpisodesFacts.v. *)
From Coq Require Import List ZArith NArith Bool Arith Permutation.
From PK Require Import PyList Episodes EpisodesFacts.
Import ListNotations.

(* Every "split, apply g per episode, combine" operation (all episode-dependent
   lifting functions, shift / extract / strip utilities) gives, for each episode
   label, exactly g of that episode alone: label unchanged, g's row order, and no
   row of any other episode. *)
Theorem C03_map_episodes : forall (A : Type) (g : list (list A) -> list (list A)) (X : dmat A) (i : N),
  In i (labels X) ->
  episode true i (map_episodes true g X) = g (episode true i X).
Proof. exact episode_map_episodes_true. Qed.
Print Assumptions C03_map_episodes.

Theorem C03_no_new_labels : forall (A : Type) (g : list (list A) -> list (list A)) (X : dmat A) (i : N),
  In i (labels (map_episodes true g X)) <-> In i (labels X) /\ g (rows_of i X) <> [].
Proof. exact labels_map_episodes_true. Qed.
Print Assumptions C03_no_new_labels.

Theorem C03_single_episode : forall (A : Type) (g : list (list A) -> list (list A)) (X : dmat A) (i : N),
  episode false i (map_episodes false g X) = g (rows X).
Proof. exact episode_map_episodes_false. Qed.
Print Assumptions C03_single_episode.

(* how episodes are arranged in the matrix (interleaved rows, block order) is
   irrelevant *)
Theorem C03_arrangement : forall (A : Type) (g : list (list A) -> list (list A)) (X X' : dmat A),
  Arranged X X' -> map_episodes true g X = map_episodes true g X'.
Proof. exact map_episodes_arranged. Qed.
Print Assumptions C03_arrangement.

(* unique_episodes: exactly the labels present, strictly ascending *)
Theorem C03_uniq : forall (ls : list N),
  ssorted (uniq ls) /\ (forall x, In x (uniq ls) <-> In x ls).
Proof. intros ls. split; [exact (uniq_sorted ls)|exact (uniq_In ls)]. Qed.
Print Assumptions C03_uniq.

(* combine (split X) regroups rows by label, keeping each episode's rows and order *)
Theorem C03_combine_split : forall (A : Type) (X : dmat A),
  Arranged (combine true (split true X)) X.
Proof. exact combine_split_arranged. Qed.
Print Assumptions C03_combine_split.

Theorem C03_split_combine : forall (A : Type) (eps : episodes A),
  ssorted (map fst eps) -> (forall e, In e eps -> snd e <> []) ->
  split true (combine true eps) = eps.
Proof. exact split_combine. Qed.
Print Assumptions C03_split_combine.

Example C03_example :
  map_episodes true (@tl _) [(5%N,[1]); (0%N,[2]); (5%N,[3]); (0%N,[4]); (5%N,[6])]%Z
  = [(0%N,[4]); (5%N,[3]); (5%N,[6])]%Z.
Proof. vm_compute. reflexivity. Qed.

(* ---------------------------------------------------------------- pipelines *)
From Coq Require Import Lia.
From PK Require Import Stage StageSpec StageFacts EpisodeSem ZInst.
Close Scope Z_scope.
Open Scope nat_scope.

(* For EVERY stage tree (any nesting of SplitPipeline / KoopmanPipeline, all
   lifting-function kinds), every dims and every data matrix whose episodes have at
   least min_samples rows: the rows carrying label i after transform are exactly
   the per-episode specification tf_ep applied to episode i alone — its own rows,
   in order; nothing from any other episode; whatever the arrangement of rows. *)
Theorem C03_pipeline_episode : forall (T : Type) (O : ops T) (s : stage T) (d : dims) (X : dmat T),
  valid (min_samples s) X ->
  forall i, rows_of i (transform O s true d X) = tf_ep O s d (rows_of i X).
Proof. intros T O s. exact (transform_true O s). Qed.
Print Assumptions C03_pipeline_episode.

(* without an episode feature the whole matrix is one episode (no premise needed) *)
Theorem C03_pipeline_single : forall (T : Type) (O : ops T) (s : stage T) (d : dims) (X : dmat T),
  rows (transform O s false d X) = tf_ep O s d (rows X).
Proof. intros T O s. exact (transform_false O s). Qed.
Print Assumptions C03_pipeline_single.

Theorem C03_pipeline_labels : forall (T : Type) (O : ops T) (s : stage T) (d : dims) (X : dmat T),
  valid (min_samples s) X -> forall i, In i (labels (transform O s true d X)) <-> In i (labels X).
Proof. intros T O s d X. exact (transform_labels O s d (X:=X)). Qed.
Print Assumptions C03_pipeline_labels.

Theorem C03_pipeline_arrangement : forall (T : Type) (O : ops T) (s : stage T) (d : dims) (X X' : dmat T),
  Arranged X X' -> valid (min_samples s) X ->
  Arranged (transform O s true d X) (transform O s true d X').
Proof. intros T O s d X X'. exact (@transform_arranged T O s d X X'). Qed.
Print Assumptions C03_pipeline_arrangement.

(* Recorded finding F12: the premise "every episode has min_samples rows" cannot be
   dropped.  A SplitPipeline zips its branches BY POSITION; episode 0 (2 rows) yields
   no rows in the delayed state branch, and episode 1's lifted states are then paired
   with episode 0's inputs.  Witness evaluated by the kernel; replayed on the
   implementation on every run (harness/known.py: witness_F12). *)
Definition f12_stage : zstage :=
  Split (CCons (Leaf (LDelay Z 2 2)) (CNil Z)) (CNil Z).
Definition f12_X : dmat Z :=
  [(0%N,[1;10]); (0%N,[2;20]); (1%N,[3;30]); (1%N,[4;40]); (1%N,[5;50]); (1%N,[6;60]); (1%N,[7;70])]%Z.
Theorem C03_split_zip_refuted :
  exists i, rows_of i (ztransform f12_stage true (1, 1) f12_X)
            <> tf_ep zops f12_stage (1, 1) (rows_of i f12_X).
Proof. exists 1%N. vm_compute. discriminate. Qed.
Print Assumptions C03_split_zip_refuted.

Example C03_pipeline_example :
  valid (min_samples f12_stage) (skipn 2 f12_X) /\
  rows_of 1%N (ztransform f12_stage true (1, 1) (skipn 2 f12_X)) = [[5;4;3;50]; [6;5;4;60]; [7;6;5;70]]%Z.
Proof.
  split; [|vm_compute; reflexivity].
  intros i Hi. cbn in Hi. repeat (destruct Hi as [<-|Hi]; [vm_compute; lia|]). destruct Hi.
Qed.

(* ---------- about the code itself: the episode utilities as REGENERATED from the source on this
   run (tools/gen_episodes.py -> Gen/EpisodesGen.v) are map_episodes of per-episode numpy slices,
   so C03_map_episodes applies to them: one episode in, the same label out, order kept *)
From PK Require Import SliceLib BridgeEpisodes.
From PK.Gen Require Import EpisodesGen.

Theorem C03_generated_utilities : forall (T : Type) (ep : bool) w nu (X : dmat T),
  shift_episodes ep nu X
    = (map_episodes ep (gen_shift_unshifted_ep T nu) X, map_episodes ep (gen_shift_shifted_ep T nu) X) /\
  extract_ic ep w nu X = map_episodes ep (gen_extract_ic_ep T w nu) X /\
  strip_ic ep w X = map_episodes ep (gen_strip_ic_ep T w) X /\
  (forall E, (forall r, In r E -> length r = width E) ->
     gen_extract_input_ep T nu E = map (fun r => if Nat.eqb nu 0 then [] else skipn (length r - nu) r) E).
Proof.
  intros. repeat split; [apply gen_shift_episodes_model | apply gen_extract_ic_episodes_model
                        | apply gen_strip_ic_episodes_model | apply gen_extract_input_model].
Qed.
Print Assumptions C03_generated_utilities.

(* the frame itself - unique_episodes, split_episodes, combine_episodes as REGENERATED from the source on this run
   (labels whole numbers, data matrix as (label, row) pairs; np.bincount / np.flatnonzero / boolean-mask row selection /
   hstack of the label column / vstack with their numpy meaning in SliceLib.v) - is the model's uniq / split / combine,
   for every data matrix, labelling and arrangement; hence "split, apply per episode keeping the label, combine" over
   the generated functions is map_episodes, to which every theorem above applies *)
Theorem C03_generated_frame : forall (T : Type) (ep : bool) (X : dmat T) (eps : episodes T)
    (g : list (list T) -> list (list T)),
  gen_unique_episodes (labels X) = uniq (labels X) /\
  gen_split_episodes T X ep = split ep X /\
  gen_combine_episodes T eps ep = combine ep eps /\
  gen_combine_episodes T (map (fun e => (fst e, g (snd e))) (gen_split_episodes T X ep)) ep = map_episodes ep g X.
Proof.
  intros. repeat split; [apply gen_unique_episodes_model | apply gen_split_episodes_model
                        | apply gen_combine_episodes_model | apply gen_frame_model].
Qed.
Print Assumptions C03_generated_frame.

(* non-vacuity: the generated frame runs (interleaved rows, labels with a gap) *)
Example C03_generated_frame_example :
  gen_split_episodes Z [(5%N, [1%Z]); (2%N, [2%Z]); (5%N, [3%Z]); (2%N, [4%Z])] true
  = [(2%N, [[2%Z]; [4%Z]]); (5%N, [[1%Z]; [3%Z]])].
Proof. vm_compute. reflexivity. Qed.
