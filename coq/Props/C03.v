(* C03 — Episodes are never mixed and samples keep their temporal order.
   Only statements, closed by [exact]; proofs live in EpisodesFacts.v. *)
From Coq Require Import List ZArith NArith Bool Arith Permutation.
From PK Require Import PyList Episodes EpisodesFacts.
Import ListNotations.

(* Every "split, apply g per episode, combine" operation (all episode-dependent
   lifting functions, shift / extract / strip utilities) gives, for each episode
   label, exactly g of that episode alone: label unchanged, g's row order, and no
   row of any other episode. *)
Theorem C03_map_episodes : forall (A : Type) (g : list (list A) -> list (list A)) (X : dmat A) (i : N),
  In i (labels X) ->
  episode true i (map_episodes true g X) = g (episode true i X).
Proof. exact episode_map_episodes_true. Qed.
Print Assumptions C03_map_episodes.

Theorem C03_no_new_labels : forall (A : Type) (g : list (list A) -> list (list A)) (X : dmat A) (i : N),
  In i (labels (map_episodes true g X)) <-> In i (labels X) /\ g (rows_of i X) <> [].
Proof. exact labels_map_episodes_true. Qed.
Print Assumptions C03_no_new_labels.

Theorem C03_single_episode : forall (A : Type) (g : list (list A) -> list (list A)) (X : dmat A) (i : N),
  episode false i (map_episodes false g X) = g (rows X).
Proof. exact episode_map_episodes_false. Qed.
Print Assumptions C03_single_episode.

(* how episodes are arranged in the matrix (interleaved rows, block order) is
   irrelevant *)
Theorem C03_arrangement : forall (A : Type) (g : list (list A) -> list (list A)) (X X' : dmat A),
  Arranged X X' -> map_episodes true g X = map_episodes true g X'.
Proof. exact map_episodes_arranged. Qed.
Print Assumptions C03_arrangement.

(* unique_episodes: exactly the labels present, strictly ascending *)
Theorem C03_uniq : forall (ls : list N),
  ssorted (uniq ls) /\ (forall x, In x (uniq ls) <-> In x ls).
Proof. intros ls. split; [exact (uniq_sorted ls)|exact (uniq_In ls)]. Qed.
Print Assumptions C03_uniq.

(* combine (split X) regroups rows by label, keeping each episode's rows and order *)
Theorem C03_combine_split : forall (A : Type) (X : dmat A),
  Arranged (combine true (split true X)) X.
Proof. exact combine_split_arranged. Qed.
Print Assumptions C03_combine_split.

Theorem C03_split_combine : forall (A : Type) (eps : episodes A),
  ssorted (map fst eps) -> (forall e, In e eps -> snd e <> []) ->
  split true (combine true eps) = eps.
Proof. exact split_combine. Qed.
Print Assumptions C03_split_combine.

Example C03_example :
  map_episodes true (@tl _) [(5%N,[1]); (0%N,[2]); (5%N,[3]); (0%N,[4]); (5%N,[6])]%Z
  = [(0%N,[4]); (5%N,[3]); (5%N,[6])]%Z.
Proof. vm_compute. reflexivity. Qed.
