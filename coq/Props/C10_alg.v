(* C10 (algebraic companion, mathcomp): the 4x4 block that the H-infinity builders hand to the
   solver (LmiBlocks.hinf_block, compared with the code on every run, with the plant or its
   cascade with a weight from the model of _create_ss) as a quadratic form on [a; b; c; d]. *)
From mathcomp Require Import all_ssreflect all_algebra.
From PK.Alg Require Import LmiQuad.
Set Implicit Arguments.
Unset Strict Implicit.
Import GRing.Theory.
Local Open Scope ring_scope.

Theorem C10_block_is_quadratic_form (R : comRingType) n m l (P A : 'M[R]_n) (B : 'M[R]_(n, m))
  (C : 'M[R]_(l, n)) (D : 'M[R]_(l, m)) (g : R) (a b : 'cV[R]_n) (c : 'cV[R]_m) (d : 'cV[R]_l) :
  (col_mx (col_mx a b) (col_mx c d))^T *m hinf_block_mx P A B C D g *m col_mx (col_mx a b) (col_mx c d)
  = a^T *m P *m a + b^T *m P^T *m A^T *m a + c^T *m B^T *m a
    + (a^T *m A *m P *m b + b^T *m P *m b + d^T *m C *m P^T *m b)
    + (a^T *m B *m c + (c^T *m g%:M *m c + d^T *m D *m c)
       + (b^T *m P *m C^T *m d + (c^T *m D^T *m d + d^T *m g%:M *m d))).
Proof. exact: hinf_block_quad. Qed.
Print Assumptions C10_block_is_quadratic_form.

(* ---------- about the code itself: the 4 x 4 blocks that LmiEdmdHinfReg / LmiDmdcHinfReg hand to the solver in both
   sub-problems, as REGENERATED from the source on this run (tools/gen_lmi_hinf.py -> Gen/LmiHinfGen.v; A, B, C, D are what
   _create_ss returns for the Koopman matrix and the weight, gamma_33 / gamma_44 are gamma times the identity, the
   constraint is `>> picos_eps`, problem B also constrains P >> picos_eps), ARE the bounded-real block above *)
From PK Require Import BridgeLmiHinf.
From PK.Gen Require Import LmiHinfGen.

Theorem C10_generated_blocks (F : fieldType) n m l (P A : 'M[F]_n) (B : 'M[F]_(n, m)) (C : 'M[F]_(l, n)) (D : 'M[F]_(l, m)) (g : F) :
  gen_hinf_edmd_a P A B C D g = hinf_block_mx P A B C D g /\ gen_hinf_edmd_b P A B C D g = hinf_block_mx P A B C D g
  /\ gen_hinf_dmdc_a P A B C D g = hinf_block_mx P A B C D g /\ gen_hinf_dmdc_b P A B C D g = hinf_block_mx P A B C D g.
Proof. exact: gen_hinf_model. Qed.
Print Assumptions C10_generated_blocks.
