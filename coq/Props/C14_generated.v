(* C14 - the rank selection of Tsvd.fit and the slicing of its three factors as REGENERATED from the source on every run
   (tools/gen_tsvd.py -> Gen/TsvdGen.v: the if / elif chain on self.truncation - all singular values for 'economy', the
   parameter for 'rank', largest index above the cutoff plus one (or zero) for 'cutoff', the optht oracle for the two
   noise rules - and Q[:, :rank], sig[:rank], Z[:, :rank]) ARE `rank_rule` / `truncate` of the model (TsvdModel.v), about
   which Props/C14.v speaks (economy keeps all, rank keeps min(r, full), every kept value exceeds the cutoff and every
   discarded one does not), for every list of singular values over any ordered type.  Proofs in BridgeTsvd.v. *)
From Coq Require Import List Bool Arith ZArith.
From PK Require Import PyList TsvdModel BridgeTsvd.
From PK.Gen Require Import TsvdGen.
Import ListNotations.

Theorem C14_generated_rank : forall (Sv : Type) (ltb : Sv -> Sv -> bool) method rank_param cutoff_param oracle (sig : list Sv),
  gen_tsvd_rank Sv ltb method rank_param cutoff_param oracle sig
  = rank_rule ltb (truncation_of Sv method rank_param cutoff_param oracle) sig.
Proof. exact gen_tsvd_rank_model. Qed.
Print Assumptions C14_generated_rank.

Theorem C14_generated_factors : forall (Sv : Type) (ltb : Sv -> Sv -> bool) (A B : Type) method rank_param cutoff_param oracle
    (Qcols : list A) (sig : list Sv) (Zcols : list B),
  let tr := truncation_of Sv method rank_param cutoff_param oracle in
  gen_tsvd_factors Sv ltb A B method rank_param cutoff_param oracle Qcols sig Zcols
  = (truncate ltb tr sig Qcols, retained ltb tr sig, truncate ltb tr sig Zcols).
Proof. exact gen_tsvd_factors_model. Qed.
Print Assumptions C14_generated_factors.

(* non-vacuity: singular values 5 3 3 1 with cutoff 3 (a tie: 3 does not exceed 3) keep one value; rank 2 keeps two;
   economy keeps four; a cutoff above all keeps none *)
Example C14_generated_example :
  gen_tsvd_rank Z Z.ltb M_cutoff 0 3%Z 0 [5; 3; 3; 1]%Z = 1
  /\ gen_tsvd_rank Z Z.ltb M_cutoff 0 0%Z 0 [5; 3; 3; 1]%Z = 4
  /\ gen_tsvd_rank Z Z.ltb M_cutoff 0 9%Z 0 [5; 3; 3; 1]%Z = 0
  /\ gen_tsvd_rank Z Z.ltb M_rank 2 0%Z 0 [5; 3; 3; 1]%Z = 2
  /\ gen_tsvd_rank Z Z.ltb M_economy 0 0%Z 0 [5; 3; 3; 1]%Z = 4
  /\ gen_tsvd_factors Z Z.ltb nat nat M_rank 2 0%Z 0 [10; 11; 12; 13] [5; 3; 3; 1]%Z [20; 21; 22; 23]
     = ([10; 11], [5; 3]%Z, [20; 21]).
Proof. vm_compute. repeat split; reflexivity. Qed.
