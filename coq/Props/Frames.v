(* C01-C05, C07, C16 - the episode-level glue of pykoop/koopman_pipeline.py, REGENERATED from the source on every
   run (tools/gen_frames.py -> Gen/FramesGen.v, on top of the generated split_episodes / combine_episodes of
   tools/gen_episodes.py), IS the model: the two `_apply_transform_or_inverse`, the folds of
   KoopmanPipeline.transform / inverse_transform / n_samples_in over the fitted stages, SplitPipeline.transform /
   inverse_transform / n_samples_in (column split per episode, one fold per branch, trailing-aligned zip by position)
   and KoopmanRegressor.predict.  Statements only; the proofs are in BridgeFrames.v.  [chain_tf] / [chain_itf] /
   [chain_nsi]: the lists of per-stage functions of a chain of the model. *)
From Coq Require Import List ZArith NArith Arith Bool.
From PK Require Import PyList SliceLib Episodes Stage Helpers BridgeStages BridgeFrames ZInst.
From PK.Gen Require Import EpisodesGen FramesGen StagesGen.
Import ListNotations.

Theorem Frames_episode_independent : forall (T : Type) (b : bool) (f0 g0 : list T -> list T) (X : dmat T),
  gen_indep_apply T b (map f0) (map g0) X = rowwise (if b then f0 else g0) X.
Proof. exact gen_indep_apply_model. Qed.
Print Assumptions Frames_episode_independent.

Theorem Frames_episode_dependent : forall (T : Type) (ep b : bool) (tf itf : list (list T) -> list (list T)) (X : dmat T),
  gen_dep_apply T ep b tf itf X = map_episodes ep (if b then tf else itf) X.
Proof. exact gen_dep_apply_model. Qed.
Print Assumptions Frames_episode_dependent.

Theorem Frames_pipeline : forall (T : Type) (O : ops T) (c : chain T) (ep : bool) (d : dims) (X : dmat T) (n : nat),
  gen_pipeline_transform T (chain_tf T O c ep d) X = ctransform O c ep d X
  /\ gen_pipeline_inverse T (chain_itf T O c ep d) X = cinverse O c ep d X
  /\ gen_pipeline_n_samples_in (chain_nsi T c) n = csamples_in c n.
Proof.
  intros. split; [apply gen_pipeline_transform_model | split; [apply gen_pipeline_inverse_model | apply gen_pipeline_n_samples_in_model]].
Qed.
Print Assumptions Frames_pipeline.

Theorem Frames_split_pipeline : forall (T : Type) (O : ops T) (xs us : chain T) (ep : bool) (ns nu : nat) (X : dmat T) (n : nat),
  gen_split_transform T ep ns (chain_tf T O xs ep (ns, 0%nat)) (chain_tf T O us ep (0%nat, nu)) X = transform O (Split xs us) ep (ns, nu) X
  /\ gen_split_inverse T ep (fst (sdims (Split xs us) (ns, nu))) (chain_itf T O xs ep (ns, 0%nat)) (chain_itf T O us ep (0%nat, nu)) X
     = inverse O (Split xs us) ep (ns, nu) X
  /\ gen_split_n_samples_in (chain_nsi T xs) (chain_nsi T us) n = samples_in (Split xs us) n.
Proof.
  intros. split; [apply gen_split_transform_model | split; [apply gen_split_inverse_model | apply gen_split_n_samples_in_model]].
Qed.
Print Assumptions Frames_split_pipeline.

Theorem Frames_regressor_predict : forall (T : Type) (O : ops T) (f : fitted T) (coef : list (list T)) (X : dmat T),
  gen_regressor_predict T (f_ep f) coef (fun E M => map (fun r => vecmat O (fst (f_out f)) r M) E) X = reg_predict O f coef X.
Proof. exact gen_regressor_predict_model. Qed.
Print Assumptions Frames_regressor_predict.

(* KoopmanPipeline.predict (the one-step prediction of C07): lift, regressor, zero lifted inputs, retract, keep the
   state columns; the generated function works on (label, row) pairs, the model returns the raw array *)
Theorem Frames_pipeline_predict : forall (T : Type) (O : ops T) (f : fitted T) (coef : list (list T)) (R : list (list T)),
  to_raw O (f_ep f)
    (gen_pipeline_predict T (op_t0 O) (tf O (f_stage f) (f_ep f) (f_dims f)) (reg_predict O f coef) (snd (f_out f))
       (itf O (f_stage f) (f_ep f) (f_dims f)) (snd (f_dims f)) (b2n (f_ep f) + fst (f_dims f) + snd (f_dims f)) (f_ep f)
       (of_raw O (f_ep f) R))
  = predict O f coef R.
Proof. exact gen_pipeline_predict_model. Qed.
Print Assumptions Frames_pipeline_predict.

(* end to end, glue and per-episode function both generated *)
Theorem Frames_delay_stage : forall (T : Type) (O : ops T) (ep : bool) (ns nu dx du : nat)
    (g : list (list T) -> list (list T)) (X : dmat T),
  transform O (Leaf (LDelay T dx du)) ep (ns, nu) X = gen_dep_apply T ep true (gen_delay_transform T ns dx du) g X.
Proof. exact delay_stage_generated. Qed.
Print Assumptions Frames_delay_stage.

Theorem Frames_bilinear_stage : forall (T : Type) (O : ops T) (ep : bool) (ns nu : nat)
    (g : list (list T) -> list (list T)) (X : dmat T), rect T (ns + nu) (rows X) ->
  transform O (Leaf (LBilinear T)) ep (ns, nu) X
  = gen_indep_apply T true (gen_bilinear_transform T (op_t0 O) (op_mul O) ns nu) g X.
Proof. exact bilinear_stage_generated. Qed.
Print Assumptions Frames_bilinear_stage.

(* non-vacuity: the generated SplitPipeline.transform runs: state branch delayed once, input branch untouched, two
   interleaved episodes; the branches are aligned on the trailing samples *)
Example Frames_example :
  gen_split_transform Z true 1
    [fun X => map_episodes true (gen_delay_transform Z 1 1 0) X] []
    [(3%N, [1; 10]); (0%N, [5; 50]); (3%N, [2; 20]); (0%N, [6; 60]); (3%N, [3; 30])]%Z
  = [(0%N, [6; 5; 60]); (3%N, [2; 1; 20]); (3%N, [3; 2; 30])]%Z.
Proof. vm_compute. reflexivity. Qed.
