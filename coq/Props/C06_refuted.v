(* C06 - recorded finding F16 (statement only; the witness is computed by the kernel in RefutedDmd.v). *)
From Coq Require Import List QArith ZArith Bool.
Import ListNotations.
(* ---------- recorded finding F16: the recovery clause fails for Dmd / Dmdc with mode_type='exact' when A is
   singular.  The code rebuilds A from the modes as V diag(lambda) V^+ ; the exact mode of a zero eigenvalue
   is the zero vector.  Kernel-computed witness over Q: A = [[0,1],[0,1]] is diagonalisable, the projected
   reconstruction returns A, the exact one returns [[1/2,1/2],[1/2,1/2]]. *)
From PK Require Import QMat RefutedDmd.
Theorem C06_exact_mode_recovery_refuted :
  qmul f16_A f16_W = qmul f16_W f16_L
  /\ qmul f16_W f16_Winv = qeye 2 1%Q
  /\ qmul (qmul f16_W f16_L) f16_Winv = f16_A
  /\ penrose f16_V f16_Vp
  /\ qmul (qmul f16_V f16_L) f16_Vp = [[(1 # 2)%Q; (1 # 2)%Q]; [(1 # 2)%Q; (1 # 2)%Q]]
  /\ qmul (qmul f16_V f16_L) f16_Vp <> f16_A.
Proof. exact f16_exact_modes_singular. Qed.
Print Assumptions C06_exact_mode_recovery_refuted.
