(* C01-C04, C16 - the per-episode transforms of pykoop/lifting_functions.py, REGENERATED from the source on
   every run (tools/gen_stages.py -> Gen/StagesGen.v: numpy slices over Z, hstack / concatenate / vstack /
   split, the broadcasting product, the append loops), ARE the leaf semantics of the model (Stage.v), so the
   theorems of C01-C04 and C16 about `transform` / `inverse` speak about this code.  Statements only; the
   proofs are in BridgeStages.v.  `rect w E`: numpy arrays are rectangular (every row has w cells). *)
From Coq Require Import List ZArith Arith Bool.
From PK Require Import PyList SliceLib Episodes Stage BridgeStages BridgeAngle ZInst.
From PK.Gen Require Import StagesGen.
Import ListNotations.

(* DelayLiftingFn.transform: split / _transform_one_ep per episode / combine *)
Theorem Stages_delay_transform : forall (T : Type) (O : ops T) (ep : bool) (ns nu dx du : nat) (X : dmat T),
  leaf_transform O (LDelay T dx du) ep (ns, nu) X = map_episodes ep (gen_delay_transform T ns dx du) X.
Proof. exact leaf_delay_generated. Qed.
Print Assumptions Stages_delay_transform.

(* DelayLiftingFn._inverse_transform_one_ep with the declared n_states_out_ *)
Theorem Stages_delay_inverse : forall (T : Type) (ns nu dx du w : nat) (E : list (list T)),
  rect T w E -> E <> [] ->
  undelay_ep (ns, nu) dx du E = gen_delay_inverse T (fst (leaf_dims (LDelay T dx du) (ns, nu))) dx du E.
Proof. exact leaf_undelay_generated. Qed.
Print Assumptions Stages_delay_inverse.

(* DelayLiftingFn._delay, for every matrix and every number of delays (also more delays than rows) *)
Theorem Stages_delay : forall (T : Type) (n : nat) (E : list (list T)), gen_delay T n E = delay n E.
Proof. exact gen_delay_model. Qed.
Print Assumptions Stages_delay.

(* BilinearInputLiftingFn (both directions) and ConstantLiftingFn.transform *)
Theorem Stages_rowwise : forall (T : Type) (O : ops T) (ns nu : nat) (E : list (list T)), rect T (ns + nu) E ->
  map (leaf_row O (LBilinear T) (ns, nu)) E = gen_bilinear_transform T (op_t0 O) (op_mul O) ns nu E
  /\ map (leaf_inv_row O (LBilinear T) (ns, nu)) E = gen_bilinear_inverse T ns nu E
  /\ map (leaf_row O (LConst T) (ns, nu)) E = gen_const_transform T (op_t1 O) ns E.
Proof. exact leaf_rowwise_generated. Qed.
Print Assumptions Stages_rowwise.

(* inverse of ConstantLiftingFn, RbfLiftingFn, KernelApproxLiftingFn, PolynomialLiftingFn (the last with the
   inverse_transform_order_ the fit computes: arange(0, ns) ++ arange(n_states_out, n_states_out + nu)) *)
Theorem Stages_inverse : forall (T : Type) (O : ops T) (ns nu : nat) (E : list (list T)),
  map (leaf_inv_row O (LConst T) (ns, nu)) E = gen_const_inverse T ns nu E
  /\ (forall id centers, map (leaf_inv_row O (LRbf id centers) (ns, nu)) E
        = gen_rbf_inverse T (fst (leaf_dims (LRbf id centers) (ns, nu))) ns nu E)
  /\ (forall id nf, map (leaf_inv_row O (LKernel T id nf) (ns, nu)) E
        = gen_kernel_inverse T (fst (leaf_dims (LKernel T id nf) (ns, nu))) ns nu E)
  /\ (forall powers, map (leaf_inv_row O (LPoly T powers) (ns, nu)) E
        = gen_poly_inverse T (op_t0 O) (seq 0 ns ++ seq (fst (leaf_dims (LPoly T powers) (ns, nu))) nu) E).
Proof. exact leaf_inverse_generated. Qed.
Print Assumptions Stages_inverse.

(* KernelApproxLiftingFn.transform around its wrapped kernel approximation F (feature j of a row = kern id j) *)
Theorem Stages_kernel_frame : forall (T : Type) (O : ops T) (ns nu id nf : nat)
    (F : list (list T) -> list (list T)) (E : list (list T)),
  F E = map (fun r => map (fun j => op_kern O id j r) (seq 0 nf)) E ->
  map (leaf_row O (LKernel T id nf) (ns, nu)) E = gen_kernel_transform T F ns E.
Proof. exact leaf_kernel_generated. Qed.
Print Assumptions Stages_kernel_frame.

(* PolynomialLiftingFn.transform around PolynomialFeatures F (one monomial per row of powers_), reordered by
   the transform_order_ of the model's fit bookkeeping *)
Theorem Stages_poly_frame : forall (T : Type) (O : ops T) (ns nu : nat) (powers : list (list nat))
    (F : list (list T) -> list (list T)) (E : list (list T)),
  F E = map (fun r => map (fun p => monomial O p r) powers) E ->
  map (leaf_row O (LPoly T powers) (ns, nu)) E
  = gen_poly_transform T (op_t0 O) F (poly_order (poly_fit_of powers (ns, nu))) E.
Proof. exact leaf_poly_generated. Qed.
Print Assumptions Stages_poly_frame.

(* AnglePreprocessor (pykoop/util.py): boolean-mask gather / scatter between the input columns and the linear / cos / sin
   output columns.  [out_lin m], [out_cos m], [out_sin m]: the output masks the fit computes from the input mask m (one
   linear column where the input is not an angle, a (cos, sin) pair where it is; the harness compares the fitted masks
   with them on every generated case).  The inverse is stated without unwrapping (with it, np.unwrap is applied to the
   recovered angles first). *)
Theorem Stages_angle : forall (T : Type) (O : ops T) (m : list bool) (a b : nat) (X : list (list T))
    (unwrap0 : list (list T) -> list (list T)),
  ((forall r, In r X -> length r = length m) -> (a + b)%nat = length (out_lin m) ->
   gen_angle_transform T (op_t0 O) (op_cos O) (op_sin O) a b m (out_lin m) (out_cos m) (out_sin m) X = map (angle_row O m) X)
  /\ ((forall r, In r X -> length r = length (out_lin m)) -> (a + b)%nat = length m ->
      gen_angle_inverse T (op_t0 O) (op_atan2 O) unwrap0 false a b m (out_lin m) (out_cos m) (out_sin m) X
      = map (angle_inv_row O m) X).
Proof. intros. split; [apply gen_angle_transform_model | apply gen_angle_inverse_model]. Qed.
Print Assumptions Stages_angle.

(* non-vacuity: the generated code runs (state delayed twice, input once; then undone) *)
Example Stages_example :
  gen_delay_transform Z 1 2 1 [[1; 10]; [2; 20]; [3; 30]; [4; 40]]%Z = [[3; 2; 1; 30; 20]; [4; 3; 2; 40; 30]]%Z
  /\ gen_delay_inverse Z 3 2 1 [[3; 2; 1; 30; 20]; [4; 3; 2; 40; 30]]%Z = [[2; 20]; [3; 30]; [4; 40]]%Z
  /\ gen_bilinear_transform Z 0%Z Z.mul 2 1 [[2; 3; 5]]%Z = [[2; 3; 5; 10; 15]]%Z.
Proof. vm_compute. repeat split. Qed.
