(* C16 - the six helpers of KoopmanLiftingFn as REGENERATED from the source on every run (tools/gen_helpers.py ->
   Gen/HelpersGen.v: raw arrays with the label in column 0, the call-time flag an option, numpy padding / slicing with
   its numpy meaning) ARE the helpers of the model (Helpers.v), about which Props/C16.v speaks.  Statements only; the
   proofs are in BridgeHelpers.v.  [split_raw] / [combine_raw]: split_episodes / combine_episodes on raw arrays
   (the generated ones of tools/gen_episodes.py composed with the label-column conversion).  [nonempty_rows]:
   `X[:, [0]]` needs a column 0; with an episode feature every row starts with its label. *)
From Coq Require Import List ZArith NArith Bool Arith.
From PK Require Import PyList SliceLib Episodes Stage Helpers BridgeHelpers.
From PK.Gen Require Import HelpersGen.
Import ListNotations.

Theorem C16_generated_lift_retract : forall (T : Type) (O : ops T) (f : fitted T) (call : option bool) (R : list (list T)),
  gen_lift T (op_t0 O) (f_ep f) (transform_raw O f) (split_raw T O) (combine_raw T O) call R = lift O f call R
  /\ gen_retract T (op_t0 O) (f_ep f) (inverse_raw O f) (split_raw T O) (combine_raw T O) call R = retract O f call R.
Proof. intros. split; [apply gen_lift_model | apply gen_retract_model]. Qed.
Print Assumptions C16_generated_lift_retract.

Theorem C16_generated_state_helpers : forall (T : Type) (O : ops T) (f : fitted T) (call : option bool) (R : list (list T)),
  gen_lift_state T (op_t0 O) (f_ep f) (snd (f_dims f)) (lift O f) (fst (f_out f)) call R = lift_state O f call R
  /\ gen_retract_state T (op_t0 O) (f_ep f) (snd (f_out f)) (retract O f) (fst (f_dims f)) call R = retract_state O f call R.
Proof. intros. split; [apply gen_lift_state_model | apply gen_retract_state_model]. Qed.
Print Assumptions C16_generated_state_helpers.

Theorem C16_generated_lift_input : forall (T : Type) (O : ops T) (f : fitted T) (call : option bool) (R : list (list T)),
  (eff f call = true -> nonempty_rows T (lift O f (Some true) R)) ->
  gen_lift_input T (op_t0 O) (f_ep f) (lift O f) (fst (f_out f)) call R = lift_input O f call R.
Proof. exact gen_lift_input_model. Qed.
Print Assumptions C16_generated_lift_input.

Theorem C16_generated_retract_input : forall (T : Type) (O : ops T) (f : fitted T) (call : option bool) (R : list (list T)),
  (eff f call = true -> nonempty_rows T R /\
     nonempty_rows T (retract O f (Some true)
                      (map (fun r => firstn 1 r ++ repeat (op_t0 O) (fst (f_out f)) ++ skipn 1 r) R))) ->
  gen_retract_input T (op_t0 O) (f_ep f) (fst (f_out f)) (retract O f) (fst (f_dims f)) call R = retract_input O f call R.
Proof. exact gen_retract_input_model. Qed.
Print Assumptions C16_generated_retract_input.

(* non-vacuity: the generated lift_state runs on the fitted example of Props/C16.v (fitted WITH an episode feature,
   called with None) and returns what the implementation returns there *)
From PK Require Import ZInst.
Example C16_generated_example :
  gen_lift_state Z 0%Z true 1 (lift zops (Build_fitted (Pipe (CCons (Leaf (LPoly Z [[1;0];[0;1];[2;0];[1;1];[0;2]]%nat)) (CNil Z))) true (1%nat, 1%nat)))
                 2 None [[4;3]; [4;5]]%Z
  = [[4;3;9]; [4;5;25]]%Z.
Proof. vm_compute. reflexivity. Qed.
