(* C17 — Random feature maps approximate the kernel they are named after.
   Only statements, closed by [exact]; proofs live in BridgeC17.v (about the definitions
   REGENERATED from pykoop/kernel_approximation.py and lifting_functions.py by
   tools/gen_numeric.py), AlgR/Rff.v, AlgR/RffInt.v (Coquelicot) and SeedModel.v.

   What is proved: for every weight matrix W (given by its D columns), offsets, shape and
   every pair of points, the deterministic identities that reduce "z(x).z(y) is an unbiased
   estimate of k(x - y)" to the Fourier pair of the sampling distribution:
     weight_only   z(x).z(y) = (1/D) sum_j cos (sqrt(2 shape) w_j.(x - y)),   |z(x)| = 1
     weight_offset z(x).z(y) = that sum + (1/D) sum_j cos (p_j + q_j + 2 b_j), and the
                   extra term has mean zero for b uniform on [loc, loc + scale] as drawn by
                   fit, PROVIDED b is independent of w;
   and the seeding discipline that decides that independence.  Named assumptions (NOT
   proved, validated numerically by quadrature in the harness): the Fourier pairs
   E cos(w t) = exp(-t^2/2) for w ~ N(0,1), exp(-|t|) for w ~ Cauchy, 1/(1+t^2) for
   w ~ Laplace; and the law of large numbers / Hoeffding bound behind O(1/sqrt D). *)
From Coq Require Import Reals List.
From Coquelicot Require Import Coquelicot.
From PK.AlgR Require Import Rff NumLib.
From PK Require Import SeedModel BridgeC17.
From PK.Gen Require Import Numeric.
Import ListNotations.
Local Open Scope R_scope.

Theorem C17_weight_only_kernel_estimate : forall shape W offs X Y,
  (0 < length W)%nat -> length X = length Y ->
  dot (gen_rff_transform_weight_only shape (INR (length W)) W offs X)
      (gen_rff_transform_weight_only shape (INR (length W)) W offs Y)
  = (1 / INR (length W)) * Rsum (map (fun w => cos (sqrt (2 * shape) * dot (vsub X Y) w)) W).
Proof. exact gen_wo_kernel_estimate. Qed.
Print Assumptions C17_weight_only_kernel_estimate.

Theorem C17_weight_only_unit_norm : forall shape W offs X, (0 < length W)%nat ->
  dot (gen_rff_transform_weight_only shape (INR (length W)) W offs X)
      (gen_rff_transform_weight_only shape (INR (length W)) W offs X) = 1.
Proof. exact gen_wo_unit_norm. Qed.
Print Assumptions C17_weight_only_unit_norm.

Theorem C17_weight_offset_split : forall shape W offs X Y,
  (0 < length W)%nat -> length W = length offs ->
  let p := productsN W (scaled shape X) in
  let q := productsN W (scaled shape Y) in
  dot (gen_rff_transform_weight_offset shape (INR (length W)) W offs X)
      (gen_rff_transform_weight_offset shape (INR (length W)) W offs Y)
  = (1 / INR (length W)) * sum2 (fun a e => cos (a - e)) p q
    + (1 / INR (length W)) * sum3 (fun a e beta => cos (a + e + 2 * beta)) p q offs.
Proof. exact gen_off_split. Qed.
Print Assumptions C17_weight_offset_split.

(* the extra term averages to zero over an offset uniform on the interval fit draws from *)
Theorem C17_offset_term_mean_zero : forall c,
  RInt (fun beta => cos (c + 2 * beta)) gen_offsets_rvs_loc (gen_offsets_rvs_loc + gen_offsets_rvs_scale) = 0.
Proof. exact gen_offset_term_mean_zero. Qed.
Print Assumptions C17_offset_term_mean_zero.

Theorem C17_offset_pair_mean : forall a b,
  / gen_offsets_rvs_scale *
    RInt (fun beta => 2 * cos (a + beta) * cos (b + beta)) gen_offsets_rvs_loc
         (gen_offsets_rvs_loc + gen_offsets_rvs_scale)
  = cos (a - b).
Proof. exact gen_offset_pair_mean. Qed.
Print Assumptions C17_offset_pair_mean.

(* declared widths *)
Theorem C17_widths : forall shape W offs X,
  length (gen_rff_transform_weight_only shape (INR (length W)) W offs X)
    = gen_rff_n_features_out_weight_only (length W) /\
  (length W = length offs ->
   length (gen_rff_transform_weight_offset shape (INR (length W)) W offs X)
    = gen_rff_n_features_out_weight_offset (length W)).
Proof. intros; split; [apply gen_wo_width | apply gen_off_width]. Qed.
Print Assumptions C17_widths.

(* KernelApproxLiftingFn appends exactly the features after the original state and input *)
Theorem C17_lifting_layout : forall ns (kt : list R -> list R) X,
  gen_kernel_lift_row ns kt X = X ++ kt X.
Proof. exact gen_kernel_lift_layout. Qed.
Print Assumptions C17_lifting_layout.

(* seeding: a RandomState seed gives offsets drawn from stream positions disjoint from the
   weights' (independence); an integer seed re-reads the positions that produced the first
   weight row (recorded finding F4) *)
Theorem C17_randomstate_offsets_fresh : forall sd p d D q,
  In q (rff_weight_pos SState (sd, p) d D) -> ~ In q (rff_offset_pos SState (sd, p) d D).
Proof. exact rff_state_disjoint. Qed.
Print Assumptions C17_randomstate_offsets_fresh.

Theorem C17_int_seed_offsets_reuse_weight_draws_refuted : forall s st d D, (0 < d)%nat ->
  rff_offset_pos (SInt s) st d D = rff_weight_row (SInt s) st d D 0.
Proof. exact rff_int_seed_offsets_reuse_weights. Qed.
Print Assumptions C17_int_seed_offsets_reuse_weight_draws_refuted.

(* non-vacuity: a concrete configuration meeting the hypotheses *)
Local Close Scope R_scope.
Example C17_example :
  (0 < length [[1; 2]; [0; -1]; [3; 1]]%R)%nat /\ length [1; 2]%R = length [0; 5]%R /\
  length [[1; 2]; [0; -1]; [3; 1]]%R = length [0; 1; 2]%R /\
  rff_offset_pos (SInt 7) (0, 0)%nat 2 3 = [(7, 0); (7, 1); (7, 2)]%nat /\
  rff_offset_pos SState (7, 0)%nat 2 3 = [(7, 6); (7, 7); (7, 8)]%nat.
Proof. repeat split; simpl; auto with arith. Qed.
