(* C08 - score_trajectory as REGENERATED from the source on every run (tools/gen_score.py -> Gen/ScoreGen.v: the finite
   check of both arrays and of the score with their error exits, strip_initial_conditions of both arrays with the given
   min_samples / episode_feature, the weights from the stripped EXPECTED array, the label column dropped, the metric on
   (sample_weight, y_true = expected, y_pred = predicted), the sign flip for the loss metrics, a finite error_score as a
   floor) IS `score_trajectory` of the model (Score.v), about which Props/C08.v speaks, for the two loss metrics whose
   formula is modelled, over the rationals (every score finite).  Statement only; the proof is in BridgeScore.v.
   `strip_initial_conditions` and `_weights_from_data_matrix` are themselves regenerated (tools/gen_episodes.py,
   tools/gen_frames.py; C03_generated_*, C08_generated_weights).  scikit-learn's metric is an oracle:
   `metric_model m w y_true y_pred = weighted_error m w y_pred y_true`. *)
From Coq Require Import List QArith ZArith NArith Bool Arith.
From PK Require Import PyList SliceLib Episodes Score BridgeScore.
From PK.Gen Require Import ScoreGen.
Import ListNotations.

Theorem C08_generated_score_trajectory :
  forall (m : metric) (n_steps : option nat) (d : Q) (error_score : option (option Q)) (min_samples : nat) (ep : bool)
         (all_finite : dmat Q -> bool) (Xp Xe : dmat Q),
  outcome_of (gen_score_trajectory Q Q Q all_finite (fun _ => true) Qopp qlt (metric_model m)
                (fun w e X => strip_ic e w X) (qpow d) 0%Q false n_steps error_score min_samples ep Xp Xe)
  = score_trajectory m n_steps d error_score min_samples ep (all_finite Xp && all_finite Xe) Xp Xe.
Proof. exact gen_score_trajectory_model. Qed.
Print Assumptions C08_generated_score_trajectory.

(* non-vacuity: the generated function on the data of C08_example: a score, the floor, and the raise *)
Example C08_generated_example :
  let Xe := [(3%N,[0;0]); (1%N,[9;9]); (3%N,[1;1]); (1%N,[1;2]); (1%N,[3;4]); (3%N,[5;6]); (1%N,[7;8])]%Q in
  let Xp := [(3%N,[8;8]); (1%N,[7;7]); (3%N,[1;1]); (1%N,[1;2]); (1%N,[3;4]); (3%N,[5;8]); (1%N,[0;0])]%Q in
  let run := fun fin es => gen_score_trajectory Q Q Q (fun _ => fin) (fun _ => true) Qopp qlt (metric_model MSE)
                (fun w e X => strip_ic e w X) (qpow (1#2)) 0%Q false (Some 2%nat) es 1%nat true Xp Xe in
  (exists s, run true (Some (Some (-1)%Q)) = Some (Some s) /\ Qeq_bool s (-1#3) = true)
  /\ run true (Some (Some (-1#4)%Q)) = Some None
  /\ run false None = None.
Proof. vm_compute. repeat split. eexists. split; reflexivity. Qed.

(* the scorer returned by KoopmanPipeline.make_scorer (KoopmanPipeline.score uses its defaults), REGENERATED from the
   source: which arrays are predicted from and which are compared *)
From PK Require Import Stage Helpers ZInst.
Theorem C08_generated_scorer : forall (f : fitted Z) (coef : list (list Z)) (w : nat) (m : metric) (multistep relift : bool)
    (n_steps : option nat) (d : Q) (error_score : option (option Q)) (X : dmat Z),
  gen_koopman_pipeline_scorer Z outcome Q
    (fun nu ep X => shift_episodes ep nu X) (fun w nu ep X => extract_ic ep w nu X) (fun nu ep X => extract_input ep nu X)
    (fun relift x0 u => of_raw zops (f_ep f) (predict_trajectory zops f coef w relift false false None
                                               (to_raw zops (f_ep f) x0) (Some (to_raw zops (f_ep f) u))))
    (fun X => of_raw zops (f_ep f) (predict zops f coef (to_raw zops (f_ep f) X)))
    (fun n_steps d w ep Xp Xe => score_trajectory m n_steps d error_score w ep true (toQ Xp) (toQ Xe))
    1%Q (snd (f_dims f)) w (f_ep f) multistep relift n_steps d X
  = scorer_model f coef w m multistep relift n_steps d error_score X.
Proof. exact gen_scorer_model. Qed.
Print Assumptions C08_generated_scorer.

(* Recorded finding F8, as a theorem about the scorer generated from the source: the ground truth is NOT aligned in the
   multi-step scorer.  x+ = 2 x, one episode 1, 2, 4, 8, no lifting, Koopman matrix [[2]]: the model reproduces the data
   exactly, yet the scorer returns -10 (predicted state k is compared with true state k + 1).  The harness replays this
   witness on the implementation on every run (known.witness_F8). *)
Theorem C08_scorer_alignment_refuted :
  predict_trajectory zops f8_f [[2%Z]] 1 true false false None (to_raw zops false f8_X) None = to_raw zops false f8_X
  /\ exists s, gen_koopman_pipeline_scorer Z outcome Q
       (fun nu ep X => shift_episodes ep nu X) (fun w nu ep X => extract_ic ep w nu X) (fun nu ep X => extract_input ep nu X)
       (fun relift x0 u => of_raw zops false (predict_trajectory zops f8_f [[2%Z]] 1 relift false false None
                                                 (to_raw zops false x0) (Some (to_raw zops false u))))
       (fun X => of_raw zops false (predict zops f8_f [[2%Z]] (to_raw zops false X)))
       (fun n_steps d w ep Xp Xe => score_trajectory MSE n_steps d None w ep true (toQ Xp) (toQ Xe))
       1%Q 0%nat 1%nat false true true None 1%Q f8_X = Score s
     /\ Qeq_bool s (-10) = true.
Proof. exact scorer_alignment_refuted. Qed.
Print Assumptions C08_scorer_alignment_refuted.
