(* C08 — score_trajectory / _weights_from_data_matrix (koopman_pipeline.py:3279-3448,
   3701-3753): discount weights, per-episode structure, perfect prediction scores 0,
   error metrics score <= 0, error_score is a floor, initial conditions are stripped
   per episode.  Only statements, closed by [exact]; proofs live in ScoreFacts.v.

   Modelling conventions to keep in mind when reading (3)/(4): the model is over Coq's
   Q, where [x / 0 == 0].  A zero sum of weights (e.g. n_steps = Some 0, or every
   episode shorter than min_samples) or zero-width rows therefore give the value 0 in
   the model, whereas numpy raises / returns NaN.  [C08_weight_sum_pos] gives the
   conditions under which the denominator is >= 1. *)
From Coq Require Import List QArith Qabs ZArith NArith Bool Arith Permutation.
From PK Require Import PyList Episodes EpisodesFacts Score ScoreFacts.
Import ListNotations.
Open Scope Q_scope.

(* ---------------------------------------------------------------- (1) weight_of_step *)
(* one weight per row of the episode; discount^k on the k-th predicted step, zero
   beyond n_steps *)
Theorem C08_weight_of_step : forall (d : Q) (n_steps : option nat) (m : nat),
  length (qweights_ep d n_steps m) = m /\
  forall k, (k < m)%nat ->
    nth k (qweights_ep d n_steps m) 0
    = if (k <? (match n_steps with None => m | Some s => Nat.min s m end))%nat
      then qpow d k else 0.
Proof. exact weight_of_step. Qed.
Print Assumptions C08_weight_of_step.

(* ---------------------------------------------------------------- (2) weights_concat *)
Theorem C08_weights_concat : forall (d : Q) (ep : bool) (n_steps : option nat) (X : dmat Q),
  qweights d ep n_steps X
  = flat_map (fun e => qweights_ep d n_steps (length (snd e))) (split ep X).
Proof. exact qweights_concat. Qed.
Print Assumptions C08_weights_concat.

(* one block per distinct label, in ascending label order *)
Theorem C08_weights_concat_true : forall (d : Q) (n_steps : option nat) (X : dmat Q),
  qweights d true n_steps X
  = flat_map (fun i => qweights_ep d n_steps (length (rows_of i X))) (uniq (labels X)).
Proof. exact qweights_concat_true. Qed.
Print Assumptions C08_weights_concat_true.

Theorem C08_weights_concat_false : forall (d : Q) (n_steps : option nat) (X : dmat Q),
  qweights d false n_steps X = qweights_ep d n_steps (length X).
Proof. exact qweights_concat_false. Qed.
Print Assumptions C08_weights_concat_false.

(* one weight per row, with or without episode feature *)
Theorem C08_weights_length : forall (d : Q) (ep : bool) (n_steps : option nat) (X : dmat Q),
  length (qweights d ep n_steps X) = length X.
Proof. exact qweights_length. Qed.
Print Assumptions C08_weights_length.

(* the episode sizes add up to the number of rows; regrouping by episode keeps the
   number of rows *)
Theorem C08_episode_sizes : forall (A : Type) (ep : bool) (X : dmat A),
  list_sum (map (fun e => length (snd e)) (split ep X)) = length X /\
  length (combine ep (split ep X)) = length X.
Proof. intros A ep X. split; [exact (split_rows_total A ep X)|exact (combine_split_length A ep X)]. Qed.
Print Assumptions C08_episode_sizes.

(* split then combine only regroups the rows by episode: a permutation of X *)
Theorem C08_combine_split_perm : forall (A : Type) (X : dmat A),
  Permutation (combine true (split true X)) X.
Proof. exact combine_split_perm. Qed.
Print Assumptions C08_combine_split_perm.

(* inside score_trajectory the weight vector is as long as the row lists it weighs *)
Theorem C08_weights_aligned : forall (d : Q) (ep : bool) (n_steps : option nat) (min_samples : nat) (Xe : dmat Q),
  length (qweights d ep n_steps (strip_ic ep min_samples Xe))
  = length (rows (strip_ic ep min_samples Xe)).
Proof. exact score_weights_aligned. Qed.
Print Assumptions C08_weights_aligned.

(* ---------------------------------------------------------------- (3) perfect_prediction *)
Theorem C08_perfect_error : forall (m : metric) (w : list Q) (P : list (list Q)),
  weighted_error m w P P == 0.
Proof. exact weighted_error_self. Qed.
Print Assumptions C08_perfect_error.

(* exactly what score_trajectory returns on X_predicted = X_expected (finite data),
   for every error_score *)
Theorem C08_perfect_score : forall (m : metric) (n_steps : option nat) (d : Q)
    (es : option (option Q)) (min_samples : nat) (ep : bool) (X : dmat Q),
  exists s, s == 0 /\
    score_trajectory m n_steps d es min_samples ep true X X
    = match es with
      | Some (Some e) => if Qlt_le_dec 0 e then ErrorScore else Score s
      | _ => Score s
      end.
Proof. exact score_perfect. Qed.
Print Assumptions C08_perfect_score.

Theorem C08_perfect_score_no_floor : forall (m : metric) (n_steps : option nat) (d : Q)
    (es : option (option Q)) (min_samples : nat) (ep : bool) (X : dmat Q),
  es = None \/ es = Some None ->
  exists s, s == 0 /\ score_trajectory m n_steps d es min_samples ep true X X = Score s.
Proof. exact score_perfect_no_floor. Qed.
Print Assumptions C08_perfect_score_no_floor.

Theorem C08_perfect_score_floor_le : forall (m : metric) (n_steps : option nat) (d e : Q)
    (min_samples : nat) (ep : bool) (X : dmat Q),
  e <= 0 ->
  exists s, s == 0 /\
    score_trajectory m n_steps d (Some (Some e)) min_samples ep true X X = Score s.
Proof. exact score_perfect_floor_le. Qed.
Print Assumptions C08_perfect_score_floor_le.

(* a positive error_score swallows even a perfect prediction *)
Theorem C08_perfect_score_floor_gt : forall (m : metric) (n_steps : option nat) (d e : Q)
    (min_samples : nat) (ep : bool) (X : dmat Q),
  0 < e ->
  score_trajectory m n_steps d (Some (Some e)) min_samples ep true X X = ErrorScore.
Proof. exact score_perfect_floor_gt. Qed.
Print Assumptions C08_perfect_score_floor_gt.

(* ---------------------------------------------------------------- (4) scores_nonpositive *)
(* no hypothesis on the sum of the weights or on the row width is needed
   (Coq convention / 0 == 0, see header) *)
Theorem C08_error_nonneg : forall (m : metric) (w : list Q) (P X : list (list Q)),
  (forall x, In x w -> 0 <= x) -> 0 <= weighted_error m w P X.
Proof. exact weighted_error_nonneg. Qed.
Print Assumptions C08_error_nonneg.

(* as literally requested *)
Theorem C08_error_nonneg' : forall (m : metric) (w : list Q) (P X : list (list Q)),
  (forall x, In x w -> 0 <= x) -> 0 < qsum w -> 0 <= weighted_error m w P X.
Proof. exact weighted_error_nonneg'. Qed.
Print Assumptions C08_error_nonneg'.

(* every returned score of an error metric is <= 0 (for a discount factor >= 0):
   together with C08_perfect_score, 0 is the best attainable score *)
Theorem C08_scores_nonpositive : forall (m : metric) (n_steps : option nat) (d : Q)
    (es : option (option Q)) (min_samples : nat) (ep fin : bool) (Xp Xe : dmat Q) (s : Q),
  0 <= d ->
  score_trajectory m n_steps d es min_samples ep fin Xp Xe = Score s -> s <= 0.
Proof. exact scores_nonpositive. Qed.
Print Assumptions C08_scores_nonpositive.

(* ---------------------------------------------------------------- (5) weights_nonneg *)
Theorem C08_weights_nonneg : forall (d : Q) (n_steps : option nat) (m : nat) (x : Q),
  0 <= d -> In x (qweights_ep d n_steps m) -> 0 <= x.
Proof. exact qweights_ep_nonneg. Qed.
Print Assumptions C08_weights_nonneg.

Theorem C08_weights_all_nonneg : forall (d : Q) (ep : bool) (n_steps : option nat) (X : dmat Q) (x : Q),
  0 <= d -> In x (qweights d ep n_steps X) -> 0 <= x.
Proof. intros d ep n_steps X x. exact (qweights_nonneg d ep n_steps X x). Qed.
Print Assumptions C08_weights_all_nonneg.

(* steps_pos n_steps  :=  n_steps = None, or n_steps = Some s with 0 < s *)
Theorem C08_first_weight : forall (d : Q) (n_steps : option nat) (m : nat),
  0 <= d -> (0 < m)%nat ->
  match n_steps with None => True | Some s => (0 < s)%nat end ->
  nth 0 (qweights_ep d n_steps m) 0 = 1 /\ 1 <= qsum (qweights_ep d n_steps m).
Proof. exact qweights_ep_sum_pos. Qed.
Print Assumptions C08_first_weight.

Theorem C08_weight_sum_pos : forall (d : Q) (ep : bool) (n_steps : option nat) (X : dmat Q),
  0 <= d ->
  match n_steps with None => True | Some s => (0 < s)%nat end ->
  X <> [] -> 1 <= qsum (qweights d ep n_steps X).
Proof. exact qweights_sum_pos. Qed.
Print Assumptions C08_weight_sum_pos.

(* ---------------------------------------------------------------- (6) floor / nonfinite *)
Theorem C08_floor : forall (m : metric) (n_steps : option nat) (d e : Q)
    (min_samples : nat) (ep : bool) (Xp Xe : dmat Q),
  score_trajectory m n_steps d (Some (Some e)) min_samples ep true Xp Xe = ErrorScore \/
  exists s, score_trajectory m n_steps d (Some (Some e)) min_samples ep true Xp Xe = Score s /\ e <= s.
Proof. exact score_floor. Qed.
Print Assumptions C08_floor.

Theorem C08_nonfinite : forall (m : metric) (n_steps : option nat) (d : Q)
    (es : option (option Q)) (min_samples : nat) (ep : bool) (Xp Xe : dmat Q),
  (score_trajectory m n_steps d es min_samples ep false Xp Xe = Raised <-> es = None) /\
  (es <> None -> score_trajectory m n_steps d es min_samples ep false Xp Xe = ErrorScore).
Proof. exact score_nonfinite. Qed.
Print Assumptions C08_nonfinite.

Theorem C08_finite_not_raised : forall (m : metric) (n_steps : option nat) (d : Q)
    (es : option (option Q)) (min_samples : nat) (ep : bool) (Xp Xe : dmat Q),
  score_trajectory m n_steps d es min_samples ep true Xp Xe <> Raised.
Proof. exact score_finite_not_raised. Qed.
Print Assumptions C08_finite_not_raised.

(* ---------------------------------------------------------------- (7) strip_then_weights *)
Theorem C08_strip_rows_of : forall (A : Type) (w : nat) (X : dmat A) (i : N),
  In i (labels X) -> rows_of i (strip_ic true w X) = skipn w (rows_of i X).
Proof. exact strip_rows_of. Qed.
Print Assumptions C08_strip_rows_of.

(* the premise is not needed *)
Theorem C08_strip_rows_of_all : forall (A : Type) (w : nat) (X : dmat A) (i : N),
  rows_of i (strip_ic true w X) = skipn w (rows_of i X).
Proof. exact strip_rows_of_all. Qed.
Print Assumptions C08_strip_rows_of_all.

(* rows and weights entering the metric, block by block over the episodes of the
   ORIGINAL matrix in ascending label order *)
Theorem C08_strip_rows : forall (A : Type) (w : nat) (X : dmat A),
  rows (strip_ic true w X) = flat_map (fun i => skipn w (rows_of i X)) (uniq (labels X)) /\
  rows (strip_ic false w X) = skipn w (rows X).
Proof. intros A w X. split; [exact (strip_rows_true A w X)|exact (strip_rows_false A w X)]. Qed.
Print Assumptions C08_strip_rows.

Theorem C08_strip_then_weights : forall (d : Q) (n_steps : option nat) (w : nat) (X : dmat Q),
  qweights d true n_steps (strip_ic true w X)
  = flat_map (fun i => qweights_ep d n_steps (length (skipn w (rows_of i X)))) (uniq (labels X)) /\
  qweights d false n_steps (strip_ic false w X)
  = qweights_ep d n_steps (length (skipn w (rows X))).
Proof.
  intros d n_steps w X.
  split; [exact (strip_then_weights_true d n_steps w X)|exact (strip_then_weights_false d n_steps w X)].
Qed.
Print Assumptions C08_strip_then_weights.

(* ---------------------------------------------------------------- non-vacuity *)
(* two interleaved episodes (labels 3 and 1), min_samples = 1, n_steps = 2,
   discount 1/2, MSE: weights [1; 1/2; 0; 1; 1/2] over episode 1 (3 rows left) then
   episode 3 (2 rows left); one cell is off by 2 on the second step of episode 3:
   error = (1/2 * (4/2)) / 3 = 1/3. *)
Example C08_example :
  let Xe := [(3%N,[0;0]); (1%N,[9;9]); (3%N,[1;1]); (1%N,[1;2]); (1%N,[3;4]); (3%N,[5;6]); (1%N,[7;8])] in
  let Xp := [(3%N,[8;8]); (1%N,[7;7]); (3%N,[1;1]); (1%N,[1;2]); (1%N,[3;4]); (3%N,[5;8]); (1%N,[0;0])] in
  qweights (1#2) true (Some 2%nat) (strip_ic true 1 Xe) = [1; 1#2; 0; 1; 1#2] /\
  rows (strip_ic true 1 Xe) = [[1;2]; [3;4]; [7;8]; [1;1]; [5;6]] /\
  (exists s, score_trajectory MSE (Some 2%nat) (1#2) (Some (Some (-1))) 1 true true Xp Xe = Score s
             /\ Qeq_bool s (-1#3) = true) /\
  score_trajectory MSE (Some 2%nat) (1#2) (Some (Some (-1#4))) 1 true true Xp Xe = ErrorScore /\
  score_trajectory MSE (Some 2%nat) (1#2) None 1 true false Xp Xe = Raised.
Proof. vm_compute. repeat split. eexists. split; reflexivity. Qed.

(* the hypothesis 0 <= d of C08_scores_nonpositive is necessary: with a negative
   discount factor the model returns a strictly positive "negated error" *)
Example C08_negative_discount :
  exists s, score_trajectory MAE None (-2) None 0 false true
              [(0%N,[0]); (0%N,[1]); (0%N,[0])] [(0%N,[0]); (0%N,[0]); (0%N,[0])] = Score s
            /\ (0 ?= s) = Lt.
Proof. vm_compute. eexists. split; reflexivity. Qed.

(* ---------- about the code itself: _weights_from_data_matrix as REGENERATED from the source on this run
   (tools/gen_frames.py -> Gen/FramesGen.v, over the generated split_episodes) is the weight vector of the model,
   for every data matrix, arrangement, n_steps and discount factor; the theorems above (weight discount_factor**k on
   the k-th step of each episode, zero beyond n_steps, concatenation in episode order) apply to it *)
From PK Require Import BridgeFrames.
From PK.Gen Require Import FramesGen.
Theorem C08_generated_weights : forall (d : Q) (ep : bool) (n_steps : option nat) (X : dmat Q),
  gen_weights_from_data_matrix Q Q (qpow d) 0%Q n_steps ep X = qweights d ep n_steps X.
Proof. intros d ep n_steps X. exact (gen_weights_model Q Q (qpow d) 0%Q n_steps ep X). Qed.
Print Assumptions C08_generated_weights.
