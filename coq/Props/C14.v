(* C14 — Truncated SVD: the retained rank obeys the truncation rule.
   Only statements, closed by [exact]; proofs live in TsvdFacts.v.  (That the factors are
   the leading singular triplets — Eckart-Young — is a property of LAPACK's SVD and is
   checked numerically per run as an oracle contract, see harness/props/c14.py.) *)
From Coq Require Import List Bool Arith ZArith Lia.
From PK Require Import PyList ListFacts TsvdModel TsvdFacts.
Import ListNotations.

Theorem C14_economy : forall (S : Type) (ltb : S -> S -> bool) (sig : list S),
  retained ltb (Economy S) sig = sig.
Proof. exact economy_keeps_all. Qed.
Print Assumptions C14_economy.

Theorem C14_rank : forall (S : Type) (ltb : S -> S -> bool) (r : nat) (sig : list S),
  length (retained ltb (Rank S r) sig) = Nat.min r (length sig).
Proof. exact rank_keeps_min. Qed.
Print Assumptions C14_rank.

(* cutoff: with non-increasing singular values, every kept value exceeds the cutoff and
   every discarded one does not; nothing is kept when none exceeds.  The only order law
   used is: c < b and not (a < b) imply c < a. *)
Theorem C14_cutoff : forall (S : Type) (ltb : S -> S -> bool),
  (forall a b c, ltb c b = true -> ltb a b = false -> ltb c a = true) ->
  forall (c : S) (sig : list S) (d : S),
  nonincreasing ltb sig ->
  (forall i, i < cutoff_rank ltb c sig -> i < length sig -> ltb c (nth i sig d) = true)
  /\ (forall i, cutoff_rank ltb c sig <= i -> i < length sig -> ltb c (nth i sig d) = false)
  /\ cutoff_rank ltb c sig <= length sig.
Proof.
  intros S ltb Ht c sig d Hni. split; [|split].
  - exact (cutoff_kept_exceed Ht c d Hni).
  - exact (cutoff_discarded_not_exceed ltb c sig d).
  - exact (cutoff_rank_le ltb c sig).
Qed.
Print Assumptions C14_cutoff.

Theorem C14_cutoff_none : forall (S : Type) (ltb : S -> S -> bool) (c : S) (sig : list S) (d : S),
  (forall i, i < length sig -> ltb c (nth i sig d) = false) -> cutoff_rank ltb c sig = 0.
Proof. exact cutoff_none_exceeds. Qed.
Print Assumptions C14_cutoff_none.

(* the three factors are cut with the same rank *)
Theorem C14_same_rank : forall (S A B : Type) (ltb : S -> S -> bool) (tr : truncation S) (sig : list S)
  (q : list A) (z : list B),
  length q = length sig -> length z = length sig ->
  length (truncate ltb tr sig q) = length (retained ltb tr sig)
  /\ length (truncate ltb tr sig z) = length (retained ltb tr sig).
Proof.
  intros S A B ltb tr sig q z Hq Hz. unfold retained, truncate. rewrite !firstn_length, Hq, Hz. split; reflexivity.
Qed.
Print Assumptions C14_same_rank.

(* non-vacuity: repeated singular values, a cutoff equal to one of them (strict rule) *)
Example C14_example :
  nonincreasing Z.ltb [5; 3; 3; 1]%Z
  /\ retained Z.ltb (Cutoff 3%Z) [5; 3; 3; 1]%Z = [5]%Z
  /\ retained Z.ltb (Cutoff 2%Z) [5; 3; 3; 1]%Z = [5; 3; 3]%Z
  /\ retained Z.ltb (Cutoff 9%Z) [5; 3; 3; 1]%Z = []
  /\ retained Z.ltb (Rank Z 7) [5; 3; 3; 1]%Z = [5; 3; 3; 1]%Z.
Proof.
  split; [|vm_compute; repeat split; reflexivity].
  intros i j d Hij Hj. cbn [length] in Hj.
  destruct j as [|[|[|[|j]]]]; try lia; destruct i as [|[|[|[|i]]]]; try lia; reflexivity.
Qed.
