(* C19 — placeholder until the theorems are proved: see below. *)
From Coq Require Import List ZArith NArith Bool Arith.
From PK Require Import PyList Episodes Stage.
