(* C19 — Output feature names describe the columns they label.
   Only statements, closed by [exact]; proofs live in NamesFacts.v. *)
From Coq Require Import List ZArith NArith Bool Arith String.
From PK Require Import PyList ListFacts Episodes EpisodesFacts Stage StageEqns StageSpec StageFacts EpisodeSem Names NamesFacts NamesExample.
Import ListNotations.
Close Scope string_scope.
Open Scope nat_scope.

(* For EVERY stage tree (all lifting-function kinds, any nesting of SplitPipeline /
   KoopmanPipeline), the name tree of column j, evaluated on an episode at the time of
   output sample t, IS cell (t, j) of the lifted episode, and there is exactly one name
   per lifted column, in column order.  The name trees are rendered to the very strings
   get_feature_names_out returns (compared inside Coq on every run, plain and latex).
   Only algebraic premise: 1 * x = x (the name of a monomial skips zero exponents). *)
Theorem C19_denotes : forall (T : Type) (O : ops T) (skn : nat -> string) (E : list (list T)) (cm : string -> nat),
  (forall x : T, op_mul O (op_t1 O) x = x) ->
  forall (s : stage T) (ns nu : nat),
  wf s (ns, nu) = true -> wid (ns + nu) E -> samples_in s 1 <= List.length E ->
  let ins := map (NCol T) (seq 0 (ns + nu)) in
  (forall t j : nat,
     t < List.length (tf_ep O s (ns, nu) E) -> j < List.length (snames s (ns, nu) ins) ->
     ev O skn E cm (nth j (snames s (ns, nu) ins) (NOne T)) (t + (samples_in s 1 - 1))
     = nth j (nth t (tf_ep O s (ns, nu) E) nil) (op_t0 O))
  /\ List.length (snames s (ns, nu) ins) = fst (sdims s (ns, nu)) + snd (sdims s (ns, nu)).
Proof. exact names_denote. Qed.
Print Assumptions C19_denotes.

(* the same with the generated input names x_k / u_k *)
Theorem C19_denotes_default : forall (T : Type) (O : ops T) (skn : nat -> string) (E : list (list T)) (cm : string -> nat),
  (forall x : T, op_mul O (op_t1 O) x = x) ->
  forall (s : stage T) (ns nu : nat),
  wf s (ns, nu) = true -> wid (ns + nu) E -> samples_in s 1 <= List.length E ->
  (forall k, k < ns -> cm (render skn false (NX T k)) = k) ->
  (forall k, k < nu -> cm (render skn false (NU T k)) = ns + k) ->
  let ins := default_names T (ns, nu) in
  (forall t j : nat,
     t < List.length (tf_ep O s (ns, nu) E) -> j < List.length (snames s (ns, nu) ins) ->
     ev O skn E cm (nth j (snames s (ns, nu) ins) (NOne T)) (t + (samples_in s 1 - 1))
     = nth j (nth t (tf_ep O s (ns, nu) E) nil) (op_t0 O))
  /\ List.length (snames s (ns, nu) ins) = fst (sdims s (ns, nu)) + snd (sdims s (ns, nu)).
Proof. exact names_denote_default. Qed.
Print Assumptions C19_denotes_default.

(* on the model's transform with an episode feature, for every episode label *)
Theorem C19_denotes_transform : forall (T : Type) (O : ops T) (skn : nat -> string) (cm : string -> nat),
  (forall x : T, op_mul O (op_t1 O) x = x) ->
  forall (s : stage T) (ns nu : nat) (X : dmat T) (i : N),
  wf s (ns, nu) = true -> dwid (ns + nu) X -> valid (samples_in s 1) X -> In i (labels X) ->
  let ins := map (NCol T) (seq 0 (ns + nu)) in
  let Y := rows_of i (transform O s true (ns, nu) X) in
  forall t j : nat, t < List.length Y -> j < List.length (snames s (ns, nu) ins) ->
  ev O skn (rows_of i X) cm (nth j (snames s (ns, nu) ins) (NOne T)) (t + (samples_in s 1 - 1))
  = nth j (nth t Y nil) (op_t0 O).
Proof. exact names_denote_transform_true. Qed.
Print Assumptions C19_denotes_transform.

(* episode_feature overrides: one name per column, the episode name first iff the call
   has an episode column; None = the fit-time setting *)
Theorem C19_count : forall (T : Type) (skn : nat -> string) (s : stage T) (epf : bool) (d : dims)
  (call : option bool) (latex : bool),
  wf s d = true ->
  List.length (feature_names_out skn s epf d None call latex)
  = (if fno_flag epf call then 1 else 0) + (fst (sdims s d) + snd (sdims s d)).
Proof. exact feature_names_out_count_default. Qed.
Print Assumptions C19_count.

Theorem C19_episode_override : forall (T : Type) (skn : nat -> string) (s : stage T) (epf : bool) (d : dims)
  (user : option (list string)) (latex : bool),
  feature_names_out skn s epf d user (Some true) latex
  = fno_epn T skn epf user latex :: feature_names_out skn s epf d user (Some false) latex
  /\ feature_names_out skn s epf d user None latex = feature_names_out skn s epf d user (Some epf) latex.
Proof. intros. split; [exact (feature_names_out_override skn s epf d user latex)|exact (feature_names_out_none skn s epf d user latex)]. Qed.
Print Assumptions C19_episode_override.


(* ---------- recorded finding F14: compound bases are printed without brackets.  Kernel-computed
   witness on the model of [BilinearInputLiftingFn; PolynomialLiftingFn(order 2)] with 2 states and
   1 input: the column named "x1*u0^2" holds (x1*u0)^2, and two different columns share a name. *)
From PK Require Import Refuted.

Theorem C19_readback_refuted :
  exists j, nth j f14_strings ""%string = "x1*u0^2"%string /\ f14_value j = 36%Z /\ (2 * (3 * 3) = 18)%Z.
Proof. exact f14_misleading_name. Qed.
Print Assumptions C19_readback_refuted.

Theorem C19_names_not_injective_refuted :
  exists i j, i <> j /\ nth i f14_strings ""%string = nth j f14_strings ""%string
              /\ nth i f14_names (NOne Z) <> nth j f14_names (NOne Z).
Proof. exact f14_duplicate_names. Qed.
Print Assumptions C19_names_not_injective_refuted.
