(* C13 — DMD eigenvalues, modes and rank agree with the returned operator.
   Only statements, closed by [exact]; proofs live in Alg/Dmd.v (mathcomp, any field,
   all sizes).  The hypotheses (W V = 1, A = V diag(L) W) are the certificate evaluated
   numerically on what Dmd / Dmdc return on every run: LAPACK is an oracle. *)
From mathcomp Require Import all_ssreflect all_algebra.
From PK.Alg Require Import Dmd.
Set Implicit Arguments.
Unset Strict Implicit.
Unset Printing Implicit Defensive.
Import GRing.Theory.
Local Open Scope ring_scope.

(* columns of V are eigenvectors of the reconstructed operator, eigenvalues L *)
Theorem C13_eigpairs (F : fieldType) (p r : nat) (V : 'M[F]_(p,r)) (W : 'M[F]_(r,p)) (L : 'rV[F]_r) :
  W *m V = 1%:M -> (V *m diag_mx L *m W) *m V = V *m diag_mx L.
Proof. exact: Dmd.C13_eigpairs. Qed.
Print Assumptions C13_eigpairs.

(* its rank is at most the retained rank *)
Theorem C13_rank (F : fieldType) (p r : nat) (V : 'M[F]_(p,r)) (D : 'M[F]_r) (W : 'M[F]_(r,p)) :
  (\rank (V *m D *m W) <= r)%N.
Proof. exact: Dmd.C13_rank. Qed.
Print Assumptions C13_rank.

(* its non-zero spectrum is exactly the reported eigenvalues *)
Theorem C13_spectrum (F : fieldType) (p r : nat) (V : 'M[F]_(p,r)) (W : 'M[F]_(r,p)) (L : 'rV[F]_r)
  (v : 'cV[F]_p) (lam : F) :
  W *m V = 1%:M -> v != 0 -> lam != 0 ->
  (V *m diag_mx L *m W) *m v = lam *: v ->
  [/\ W *m v != 0, diag_mx L *m (W *m v) = lam *: (W *m v) & exists j, L 0 j = lam].
Proof. exact: Dmd.C13_spectrum. Qed.
Print Assumptions C13_spectrum.

Theorem C13_spectrum_conv (F : fieldType) (p r : nat) (V : 'M[F]_(p,r)) (W : 'M[F]_(r,p)) (L : 'rV[F]_r) (j : 'I_r) :
  W *m V = 1%:M ->
  V *m delta_mx j 0 != 0 :> 'cV[F]_p /\
  (V *m diag_mx L *m W) *m (V *m delta_mx j 0) = L 0 j *: (V *m delta_mx j (0 : 'I_1)).
Proof. exact: Dmd.C13_spectrum_conv. Qed.
Print Assumptions C13_spectrum_conv.

(* ---------- about the code itself: Dmd._fit_regressor as REGENERATED from the source on this run
   (tools/gen_regressors.py -> Gen/Regressors.v).  The truncated SVD and the eigendecomposition
   are LAPACK oracles (variables Q, sigma, Z, lmb, V_tilde) with explicit contracts. *)
From PK Require Import BridgeC13.
From PK.Gen Require Import Regressors.

(* 'exact' modes: eigenvectors of the full DMD operator Psi_+ Z Sigma^-1 Q^T with the published eigenvalues *)
Theorem C13_generated_exact_modes (F : fieldType) (p q r : nat) (X_shifted : 'M[F]_(q,p))
  (Q : 'M[F]_(p,r)) (sigma : 'rV[F]_r) (Z : 'M[F]_(q,r)) (lmb : 'rV[F]_r) (V_tilde : 'M[F]_r) :
  gen_dmd_eig_argument X_shifted Q sigma Z *m V_tilde = V_tilde *m gen_dmd_Sigma lmb ->
  dmd_operator X_shifted Q sigma Z *m gen_dmd_modes_exact X_shifted sigma Z V_tilde
  = gen_dmd_modes_exact X_shifted sigma Z V_tilde *m gen_dmd_Sigma lmb.
Proof. exact: exact_modes_eigen. Qed.
Print Assumptions C13_generated_exact_modes.

(* 'projected' modes: eigenvectors of the projected operator Q U_tilde Q^T *)
Theorem C13_generated_projected_modes (F : fieldType) (p q r : nat) (X_shifted : 'M[F]_(q,p))
  (Q : 'M[F]_(p,r)) (sigma : 'rV[F]_r) (Z : 'M[F]_(q,r)) (lmb : 'rV[F]_r) (V_tilde : 'M[F]_r) :
  gen_dmd_eig_argument X_shifted Q sigma Z *m V_tilde = V_tilde *m gen_dmd_Sigma lmb ->
  Q^T *m Q = 1%:M ->
  (Q *m gen_dmd_U_tilde X_shifted Q sigma Z *m Q^T) *m gen_dmd_modes_projected Q V_tilde
  = gen_dmd_modes_projected Q V_tilde *m gen_dmd_Sigma lmb.
Proof. exact: projected_modes_eigen. Qed.
Print Assumptions C13_generated_projected_modes.

(* the returned operator: an exact solution of the system handed to lstsq has every column of
   modes_ as an eigenvector with the published eigenvalue *)
Theorem C13_generated_returned_operator (F : fieldType) (p r : nat) (lmb : 'rV[F]_r)
  (modes : 'M[F]_(p,r)) (X : 'M[F]_p) :
  gen_dmd_lstsq_lhs modes *m X = gen_dmd_lstsq_rhs lmb modes ->
  X^T *m modes = modes *m gen_dmd_Sigma lmb.
Proof. exact: returned_operator_eigen. Qed.
Print Assumptions C13_generated_returned_operator.

(* ---------- Dmdc._fit_regressor as REGENERATED from the source on this run (Section GenDmdc of Gen/Regressors.v):
   two truncated SVDs, the reduced operator, exact / projected modes, the least-squares reconstruction and
   coef = hstack((A_r, B))^T.  SVD, eig and lstsq are oracles with explicit contracts. *)
Theorem C13_generated_dmdc_projected_modes (F : fieldType) (pt pu q r rh : nat) (X_shifted : 'M[F]_(q,pt))
  (Q_tld : 'M[F]_(pt + pu, r)) (sig_tld : 'rV[F]_r) (Z_tld : 'M[F]_(q,r)) (Q_hat : 'M[F]_(pt,rh))
  (lmb : 'rV[F]_rh) (V_tld : 'M[F]_rh) :
  gen_dmdc_eig_argument X_shifted Q_tld sig_tld Z_tld Q_hat *m V_tld = V_tld *m gen_dmdc_Sigma lmb ->
  Q_hat^T *m Q_hat = 1%:M ->
  (Q_hat *m gen_dmdc_A_tld X_shifted Q_tld sig_tld Z_tld Q_hat *m Q_hat^T) *m gen_dmdc_modes_projected Q_hat V_tld
  = gen_dmdc_modes_projected Q_hat V_tld *m gen_dmdc_Sigma lmb.
Proof. exact: dmdc_projected_modes_eigen. Qed.
Print Assumptions C13_generated_dmdc_projected_modes.

(* exact modes are eigenvectors of the full operator A when the SVD of the shifted data is not truncated *)
Theorem C13_generated_dmdc_exact_modes (F : fieldType) (pt pu q r rh : nat) (X_shifted : 'M[F]_(q,pt))
  (Q_tld : 'M[F]_(pt + pu, r)) (sig_tld : 'rV[F]_r) (Z_tld : 'M[F]_(q,r))
  (Q_hat : 'M[F]_(pt,rh)) (sig_hat : 'rV[F]_rh) (Z_hat : 'M[F]_(q,rh)) (lmb : 'rV[F]_rh) (V_tld : 'M[F]_rh) :
  gen_dmdc_eig_argument X_shifted Q_tld sig_tld Z_tld Q_hat *m V_tld = V_tld *m gen_dmdc_Sigma lmb ->
  gen_dmdc_Theta_p X_shifted = Q_hat *m diag_mx sig_hat *m Z_hat^T -> Q_hat^T *m Q_hat = 1%:M ->
  gen_dmdc_A X_shifted Q_tld sig_tld Z_tld *m gen_dmdc_modes_exact X_shifted Q_tld sig_tld Z_tld Q_hat V_tld
  = gen_dmdc_modes_exact X_shifted Q_tld sig_tld Z_tld Q_hat V_tld *m gen_dmdc_Sigma lmb.
Proof. exact: dmdc_exact_modes_untruncated. Qed.
Print Assumptions C13_generated_dmdc_exact_modes.

(* what is returned: the state block of coef^T is the reconstructed A_r, the input block is B, and modes_ /
   eigenvalues_ are eigenpairs of that state block (whatever the truncation and the mode type) *)
Theorem C13_generated_dmdc_returned_operator (F : fieldType) (pt pu q r rh : nat) (X_shifted : 'M[F]_(q,pt))
  (Q_tld : 'M[F]_(pt + pu, r)) (sig_tld : 'rV[F]_r) (Z_tld : 'M[F]_(q,r)) (lmb : 'rV[F]_rh)
  (modes : 'M[F]_(pt,rh)) (X : 'M[F]_pt) :
  gen_dmdc_lstsq_lhs modes *m X = gen_dmdc_lstsq_rhs lmb modes ->
  let coef := gen_dmdc_coef X_shifted Q_tld sig_tld Z_tld X^T in
  lsubmx coef^T = X^T /\ rsubmx coef^T = gen_dmdc_B X_shifted Q_tld sig_tld Z_tld
  /\ lsubmx coef^T *m modes = modes *m gen_dmdc_Sigma lmb.
Proof. exact: dmdc_returned_operator. Qed.
Print Assumptions C13_generated_dmdc_returned_operator.
