(* C13 — DMD eigenvalues, modes and rank agree with the returned operator.
   Only statements, closed by [exact]; proofs live in Alg/Dmd.v (mathcomp, any field,
   all sizes).  The hypotheses (W V = 1, A = V diag(L) W) are the certificate evaluated
   numerically on what Dmd / Dmdc return on every run: LAPACK is an oracle. *)
From mathcomp Require Import all_ssreflect all_algebra.
From PK.Alg Require Import Dmd.
Set Implicit Arguments.
Unset Strict Implicit.
Unset Printing Implicit Defensive.
Import GRing.Theory.
Local Open Scope ring_scope.

(* columns of V are eigenvectors of the reconstructed operator, eigenvalues L *)
Theorem C13_eigpairs (F : fieldType) (p r : nat) (V : 'M[F]_(p,r)) (W : 'M[F]_(r,p)) (L : 'rV[F]_r) :
  W *m V = 1%:M -> (V *m diag_mx L *m W) *m V = V *m diag_mx L.
Proof. exact: Dmd.C13_eigpairs. Qed.
Print Assumptions C13_eigpairs.

(* its rank is at most the retained rank *)
Theorem C13_rank (F : fieldType) (p r : nat) (V : 'M[F]_(p,r)) (D : 'M[F]_r) (W : 'M[F]_(r,p)) :
  (\rank (V *m D *m W) <= r)%N.
Proof. exact: Dmd.C13_rank. Qed.
Print Assumptions C13_rank.

(* its non-zero spectrum is exactly the reported eigenvalues *)
Theorem C13_spectrum (F : fieldType) (p r : nat) (V : 'M[F]_(p,r)) (W : 'M[F]_(r,p)) (L : 'rV[F]_r)
  (v : 'cV[F]_p) (lam : F) :
  W *m V = 1%:M -> v != 0 -> lam != 0 ->
  (V *m diag_mx L *m W) *m v = lam *: v ->
  [/\ W *m v != 0, diag_mx L *m (W *m v) = lam *: (W *m v) & exists j, L 0 j = lam].
Proof. exact: Dmd.C13_spectrum. Qed.
Print Assumptions C13_spectrum.

Theorem C13_spectrum_conv (F : fieldType) (p r : nat) (V : 'M[F]_(p,r)) (W : 'M[F]_(r,p)) (L : 'rV[F]_r) (j : 'I_r) :
  W *m V = 1%:M ->
  V *m delta_mx j 0 != 0 :> 'cV[F]_p /\
  (V *m diag_mx L *m W) *m (V *m delta_mx j 0) = L 0 j *: (V *m delta_mx j (0 : 'I_1)).
Proof. exact: Dmd.C13_spectrum_conv. Qed.
Print Assumptions C13_spectrum_conv.
