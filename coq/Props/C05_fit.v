(* C05 - KoopmanPipeline.fit as REGENERATED from the source (tools/gen_fit.py -> Gen/FitGen.v): the regressor is fitted on
   transform(X) with n_inputs = the lifted inputs that the model assigns to the pipeline and with the episode flag of the
   fit, so that (C05_generated_fit_arguments, C05_pairs) it is trained on exactly the within-episode consecutive pairs of
   the lifted data, the shifted side without the lifted inputs.  Proof in BridgeFit.v. *)
From Coq Require Import List Arith Bool.
From PK Require Import PyList Stage BridgeFit.
From PK.Gen Require Import FitGen.
Import ListNotations.

Theorem C05_generated_pipeline_fit : forall (T A : Type) (transform : A -> A) (c : chain T) (ep : bool) ns nu (X : A),
  gen_pipeline_fit_regressor_args A transform (chain_fit T c) (ns + nu + b2n ep) nu ep X
  = (transform X, snd (cdims c (ns, nu)), ep).
Proof. intros T A. exact (@gen_pipeline_fit_regressor_args_model T A). Qed.
Print Assumptions C05_generated_pipeline_fit.

Example C05_fit_example :
  gen_pipeline_fit_regressor_args nat (fun x => x + 1) (chain_fit nat (CCons (Leaf (LBilinear nat)) (CNil nat))) 4 1 true 7 = (8, 3, true).
Proof. vm_compute. reflexivity. Qed.
