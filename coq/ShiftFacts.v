(* C05 — which (unshifted, shifted) training pairs a regressor sees.
   Model of KoopmanRegressor.fit(y=None): shift_episodes, then the episode column
   is stripped from both matrices and row k of one is paired with row k of the
   other by the concrete solver. *)
From Coq Require Import List ZArith NArith Bool Arith Lia Permutation.
From PK Require Import PyList Episodes EpisodesFacts.
Import ListNotations.

Set Implicit Arguments.

Section Shift.
Variable A : Type.
Notation dmat := (dmat A).
Notation row := (list A).

(* what the concrete solver receives: row k of X_unshifted with row k of X_shifted *)
Definition training_pairs (ep : bool) (nu : nat) (X : dmat) : list (row * row) :=
  let us := shift_episodes ep nu X in
  zip (rows (fst us)) (rows (snd us)).

(* the specification: inside every episode, sample k with sample k+1 (inputs cut
   from the shifted side); nothing else *)
Fixpoint consec (nu : nat) (E : list row) : list (row * row) :=
  match E with
  | a :: ((b :: _) as t) => (a, cols_but_last nu b) :: consec nu t
  | _ => []
  end.
Definition spec_pairs (ep : bool) (nu : nat) (X : dmat) : list (row * row) :=
  flat_map (fun e => consec nu (snd e)) (split ep X).

Lemma rows_combine ep (eps : episodes A) : rows (combine ep eps) = flat_map (@snd _ _) eps.
Proof.
  unfold rows, combine. induction eps as [|e eps IH]; cbn [flat_map]; [reflexivity|].
  rewrite map_app, IH. f_equal. rewrite map_map. cbn [snd]. apply map_id.
Qed.

Lemma rows_map_episodes ep (g : list row -> list row) (X : dmat) :
  rows (map_episodes ep g X) = flat_map (fun e => g (snd e)) (split ep X).
Proof.
  unfold map_episodes. rewrite rows_combine.
  induction (split ep X) as [|e eps IH]; cbn [map flat_map snd]; [reflexivity|].
  rewrite IH. reflexivity.
Qed.

Lemma zip_app {B C} (l1 l1' : list B) (l2 l2' : list C) :
  length l1 = length l2 -> zip (l1 ++ l1') (l2 ++ l2') = zip l1 l2 ++ zip l1' l2'.
Proof.
  revert l2. induction l1 as [|a t IH]; intros [|b u] H; try discriminate; cbn [app zip].
  - reflexivity.
  - f_equal. apply IH. cbn in H. lia.
Qed.

Lemma zip_flat_map {B C D} (f : D -> list B) (g : D -> list C) (l : list D) :
  (forall x, In x l -> length (f x) = length (g x)) ->
  zip (flat_map f l) (flat_map g l) = flat_map (fun x => zip (f x) (g x)) l.
Proof.
  induction l as [|x l IH]; intros H; cbn [flat_map]; [reflexivity|].
  rewrite zip_app by (apply H; left; reflexivity).
  f_equal. apply IH. intros y Hy. apply H. right; assumption.
Qed.

Lemma drop_last_cons (a b : row) (t : list row) :
  drop_last 1 (a :: b :: t) = a :: drop_last 1 (b :: t).
Proof. unfold drop_last. cbn [length]. rewrite !Nat.sub_1_r. reflexivity. Qed.

Lemma consec_zip nu (E : list row) :
  zip (unshift_ep E) (shift_ep nu E) = consec nu E.
Proof.
  unfold unshift_ep, shift_ep.
  induction E as [|a [|b t] IH].
  - reflexivity.
  - reflexivity.
  - rewrite drop_last_cons. cbn [tl map zip consec]. f_equal. exact IH.
Qed.

Lemma len_unshift_shift nu (E : list row) : length (unshift_ep E) = length (shift_ep nu E).
Proof.
  unfold unshift_ep, shift_ep, drop_last. rewrite map_length, firstn_length.
  unfold Episodes.row. destruct E; cbn [tl length]; lia.
Qed.

(* C05_pairs *)
Theorem training_pairs_spec ep nu (X : dmat) :
  training_pairs ep nu X = spec_pairs ep nu X.
Proof.
  unfold training_pairs, spec_pairs, shift_episodes. cbn [fst snd].
  rewrite !rows_map_episodes.
  rewrite zip_flat_map by (intros; apply len_unshift_shift).
  apply flat_map_ext. intros e. apply consec_zip.
Qed.

(* the number of pairs is sum (n_i - 1): none dropped, none duplicated *)
Lemma consec_length nu (E : list row) : length (consec nu E) = length E - 1.
Proof.
  induction E as [|a [|b t] IH]; cbn [consec length] in *; try lia.
Qed.

(* every pair is (sample k, sample k+1 without inputs) of ONE episode *)
Lemma consec_nth nu (E : list row) k d :
  k + 1 < length E ->
  nth k (consec nu E) (d, cols_but_last nu d) = (nth k E d, cols_but_last nu (nth (k + 1) E d)).
Proof.
  revert k. induction E as [|a [|b t] IH]; intros k Hk; cbn [length] in Hk; try lia.
  destruct k as [|k].
  - reflexivity.
  - replace (S k + 1) with (S (k + 1)) by lia.
    change (nth (S (k + 1)) (a :: b :: t) d) with (nth (k + 1) (b :: t) d).
    change (nth (S k) (a :: b :: t) d) with (nth k (b :: t) d).
    rewrite <- IH by (cbn [length]; lia). reflexivity.
Qed.

(* the shifted side never contains the inputs *)
Lemma spec_pairs_widths ep nu w (X : dmat) :
  (forall r, In r (rows X) -> length r = w) -> nu <= w ->
  forall p, In p (spec_pairs ep nu X) -> length (fst p) = w /\ length (snd p) = w - nu.
Proof.
  intros Hw Hnu p Hp. unfold spec_pairs in Hp. apply in_flat_map in Hp.
  destruct Hp as [[i E] [HE Hp]]. cbn [snd] in Hp.
  assert (HEw : forall r, In r E -> length r = w).
  { intros r Hr. apply Hw. unfold split in HE. destruct ep.
    - apply in_map_iff in HE. destruct HE as [j [Heq _]]. inversion Heq; subst.
      unfold rows_of in Hr. apply in_map_iff in Hr. destruct Hr as [[l r'] [<- Hr]].
      apply filter_In in Hr. unfold rows. apply in_map_iff. exists (l, r'). split; [reflexivity|apply Hr].
    - destruct HE as [Heq|[]]. inversion Heq; subst. exact Hr. }
  clear HE. induction E as [|a [|b t] IH]; cbn [consec] in Hp; try contradiction.
  destruct Hp as [<-|Hp].
  - cbn [fst snd]. split; [apply HEw; left; reflexivity|].
    unfold cols_but_last. destruct (Nat.eqb_spec nu 0) as [->|Hn].
    + rewrite Nat.sub_0_r. apply HEw. right; left; reflexivity.
    + rewrite firstn_length, (HEw b) by (right; left; reflexivity). lia.
  - apply IH; [exact Hp|]. intros r Hr. apply HEw. right; exact Hr.
Qed.

(* arrangement of the rows in the matrix is irrelevant *)
Theorem training_pairs_arranged nu (X X' : dmat) :
  Arranged X X' -> training_pairs true nu X = training_pairs true nu X'.
Proof.
  intros H. rewrite !training_pairs_spec. unfold spec_pairs. rewrite (split_arranged H). reflexivity.
Qed.

(* relabelling the episodes by an injective map permutes the pairs *)
Definition relabel (rho : N -> N) (X : dmat) : dmat := map (fun lr => (rho (fst lr), snd lr)) X.

Lemma rows_of_relabel rho (X : dmat) i :
  (forall a b, rho a = rho b -> a = b) -> rows_of (rho i) (relabel rho X) = rows_of i X.
Proof.
  intros Hinj. unfold rows_of, relabel. induction X as [|[j r] X IH]; cbn [map filter fst snd]; [reflexivity|].
  destruct (N.eqb_spec (rho j) (rho i)) as [Heq|Hne].
  - apply Hinj in Heq. subst. rewrite N.eqb_refl. cbn [map snd]. f_equal. exact IH.
  - destruct (N.eqb_spec j i) as [->|_]; [congruence|]. exact IH.
Qed.

Theorem training_pairs_relabel nu rho (X : dmat) :
  (forall a b, rho a = rho b -> a = b) ->
  Permutation (training_pairs true nu (relabel rho X)) (training_pairs true nu X).
Proof.
  intros Hinj. rewrite !training_pairs_spec. unfold spec_pairs, split.
  rewrite !flat_map_concat_map, !map_map. cbn [snd].
  assert (Hperm : Permutation (uniq (labels (relabel rho X))) (map rho (uniq (labels X)))).
  { apply NoDup_Permutation.
    - apply ssorted_NoDup, uniq_sorted.
    - apply FinFun.Injective_map_NoDup; [exact Hinj|apply ssorted_NoDup, uniq_sorted].
    - intros x. rewrite uniq_In. unfold labels, relabel. rewrite map_map. cbn [fst].
      rewrite !in_map_iff. split.
      + intros [[j r] [<- Hin]]. exists j. split; [reflexivity|].
        apply (proj2 (uniq_In _ _)). apply in_map_iff. exists (j, r). split; [reflexivity|assumption].
      + intros [j [<- Hin]]. apply (proj1 (uniq_In _ _)) in Hin. apply in_map_iff in Hin.
        destruct Hin as [[j' r] [<- Hin]]. exists (j', r). split; [reflexivity|assumption]. }
  rewrite <- !flat_map_concat_map.
  rewrite (Permutation_flat_map _ Hperm).
  rewrite flat_map_concat_map, map_map, <- flat_map_concat_map.
  apply Permutation_refl'. apply flat_map_ext. intros i.
  rewrite rows_of_relabel by exact Hinj. reflexivity.
Qed.

End Shift.
