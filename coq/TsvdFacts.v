(* C14 — theorems about the rank rule, for every list of singular values. *)
From Coq Require Import List Bool Arith Lia.
From PK Require Import PyList ListFacts TsvdModel.
Import ListNotations.
Set Implicit Arguments.

Section Facts.
Variable Sv : Type.
Variable ltb : Sv -> Sv -> bool.
(* sig is non-increasing in the sense induced by ltb: a later value is never greater *)
Definition nonincreasing (sig : list Sv) : Prop :=
  forall i j d, i <= j -> j < length sig -> ltb (nth i sig d) (nth j sig d) = false.
(* the only order law needed: if c < b and not (a < b) then c < a *)
Hypothesis ltb_trans_neg : forall a b c, ltb c b = true -> ltb a b = false -> ltb c a = true.

Lemma retained_length tr (sig : list Sv) :
  length (retained ltb tr sig) = Nat.min (rank_rule ltb tr sig) (length sig).
Proof. unfold retained, truncate. apply firstn_length. Qed.

Theorem economy_keeps_all (sig : list Sv) : retained ltb (Economy Sv) sig = sig.
Proof. unfold retained, truncate. cbn [rank_rule]. apply firstn_all. Qed.

Theorem rank_keeps_min r (sig : list Sv) : length (retained ltb (Rank Sv r) sig) = Nat.min r (length sig).
Proof. apply retained_length. Qed.

(* indices returned by find_all are exactly the positions satisfying the predicate *)
Lemma find_all_spec {A} (q : A -> bool) (l : list A) j d :
  In j (find_all q l) <-> j < length l /\ q (nth j l d) = true.
Proof.
  unfold find_all.
  assert (Hz : forall (l : list A) s j a, In (j, a) (zip (seq s (length l)) l) <-> s <= j < s + length l /\ nth (j - s) l d = a).
  { clear. induction l as [|x l IH]; intros s j a; cbn [length seq zip].
    - split; [intros []|lia].
    - cbn [In]. rewrite IH. split.
      + intros [H|[H1 H2]].
        * inversion H; subst. rewrite Nat.sub_diag. cbn. split; [lia|reflexivity].
        * split; [lia|]. replace (j - s) with (S (j - S s)) by lia. exact H2.
      + intros [H1 H2]. destruct (Nat.eq_dec j s) as [->|Hne].
        * left. rewrite Nat.sub_diag in H2. cbn in H2. subst. reflexivity.
        * right. split; [lia|]. replace (j - s) with (S (j - S s)) in H2 by lia. exact H2. }
  split.
  - intros H. apply in_map_iff in H. destruct H as [[j' a] [Hj Hin]]. cbn [fst] in Hj. subst j'.
    apply filter_In in Hin. destruct Hin as [Hin Hq]. cbn [snd] in Hq.
    apply Hz in Hin. destruct Hin as [H1 H2]. rewrite Nat.sub_0_r in H2. subst a. split; [lia|exact Hq].
  - intros [Hlt Hq]. apply in_map_iff. exists (j, nth j l d). split; [reflexivity|].
    apply filter_In. split; [|exact Hq]. apply Hz. rewrite Nat.sub_0_r. split; [lia|reflexivity].
Qed.

Lemma fold_max_ge (l : list nat) a : a <= fold_left Nat.max l a /\ forall x, In x l -> x <= fold_left Nat.max l a.
Proof.
  revert a. induction l as [|y l IH]; intros a; cbn [fold_left]; [split; [lia|intros x []]|].
  destruct (IH (Nat.max a y)) as [H1 H2]. split; [lia|].
  intros x [<-|Hx]; [lia|apply H2; exact Hx].
Qed.

Lemma fold_max_in (l : list nat) a : fold_left Nat.max l a = a \/ In (fold_left Nat.max l a) l.
Proof.
  revert a. induction l as [|y l IH]; intros a; cbn [fold_left]; [left; reflexivity|].
  destruct (IH (Nat.max a y)) as [H|H].
  - destruct (Nat.max_spec a y) as [[_ Hm]|[_ Hm]]; rewrite Hm in H |- *; [right; left; symmetry; exact H|left; exact H].
  - right. right. exact H.
Qed.

(* cutoff: every kept value exceeds the cutoff and every discarded one does not *)
Theorem cutoff_kept_exceed c (sig : list Sv) d :
  nonincreasing sig -> forall i, i < cutoff_rank ltb c sig -> i < length sig -> ltb c (nth i sig d) = true.
Proof.
  intros Hni i Hi Hlen. unfold cutoff_rank in Hi.
  destruct (find_all (fun s => ltb c s) sig) as [|j rest] eqn:Hf; [lia|].
  set (m := fold_left Nat.max rest j) in *.
  assert (Hm : In m (j :: rest)).
  { destruct (fold_max_in rest j) as [H|H]; [left; symmetry; exact H|right; exact H]. }
  rewrite <- Hf in Hm. apply (find_all_spec _ _ _ d) in Hm. destruct Hm as [Hml Hmq].
  apply ltb_trans_neg with (b := nth m sig d); [exact Hmq|].
  apply Hni; lia.
Qed.

Theorem cutoff_discarded_not_exceed c (sig : list Sv) d :
  forall i, cutoff_rank ltb c sig <= i -> i < length sig -> ltb c (nth i sig d) = false.
Proof.
  intros i Hi Hlen. destruct (ltb c (nth i sig d)) eqn:Hq; [|reflexivity]. exfalso.
  assert (Hin : In i (find_all (fun s => ltb c s) sig)) by (apply (find_all_spec _ _ _ d); split; assumption).
  unfold cutoff_rank in Hi. destruct (find_all (fun s => ltb c s) sig) as [|j rest]; [destruct Hin|].
  destruct (fold_max_ge rest j) as [H1 H2]. destruct Hin as [<-|Hin]; [lia|]. specialize (H2 _ Hin). lia.
Qed.

Theorem cutoff_none_exceeds c (sig : list Sv) d :
  (forall i, i < length sig -> ltb c (nth i sig d) = false) -> cutoff_rank ltb c sig = 0.
Proof.
  intros H. unfold cutoff_rank. destruct (find_all (fun s => ltb c s) sig) as [|j rest] eqn:Hf; [reflexivity|].
  exfalso. assert (Hin : In j (find_all (fun s => ltb c s) sig)) by (rewrite Hf; left; reflexivity).
  apply (find_all_spec _ _ _ d) in Hin. destruct Hin as [Hl Hq]. rewrite (H j Hl) in Hq. discriminate.
Qed.

Lemma cutoff_rank_le c (sig : list Sv) : cutoff_rank ltb c sig <= length sig.
Proof.
  unfold cutoff_rank. destruct (find_all (fun s => ltb c s) sig) as [|j rest] eqn:Hf; [lia|].
  assert (Hm : In (fold_left Nat.max rest j) (j :: rest)).
  { destruct (fold_max_in rest j) as [H|H]; [left; symmetry; exact H|right; exact H]. }
  rewrite <- Hf in Hm. destruct sig as [|s0 sig']; [cbn in Hm; destruct Hm|].
  apply (find_all_spec _ _ _ s0) in Hm. lia.
Qed.

End Facts.
