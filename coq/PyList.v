(* L0 — Python / numpy list-and-slice semantics on Coq lists.
   Definitions only (no proofs): the model must still run when a proof breaks. *)
From Coq Require Import List ZArith Bool Arith.
Import ListNotations.

Set Implicit Arguments.

(* Python normalisation of one slice bound against a sequence of length [len]:
   negative bounds count from the end, everything is clamped to [0, len]. *)
Definition norm_idx (len : nat) (i : Z) : nat :=
  let l := Z.of_nat len in
  Z.to_nat (if (i <? 0)%Z then Z.max 0 (i + l) else Z.min i l).

(* l[lo:hi] with step 1 *)
Definition pyslice {A} (lo hi : Z) (l : list A) : list A :=
  let a := norm_idx (length l) lo in
  let b := norm_idx (length l) hi in
  firstn (b - a) (skipn a l).

(* l[-k:]  — note the numpy quirk: -0 = 0, so k = 0 returns the WHOLE list *)
Definition last_rows {A} (k : nat) (l : list A) : list A :=
  if Nat.eqb k 0 then l else skipn (length l - k) l.

(* l[:-k] for k >= 1 ; l[:-0] = l[:0] = [] *)
Definition drop_last {A} (k : nat) (l : list A) : list A :=
  firstn (length l - k) l.

(* l[:, :-k] column version used by shift_episodes / extract_initial_conditions,
   where the code special-cases k = 0 *)
Definition cols_but_last {A} (k : nat) (r : list A) : list A :=
  if Nat.eqb k 0 then r else firstn (length r - k) r.

Fixpoint map2 {A B C} (f : A -> B -> C) (l1 : list A) (l2 : list B) : list C :=
  match l1, l2 with
  | a :: t1, b :: t2 => f a b :: map2 f t1 t2
  | _, _ => []
  end.

Fixpoint zip {A B} (l1 : list A) (l2 : list B) : list (A * B) :=
  match l1, l2 with
  | a :: t1, b :: t2 => (a, b) :: zip t1 t2
  | _, _ => []
  end.

Fixpoint mapi_from {A B} (f : nat -> A -> B) (k : nat) (l : list A) : list B :=
  match l with
  | [] => []
  | a :: t => f k a :: mapi_from f (S k) t
  end.
Definition mapi {A B} (f : nat -> A -> B) (l : list A) : list B := mapi_from f 0 l.

(* np.hstack of two matrices with the same number of rows *)
Definition hstack {A} (M1 M2 : list (list A)) : list (list A) := map2 (@app A) M1 M2.

(* column j of a matrix (rows of equal width) *)
Definition column {A} (d : A) (j : nat) (M : list (list A)) : list A :=
  map (fun r => nth j r d) M.

(* replace cell j of every row by the corresponding entry of [col] *)
Fixpoint set_nth {A} (j : nat) (x : A) (r : list A) : list A :=
  match j, r with
  | _, [] => []
  | 0, _ :: t => x :: t
  | S j', a :: t => a :: set_nth j' x t
  end.
Definition set_column {A} (j : nat) (col : list A) (M : list (list A)) : list (list A) :=
  map2 (fun r x => set_nth j x r) M col.

Fixpoint list_eqb {A} (eqb : A -> A -> bool) (l1 l2 : list A) : bool :=
  match l1, l2 with
  | [], [] => true
  | a :: t1, b :: t2 => eqb a b && list_eqb eqb t1 t2
  | _, _ => false
  end.

Definition mem_nat (j : nat) (l : list nat) : bool := existsb (Nat.eqb j) l.

(* indices (ascending) of the elements satisfying p — np.nonzero on a 1-D mask *)
Definition find_all {A} (p : A -> bool) (l : list A) : list nat :=
  map fst (filter (fun ia => p (snd ia)) (zip (seq 0 (length l)) l)).

(* split a row into consecutive chunks of width w, n chunks *)
Fixpoint chunks {A} (w n : nat) (r : list A) : list (list A) :=
  match n with
  | 0 => []
  | S n' => firstn w r :: chunks w n' (skipn w r)
  end.
