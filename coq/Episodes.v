(* L1 — episode utilities of pykoop/koopman_pipeline.py (split_episodes,
   combine_episodes, unique_episodes, shift_episodes, extract_initial_conditions,
   extract_input, strip_initial_conditions, _weights_from_data_matrix).
   A data matrix is a list of (label, row); with episode_feature = false every
   label is 0 and is ignored.  Definitions only. *)
From Coq Require Import List ZArith NArith Bool Arith.
From PK Require Import PyList.
Import ListNotations.

Set Implicit Arguments.

Section Episodes.
Variable A : Type.                      (* cell type *)

Definition row := list A.
Definition dmat := list (N * row).
Definition episodes := list (N * list row).

Definition labels (X : dmat) : list N := map fst X.
Definition rows (X : dmat) : list row := map snd X.

(* np.flatnonzero(np.bincount(labels)) : the distinct labels, ascending *)
Fixpoint insert_u (i : N) (l : list N) : list N :=
  match l with
  | [] => [i]
  | j :: t => if (i <? j)%N then i :: l
              else if (i =? j)%N then l
              else j :: insert_u i t
  end.
Definition uniq (ls : list N) : list N := fold_right insert_u [] ls.

(* X[X_ep == i, :] : boolean-mask selection, row order preserved *)
Definition rows_of (i : N) (X : dmat) : list row :=
  map snd (filter (fun r => (fst r =? i)%N) X).

Definition split (ep : bool) (X : dmat) : episodes :=
  if ep then map (fun i => (i, rows_of i X)) (uniq (labels X))
  else [(0%N, rows X)].

Definition combine (ep : bool) (eps : episodes) : dmat :=
  flat_map (fun e => map (fun r => ((if ep then fst e else 0%N), r)) (snd e)) eps.

(* the idiom "split, apply g to each episode, combine" *)
Definition map_episodes (ep : bool) (g : list row -> list row) (X : dmat) : dmat :=
  combine ep (map (fun e => (fst e, g (snd e))) (split ep X)).

(* the episode with label i as seen by split (with ep = false: everything) *)
Definition episode (ep : bool) (i : N) (X : dmat) : list row :=
  if ep then rows_of i X else rows X.

(* shift_episodes: X_i[:-1, :]  and  X_i[1:, :] / X_i[1:, :-n_inputs] *)
Definition unshift_ep (E : list row) : list row := drop_last 1 E.
Definition shift_ep (nu : nat) (E : list row) : list row :=
  map (cols_but_last nu) (tl E).
Definition shift_episodes (ep : bool) (nu : nat) (X : dmat) : dmat * dmat :=
  (map_episodes ep unshift_ep X, map_episodes ep (shift_ep nu) X).

Definition extract_ic (ep : bool) (w nu : nat) (X : dmat) : dmat :=
  map_episodes ep (fun E => map (cols_but_last nu) (firstn w E)) X.

(* n_inputs = 0 -> zero-width rows; else X_i[:, n_states:] with
   n_states = width - n_inputs taken from the episode itself *)
Definition extract_input (ep : bool) (nu : nat) (X : dmat) : dmat :=
  map_episodes ep
    (fun E => map (fun r => if Nat.eqb nu 0 then [] else skipn (length r - nu) r) E) X.

Definition strip_ic (ep : bool) (w : nat) (X : dmat) : dmat :=
  map_episodes ep (skipn w) X.

End Episodes.

(* _weights_from_data_matrix over an abstract "power of the discount factor" *)
Section Weights.
Variable W : Type.
Variable dpow : nat -> W.      (* discount_factor ** k *)
Variable wzero : W.

Definition weights_ep (n_steps : option nat) (m : nat) : list W :=
  let nz := match n_steps with None => m | Some s => Nat.min s m end in
  map dpow (seq 0 nz) ++ repeat wzero (m - nz).

Definition weights {A} (ep : bool) (n_steps : option nat) (X : dmat A) : list W :=
  flat_map (fun e => weights_ep n_steps (length (snd e))) (split ep X).
End Weights.
