(* C09 - C11: the block matrices that the LMI builders of pykoop/lmi_regressors.py hand to
   PICOS (_create_problem_a / _create_problem_b of the spectral-radius, H-infinity and
   dissipativity regressors, and _create_ss), as executable functions on exact rational
   matrices.  The correspondence run assigns integer / dyadic test values to the PICOS
   variables, reads the constraint's slack (the block itself, exactly) and compares it
   entry by entry with these functions inside Coq.  Definitions only. *)
From Coq Require Import List QArith ZArith Bool Arith.
From PK Require Import PyList QMat.
Import ListNotations.
Open Scope Q_scope.

Definition qscale (c : Q) (M : qmat) : qmat := map (map (fun x => Qred (c * x))) M.
Definition qneg (M : qmat) : qmat := qscale (-1) M.
Definition qzeros (m n : nat) : qmat := repeat (repeat 0 n) m.
Definition qhstack (A B : qmat) : qmat := map2 (@app Q) A B.
Definition qvstack (A B : qmat) : qmat := A ++ B.
Fixpoint qhcat (l : list qmat) : qmat :=
  match l with [] => [] | [A] => A | A :: r => qhstack A (qhcat r) end.
Definition qblocks (rows : list (list qmat)) : qmat := concat (map qhcat rows).
Definition qcols (lo n : nat) (M : qmat) : qmat := map (fun r => firstn n (skipn lo r)) M.
Definition qrows (M : qmat) : nat := length M.
Definition qncols (M : qmat) : nat := length (hd [] M).
Definition qsym (M : qmat) : qmat := qscale (1 # 2) (qadd M (qtranspose M)).
Definition qmat_eqb (A B : qmat) : bool := list_eqb (list_eqb Qeq_bool) A B.

(* block_diag of n copies of W *)
Fixpoint qblock_diag (n : nat) (W : qmat) : qmat :=
  match n with
  | O => []
  | S k =>
      let R := qblock_diag k W in
      qvstack (qhstack W (qzeros (qrows W) (qncols R)))
              (qhstack (qzeros (qrows R) (qncols W)) R)
  end.

(* ---------- _create_ss (lmi_regressors.py): plant (A, B, C = I, D = 0) from U = [A B],
   optionally in cascade with a SISO weight replicated on every input (pre) / output (post) *)
Inductive weight := WNone | WPre (Aw Bw Cw Dw : qmat) | WPost (Aw Bw Cw Dw : qmat).

Definition create_ss (U : qmat) (w : weight) : qmat * qmat * qmat * qmat :=
  let pth := qrows U in
  let Am := qcols 0 pth U in
  let Bm := qcols pth (qncols U - pth) U in
  let Cm := qeye pth 1 in
  let Dm := qzeros pth (qncols Bm) in
  match w with
  | WNone => (Am, Bm, Cm, Dm)
  | WPre Aw Bw Cw Dw =>
      let nu := qncols Bm in
      let Awb := qblock_diag nu Aw in let Bwb := qblock_diag nu Bw in
      let Cwb := qblock_diag nu Cw in let Dwb := qblock_diag nu Dw in
      (qblocks [[Awb; qzeros (qrows Awb) pth]; [qmul Bm Cwb; Am]],
       qblocks [[Bwb]; [qmul Bm Dwb]],
       qblocks [[qmul Dm Cwb; Cm]],
       qmul Dm Dwb)
  | WPost Aw Bw Cw Dw =>
      let nx := pth in
      let Awb := qblock_diag nx Aw in let Bwb := qblock_diag nx Bw in
      let Cwb := qblock_diag nx Cw in let Dwb := qblock_diag nx Dw in
      (qblocks [[Am; qzeros pth (qncols Awb)]; [qmul Bwb Cm; Awb]],
       qblocks [[Bm]; [qmul Bwb Dm]],
       qblocks [[qmul Dwb Cm; Cwb]],
       qmul Dwb Dm)
  end.

(* ---------- spectral radius: [[rho P, A^T P], [P^T A, rho P]]; problem A symmetrises the
   diagonal blocks as rho (P + P^T) / 2 *)
Definition lyap_block_b (rho : Q) (P U : qmat) : qmat :=
  let A := qcols 0 (qrows U) U in
  qblocks [[qscale rho P; qmul (qtranspose A) P]; [qmul (qtranspose P) A; qscale rho P]].
Definition lyap_block_a (rho : Q) (P U : qmat) : qmat :=
  let A := qcols 0 (qrows U) U in
  qblocks [[qscale rho (qsym P); qmul (qtranspose A) P]; [qmul (qtranspose P) A; qscale rho (qsym P)]].

(* ---------- dissipativity: [[P - C^T Xi11 C, -C^T Xi12, A^T P], [-Xi12^T C, -Xi22, B^T P], [P A, P B, P]] *)
Definition dissip_block (Xi : qmat) (P U : qmat) : qmat :=
  let '(A, B, C, D) := create_ss U WNone in
  let pth := qrows U in
  let nu := (qncols U - pth)%nat in
  let Xi11 := map (firstn pth) (firstn pth Xi) in
  let Xi12 := map (skipn pth) (firstn pth Xi) in
  let Xi22 := map (skipn pth) (skipn pth Xi) in
  let Ct := qtranspose C in
  qblocks [[qsub P (qmul (qmul Ct Xi11) C); qneg (qmul Ct Xi12); qmul (qtranspose A) P];
           [qneg (qmul (qtranspose Xi12) C); qneg Xi22; qmul (qtranspose B) P];
           [qmul P A; qmul P B; P]].

(* ---------- H-infinity (bounded-real form used by the code):
   [[P, A P, B, 0], [P^T A^T, P, 0, P C^T], [B^T, 0, gamma I, D^T], [0, C P^T, D, gamma I]] *)
Definition hinf_block (w : weight) (gamma : Q) (P U : qmat) : qmat :=
  let '(A, B, C, D) := create_ss U w in
  let n := qrows A in let m := qncols B in let l := qrows C in
  qblocks [[P; qmul A P; B; qzeros n l];
           [qmul (qtranspose P) (qtranspose A); P; qzeros n m; qmul P (qtranspose C)];
           [qtranspose B; qzeros m n; qeye m gamma; qtranspose D];
           [qzeros l n; qmul C (qtranspose P); D; qeye l gamma]].
