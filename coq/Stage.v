(* L2 — lifting functions, SplitPipeline and (nested) KoopmanPipeline as a
   syntax with executable fit-bookkeeping, transform and inverse_transform.
   Mirrors pykoop/lifting_functions.py, pykoop/util.py (AnglePreprocessor) and
   the transform paths of pykoop/koopman_pipeline.py.  Parametric in the cell
   type T and its operations; opaque sub-estimators (wrapped scikit-learn
   scaler, radial basis function, kernel approximation, np.unwrap) are section
   variables.  Definitions only. *)
From Coq Require Import List ZArith NArith Bool Arith.
From PK Require Import PyList Episodes.
Import ListNotations.

Set Implicit Arguments.

(* the operations on cells, bundled so that every function of the model takes
   the same single parameter *)
Record ops (T : Type) := {
  op_t0 : T; op_t1 : T;
  op_add : T -> T -> T; op_mul : T -> T -> T;
  op_cos : T -> T; op_sin : T -> T; op_atan2 : T -> T -> T;     (* atan2 y x *)
  op_sk_fwd : nat -> nat -> T -> T;                              (* id, column, cell *)
  op_sk_inv : nat -> nat -> T -> T;
  op_radial : nat -> list T -> list T -> T;                      (* id, [x;u] row, centre *)
  op_kern : nat -> nat -> list T -> T;                           (* id, feature index, row *)
  op_unwrap : list T -> list T;                                  (* np.unwrap on one column *)
  op_inj : N -> T;                                               (* label -> cell *)
  op_lab : T -> N                                                (* cell -> label *)
}.

Section Stage.
Variable T : Type.
Variable O : ops T.
Notation t0 := (op_t0 O).
Notation t1 := (op_t1 O).
Notation tmul := (op_mul O).
Notation tcos := (op_cos O).
Notation tsin := (op_sin O).
Notation tatan2 := (op_atan2 O).
Notation sk_fwd := (op_sk_fwd O).
Notation sk_inv := (op_sk_inv O).
Notation radial := (op_radial O).
Notation kern := (op_kern O).
Notation unwrap := (op_unwrap O).

Inductive leaf :=
| LPoly (powers : list (list nat))        (* PolynomialFeatures.powers_ (data) *)
| LBilinear
| LConst
| LDelay (dx du : nat)
| LRbf (id : nat) (centers : list (list T))
| LKernel (id nfeat : nat)
| LSk (id : nat)
| LAngle (feats : list nat) (unwrap_inv : bool).

Inductive stage :=
| Leaf (l : leaf)
| Split (xs us : chain)
| Pipe (c : chain)
with chain :=
| CNil
| CCons (s : stage) (c : chain).

Definition dims := (nat * nat)%type.     (* n_states, n_inputs *)

(* ---------- PolynomialLiftingFn bookkeeping (lifting_functions.py:188-251) *)
Definition unit_row (n i : nat) : list nat :=
  map (fun j => if Nat.eqb j i then 1 else 0) (seq 0 n).
Definition row_eqb : list nat -> list nat -> bool := list_eqb Nat.eqb.

Definition poly_orig (powers : list (list nat)) (n lo cnt : nat) : list nat :=
  flat_map (fun i => find_all (row_eqb (unit_row n i)) powers) (seq lo cnt).
Definition poly_all_inputs (powers : list (list nat)) (ns : nat) : list nat :=
  find_all (fun p => existsb (fun e => negb (Nat.eqb e 0)) (skipn ns p)) powers.

Record poly_fit := {
  p_orig_states : list nat; p_other_states : list nat;
  p_orig_inputs : list nat; p_other_inputs : list nat }.

Definition poly_fit_of (powers : list (list nat)) (d : dims) : poly_fit :=
  let '(ns, nu) := d in
  let os := poly_orig powers (ns + nu) 0 ns in
  let oi := poly_orig powers (ns + nu) ns nu in
  let ai := poly_all_inputs powers ns in
  let xi := filter (fun j => negb (mem_nat j oi)) ai in
  let xs := filter (fun j => negb (mem_nat j (os ++ oi ++ xi))) (seq 0 (length powers)) in
  {| p_orig_states := os; p_other_states := xs; p_orig_inputs := oi; p_other_inputs := xi |}.

Definition poly_order (f : poly_fit) : list nat :=
  p_orig_states f ++ p_other_states f ++ p_orig_inputs f ++ p_other_inputs f.
Definition poly_nso (f : poly_fit) := length (p_orig_states f) + length (p_other_states f).
Definition poly_nuo (f : poly_fit) := length (p_orig_inputs f) + length (p_other_inputs f).

Fixpoint tpow (x : T) (n : nat) : T :=
  match n with 0 => t1 | S k => tmul x (tpow x k) end.
Definition monomial (p : list nat) (r : list T) : T :=
  fold_right tmul t1 (map2 tpow r p).

(* ---------- AnglePreprocessor mask (util.py:81-115) *)
Definition angle_mask (feats : list nat) (n : nat) : list bool :=
  map (fun k => mem_nat k feats) (seq 0 n).
Definition count_true (m : list bool) : nat := length (filter (fun b => b) m).

(* ---------- declared output dimensions (every _fit_one_ep, the two base-class
   fits, SplitPipeline.fit, KoopmanPipeline.fit_transformers) *)
Definition leaf_dims (l : leaf) (d : dims) : dims :=
  let '(ns, nu) := d in
  match l with
  | LPoly powers => let f := poly_fit_of powers d in (poly_nso f, poly_nuo f)
  | LBilinear => (ns, (ns + 1) * nu)
  | LConst => (ns + 1, nu)
  | LDelay dx du => (ns * (dx + 1), nu * (du + 1))
  | LRbf _ centers =>
      if Nat.eqb nu 0 then (ns + length centers, nu) else (ns, nu + length centers)
  | LKernel _ nf =>
      if Nat.eqb nu 0 then (ns + nf, nu) else (ns, nu + nf)
  | LSk _ => (ns, nu)
  | LAngle feats _ =>
      let m := angle_mask feats (ns + nu) in
      let ms := firstn ns m in let mu := skipn ns m in
      ((ns - count_true ms) + 2 * count_true ms, (nu - count_true mu) + 2 * count_true mu)
  end.

Fixpoint sdims (s : stage) (d : dims) : dims :=
  match s with
  | Leaf l => leaf_dims l d
  | Split xs us =>
      (fst (cdims xs (fst d, 0)), snd (cdims us (0, snd d)))
  | Pipe c => cdims c d
  end
with cdims (c : chain) (d : dims) : dims :=
  match c with
  | CNil => d
  | CCons s c' => cdims c' (sdims s d)
  end.

(* n_samples_in (lifting_functions.py:1080-1082, koopman_pipeline.py:780-783,
   1931-1944, 2324-2335) *)
Definition leaf_samples_in (l : leaf) (n : nat) : nat :=
  match l with
  | LDelay dx du => n + Nat.max dx du
  | _ => n
  end.
Fixpoint samples_in (s : stage) (n : nat) : nat :=
  match s with
  | Leaf l => leaf_samples_in l n
  | Split xs us => Nat.max (csamples_in xs n) (csamples_in us n)
  | Pipe c => csamples_in c n
  end
with csamples_in (c : chain) (n : nat) : nat :=
  match c with
  | CNil => n
  | CCons s c' => samples_in s (csamples_in c' n)     (* reversed traversal *)
  end.
Definition min_samples (s : stage) : nat := samples_in s 1.

(* ---------- well-formedness of a stage tree for given input dims: what fit
   itself checks or silently relies on (boolean, evaluated on every generated case) *)
Definition poly_wf (powers : list (list nat)) (d : dims) : bool :=
  let n := fst d + snd d in
  forallb (fun p => Nat.eqb (length p) n) powers
  && forallb (fun i => Nat.eqb (length (find_all (row_eqb (unit_row n i)) powers)) 1) (seq 0 n).
Definition leaf_wf (l : leaf) (d : dims) : bool :=
  match l with
  | LPoly p => poly_wf p d
  | LRbf _ cs => forallb (fun c => Nat.eqb (length c) (fst d + snd d)) cs
  | LAngle feats _ => forallb (fun k => Nat.ltb k (fst d + snd d)) feats
  | _ => true
  end.
Fixpoint wf (s : stage) (d : dims) : bool :=
  match s with
  | Leaf l => leaf_wf l d
  | Split xs us =>
      cwf xs (fst d, 0) && cwf us (0, snd d)
      && Nat.eqb (snd (cdims xs (fst d, 0))) 0        (* else fit raises RuntimeError *)
      && Nat.eqb (fst (cdims us (0, snd d))) 0
  | Pipe c => cwf c d
  end
with cwf (c : chain) (d : dims) : bool :=
  match c with
  | CNil => true
  | CCons s c' => wf s d && cwf c' (sdims s d)
  end.

(* ---------- row-level transforms of the episode-independent kinds *)
Definition bilinear_row (ns : nat) (r : list T) : list T :=
  let xs := firstn ns r in let us := skipn ns r in
  xs ++ us ++ flat_map (fun u => map (fun x => tmul x u) xs) us.

Definition const_row (ns : nat) (r : list T) : list T :=
  firstn ns r ++ [t1] ++ skipn ns r.

Fixpoint angle_row (m : list bool) (r : list T) : list T :=
  match m, r with
  | b :: m', x :: r' =>
      (if b then [tcos x; tsin x] else [x]) ++ angle_row m' r'
  | _, _ => []
  end.
Fixpoint angle_inv_row (m : list bool) (r : list T) : list T :=
  match m with
  | [] => []
  | false :: m' => match r with x :: r' => x :: angle_inv_row m' r' | [] => [] end
  | true :: m' => match r with
                  | c :: s :: r' => tatan2 s c :: angle_inv_row m' r'
                  | _ => []
                  end
  end.

Definition leaf_row (l : leaf) (d : dims) (r : list T) : list T :=
  let '(ns, nu) := d in
  match l with
  | LPoly powers =>
      map (fun j => monomial (nth j powers []) r) (poly_order (poly_fit_of powers d))
  | LBilinear => bilinear_row ns r
  | LConst => const_row ns r
  | LDelay _ _ => r                                   (* not row-wise; see below *)
  | LRbf id centers => r ++ map (radial id r) centers
  | LKernel id nf => r ++ map (fun j => kern id j r) (seq 0 nf)
  | LSk id => mapi (sk_fwd id) r
  | LAngle feats _ => angle_row (angle_mask feats (ns + nu)) r
  end.

Definition leaf_inv_row (l : leaf) (d : dims) (r : list T) : list T :=
  let '(ns, nu) := d in
  let nso := fst (leaf_dims l d) in
  match l with
  | LPoly powers =>
      map (fun j => nth j r t0) (seq 0 ns ++ seq nso nu)
  | LBilinear => firstn ns r ++ firstn nu (skipn ns r)
  | LConst => firstn ns r ++ firstn nu (skipn (ns + 1) r)
  | LDelay _ _ => r
  | LRbf _ _ | LKernel _ _ =>
      firstn ns (firstn nso r) ++ firstn nu (skipn nso r)
  | LSk id => mapi (sk_inv id) r
  | LAngle feats _ => angle_inv_row (angle_mask feats (ns + nu)) r
  end.

(* np.unwrap(axis=0) over the WHOLE matrix on the angle columns *)
Definition unwrap_columns (m : list bool) (M : list (list T)) : list (list T) :=
  fold_left (fun M' j => set_column j (unwrap (column t0 j M')) M')
            (find_all (fun b => b) m) M.

(* ---------- DelayLiftingFn on one episode (lifting_functions.py:1092-1116, 1167-1248) *)
Definition delay_blocks (n : nat) (E : list (list T)) : list (list (list T)) :=
  let n_out := (Z.of_nat (length E) - Z.of_nat n)%Z in
  map (fun i => pyslice (Z.of_nat i) (n_out + Z.of_nat i)%Z E) (rev (seq 0 (n + 1))).
(* np.concatenate(blocks, axis=1): all blocks have the same number of rows
   whenever length E >= n (otherwise numpy may raise; guarded in theorems) *)
Fixpoint hconcat (blocks : list (list (list T))) : list (list T) :=
  match blocks with
  | [] => []
  | [b] => b
  | b :: bs => hstack b (hconcat bs)
  end.
Definition delay (n : nat) (E : list (list T)) : list (list T) :=
  hconcat (delay_blocks n E).

Definition delay_ep (d : dims) (dx du : nat) (E : list (list T)) : list (list T) :=
  let ns := fst d in
  let Xd_x := delay dx (map (firstn ns) E) in
  let Xd_u := delay du (map (skipn ns) E) in
  let n := Nat.min (length Xd_x) (length Xd_u) in
  hstack (last_rows n Xd_x) (last_rows n Xd_u).

Definition undelay (n : nat) (E : list (list T)) : list (list T) :=
  match E with
  | [] => []                                            (* numpy raises IndexError *)
  | r0 :: _ =>
      let nf := Nat.div (length r0) (n + 1) in
      map (last_rows nf) (drop_last 1 E)
      ++ rev (chunks nf (n + 1) (last E []))
  end.

Definition undelay_ep (d : dims) (dx du : nat) (E : list (list T)) : list (list T) :=
  let nso := fst d * (dx + 1) in
  let Xu_x := undelay dx (map (firstn nso) E) in
  let Xu_u := undelay du (map (skipn nso) E) in
  let n := Nat.min (length Xu_x) (length Xu_u) in
  hstack (last_rows n Xu_x) (last_rows n Xu_u).

(* ---------- whole-matrix transform / inverse of one leaf *)
Definition rowwise (f : list T -> list T) (X : dmat T) : dmat T :=
  map (fun lr => (fst lr, f (snd lr))) X.

Definition leaf_transform (l : leaf) (ep : bool) (d : dims) (X : dmat T) : dmat T :=
  match l with
  | LDelay dx du => map_episodes ep (delay_ep d dx du) X
  | _ => rowwise (leaf_row l d) X
  end.

Definition leaf_inverse (l : leaf) (ep : bool) (d : dims) (X : dmat T) : dmat T :=
  match l with
  | LDelay dx du => map_episodes ep (undelay_ep d dx du) X
  | LAngle feats true =>
      let Y := rowwise (leaf_inv_row l d) X in
      let M := unwrap_columns (angle_mask feats (fst d + snd d)) (rows Y) in
      map2 (fun lr r => (fst lr, r)) Y M
  | _ => rowwise (leaf_inv_row l d) X
  end.

(* trailing-aligned zip of the state and input branches of a SplitPipeline
   (koopman_pipeline.py:1845-1868 and 1906-1929): zip BY POSITION *)
Definition zip_branches (ep : bool) (Ts Tu : dmat T) : dmat T :=
  combine ep
    (map (fun su =>
            let Es := snd (fst su) in let Eu := snd (snd su) in
            let n := Nat.min (length Es) (length Eu) in
            (fst (fst su), hstack (last_rows n Es) (last_rows n Eu)))
         (zip (split ep Ts) (split ep Tu))).

Definition cols_state (ep : bool) (ns : nat) (X : dmat T) : dmat T :=
  map_episodes ep (map (firstn ns)) X.
Definition cols_input (ep : bool) (ns : nat) (X : dmat T) : dmat T :=
  map_episodes ep (map (skipn ns)) X.

Fixpoint transform (s : stage) (ep : bool) (d : dims) (X : dmat T) : dmat T :=
  match s with
  | Leaf l => leaf_transform l ep d X
  | Split xs us =>
      zip_branches ep
        (ctransform xs ep (fst d, 0) (cols_state ep (fst d) X))
        (ctransform us ep (0, snd d) (cols_input ep (fst d) X))
  | Pipe c => ctransform c ep d X
  end
with ctransform (c : chain) (ep : bool) (d : dims) (X : dmat T) : dmat T :=
  match c with
  | CNil => X
  | CCons s c' => ctransform c' ep (sdims s d) (transform s ep d X)
  end.

Fixpoint inverse (s : stage) (ep : bool) (d : dims) (X : dmat T) : dmat T :=
  match s with
  | Leaf l => leaf_inverse l ep d X
  | Split xs us =>
      let nso := fst (sdims s d) in
      zip_branches ep
        (cinverse xs ep (fst d, 0) (cols_state ep nso X))
        (cinverse us ep (0, snd d) (cols_input ep nso X))
  | Pipe c => cinverse c ep d X
  end
with cinverse (c : chain) (ep : bool) (d : dims) (X : dmat T) : dmat T :=
  match c with
  | CNil => X
  | CCons s c' => inverse s ep d (cinverse c' ep (sdims s d) X)
  end.

End Stage.
